"""Shared plumbing for the checks: environment, proof step, evidence, violation reporting."""
import json
import os
import re
import subprocess
import sys
import time

VERIF = os.path.dirname(os.path.dirname(os.path.abspath(__file__)))
COQ = os.path.join(VERIF, "coq")
# VERIF_DEV_REPO is a development aid only (tools/seedtest.py detect-par runs a frozen copy of
# /verif against patched scratch copies of the repository); the registered commands never set it
REPO = os.environ.get("VERIF_DEV_REPO", "/repo")
SCRATCH = os.environ.get("VERIF_TMP", "/root/scratch")

FORBIDDEN = re.compile(r"\b(Admitted|admit|Axiom|Axioms|Parameter|Parameters|Conjecture|"
                       r"Hypothesis|Variable|Admit Obligations)\b|Unset Guard|bypass_check|"
                       r"type-in-type|impredicative-set")

TRUSTED_BASE = [
    "Coq 8.16.1 kernel and its VM (vm_compute in Examples, _refuted witnesses and the "
    "correspondence runs); no native_compute",
    "correspondence check: the hand-written Gallina model (coq/Model) is evaluated by coqc on the "
    "same programs the implementation runs; model and code are compared on generated programs only",
    "Python harness (generators, attribute walker harness/hgm.py, canonical token encoding, "
    "oracles)",
    "binary64 instance = Coq primitive floats (PrimFloat/Uint63 as implemented by the kernel); "
    "exact instance = Qc + IEEE special values; no theorem relates the two in general: the "
    "per-program exact-safety certificate (identical observations at both instances) does",
    "modelled, not verified: Python float/int/bool semantics, dict/list/tuple, numpy kernels, "
    "json, pickle/marshal; user quantity functions assumed deterministic and side-effect free",
]


def ensure_env():
    """re-exec under /venv/bin/python with PYTHONPATH=/repo and a fixed hash seed"""
    want = {"PYTHONPATH": REPO, "PYTHONHASHSEED": "0"}
    ok = all(os.environ.get(k) == v for k, v in want.items())
    if ok and sys.executable.startswith("/venv/"):
        return
    env = dict(os.environ)
    env.update(want)
    env["PIP_NO_INDEX"] = "1"
    os.execve("/venv/bin/python", ["/venv/bin/python"] + sys.argv, env)


def sh(cmd, timeout=3000, cwd=None):
    return subprocess.run(cmd, shell=True, capture_output=True, text=True, timeout=timeout, cwd=cwd)


def build_coq():
    """full .vo build of the development (incremental); returns (ok, log)"""
    if not os.path.exists(os.path.join(COQ, "Makefile")):
        r = sh("coq_makefile -f _CoqProject -o Makefile", cwd=COQ)
        if r.returncode != 0:
            return False, r.stdout + r.stderr
    r = sh("timeout 3000 make -j16", cwd=COQ, timeout=3100)
    return r.returncode == 0, (r.stdout + r.stderr)[-6000:]


def forbidden_scan():
    """no Admitted/admit/Axiom/Parameter/Conjecture anywhere; Variable/Hypothesis only inside a
    Section (where they are discharged at End)"""
    hits = []
    for root, _, files in os.walk(COQ):
        for f in files:
            if not f.endswith(".v"):
                continue
            p = os.path.join(root, f)
            depth = 0
            for i, line in enumerate(open(p), 1):
                code = re.sub(r"\(\*.*?\*\)", "", line)
                if re.match(r"\s*Section\s+\w+\s*\.", code):
                    depth += 1
                elif re.match(r"\s*End\s+\w+\s*\.", code):
                    depth = max(0, depth - 1)
                m = FORBIDDEN.search(code)
                if not m:
                    continue
                if m.group(0) in ("Hypothesis", "Variable") and depth > 0:
                    continue
                hits.append("%s:%d: %s" % (os.path.relpath(p, VERIF), i, line.strip()))
    return hits


def coqchk(pid):
    """thorough tier: re-check the compiled property file and everything it depends on with the
    independent checker; returns (ok, axioms it reports, tail of its summary)"""
    r = sh("timeout 2400 coqchk -silent -o -Q . Hgm Hgm.Properties.%s" % pid, cwd=COQ, timeout=2500)
    out = r.stdout + r.stderr
    m = re.search(r"\* Axioms:(.*?)\n\s*\n\* Constants", out, re.S)
    axioms = [] if m is None else [l.strip() for l in m.group(1).splitlines() if l.strip() and l.strip() != "<none>"]
    clean = all(("* %s: <none>" % k) in out.replace("\n  ", " ") or re.search(r"\* %s:\s*<none>" % re.escape(k), out)
                for k in ("Constants/Inductives relying on type-in-type", "Constants/Inductives relying on unsafe (co)fixpoints",
                          "Inductives whose positivity is assumed"))
    return r.returncode == 0 and clean, axioms, out[-1200:]


def proof_step(pid):
    """compile Properties/<pid>.v, collect theorem names and Print Assumptions output"""
    t0 = time.time()
    ok, log = build_coq()
    info = {"build_ok": ok, "obligations": 0, "discharged": 0, "theorems": [], "axioms": [],
            "forbidden": [], "log": "" if ok else log}
    if not ok:
        return info
    src = os.path.join(COQ, "Properties", pid + ".v")
    text = open(src).read()
    theorems = re.findall(r"^(?:Theorem|Example)\s+(\w+)", text, re.M)
    thm_only = re.findall(r"^Theorem\s+(\w+)", text, re.M)
    r = sh("timeout 900 coqc -Q . Hgm Properties/%s.v" % pid, cwd=COQ, timeout=1000)
    info["theorems"] = theorems
    info["obligations"] = len(thm_only)
    if r.returncode != 0:
        info["build_ok"] = False
        info["log"] = (r.stdout + r.stderr)[-4000:]
        return info
    out = r.stdout
    closed = out.count("Closed under the global context")
    ax_blocks = re.findall(r"Axioms:\n((?:.+\n)+?)(?=\n|Closed|Axioms:|\Z)", out)
    axioms = sorted(set(re.findall(r"^(\S+)\s*:", "\n".join(ax_blocks), re.M)))
    n_pa = len(re.findall(r"^Print Assumptions\s+(\w+)", text, re.M))
    info["discharged"] = min(len(thm_only), closed + len(ax_blocks)) if n_pa >= len(thm_only) else 0
    info["closed"] = closed
    info["axioms"] = axioms
    info["forbidden"] = forbidden_scan()
    info["wall_s"] = time.time() - t0
    return info


def write_evidence(pid, ev):
    os.makedirs(os.path.join(VERIF, "evidence"), exist_ok=True)
    p = os.path.join(VERIF, "evidence", pid + ".json")
    with open(p, "w") as f:
        json.dump(ev, f, indent=1, sort_keys=True, default=str)
    return p


def write_replay(pid, name, obj):
    d = os.path.join(VERIF, "replays")
    os.makedirs(d, exist_ok=True)
    p = os.path.join(d, "%s_%s.json" % (pid, name))
    with open(p, "w") as f:
        json.dump(obj, f, indent=1, default=str)
    return p


def load_known():
    p = os.path.join(VERIF, "known_findings.json")
    if not os.path.exists(p):
        return {"findings": [], "fixed": []}
    return json.load(open(p))
