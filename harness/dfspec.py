"""The primitive tree make_histograms builds for one feature (mirror of
HistogramFillerBase.construct_empty_hist / get_hist_bin), as a spec of the model, and the frame's
rows as model data.  Part of the tie: the correspondence compares what the implementation built
and filled with the model's run of this tree."""
import math

KINDS = {"float": "num", "int": "num", "bool": "bool", "ts": "num"}


def q(j, ncols):
    """the quantity of column j of the selected columns (a Series for one column, else a frame)"""
    return {"name": None, "id": 0, "e": ["f", j]}


def tree(cols, dtypes, specs):
    """cols: feature columns in order; dtypes[col] in float/int/bool/ts; specs: one dict per column"""
    hist = {"k": "Count"}
    n = len(cols)
    for j in reversed(range(n)):
        col, sp = cols[j], specs[j]
        kind = KINDS[dtypes[col]]
        cnt = {"k": "Count"}
        if kind == "num":
            if "binWidth" in sp:
                hist = {"k": "SparselyBin", "bw": float(sp["binWidth"]), "origin": float(sp.get("origin", 0.0)),
                        "q": q(j, n), "value": hist, "nan": cnt}
            elif "num" in sp:
                hist = {"k": "Bin", "num": int(sp["num"]), "low": float(sp["low"]), "high": float(sp["high"]),
                        "q": q(j, n), "value": hist, "under": cnt, "over": cnt, "nan": cnt}
            elif "edges" in sp:
                hist = {"k": "IrregularlyBin", "edges": [float(x) for x in sp["edges"]], "q": q(j, n),
                        "value": hist, "nan": cnt}
            elif "centers" in sp:
                hist = {"k": "CentrallyBin", "centers": [float(x) for x in sp["centers"]], "q": q(j, n),
                        "value": hist, "nan": cnt}
            elif "thresholds" in sp:
                hist = {"k": "Stack", "edges": [float(x) for x in sp["thresholds"]], "q": q(j, n),
                        "value": hist, "nan": cnt}
            elif "sum" in sp:
                hist = {"k": "Sum", "q": q(j, n)}
            elif "average" in sp:
                hist = {"k": "Average", "q": q(j, n)}
            elif "maximize" in sp:
                hist = {"k": "Maximize", "q": q(j, n)}
            elif "minimize" in sp:
                hist = {"k": "Minimize", "q": q(j, n)}
            else:
                raise ValueError("bin specification not supported by the model: %r" % (sp,))
        else:
            hist = {"k": "Categorize", "q": q(j, n), "value": hist}
    return hist


def to_model_value(v, dt):
    """a cell as the quantity functions of the filler hand it to the primitive"""
    if dt == "bool":
        return bool(v)
    if dt == "ts":
        return float(v) if v is not None else 0.0        # to_ns: NaT -> 0
    if v is None or (isinstance(v, float) and math.isnan(v)):
        return float("nan")
    return float(v)


def model_rows(rows, cols, dtypes):
    return [[to_model_value(r[c], dtypes[c]) for c in cols] for r in rows]


def frame(rows, columns, dtypes, ts_unit="ns", index=None):
    """rows: list of dicts column -> python value (None = NaN / NaT; ts as int ns); ts_unit: the
    resolution of the timestamp columns (pandas 3 produces datetime64[us] / [s] from strings and ranges)"""
    import numpy as np
    import pandas as pd
    data = {}
    for c in columns:
        vals = [r[c] for r in rows]
        dt = dtypes[c]
        if dt == "float":
            data[c] = np.array([np.nan if v is None else float(v) for v in vals], dtype=np.float64)
        elif dt == "int":
            data[c] = np.array([int(v) for v in vals], dtype=np.int64)
        elif dt == "bool":
            data[c] = np.array([bool(v) for v in vals], dtype=bool)
        else:
            col = pd.to_datetime(pd.Series([pd.NaT if v is None else pd.Timestamp(int(v)) for v in vals], dtype="datetime64[ns]"))
            if ts_unit != "ns":
                col = col.astype("datetime64[%s]" % ts_unit)
            data[c] = col
    df = pd.DataFrame(data, columns=columns)
    if index == "dup":
        df.index = [i // 2 for i in range(len(rows))]          # repeated labels (pd.concat of chunks)
    elif index == "rev":
        df.index = list(range(len(rows) - 1, -1, -1))
    return df
