"""Seeded generators: tree specs, critical-value alphabets derived from the tree, data, programs."""
import math

NAN = float("nan")
INF = float("inf")

LEAVES = ["Count", "Sum", "Average", "Deviate", "Minimize", "Maximize", "Bag"]
NODES = ["Bin", "SparselyBin", "CentrallyBin", "IrregularlyBin", "Stack", "Fraction", "Select",
         "Categorize", "Label", "UntypedLabel", "Index", "Branch"]
SINGLE_PATH = ["Bin", "SparselyBin", "CentrallyBin", "IrregularlyBin", "Categorize", "Select"]

NFIELDS = 5          # d[0..2] numeric, d[3] categorical, d[4] fault flag
NAMES = [None, None, "x", "y", "myfunc"]


class G:
    def __init__(self, rng, dyadic=True, faults=False, counts_tsq=False, max_depth=3,
                 kinds=None, leaves=None, names=True, vecbags=True):
        self.r = rng
        self.dyadic = dyadic
        self.faults = faults
        self.counts_tsq = counts_tsq
        self.max_depth = max_depth
        self.kinds = kinds or NODES
        self.leaves = leaves or LEAVES
        self.names = names
        self.vecbags = vecbags      # Bags of vectors (a tuple-valued quantity is not vectorisable)

    # ---- numbers
    def num(self):
        r = self.r
        if self.dyadic:
            return r.randint(-40, 40) / 8.0
        return r.choice([0.1, 0.3, 1.0 / 3.0, 0.7, 1e16, -1e16 + 2.0, 2.5, -0.1, 1.1, 7.0, -3.0,
                         r.randint(-40, 40) / 10.0, r.random() * 10 - 5])

    def posnum(self):
        r = self.r
        if self.dyadic:
            return r.choice([0.125, 0.25, 0.5, 1.0, 2.0, 1.5, 4.0])
        return r.choice([0.1, 0.3, 1.0 / 3.0, 0.7, 1.0, 2.5, 1e-3, 1e16])

    # ---- quantities
    def numexpr(self):
        r = self.r
        c = r.random()
        if c < 0.6:
            e = ["f", r.randint(0, 2)]
        elif c < 0.75:
            e = ["+", ["f", r.randint(0, 2)], ["f", r.randint(0, 2)]]
        elif c < 0.85:
            e = ["*", ["f", r.randint(0, 2)], ["c", self.posnum()]]
        elif c < 0.95:
            e = ["-", ["f", r.randint(0, 2)], ["c", self.num()]]
        else:
            e = ["<", ["f", r.randint(0, 2)], ["c", self.num()]]
        return self.wrapfault(e, "wrongS")

    def wrapfault(self, e, wrong):
        r = self.r
        if self.faults and r.random() < 0.5:
            if r.random() < 0.5:
                return ["fault", 4, e]
            return [wrong, 4, e]
        return e

    def boolexpr(self):
        r = self.r
        if r.random() < 0.7:
            e = ["<", ["f", r.randint(0, 2)], ["c", self.num()]]
        else:
            e = ["f", r.randint(0, 2)]   # numeric weight (may be negative, nan)
        return self.wrapfault(e, "wrongS")

    def catexpr(self):
        return self.wrapfault(["f", 3], "wrongN")

    def q(self, e):
        name = self.r.choice(NAMES) if self.names else None
        return {"name": name, "id": 0, "e": e}

    # ---- specs
    def leaf(self, kind=None):
        r = self.r
        k = kind or r.choice(self.leaves)
        if k == "Count":
            if self.counts_tsq and r.random() < (0.15 if self.counts_tsq is True else float(self.counts_tsq)):
                return {"k": "Count", "tr": "sq"}
            return {"k": "Count"}
        if k == "Bag":
            c = r.random()
            if c < 0.25 and not self.faults and self.vecbags:
                n = r.choice([2, 2, 3, 10])         # (two-digit dimensions: "N10")
                return {"k": "Bag", "range": "N%d" % n, "q": self.q(["vec"] + [r.randint(0, 2) for _ in range(n)])}
            if c < 0.6:
                return {"k": "Bag", "range": "N", "q": self.q(self.numexpr())}
            return {"k": "Bag", "range": "S", "q": self.q(self.wrapfault(["f", 3], "wrongN"))}
        return {"k": k, "q": self.q(self.numexpr())}

    def flow(self, depth):
        # underflow/overflow/nanflow position: mostly Count, sometimes anything
        if self.r.random() < 0.75 or depth <= 0:
            return self.leaf("Count") if self.r.random() < 0.8 else self.leaf()
        return self.spec(depth - 1)

    def edges(self, n):
        xs = sorted({self.num() for _ in range(n + 2)})
        return xs[:max(1, min(n, len(xs)))]

    def spec(self, depth=None, kind=None):
        r = self.r
        if depth is None:
            depth = self.max_depth
        if kind is None:
            if depth <= 0 or r.random() < 0.25:
                return self.leaf()
            kind = r.choice(self.kinds)
        if kind in LEAVES:
            return self.leaf(kind)
        d = depth - 1
        if kind == "Bin":
            low = self.num()
            high = low + self.posnum() * r.choice([1, 2, 3, 4, 8])
            if not low < high:
                high = low + abs(low) * 0.5 + 1.0
            return {"k": "Bin", "num": r.choice([1, 2, 3, 4, 5, 7, 10]), "low": low, "high": high,
                    "q": self.q(self.numexpr()), "value": self.spec(d), "under": self.flow(d),
                    "over": self.flow(d), "nan": self.flow(d)}
        if kind == "SparselyBin":
            return {"k": "SparselyBin", "bw": self.posnum(), "origin": self.num(),
                    "q": self.q(self.numexpr()), "value": self.spec(d), "nan": self.flow(d)}
        if kind == "CentrallyBin":
            cs = self.edges(r.randint(2, 5))
            while len(cs) < 2:
                cs = sorted(set(cs + [self.num()]))
            return {"k": "CentrallyBin", "centers": cs, "q": self.q(self.numexpr()),
                    "value": self.spec(d), "nan": self.flow(d)}
        if kind in ("IrregularlyBin", "Stack"):
            es = self.edges(r.randint(1, 4))
            if kind == "Stack" and r.random() < 0.3:
                r.shuffle(es)          # Stack keeps its thresholds in the order given
            return {"k": kind, "edges": es, "q": self.q(self.numexpr()),
                    "value": self.spec(d), "nan": self.flow(d)}
        if kind == "Fraction":
            return {"k": "Fraction", "q": self.q(self.boolexpr()), "value": self.spec(d)}
        if kind == "Select":
            return {"k": "Select", "q": self.q(self.boolexpr()), "cut": self.spec(d)}
        if kind == "Categorize":
            return {"k": "Categorize", "q": self.q(self.catexpr()), "value": self.spec(d)}
        if kind in ("Label", "Index"):
            # all children of the same primitive type (and Bag range)
            first = self.spec(d)
            n = r.randint(1, 3)
            kids = [first]
            for _ in range(n - 1):
                c = self.spec(d, kind=first["k"])
                if c["k"] == "Bag":
                    c = dict(first)
                kids.append(c)
            if kind == "Label":
                keys = r.sample(["a", "b", "x", "yy", "k1"], len(kids))
                return {"k": "Label", "pairs": dict(zip(keys, kids))}
            return {"k": "Index", "values": kids}
        if kind == "UntypedLabel":
            n = r.randint(1, 3)
            keys = r.sample(["a", "b", "x", "yy", "k1"], n)
            return {"k": "UntypedLabel", "pairs": {k: self.spec(d) for k in keys}}
        if kind == "Branch":
            return {"k": "Branch", "values": [self.spec(d) for _ in range(r.randint(1, 3))]}
        raise ValueError(kind)


# ------------------------------------------------------------------------ alphabets from the tree
def walk(spec):
    yield spec
    for key in ("value", "under", "over", "nan", "cut"):
        if key in spec:
            yield from walk(spec[key])
    if "pairs" in spec:
        for v in spec["pairs"].values():
            yield from walk(v)
    if "values" in spec:
        for v in spec["values"]:
            yield from walk(v)


def neighbours(x, k=2):
    out = [x]
    a = b = x
    for _ in range(k):
        a = math.nextafter(a, -INF)
        b = math.nextafter(b, INF)
        out += [a, b]
    return out


def fields_of(e):
    if e[0] == "vec":
        yield from e[1:]
        return
    if e[0] == "f":
        yield e[1]
    for x in e[1:]:
        if isinstance(x, list):
            yield from fields_of(x)


def node_criticals(s):
    """critical values of one node's own configuration"""
    vals = set()
    k = s["k"]
    if k == "Bin":
        lo, hi, n = s["low"], s["high"], s["num"]
        for i in range(n + 1):
            vals.update(neighbours(lo + i * (hi - lo) / n))
            vals.update(neighbours((hi - lo) * i / n + lo))
        vals.update(neighbours(hi))
        vals.update(neighbours(lo))
        vals.add(lo + (hi - lo) / (2 * n))
    elif k == "SparselyBin":
        for i in range(-2, 4):
            vals.update(neighbours(s["origin"] + i * s["bw"]))
        vals.add(s["origin"] + 0.5 * s["bw"])
        vals.update([1e19 * s["bw"], -1e19 * s["bw"]])
    elif k == "CentrallyBin":
        cs = sorted(s["centers"])
        for a, b in zip(cs, cs[1:]):
            vals.update(neighbours((a + b) / 2.0))
        vals.update(cs)
    elif k in ("IrregularlyBin", "Stack"):
        for e in s["edges"]:
            vals.update(neighbours(e))
    if "q" in s:
        for c in consts(s["q"]["e"]):
            vals.update(neighbours(c, 1))
    return vals


def clean(vals):
    out = sorted(v for v in vals if v == v and abs(v) != INF and not (v == 0.0 and math.copysign(1, v) < 0))
    return out


def critical_values(spec):
    """edges, midpoints and thresholds of every binning node, each with its +-1,+-2 ulp
    neighbours, plus fillers and non-finite values"""
    vals = set()
    for s in walk(spec):
        vals.update(node_criticals(s))
    vals.update([0.0, 1.0, -1.0, 0.125, 2.5, -3.75])
    return clean(vals) + [NAN, INF, -INF]


def critical_by_field(spec):
    """per datum field: the critical values of the nodes whose quantity reads that field (so that
    a value meant for one node's edge actually reaches that node)"""
    out = {0: set(), 1: set(), 2: set()}
    for s in walk(spec):
        if "q" in s:
            fs = [f for f in fields_of(s["q"]["e"]) if f in out]
            if len(fs) == 1 or (fs and s["q"]["e"][0] == "f"):
                for f in fs:
                    out[f].update(node_criticals(s))
    return {f: clean(v) for f, v in out.items()}


def consts(e):
    if e[0] == "vec":
        return
    if e[0] == "c":
        yield e[1]
    for x in e[1:]:
        if isinstance(x, list):
            yield from consts(x)


# ("True"/"False" strings are left out: together with the bools they collide in JSON, which is
# known finding C04-categorize-bool-str-collision, replayed by its own witness)
CATS = ["a", "b", "", "NaN", "tt", "zz", None, NAN, True, False]
STRCATS = ["a", "b", "", "NaN", "tt", "zz", None, NAN, "entries", "contentType"]
WEIGHTS = [1.0, 1.0, 1.0, 2.0, 0.5, 0.25, 3.0, 0.0, -1.0, NAN]
POSWEIGHTS = [1.0, 1.0, 2.0, 0.5, 0.25, 3.0]


def datum(r, vals, fault_p=0.0, plain=False, byfield=None, cats=None):
    def numv(i):
        c = r.random()
        if byfield and byfield.get(i) and c < 0.55:
            return r.choice(byfield[i])
        if c < 0.72:
            return r.choice(vals)
        if c < 0.9:
            return r.randint(-24, 24) / 8.0
        if plain:
            return r.randint(-24, 24) / 8.0
        if c < 0.95:
            return r.choice([True, False])
        return float(r.randint(-3, 3))
    flag = r.random() < fault_p
    return [numv(0), numv(1), numv(2), r.choice(cats or CATS), flag]


def stream(r, spec, n, weights=WEIGHTS, fault_p=0.0, cats=None):
    vals = critical_values(spec)
    bf = critical_by_field(spec)
    return [(datum(r, vals, fault_p, byfield=bf, cats=cats), r.choice(weights)) for _ in range(n)]
