"""Independent reference semantics ("the Histogrammar specification") evaluated with exact
rational arithmetic on the whole weighted multiset at once (no incremental updates).

Used by the C02 / C05 oracles on programs whose binary64 run is exact; it does not share code with
the library or with the Coq model.  Returns the same item list as hgm.tree().
"""
import math
from fractions import Fraction

from harness import hgm
from harness.hgm import F, OS, S, K, BK

NAN = float("nan")
INF = float("inf")


class Unsupported(Exception):
    pass


def is_real(v):
    return isinstance(v, (bool, int, float))


def evalq(e, d):
    t = e[0]
    if t == "f":
        return d[e[1]]
    if t == "c":
        return e[1]
    if t in "+-*<":
        a, b = evalq(e[1], d), evalq(e[2], d)
        if not (is_real(a) and is_real(b)):
            raise Unsupported("arithmetic on non-number")
        a, b = float(a), float(b)
        if t == "<":
            return a < b
        if any(x != x or abs(x) == INF for x in (a, b)):
            return {"+": a + b, "-": a - b, "*": a * b}[t]     # special values: IEEE rules
        fa, fb = Fraction(a), Fraction(b)
        r = {"+": fa + fb, "-": fa - fb, "*": fa * fb}[t]
        return r                                                 # exact
    raise Unsupported(t)


def num(v):
    """value of a quantity as Fraction, or nan/inf float"""
    if isinstance(v, Fraction):
        return v
    v = float(v)
    if v != v or abs(v) == INF:
        return v
    return Fraction(v)


def isnan(x):
    return isinstance(x, float) and x != x


def isinf(x):
    return isinstance(x, float) and abs(x) == INF


def tofloat(x):
    if isinstance(x, Fraction):
        f = float(x)
        if Fraction(f) != x:
            raise Unsupported("inexact result")
        return f
    return float(x)


def fsum(xs):
    if any(isnan(x) for x in xs):
        return NAN
    pos = any(isinf(x) and x > 0 for x in xs)
    neg = any(isinf(x) and x < 0 for x in xs)
    if pos or neg:
        return NAN if (pos and neg) else (INF if pos else -INF)
    return sum(xs, Fraction(0))


def mulw(q, w):
    if isnan(q) or isinf(q):
        return q * float(w)
    return q * w


def denote(spec, rows):
    """rows: list of (datum, weight Fraction > 0) that reached this node"""
    k = spec["k"]
    ent = sum((w for _, w in rows), Fraction(0))
    if k == "Count":
        if spec.get("tr", "id") == "id":
            return [100, 0, F(tofloat(ent))]
        return [100, 1, F(tofloat(sum((w * w for _, w in rows), Fraction(0))))]
    q = spec.get("q")
    name = None if q is None else q["name"]
    if k in ("Sum", "Average", "Deviate", "Minimize", "Maximize", "Bag"):
        vals = []
        if k == "Bag" and spec["range"] not in ("S", "N"):
            raise Unsupported("vector Bag")
        for d, w in rows:
            v = evalq(q["e"], d)
            if k == "Bag" and spec["range"] == "S":
                if not isinstance(v, str):
                    raise Unsupported("type error")
                vals.append((v, w))
                continue
            if not is_real(v) and not isinstance(v, Fraction):
                raise Unsupported("type error")
            vals.append((num(v), w))
        if k == "Sum":
            return [101, OS(name), F(tofloat(ent)), F(tofloat(fsum([mulw(x, w) for x, w in vals])))]
        if k in ("Average", "Deviate"):
            if any(isnan(x) or isinf(x) for x, _ in vals):
                raise Unsupported("non-finite data in a mean")
            if ent == 0:
                mean, vte = NAN, NAN
            else:
                mean = sum((x * w for x, w in vals), Fraction(0)) / ent
                vte = sum((w * (x - mean) ** 2 for x, w in vals), Fraction(0))
            if k == "Average":
                return [102, OS(name), F(tofloat(ent)), F(tofloat(mean))]
            return [103, OS(name), F(tofloat(ent)), F(tofloat(mean)), F(tofloat(vte))]
        if k in ("Minimize", "Maximize"):
            xs = [x for x, _ in vals if not isnan(x)]
            if not xs:
                ext = NAN
            else:
                ext = (min if k == "Minimize" else max)(xs, key=lambda x: float(x) if not isinstance(x, Fraction) else x)
            return [104 if k == "Minimize" else 105, OS(name), F(tofloat(ent)), F(tofloat(ext))]
        # Bag
        rng = spec["range"]
        acc = {}
        for x, w in vals:
            key = "nan" if (rng == "N" and isnan(x)) else (tofloat(x) if rng == "N" else x)
            acc[key] = acc.get(key, Fraction(0)) + w
        items = sorted(acc.items(), key=lambda kv: hgm.bagkey_sort(kv[0]))
        out = [106, {"S": 0, "N": 1}[rng], OS(name), F(tofloat(ent)), len(items)]
        for kk, c in items:
            out += [BK(kk, rng), F(tofloat(c))]
        return out

    def qnum(d):
        v = evalq(q["e"], d)
        if not is_real(v) and not isinstance(v, Fraction):
            raise Unsupported("type error")
        return num(v)

    if k == "Bin":
        lo, hi, n = Fraction(spec["low"]), Fraction(spec["high"]), spec["num"]
        parts = [[] for _ in range(n + 3)]
        for d, w in rows:
            x = qnum(d)
            if isnan(x):
                parts[n + 2].append((d, w))
            elif x == -INF or (not isinf(x) and x < lo):
                parts[n].append((d, w))
            elif x == INF or x >= hi:
                parts[n + 1].append((d, w))
            else:
                i = math.floor(n * (x - lo) / (hi - lo))      # half-open interval i
                assert lo + i * (hi - lo) / n <= x < lo + (i + 1) * (hi - lo) / n
                parts[i].append((d, w))
        kids = [spec["value"]] * n + [spec["under"], spec["over"], spec["nan"]]
        out = [200, F(spec["low"]), F(spec["high"]), OS(name), F(tofloat(ent)), n + 3]
        for c, p in zip(kids, parts):
            out += denote(c, p)
        return out + [0]
    if k == "SparselyBin":
        bw, org = Fraction(spec["bw"]), Fraction(spec["origin"])
        nan, bins = [], {}
        for d, w in rows:
            x = qnum(d)
            if isnan(x):
                nan.append((d, w))
                continue
            if x == INF:
                i = 2 ** 63 - 1
            elif x == -INF:
                i = -(2 ** 63 - 1)
            else:
                i = math.floor((x - org) / bw)
                i = max(-(2 ** 63 - 1), min(2 ** 63 - 1, i))
            bins.setdefault(i, []).append((d, w))
        out = [201, F(spec["bw"]), F(spec["origin"]), OS(name), F(tofloat(ent)), 1] + denote(spec["nan"], nan)
        out.append(len(bins))
        for i in sorted(bins):
            out += [K(i)] + denote(spec["value"], bins[i])
        return out
    if k == "CentrallyBin":
        cs = sorted(spec["centers"])
        fc = [Fraction(c) for c in cs]
        parts = [[] for _ in range(len(cs) + 1)]
        for d, w in rows:
            x = qnum(d)
            if isnan(x):
                parts[-1].append((d, w))
                continue
            if x == INF:
                i = len(cs) - 1
            elif x == -INF:
                i = 0
            else:
                # nearest centre, ties to the upper one
                i = min(range(len(cs)), key=lambda j: (abs(x - fc[j]), -j))
            parts[i].append((d, w))
        out = [202, len(cs)] + [F(c) for c in cs] + [OS(name), F(tofloat(ent)), len(cs) + 1]
        for p in parts[:-1]:
            out += denote(spec["value"], p)
        out += denote(spec["nan"], parts[-1])
        return out + [0]
    if k in ("IrregularlyBin", "Stack"):
        ths = [-INF] + list(spec["edges"])
        if k == "IrregularlyBin" and ths[1:] != sorted(ths[1:]):
            raise Unsupported("unsorted edges")     # (Stack fills every threshold q reaches, in any order)
        fth = [t if isinf(t) else Fraction(t) for t in ths]
        parts = [[] for _ in range(len(ths) + 1)]
        for d, w in rows:
            x = qnum(d)
            if isnan(x):
                parts[-1].append((d, w))
                continue

            def ge(x, t):
                if isinf(t):
                    return t < 0 or (isinf(x) and x > 0)
                if isinf(x):
                    return x > 0
                return x >= t
            if k == "Stack":
                for i, t in enumerate(fth):
                    if ge(x, t):
                        parts[i].append((d, w))
            else:
                i = max(j for j, t in enumerate(fth) if ge(x, t))
                parts[i].append((d, w))
        out = [203 if k == "IrregularlyBin" else 204, len(ths)] + [F(t) for t in ths]
        out += [OS(name), F(tofloat(ent)), len(ths) + 1]
        for p in parts[:-1]:
            out += denote(spec["value"], p)
        out += denote(spec["nan"], parts[-1])
        return out + [0]
    if k in ("Fraction", "Select"):
        passed = []
        for d, w in rows:
            x = qnum(d)
            if isnan(x) or isinf(x):
                if isinf(x) and x > 0:
                    raise Unsupported("infinite weight")
                continue
            if x * w > 0:
                passed.append((d, x * w))
        if k == "Fraction":
            return ([205, OS(name), F(tofloat(ent)), 2] + denote(spec["value"], rows)
                    + denote(spec["value"], passed) + [0])
        return [206, OS(name), F(tofloat(ent)), 1] + denote(spec["cut"], passed) + [0]
    if k == "Categorize":
        bins = {}
        for d, w in rows:
            v = evalq(q["e"], d)
            if isinstance(v, (str, bool)):
                key = v
            elif v is None or (isinstance(v, float) and v != v):
                key = "NaN"
            else:
                raise Unsupported("type error")
            bins.setdefault(key, []).append((d, w))
        out = [207, OS(name), F(tofloat(ent)), 0, len(bins)]
        for kk in sorted(bins, key=hgm.key_sort):
            out += [K(kk)] + denote(spec["value"], bins[kk])
        return out
    if k in ("Label", "UntypedLabel"):
        ks = sorted(spec["pairs"], key=lambda s: s.encode())
        out = [208 if k == "Label" else 209, len(ks)] + [S(x) for x in ks] + [F(tofloat(ent)), len(ks)]
        for x in ks:
            out += denote(spec["pairs"][x], rows)
        return out + [0]
    if k in ("Index", "Branch"):
        out = [210 if k == "Index" else 211, F(tofloat(ent)), len(spec["values"])]
        for c in spec["values"]:
            out += denote(c, rows)
        return out + [0]
    raise Unsupported(k)


def reference(spec, stream):
    rows = []
    for d, w in stream:
        w = float(w)
        if w == w and w > 0:
            if abs(w) == INF:
                raise Unsupported("infinite weight")
            rows.append((tuple(d), Fraction(w)))
    return denote(spec, rows)
