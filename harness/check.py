"""./check <id> [--tier quick|thorough] [--replay path]

Proof step (Coq build + Print Assumptions of Properties/<id>.v), tie step (implementation vs
executable model on generated programs), oracle (the theorem statement instantiated on the
implementation's own observations), evidence.
"""
import argparse
import importlib
import json
import os
import random
import sys
import time
import traceback

sys.path.insert(0, os.path.dirname(os.path.dirname(os.path.abspath(__file__))))
from harness import common  # noqa: E402

common.ensure_env()

from harness import emit, hgm  # noqa: E402


def jdump(o):
    return json.dumps(o, default=str)


def run_impl(prog, machine_cls=None):
    m = (machine_cls or hgm.Machine)()
    try:
        obs = m.run(prog["ops"])
        if m.exc and getattr(m, "rev_used", False):
            # an operation raised: what a raising fill / += leaves behind depends on the order in
            # which a Label visits its children (C10-iadd-partial, C12), which the model fixes as
            # the sorted one - such programs run with sorted insertion order only
            m = (machine_cls or hgm.Machine)()
            m.norev = True
            obs = m.run(prog["ops"])
        return {"obs": obs, "exc": m.exc, "crash": None, "machine": m}
    except Exception as e:  # harness-level crash: the implementation did something the
        # executor does not expect (reported, never silently dropped)
        return {"obs": None, "exc": m.exc, "crash": "%s: %s" % (type(e).__name__, e),
                "tb": traceback.format_exc(), "machine": m}


def first_diff(impl_obs, model_hashes, ops=None, extra=None, mode="base"):
    """compare the implementation's observations with the model's per-observation hashes; on a
    mismatch fetch the model's observation and describe the first differing token"""
    hs = [emit.htok(o) for o in impl_obs]
    j = next((i for i, (x, y) in enumerate(zip(hs, model_hashes)) if x != y), None)
    if j is None:
        if len(hs) != len(model_hashes):
            return {"op": min(len(hs), len(model_hashes)), "note": "different number of observations"}
        return None
    d = {"op": j}
    if ops is not None:
        try:
            y = emit.model_observation(ops, j, "F64", extra, mode)
            x = impl_obs[j]
            k = next((i for i, (p, q) in enumerate(zip(x, y)) if p != q), min(len(x), len(y)))
            d.update(token=k, impl=x[max(0, k - 8):k + 8], model=y[max(0, k - 8):k + 8],
                     impl_len=len(x), model_len=len(y))
        except Exception as e:  # noqa: BLE001
            d["note"] = "could not fetch the model observation: %s" % str(e)[-300:]
    return d


def shrink(prog, still_bad, budget=25):
    """neutralise fills (weight 0.0: a gated no-op in the implementation and in the model) while the
    predicate holds.  Ops are never removed: the oracles address observations by position
    (prog["meta"]), so the replay must keep every index."""
    ops = list(prog["ops"])
    i = len(ops) - 1
    tries = 0
    while i >= 0 and tries < budget:
        if ops[i][0] == "fill" and len(ops[i]) == 4 and ops[i][3] != 0.0:
            cand = ops[:i] + [[ops[i][0], ops[i][1], ops[i][2], 0.0]] + ops[i + 1:]
            tries += 1
            p2 = dict(prog, ops=cand)
            try:
                if still_bad(p2):
                    ops = cand
            except Exception:  # noqa: BLE001
                pass
        i -= 1
    return dict(prog, ops=ops)


def main():
    ap = argparse.ArgumentParser()
    ap.add_argument("pid")
    ap.add_argument("--tier", default=os.environ.get("VERIF_TIER", "quick"))
    ap.add_argument("--replay")
    ap.add_argument("--n", type=int)
    ap.add_argument("--dev-skip-proof", action="store_true", help="development only")
    args = ap.parse_args()
    pid = args.pid
    tier = args.tier if args.tier in ("quick", "thorough") else "quick"
    seed = int(os.environ.get("VERIF_SEED", "20260930"))
    t0 = time.time()
    mod = importlib.import_module("harness.props." + pid.lower())
    P = mod.PROP

    if args.replay:
        return replay(P, mod, args.replay)

    violations = []      # (replay path, suffix)
    known_hits = []
    if args.dev_skip_proof:
        common.build_coq()
        proof = {"build_ok": True, "obligations": 1, "discharged": 1, "theorems": [], "axioms": [], "forbidden": []}
    else:
        proof = common.proof_step(pid)
    if not proof["build_ok"] or proof["forbidden"] or proof["discharged"] != proof["obligations"] \
            or proof["obligations"] == 0:
        # a proof obligation no longer checks (or something forbidden entered the development):
        # search the implementation with the oracle below; if nothing fails the violation is
        # reported as no-failing-input-found with this file as the replay
        violations.append((common.write_replay(pid, "proof_obligation", {
            "property": pid, "ops": [], "theorem_file": "coq/Properties/%s.v" % pid,
            "obligations": proof["obligations"], "discharged": proof["discharged"],
            "forbidden": proof["forbidden"], "coq_error": proof.get("log", "")}), "proof"))

    if tier == "thorough" and proof["build_ok"] and not args.dev_skip_proof:
        ok, ax, tail = common.coqchk(pid)
        proof["coqchk"] = {"ok": ok, "axioms": ax}
        if not ok:
            violations.append((common.write_replay(pid, "coqchk", {
                "property": pid, "ops": [], "theorem_file": "coq/Properties/%s.v" % pid, "coqchk": tail}), "proof"))

    rng = random.Random(seed * 1000003 + sum(map(ord, pid)))
    n = args.n or (P["quick_n"] if tier == "quick" else P["thorough_n"])
    progs = []
    cdir = os.path.join(common.VERIF, "corpus", pid)
    corpus_n = 0
    if os.path.isdir(cdir):
        for f in sorted(os.listdir(cdir)):
            if f.endswith(".json"):
                progs.append(json.load(open(os.path.join(cdir, f))))
                corpus_n += 1
    progs += mod.gen_programs(rng, n, tier)

    # --- model (both instances), only if the model built; the implementation is run program by
    # program in the loop below so that only one machine (with all its aggregators) is alive at a time
    impl = []
    model = None
    model_err = None
    if proof["build_ok"]:
        try:
            model = emit.run_models([p["ops"] for p in progs], instances=("F64", "Xq"),
                                    extra=getattr(mod, "EMIT", None), mode=getattr(mod, "MODE", "base"))
        except Exception as e:  # noqa: BLE001
            model_err = str(e)[-3000:]
            violations.append((common.write_replay(pid, "model_run", {
                "property": pid, "ops": [], "error": model_err}), "proof"))

    stats = {"programs": len(progs), "corpus_replayed": corpus_n, "tie_mismatch": 0,
             "exact_safe": 0, "oracle_fail": 0, "impl_crash": 0, "ops_by_kind": {},
             "outcomes": {"done": 0, "raise": 0}, "exc_classes": {}}
    known = common.load_known()
    samples = []
    tie_broken = []
    known_progs = set()
    for i, p in enumerate(progs):
        for o in p["ops"]:
            stats["ops_by_kind"][o[0]] = stats["ops_by_kind"].get(o[0], 0) + 1
        r = run_impl(p, getattr(mod, "Machine", None))
        # (only the outcome of every observation is kept: the observations of thousands of programs
        # of the identity machine are tens of gigabytes of Python integers)
        impl.append({"obs": [ob[:1] if ob else ob for ob in r["obs"]] if r["obs"] else r["obs"],
                     "exc": r["exc"], "crash": r["crash"]})
        for c in r["exc"]:
            stats["exc_classes"][c] = stats["exc_classes"].get(c, 0) + 1
        if r["crash"]:
            stats["impl_crash"] += 1
            violations.append((common.write_replay(pid, "crash%d" % i, dict(p, crash=r["crash"], tb=r.get("tb"))), "crash"))
            continue
        for ob in r["obs"]:
            if ob and ob[0] in (0, 1):
                stats["outcomes"]["done" if ob[0] == 0 else "raise"] += 1
        exact = False
        agree = None
        if model is not None:
            mo = model[i]
            exact = mo["F64"] == mo["Xq"]
            stats["exact_safe"] += exact
            d = first_diff(r["obs"], mo["F64"], p["ops"], getattr(mod, "EMIT", None), getattr(mod, "MODE", "base"))
            if d is not None and getattr(mod, "TIE_EXACT_ONLY", False) and not (
                    mod.tie_applicable(p, exact) if hasattr(mod, "tie_applicable") else exact):
                # vectorised kernels sum in another order than the model: bit-for-bit comparison
                # only where every operation is exact; the oracle (with a tolerance) still runs
                d = None
                stats["tie_skipped_inexact"] = stats.get("tie_skipped_inexact", 0) + 1
            agree = d is None
            if d is not None:
                stats["tie_mismatch"] += 1
                tie_broken.append((i, d))
        try:
            fails = mod.oracle(p, r, exact)
        except Exception as e:  # noqa: BLE001
            # the oracle itself could not evaluate the implementation's state (a shape it does not
            # expect): the property is not shown to hold on this program
            fails = [{"clause": "the oracle evaluates the property on this program",
                      "diff": "oracle raised %s: %s" % (type(e).__name__, str(e)[:300])}]
        if fails:
            stats["oracle_fail"] += 1
            kf = match_known(known, pid, p, fails, mod)
            if kf:
                known_hits.append(kf)
                known_progs.add(i)
            else:
                def bad(q):
                    rr = run_impl(q, getattr(mod, "Machine", None))
                    try:
                        return rr["crash"] is None and bool(mod.oracle(q, rr, exact))
                    except Exception:  # noqa: BLE001
                        return True
                sp = p if getattr(mod, "NO_SHRINK", False) else shrink(p, bad)
                violations.append((common.write_replay(pid, "oracle%d" % i, dict(
                    sp, property=pid, failures=fails, tie_agrees=agree, exact_safe=exact)), "oracle"))
        if len(samples) < 3:
            samples.append({"ops": p["ops"][:12], "n_ops": len(p["ops"])})

    # a broken tie with no oracle failure on that program: search around it
    oracle_violation = any(k == "oracle" for _, k in violations)
    for i, d in tie_broken:
        p = progs[i]
        if any(v[0].endswith("oracle%d.json" % i) for v in violations) or i in known_progs:
            continue
        found = None
        if hasattr(mod, "search_around"):
            found = mod.search_around(p, rng)
        if found is not None:
            violations.append((common.write_replay(pid, "tie%d" % i, dict(
                found, property=pid, correspondence=d)), "oracle"))
            oracle_violation = True
        else:
            violations.append((common.write_replay(pid, "tie%d" % i, dict(
                p, property=pid, correspondence=d,
                note="model and implementation disagree at this observation; the oracle found "
                     "no failing input on this program or its neighbours")), "nofail"))

    # known findings: replay each listed witness
    for kf in known.get("findings", []):
        if kf["property"] != pid:
            continue
        st = mod.replay_known(kf) if hasattr(mod, "replay_known") else None
        if st:
            known_hits.append(kf)

    ev = {
        "property_id": pid, "tier": tier, "seed": seed, "level": "proof",
        "coverage": {
            "obligations": proof["obligations"], "discharged": proof["discharged"],
            "checker_cmd": "cd /verif/coq && make -j16 && coqc -Q . Hgm Properties/%s.v" % pid,
            "trusted_base": common.TRUSTED_BASE + P.get("trusted_extra", []) +
            ["Print Assumptions: %d theorem(s) closed under the global context; axioms: %s"
             % (proof.get("closed", 0), ", ".join(proof["axioms"]) or "none")],
            "theorems": proof["theorems"],
            "coqchk": proof.get("coqchk", "not run (quick tier)"),
            "programs": stats["programs"], "traces_validated_against_impl":
                stats["programs"] - stats["tie_mismatch"] - stats["impl_crash"],
            "exact_safe": stats["exact_safe"], "tie_mismatch": stats["tie_mismatch"],
            "tie_skipped_inexact": stats.get("tie_skipped_inexact", 0),
            "oracle_fail": stats["oracle_fail"], "corpus_replayed": corpus_n,
            "ops_by_kind": stats["ops_by_kind"], "outcomes": stats["outcomes"],
            "exception_classes": stats["exc_classes"],
            "known_finding_hits": [k.get("id", k.get("site")) for k in known_hits],
            "samples": samples, "evaluations": stats["programs"],
            "distinct_nontrivial": len({jdump(p["ops"]) for p in progs if len(p["ops"]) > 2}),
            "rule": P["rule"],
        },
        "assumptions": P.get("assumptions", []),
        "wall_s": round(time.time() - t0, 2),
        "violations": len(violations),
    }
    if hasattr(mod, "extra_evidence"):
        ev["coverage"].update(mod.extra_evidence(progs, impl))
    common.write_evidence(pid, ev)
    seen = set()
    for kf in known_hits:
        key = kf.get("id", kf.get("site"))
        if key in seen:
            continue
        seen.add(key)
        print("KNOWN-FINDING: property=%s %s: %s" % (pid, kf.get("site"), kf.get("what")))
    print("%s: %d programs, %d exact-safe, tie mismatches %d, oracle failures %d, theorems %d/%d, %.1fs"
          % (pid, stats["programs"], stats["exact_safe"], stats["tie_mismatch"], stats["oracle_fail"],
             proof["discharged"], proof["obligations"], time.time() - t0))
    if violations:
        concrete = [v for v in violations if v[1] in ("oracle", "crash")]
        if concrete:
            for path, kind in concrete[:3]:
                print("VIOLATION property=%s replay=%s" % (pid, path))
        else:
            for path, kind in violations[:3]:
                print("VIOLATION property=%s replay=%s no-failing-input-found" % (pid, path))
        sys.exit(1)
    sys.exit(0)


def match_known(known, pid, prog, fails, mod):
    for kf in known.get("findings", []):
        if kf["property"] == pid and hasattr(mod, "is_known") and mod.is_known(kf, prog, fails):
            return kf
    return None


def replay(P, mod, path):
    p = json.load(open(path))
    if not p.get("ops"):
        print("replay names a proof obligation / correspondence: ", jdump({k: p[k] for k in p if k != "ops"})[:2000])
        sys.exit(1)
    r = run_impl(p, getattr(mod, "Machine", None))
    if r["crash"]:
        print("implementation crashed:", r["crash"])
        sys.exit(1)
    mo = emit.run_models([p["ops"]], instances=("F64", "Xq"), extra=getattr(mod, "EMIT", None),
                         mode=getattr(mod, "MODE", "base"))[0]
    d = first_diff(r["obs"], mo["F64"], p["ops"], getattr(mod, "EMIT", None), getattr(mod, "MODE", "base"))
    exact = mo["F64"] == mo["Xq"]
    if d is not None and getattr(mod, "TIE_EXACT_ONLY", False) and not (
            mod.tie_applicable(p, exact) if hasattr(mod, "tie_applicable") else exact):
        print("correspondence: differs in rounding only (not compared bit for bit on this program):", jdump(d)[:400])
        d = None
    try:
        fails = mod.oracle(p, r, exact)
    except Exception as e:  # noqa: BLE001
        fails = [{"clause": "the oracle evaluates the property on this program",
                  "diff": "oracle raised %s: %s" % (type(e).__name__, str(e)[:300])}]
    print("correspondence:", "agree" if d is None else jdump(d))
    print("oracle:", "holds" if not fails else jdump(fails)[:3000])
    if d is not None or fails:
        print("VIOLATION property=%s replay=%s" % (P["id"], path))
        sys.exit(1)
    sys.exit(0)


if __name__ == "__main__":
    try:
        main()
    except SystemExit:
        raise
    except BaseException as e:  # noqa: BLE001
        # the machinery itself failed on this tree (e.g. the attribute walker met a structure it does
        # not know): the property is no longer shown to hold
        pid_ = sys.argv[1] if len(sys.argv) > 1 else "?"
        path_ = common.write_replay(pid_, "harness_error", {
            "property": pid_, "ops": [], "error": "%s: %s" % (type(e).__name__, e),
            "traceback": traceback.format_exc()[-4000:]})
        print(traceback.format_exc()[-2000:])
        print("VIOLATION property=%s replay=%s no-failing-input-found" % (pid_, path_))
        sys.exit(1)
