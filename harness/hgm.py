"""Implementation side of the correspondence: build real histogrammar objects from a spec,
execute program ops on them, and observe them with an attribute walker that produces the same
integer-token encoding as coq/Model/Snap.v.

Run with PYTHONPATH=/repo (forced by harness/common.py) under /venv/bin/python.
"""
import math
import pickle

import histogrammar as hg
from histogrammar.defs import identity

NAN = float("nan")
INF = float("inf")


# ----------------------------------------------------------------------------- numbers
def ftok(x):
    """canonical tokens of a number, by value (bool/int/float erased), as F64.f_tok"""
    x = float(x)
    if x != x:
        return [1]
    if x == INF:
        return [2]
    if x == -INF:
        return [3]
    if x == 0.0:
        return [0, 0, 0]
    m, e = math.frexp(x)
    mi = int(m * (1 << 53))
    ee = e - 53
    if ee < -1074:
        mi >>= (-1074 - ee)
        ee = -1074
    return [0, mi, ee]


def tok_str(s):
    b = s.encode("utf-8")
    return [len(b)] + list(b)


def tok_optstr(s):
    return [0] if s is None else [1] + tok_str(s)


def key_sort(k):
    # KInt < KBool < KStr ; ints by value, False < True, strings by bytes
    if isinstance(k, bool):
        return (1, int(k), b"")
    if isinstance(k, int):
        return (0, k, b"")
    return (2, 0, k.encode("utf-8"))


def tok_key(k):
    if isinstance(k, bool):
        return [1, 1 if k else 0]
    if isinstance(k, int):
        return [0, int(k)]
    return [2] + tok_str(k)


def bagkey_sort(k):
    if isinstance(k, tuple):
        # components: numbers by value, "nan" last (lexicographic)
        return (3, 0.0, b"", tuple((1, 0.0) if c == "nan" else (0, float(c)) for c in k))
    if isinstance(k, str):
        if k == "nan":
            return (1, 0.0, b"")
        return (2, 0.0, k.encode("utf-8"))
    return (0, float(k), b"")


def tok_bagkey(k, rng):
    if isinstance(k, tuple):
        out = [3, len(k)]
        for c in k:
            out += [1] if c == "nan" else [0] + ftok(c)
        return out
    if rng == "N":
        if k == "nan":
            return [1]
        return [0] + ftok(k)
    return [2] + tok_str(k)


# ----------------------------------------------------------------------------- quantities
class _Raiser(Exception):
    pass


def _raise():
    raise _Raiser("injected fault")


def expr_src(e):
    t = e[0]
    if t == "vec":
        return "(" + ", ".join("d[%d]" % i for i in e[1:]) + ",)"
    if t == "f":
        return "d[%d]" % e[1]
    if t == "c":
        return "float.fromhex(%r)" % float(e[1]).hex()
    if t in "+-*<":
        return "(%s %s %s)" % (expr_src(e[1]), t, expr_src(e[2]))
    if t == "fault":
        return "(_raise() if d[%d] is True else %s)" % (e[1], expr_src(e[2]))
    if t == "wrongS":
        # a value of the wrong type: a plain str, or (for positive x) a numpy scalar that is not a number
        return "(_WS[1 if isinstance(d[0], float) and d[0] > 0 else 0] if d[%d] is True else %s)" % (e[1], expr_src(e[2]))
    if t == "wrongN":
        return "(1.5 if d[%d] is True else %s)" % (e[1], expr_src(e[2]))
    raise ValueError(e)


_QCACHE = {}


FIELDS = ["x", "y", "e", "c", "flag"]      # "e" is also a name of the math module: a field must shadow it


def expr_rec(e, rec, consts=None):
    """the expression as Python source over a record of the given representation:
    tuple d[i], dict d["x"], attribute d.x, scalar x (field 0 only), or bare names (string form);
    consts: a list that receives the constants, which are then written as the names _K0, _K1, ..."""
    t = e[0]
    if t == "vec":
        return "(" + ", ".join(expr_rec(["f", i], rec) for i in e[1:]) + ",)"
    if t == "c" and consts is not None:
        consts.append(float(e[1]))
        return "_K%d" % (len(consts) - 1)
    if t == "f":
        n = FIELDS[e[1]]
        return {"tuple": "d[%d]" % e[1], "dict": 'd["%s"]' % n, "attr": "d.%s" % n,
                "scalar": "x", "names": n}[rec]
    if t == "c":
        # a plain literal (repr round-trips exactly); the string form must not mention other names
        assert float(repr(float(e[1]))) == float(e[1])
        return "(%r)" % float(e[1]) if rec == "names" else "float.fromhex(%r)" % float(e[1]).hex()
    if t in "+-*<":
        return "(%s %s %s)" % (expr_rec(e[1], rec, consts), t, expr_rec(e[2], rec, consts))
    raise ValueError(e)


def mk_src(form, e, rec, fname="myfn"):
    """the bare object a user would pass: a lambda, a def or a string expression"""
    if form == "str":
        return expr_rec(e, "names")
    arg = "x" if rec == "scalar" else "d"
    body = expr_rec(e, rec)
    env = {"float": float}
    if form == "def":
        exec("def %s(%s):\n    return %s\n" % (fname, arg, body), env)
        return env[fname]
    if form == "defg":
        # a def whose constants are module-level globals _K0, _K1, ... of its defining namespace
        # (pickling has to carry the referenced globals, separately for every function)
        consts = []
        body = expr_rec(e, rec, consts)
        env.update({"_K%d" % j: v for j, v in enumerate(consts)})
        exec("def %s(%s):\n    return %s\n" % (fname, arg, body), env)
        return env[fname]
    if form == "lamd":
        # a lambda with a default argument (pickling has to carry __defaults__)
        return eval("lambda %s, _unused=1.0: %s" % (arg, body), env)
    return eval("lambda %s: %s" % (arg, body), env)


def apply_wops(obj, wops):
    for w in wops:
        if w == "ser":
            obj = hg.util.serializable(obj)
        elif w == "cached":
            obj = hg.util.cached(obj)
        else:
            obj = hg.util.named(w[1], obj)
    return obj


def mkq(q):
    """q = {"name": str|None, "id": int, "e": expr}; equal id => same code object.
    Optional (C17): "form" lam|def|str, "rec" record representation, "fname", "wops" wrappers in
    the order they are applied ("name" must then be the resulting name)"""
    if q is None:
        return identity
    key = (q["name"], q["id"], repr(q["e"]), q.get("form"), q.get("rec"), q.get("fname"), repr(q.get("wops")))
    if key in _QCACHE:
        return _QCACHE[key]
    if "form" in q:
        out = apply_wops(mk_src(q["form"], q["e"], q.get("rec", "tuple"), q.get("fname", "myfn")),
                         q.get("wops", ["ser"]))
        assert out.name == q["name"], (out.name, q["name"])
        _QCACHE[key] = out
        return out
    src = "lambda d: " + expr_src(q["e"])
    import numpy as _np
    f = eval(src, {"_raise": _raise, "float": float, "_WS": ("bad", _np.str_("bad"))})
    out = hg.util.named(q["name"], f) if q["name"] is not None else hg.util.serializable(f)
    _QCACHE[key] = out
    return out


# ----------------------------------------------------------------------------- building
REV_KEYS = [False, False]      # [reverse now, a reversal happened]


def build(s):
    k = s["k"]
    if k == "Count":
        if s.get("tr", "id") == "id":
            return hg.Count()
        return hg.Count(lambda w: w * w)
    if k in ("Sum", "Average", "Deviate", "Minimize", "Maximize"):
        return getattr(hg, k)(mkq(s["q"]))
    if k == "Bag":
        return hg.Bag(mkq(s["q"]), s["range"])
    if k == "Bin":
        return hg.Bin(s["num"], s["low"], s["high"], mkq(s["q"]), build(s["value"]),
                      build(s["under"]), build(s["over"]), build(s["nan"]))
    if k == "SparselyBin":
        return hg.SparselyBin(s["bw"], mkq(s["q"]), build(s["value"]), build(s["nan"]), s["origin"])
    if k == "CentrallyBin":
        return hg.CentrallyBin(list(s["centers"]), mkq(s["q"]), build(s["value"]), build(s["nan"]))
    if k == "IrregularlyBin":
        return hg.IrregularlyBin(list(s["edges"]), mkq(s["q"]), build(s["value"]), build(s["nan"]))
    if k == "Stack":
        return hg.Stack(list(s["edges"]), mkq(s["q"]), build(s["value"]), build(s["nan"]))
    if k == "Fraction":
        return hg.Fraction(mkq(s["q"]), build(s["value"]))
    if k == "Select":
        if s.get("default_cut"):
            return hg.Select(mkq(s["q"]))          # relies on the default argument cut=Count()
        return hg.Select(mkq(s["q"]), build(s["cut"]))
    if k == "Categorize":
        return hg.Categorize(mkq(s["q"]), build(s["value"]))
    if k in ("Label", "UntypedLabel"):
        # the model keeps the keys of a Label sorted (a Label is a map); the implementation keeps
        # insertion order, which must not matter: every second "new" of a program inserts the keys
        # in the opposite order (REV_KEYS), so that operands of + / += / == differ in it
        items = sorted(s["pairs"].items())
        if REV_KEYS[0] and len(items) > 1:
            items.reverse()
            REV_KEYS[1] = True
        return getattr(hg, k)(**{kk: build(v) for kk, v in items})
    if k == "Index":
        return hg.Index(*[build(v) for v in s["values"]])
    if k == "Branch":
        return hg.Branch(*[build(v) for v in s["values"]])
    raise ValueError(k)


# ----------------------------------------------------------------------------- observation
LEAFTAG = {"Count": 100, "Sum": 101, "Average": 102, "Deviate": 103, "Minimize": 104,
           "Maximize": 105, "Bag": 106}


def qname(h):
    q = h.__dict__.get("quantity")
    return None if q is None else q.name


class F:
    """a number in an observation (compared by value; bit-exact in the tie)"""
    __slots__ = ("x",)

    def __init__(self, x):
        self.x = float(x)


class S:
    __slots__ = ("s",)

    def __init__(self, s):
        self.s = s


class OS:
    __slots__ = ("s",)

    def __init__(self, s):
        self.s = s


class K:
    __slots__ = ("k",)

    def __init__(self, k):
        self.k = k


class BK:
    __slots__ = ("k", "rng")

    def __init__(self, k, rng):
        self.k = k
        self.rng = rng


def _pykey(k):
    """numpy scalars (keys created by the vectorised paths) as the Python values they denote"""
    return k.item() if hasattr(k, "item") and not isinstance(k, (str, bytes)) else (str(k) if isinstance(k, str) else k)


def tree(h, prune=False):
    """flat list of items (ints, F, S, OS, K, BK) describing an aggregator through its
    attributes only (never toJson); same layout as coq/Model/Snap.v"""
    name = h.name
    d = h.__dict__
    if name == "Count":
        tr = d["transform"]
        return [100, 0 if tr is identity or tr == identity else 1, F(d["entries"])]
    if name in ("Sum", "Average", "Minimize", "Maximize"):
        f = {"Sum": "sum", "Average": "mean", "Minimize": "min", "Maximize": "max"}[name]
        return [LEAFTAG[name], OS(qname(h)), F(d["entries"]), F(d[f])]
    if name == "Deviate":
        return [103, OS(qname(h)), F(d["entries"]), F(d["mean"]), F(d["varianceTimesEntries"])]
    if name == "Bag":
        rng = d["range"]
        items = sorted(d["values"].items(), key=lambda kv: bagkey_sort(kv[0]))
        out = [106, 0 if rng == "S" else 1 if rng == "N" else 2 + int(rng[1:]), OS(qname(h)), F(d["entries"]), len(items)]
        for k, c in items:
            out += [BK(k, rng), F(c)]
        return out
    if name == "Bin":
        head = [200, F(d["low"]), F(d["high"])]
        fx = list(d["values"]) + [d["underflow"], d["overflow"], d["nanflow"]]
        sp = []
        hasq = True
    elif name == "SparselyBin":
        head = [201, F(d["binWidth"]), F(d["origin"])]
        fx = [d["nanflow"]]
        sp = sorted(((_pykey(k), v) for k, v in d["bins"].items()), key=lambda kv: key_sort(kv[0]))
        hasq = True
    elif name in ("CentrallyBin", "IrregularlyBin", "Stack"):
        tag = {"CentrallyBin": 202, "IrregularlyBin": 203, "Stack": 204}[name]
        cs = [c for c, v in d["bins"]]
        head = [tag, len(cs)] + [F(c) for c in cs]
        fx = [v for c, v in d["bins"]] + [d["nanflow"]]
        sp = []
        hasq = True
    elif name == "Fraction":
        head = [205]
        fx = [d["denominator"], d["numerator"]]
        sp = []
        hasq = True
    elif name == "Select":
        head = [206]
        fx = [d["cut"]]
        sp = []
        hasq = True
    elif name == "Categorize":
        head = [207]
        fx = []
        sp = sorted(((_pykey(k), v) for k, v in d["bins"].items()), key=lambda kv: key_sort(kv[0]))
        hasq = True
    elif name in ("Label", "UntypedLabel"):
        ks = sorted(d["pairs"].keys(), key=lambda s: s.encode("utf-8"))
        head = [208 if name == "Label" else 209, len(ks)] + [S(kk) for kk in ks]
        fx = [d["pairs"][kk] for kk in ks]
        sp = []
        hasq = False
    elif name in ("Index", "Branch"):
        head = [210 if name == "Index" else 211]
        fx = list(d["values"])
        if name == "Branch" and any(d.get("i%d" % k_) is not v_ for k_, v_ in enumerate(fx[:10])):
            # a Branch publishes its first ten children a second time, as i0 ... i9: the two handles
            # are one object (the model has one list); a stale handle is reported as a foreign token
            head = [2119]
        sp = []
        hasq = False
    else:
        raise ValueError("unknown container " + name)
    if prune:
        sp = [(kk, c) for kk, c in sp if c.entries != 0.0]
    out = head + ([OS(qname(h))] if hasq else []) + [F(d["entries"]), len(fx)]
    for c in fx:
        out += tree(c, prune)
    out.append(len(sp))
    for kk, c in sp:
        out += [K(kk)] + tree(c, prune)
    return out


def tokens(items):
    out = []
    for it in items:
        if isinstance(it, F):
            out += ftok(it.x)
        elif isinstance(it, S):
            out += tok_str(it.s)
        elif isinstance(it, OS):
            out += tok_optstr(it.s)
        elif isinstance(it, K):
            out += tok_key(it.k)
        elif isinstance(it, BK):
            out += tok_bagkey(it.k, it.rng)
        else:
            out.append(int(it))
    return out


# once a vectorised fill has happened in a program of a pruning machine, every later observation is
# taken up to the empty sparse bins / categories the numpy kernels leave behind
PRUNE = [False]


def snap(h):
    return tokens(tree(h, PRUNE[0]))


def same_value(x, y):
    return (x != x and y != y) or x == y


def close(x, y, rel=1e-9, ab=1e-9):
    if x != x or y != y:
        return x != x and y != y
    if x == y:
        return True
    if abs(x) == INF or abs(y) == INF:
        return False
    return abs(x - y) <= max(ab, rel * max(abs(x), abs(y)))


def compare_trees(a, b, exact=True):
    """None if equal, else a short description of the first difference"""
    if len(a) != len(b):
        return "different shape (%d vs %d items)" % (len(a), len(b))
    for i, (x, y) in enumerate(zip(a, b)):
        if isinstance(x, F) and isinstance(y, F):
            ok = same_value(x.x, y.x) if exact else close(x.x, y.x)
            if not ok:
                return "item %d: %r vs %r" % (i, x.x, y.x)
        elif type(x) is not type(y):
            return "item %d: kinds differ" % i
        elif isinstance(x, (S, OS)):
            if x.s != y.s:
                return "item %d: %r vs %r" % (i, x.s, y.s)
        elif isinstance(x, K):
            if tok_key(x.k) != tok_key(y.k):
                return "item %d: key %r vs %r" % (i, x.k, y.k)
        elif isinstance(x, BK):
            if tok_bagkey(x.k, x.rng) != tok_bagkey(y.k, y.rng):
                def keyclose(p, q):
                    if isinstance(p, (tuple, list)) and isinstance(q, (tuple, list)):
                        return len(p) == len(q) and all(keyclose(u, v) for u, v in zip(p, q))
                    if isinstance(p, (str, tuple, list)) or isinstance(q, (str, tuple, list)):
                        return p == q
                    return close(float(p), float(q))
                if exact or not keyclose(x.k, y.k):
                    return "item %d: bag key %r vs %r" % (i, x.k, y.k)
        elif x != y:
            return "item %d: %r vs %r" % (i, x, y)
    return None


def jtok(doc):
    """canonical tokens of a JSON document (object keys sorted), as Json.tok_json"""
    if doc is None:
        return [0]
    if isinstance(doc, (bool, int, float)):
        return [2] + ftok(doc)          # numbers by value: a bool is 0/1
    if isinstance(doc, str):
        return [3] + tok_str(doc)
    if isinstance(doc, (list, tuple)):
        out = [4, len(doc)]
        for x in doc:
            out += jtok(x)
        return out
    if isinstance(doc, dict):
        out = [5, len(doc)]
        for k in sorted(doc, key=lambda s: str(s).encode("utf-8")):
            out += tok_str(str(k)) + jtok(doc[k])
        return out
    raise TypeError("not JSON: %r" % (doc,))


def exc_class(e):
    n = type(e).__name__
    if n in ("ContainerException",):
        return "Container"
    if n in ("JsonFormatException", "InvalidJsonException"):
        return "JsonFormat"
    if isinstance(e, TypeError):
        return "Type"
    if isinstance(e, ValueError):
        return "Value"
    return n


# ----------------------------------------------------------------------------- program execution
class Machine:
    """executes ops on real objects; one observation (token list) per op, like Run.step"""

    prunes = False     # subclasses: observe up to empty sparse bins after the first vectorised fill

    def __init__(self):
        self.pool = []
        self.exc = []   # coarse exception classes, recorded, never compared
        PRUNE[0] = False

    def step(self, op):
        t = op[0]
        p = self.pool
        if t == "new":
            self._news = getattr(self, "_news", 0) + 1
            REV_KEYS[0] = (self._news % 2 == 0) and not getattr(self, "norev", False)
            REV_KEYS[1] = False
            try:
                a = build(op[1])
            finally:
                REV_KEYS[0] = False
                self.rev_used = getattr(self, "rev_used", False) or REV_KEYS[1]
            p.append(a)
            return [0] + snap(a)
        if t == "fill":
            a = p[op[1]]
            self._fills = getattr(self, "_fills", 0) + 1
            try:
                if op[3] == 1.0 and not isinstance(op[3], bool) and self._fills % 2 == 0:
                    a.fill(tuple(op[2]))          # the default weight (1.0) of the public signature
                else:
                    a.fill(tuple(op[2]), op[3])
                r = 0
            except Exception as e:  # noqa: BLE001
                self.exc.append(exc_class(e))
                r = 1
            return [r] + snap(a)
        if t == "add":
            try:
                c = p[op[1]] + p[op[2]]
            except Exception as e:  # noqa: BLE001
                self.exc.append(exc_class(e))
                p.append(hg.Count())      # keep pool indexes stable (as Run.step does)
                return [1]
            p.append(c)
            return [0] + snap(c)
        if t == "iadd":
            a = p[op[1]]
            try:
                a += p[op[2]]
                r = 0
            except Exception as e:  # noqa: BLE001
                self.exc.append(exc_class(e))
                r = 1
            if a is not p[op[1]]:
                return [2]          # += must return the left object itself
            if r == 1:
                return [1]          # partial state after a rejected += is not compared (Run.step)
            return [r] + snap(p[op[1]])
        if t == "mul":
            try:
                c = p[op[1]] * op[2] if not op[3:] or not op[3] else op[2] * p[op[1]]
            except Exception as e:  # noqa: BLE001
                self.exc.append(exc_class(e))
                p.append(hg.Count())
                return [1]
            p.append(c)
            return [0] + snap(c)
        if t == "zero":
            c = p[op[1]].zero()
            p.append(c)
            return [0] + snap(c)
        if t == "copy":
            c = p[op[1]].copy()
            p.append(c)
            return [0] + snap(c)
        if t == "tojson":
            import json as _json
            doc = p[op[1]].toJson()
            try:
                _json.dumps(doc, allow_nan=False)
            except ValueError:
                return [8]            # not strict JSON (a raw NaN/Infinity in the document)
            return jtok(doc)
        if t == "fromjson":
            import copy as _copy
            doc = _copy.deepcopy(op[1])
            try:
                c = hg.Factory.fromJson(doc)
                ob = [0] + jtok(c.toJson())
            except Exception as e:  # noqa: BLE001
                self.exc.append(exc_class(e))
                p.append(hg.Count())
                return [1]
            try:
                same = (doc == op[1])
            except Exception:  # noqa: BLE001
                same = False
            if not same:
                ob = [3] + ob[1:]          # the reader changed the caller's document (reported as a foreign outcome)
            p.append(c)
            return ob
        if t == "jsonrt":
            try:
                mode = op[2] if len(op) > 2 else "dict"
                if mode == "string":
                    c = hg.Factory.fromJsonString(p[op[1]].toJsonString())
                elif mode == "file":
                    import os
                    import tempfile
                    fd, path = tempfile.mkstemp(suffix=".json", dir=os.environ.get("VERIF_TMP", "/root/scratch"))
                    os.close(fd)
                    try:
                        p[op[1]].toJsonFile(path)
                        c = hg.Factory.fromJsonFile(path)
                    finally:
                        os.unlink(path)
                elif mode == "ed":
                    c = ed_rebuild(p[op[1]])
                else:
                    c = hg.Factory.fromJson(p[op[1]].toJson())
                ob = [0] + snap(c)
            except Exception as e:  # noqa: BLE001
                self.exc.append(exc_class(e))
                p.append(hg.Count())
                return [1]
            p.append(c)
            return ob
        if t == "hash":
            try:
                hash(p[op[1]])
                return [0]
            except Exception as e:  # noqa: BLE001
                self.exc.append(exc_class(e))
                return [1]
        if t == "snapall":
            out = []
            for a in p:
                out += [7777] + snap(a)
            return out
        if t == "fillnp":
            import numpy as np
            a = p[op[1]]
            rows, w = op[2], op[3]
            cols = columns(rows)
            before = [c.copy() for c in cols]
            form = op[4] if len(op) > 4 else "tuple"
            if form == "dict":
                data = dict(zip(FIELDS, cols))
            elif form == "rec":
                data = np.rec.fromarrays(cols, names=FIELDS)
            else:
                data = tuple(cols)
            wa = np.array(w, dtype=float) if isinstance(w, list) else w
            wb = wa.copy() if isinstance(w, list) else None
            self._npfills = getattr(self, "_npfills", 0) + 1
            try:
                # an isolated Count is not specialised (no fill.numpy): its vectorised fill is the
                # public Container.fillnumpy
                npfill = a.fillnumpy if type(a).__name__ == "Count" else a.fill.numpy
                if not isinstance(w, list) and w == 1.0 and self._npfills % 2 == 0:
                    npfill(data)                  # default weights
                else:
                    npfill(data, wa)
                r = 0
            except Exception as e:  # noqa: BLE001
                self.exc.append(exc_class(e))
                r = 1
            if not hasattr(self, "nplog"):
                self.nplog = []
            after = [data[n] for n in FIELDS[:len(cols)]] if form == "rec" else cols
            same = all(_same_array(x, y) for x, y in zip(after, before)) and (wb is None or _same_array(wa, wb))
            self.nplog.append({"inputs_unmodified": same, "raised": self.exc[-1] if r else None})
            if self.prunes:
                PRUNE[0] = True
            return [r] + tokens(tree(a, prune=True))
        if t == "snapp":
            return tokens(tree(p[op[1]], prune=True))
        if t == "view":
            return view_obs(self, p[op[1]], op[2], op[3], op[4])
        if t == "dfhist":
            return dfhist(self, op)
        if t == "clone":
            import pickle
            src = p[op[1]]
            before = snap(src)
            try:
                c = pickle.loads(pickle.dumps(src))
            except Exception as e:  # noqa: BLE001
                self.exc.append(exc_class(e))
                p.append(hg.Count())
                return [1]
            if not hasattr(self, "clonelog"):
                self.clonelog = []
            mine, others = [], []
            idseq(c, mine)
            for h in p:
                idseq(h, others)
            shared = {x[1] for x in mine} & {x[1] for x in others}
            self.clonelog.append({"original_unchanged": snap(src) == before, "shares_objects": bool(shared),
                                  "type_same": type(c) is type(src)})
            p.append(c)
            return [0] + snap(c)
        if t == "eq":
            a, b = p[op[1]], p[op[2]]

            def ev(x, y, neg=False):
                try:
                    v = (x != y) if neg else (x == y)
                    return 1 if v is True else 0 if v is False else 3
                except Exception as e:  # noqa: BLE001
                    self.exc.append(exc_class(e))
                    return 2
            r0, r1 = ev(a, b), ev(b, a)
            hg.util.relativeTolerance = hg.util.absoluteTolerance = op[3]
            try:
                r2 = ev(a, b)
            finally:
                hg.util.relativeTolerance = hg.util.absoluteTolerance = 0.0
            # facts about the implementation alone, for the oracle
            if not hasattr(self, "eqlog"):
                self.eqlog = {}
            fact = {"ne": ev(a, b, True), "docs_equal": a.toJson() == b.toJson(),
                    "qsig_equal": qsig(a) == qsig(b)}
            # one tolerance at a time (the other 0): each alone only widens the comparison
            tols = []
            for rel_, abs_ in ((op[3], 0.0), (0.0, op[3])):
                hg.util.relativeTolerance, hg.util.absoluteTolerance = rel_, abs_
                try:
                    tols.append(ev(a, b))
                finally:
                    hg.util.relativeTolerance = hg.util.absoluteTolerance = 0.0
            fact["one_tolerance"] = tols
            if op[1] == op[2]:
                import pickle
                try:
                    c = pickle.loads(pickle.dumps(a))
                    fact["pickle"] = [ev(c, a), ev(a, c), c.toJson() == a.toJson()]
                except Exception as e:  # noqa: BLE001
                    fact["pickle"] = "raised %s" % type(e).__name__
            self.eqlog[len(self.eqlog)] = fact
            return [r0, r1, r2]
        raise ValueError(t)

    def run(self, ops):
        return [self.step(o) for o in ops]


# ----------------------------------------------------------------------------- identities
def fixed_children(h):
    """fixed children in model order (coq/Model/Agg.v), as (getter key) list"""
    n = h.name
    d = h.__dict__
    if n == "Bin":
        return list(d["values"]) + [d["underflow"], d["overflow"], d["nanflow"]]
    if n == "SparselyBin":
        return [d["nanflow"]]
    if n in ("CentrallyBin", "IrregularlyBin", "Stack"):
        return [v for _, v in d["bins"]] + [d["nanflow"]]
    if n == "Fraction":
        return [d["denominator"], d["numerator"]]
    if n == "Select":
        return [d["cut"]]
    if n in ("Label", "UntypedLabel"):
        return [d["pairs"][k] for k in sorted(d["pairs"], key=lambda s: s.encode("utf-8"))]
    if n in ("Index", "Branch"):
        return list(d["values"])
    return []


def _flist(xs):
    out = [len(xs)]
    for x in xs:
        out += ftok(float(x))
    return out


def view_obs(m, h, lo, hi, xs):
    """the derived views of a binning primitive for the sub-range (lo, hi) (None = open) and the
    probe values xs, as tokens; what was returned is also kept for the oracle"""
    rec = {"lo": lo, "hi": hi, "xs": xs}
    if not hasattr(m, "viewlog"):
        m.viewlog = []
    m.viewlog.append(rec)
    out = []
    for name, call in (("num_bins", lambda: h.num_bins(lo, hi)),
                       ("bin_edges", lambda: h.bin_edges(lo, hi)),
                       ("bin_centers", lambda: h.bin_centers(lo, hi)),
                       ("bin_entries", lambda: h.bin_entries(lo, hi)),
                       ("entries_at", lambda: h.bin_entries(xvalues=list(xs)) if xs else [])):
        try:
            v = call()
            rec[name] = int(v) if name == "num_bins" else [float(x) for x in v]
            out += [0] + ([rec[name]] if name == "num_bins" else _flist(rec[name]))
        except Exception as e:  # noqa: BLE001
            m.exc.append(exc_class(e))
            rec[name] = "raised %s: %s" % (type(e).__name__, str(e)[:80])
            out += [1]
    return out


def dfhist(m, op):
    """("dfhist", cols, dtypes, specs, rows, extra): make_histograms on the frame of the rows for the
    feature ":".join(cols) with explicit bin_specs; pushes the histogram"""
    from harness import dfspec
    from histogrammar.dfinterface.make_histograms import make_histograms
    _, cols, dtypes, specs, rows, extra = op
    key = ":".join(cols)
    allcols = extra.get("columns", cols)
    df = dfspec.frame(rows, allcols, dtypes, extra.get("ts_unit", "ns"), extra.get("index"))
    before = df.copy(deep=True)
    call_specs = list(specs)
    bs = {}
    for c, sp in (extra.get("col_specs") or {}).items():
        # the n-dim entry leaves this axis open ({}): it reverts to the 1-dim specification
        bs[c] = sp
        call_specs[cols.index(c)] = {}
    bs[key] = call_specs[0] if len(cols) == 1 else call_specs
    kw = {"features": [key], "bin_specs": bs}
    if extra.get("time_axis"):
        kw.update(time_axis=extra["time_axis"], time_width=extra["time_width"], time_offset=extra["time_offset"])
    if not hasattr(m, "dflog"):
        m.dflog = []
    rec = {"rows": len(rows), "key": key}
    m.dflog.append(rec)
    try:
        import io
        import contextlib
        with contextlib.redirect_stderr(io.StringIO()):
            hists = make_histograms(df, **kw)
        h = hists[key]
    except Exception as e:  # noqa: BLE001
        m.exc.append(exc_class(e))
        rec["raised"] = "%s: %s" % (type(e).__name__, str(e)[:120])
        m.pool.append(hg.Count())
        return [1]
    rec["entries"] = float(h.entries)
    rec["unmodified"] = bool(df.equals(before))
    try:
        import pickle
        c_ = pickle.loads(pickle.dumps(h))
        rec["pickles"] = tokens(tree(c_, prune=True)) == tokens(tree(h, prune=True))
    except Exception as e:  # noqa: BLE001
        rec["pickles"] = "%s: %s" % (type(e).__name__, str(e)[:100])
    m.pool.append(h)
    return [0] + tokens(tree(h, prune=True))


def columns(rows):
    """the batch as one numpy array per datum field (floats/bools -> float64 or bool arrays,
    categories -> str arrays)"""
    import numpy as np
    n = len(rows[0]) if rows else NFIELDS_DEFAULT
    cols = []
    for j in range(n):
        vals = [r[j] for r in rows]
        if all(isinstance(v, str) for v in vals) and vals:
            cols.append(np.array(vals, dtype=object))
        elif all(isinstance(v, bool) for v in vals) and vals:
            cols.append(np.array(vals, dtype=bool))
        else:
            cols.append(np.array([float(v) if not isinstance(v, str) else np.nan for v in vals], dtype=np.float64))
    return cols


NFIELDS_DEFAULT = 5


def _same_array(x, y):
    import numpy as np
    if x.dtype == object or y.dtype == object:
        return list(x) == list(y)
    return x.shape == y.shape and bool(np.all((x == y) | ((x != x) & (y != y))))


def _code(f):
    e = getattr(f, "expr", None)
    if e is None:
        return None
    c = getattr(e, "__code__", None)
    return c.co_code if c is not None else repr(e)


def qsig(h):
    """what == may legitimately see beyond the JSON document: quantity names and code, Count's
    transform, and the template of sparse containers"""
    if h is None:
        return None
    d = h.__dict__
    q = d.get("quantity")
    qs = (getattr(q, "name", None), _code(q)) if q is not None else None
    tr = _code(d["transform"]) if h.name == "Count" else None
    tm = None
    if h.name in ("SparselyBin", "Categorize") and d.get("value") is not None:
        tm = (qsig(d["value"]), d["value"].toJson())      # the template's own parameters count too
    return (h.name, qs, tr, [qsig(c) for c in fixed_children(h)],
            [qsig(c) for c in sparse_children(h)], tm)


def sparse_children(h):
    if h.name in ("SparselyBin", "Categorize"):
        return [v for _, v in sorted(((_pykey(k), v) for k, v in h.__dict__["bins"].items()),
                                     key=lambda kv: key_sort(kv[0]))
                if not (PRUNE[0] and v.entries == 0.0)]
    return []


def container_of(h):
    """the mutable container object a node owns, if any"""
    n = h.name
    d = h.__dict__
    if n == "Bag":
        return d["values"]
    if n == "Bin":
        return d["values"]
    if n in ("SparselyBin", "Categorize", "CentrallyBin"):
        return d["bins"]
    if n in ("Label", "UntypedLabel"):
        return d["pairs"]
    return None          # tuples (IrregularlyBin/Stack bins, Index/Branch values) are immutable


def idseq(h, out):
    """identities of all fillable positions in the order of Forest.ids (templates excluded);
    an object installed at two positions is traversed at both (as in the model)"""
    out.append(("o", id(h)))
    c = container_of(h)
    out.append(("c", id(c)) if c is not None else ("p", id(h)))
    for k in fixed_children(h):
        idseq(k, out)
    for k in sparse_children(h):
        idseq(k, out)


def canon(seq):
    first = {}
    out = []
    for x in seq:
        if x not in first:
            first[x] = len(first)
        out.append(first[x])
    return out


def set_fixed_child(h, i, obj):
    n = h.name
    d = h.__dict__
    if n == "Bin":
        num = len(d["values"])
        if i < num:
            d["values"][i] = obj
        else:
            d[["underflow", "overflow", "nanflow"][i - num]] = obj
    elif n == "SparselyBin":
        d["nanflow"] = obj
    elif n in ("CentrallyBin", "IrregularlyBin", "Stack"):
        bins = list(d["bins"])
        if i < len(bins):
            bins[i] = (bins[i][0], obj)
            d["bins"] = bins if n == "CentrallyBin" else tuple(bins)
        else:
            d["nanflow"] = obj
    elif n == "Fraction":
        d[["denominator", "numerator"][i]] = obj
    elif n == "Select":
        d["cut"] = obj
    elif n in ("Label", "UntypedLabel"):
        k = sorted(d["pairs"], key=lambda s: s.encode("utf-8"))[i]
        d["pairs"][k] = obj
    elif n in ("Index", "Branch"):
        vs = list(d["values"])
        vs[i] = obj
        d["values"] = tuple(vs)
        if n == "Branch":
            setattr(h, "i" + str(i), obj)
    else:
        raise ValueError("no fixed children in " + n)


def get_path(h, path):
    for i in path:
        h = fixed_children(h)[i]
    return h


class PruneMachine(Machine):
    prunes = True


def wide_sparse(h, limit=200000):
    """does the tree contain a SparselyBin whose filled indexes span more than `limit` bins?"""
    try:
        if getattr(h, "name", "") == "SparselyBin":
            ks = [int(k) for k in h.bins.keys()]     # (numpy int64 keys: the difference would wrap)
            if ks and max(ks) - min(ks) > limit:
                return True
        return any(wide_sparse(c, limit) for c in list(fixed_children(h)) + list(sparse_children(h)))
    except Exception:  # noqa: BLE001
        return True


_ED_PARAMS = {"entries", "contentType", "binsAsDict", "pairsAsDict", "self", "values"}


def ed_rebuild(h):
    """the immutable twin of h built directly with the public .ed() constructors - what fromJson does
    after parsing, but through the keyword / positional forms a user would write (default arguments
    included); quantity names are copied node by node"""
    n = h.name

    def named_(out):
        if hasattr(h, "quantity") and hasattr(out, "quantity"):
            out.quantity.name = h.quantity.name
        return out.specialize() if hasattr(out, "specialize") else out
    R = ed_rebuild
    if n in ("Count", "Sum", "Average", "Deviate", "Minimize", "Maximize", "Bag"):
        # (the leaves' ed() forms have no optional parameters: same path as the reader)
        return type(h).fromJsonFragment(h.toJsonFragment(False), None)
    if n == "Bin":
        return named_(hg.Bin.ed(h.low, h.high, h.entries, [R(v) for v in h.values], R(h.underflow), R(h.overflow), R(h.nanflow)))
    if n == "SparselyBin":
        ct = h.toJsonFragment(False)["bins:type"]
        return named_(hg.SparselyBin.ed(h.binWidth, h.entries, ct, {k: R(v) for k, v in h.bins.items()}, R(h.nanflow), h.origin))
    if n in ("CentrallyBin", "IrregularlyBin", "Stack"):
        return named_(getattr(hg, n).ed(h.entries, [(c, R(v)) for c, v in h.bins], R(h.nanflow)))
    if n == "Fraction":
        return named_(hg.Fraction.ed(h.entries, R(h.numerator), R(h.denominator)))
    if n == "Select":
        return named_(hg.Select.ed(h.entries, R(h.cut)))
    if n == "Categorize":
        ct = h.toJsonFragment(False)["bins:type"]
        bins = {str(k): R(v) for k, v in h.bins.items()}
        if any(k in _ED_PARAMS or not k.isidentifier() for k in bins) or len(bins) != len(h.bins):
            return named_(hg.Categorize.ed(h.entries, ct, binsAsDict=bins))
        return named_(hg.Categorize.ed(h.entries, ct, **bins))
    if n in ("Label", "UntypedLabel"):
        pairs = {k: R(v) for k, v in h.pairs.items()}
        if any(k in _ED_PARAMS or not k.isidentifier() for k in pairs):
            return getattr(hg, n).ed(h.entries, pairsAsDict=pairs).specialize()
        return getattr(hg, n).ed(h.entries, **pairs).specialize()
    if n in ("Index", "Branch"):
        return getattr(hg, n).ed(h.entries, *[R(v) for v in h.values]).specialize()
    raise ValueError(n)


class IdMachine(Machine):
    """like Machine, and after every op also observes the identity partition of the whole pool
    and the snapshots of all entries (for the non-interference oracle)"""
    prunes = True

    def __init__(self):
        super().__init__()
        self.snaps = []      # per op: list of token lists, one per pool entry

    def pids(self):
        seq = []
        for h in self.pool:
            idseq(h, seq)
        return canon(seq)

    def step(self, op):
        if op[0] == "pure":
            # read-only operations: ==, !=, hash, repr, toJson and the read accessors; what they return is
            # not compared here (C09/C04/C13 do that): the frame oracle checks that nothing changed
            a, b = self.pool[op[1]], self.pool[op[2]]
            reads = [lambda: a == b, lambda: a != b, lambda: hash(a), lambda: repr(a), lambda: a.toJson(),
                     lambda: a.toJsonString(), lambda: a.children, lambda: a.n_dim, lambda: a.zero(), lambda: a.copy()]
            if hasattr(a, "quantity"):
                # the wrapper functions applied to a quantity an aggregator already holds return new
                # wrappers (or raise for a second name); they never change the one they are given
                reads += [lambda: hg.util.named("renamed_by_a_probe", a.quantity),
                          lambda: hg.util.serializable(a.quantity), lambda: hg.util.cached(a.quantity)]
            if not wide_sparse(a):
                # (the range accessors of a SparselyBin allocate one array cell per index between the
                # first and the last filled bin: gigabytes when two data are 1e9 bin widths apart)
                reads += [lambda: a.num_bins(), lambda: a.bin_edges(), lambda: a.bin_entries(), lambda: a.bin_centers(),
                          lambda: a.mpv, lambda: a.project_on_x(), lambda: a.xy_ranges_grid()]
            for f in reads:
                try:
                    f()
                except Exception:  # noqa: BLE001
                    pass
            # helper methods that return a new aggregator: it shares no object with any aggregator of
            # the pool (nor does a look-up insert what it was given)
            mine = []
            for h_ in self.pool:
                idseq(h_, mine)
            own = {x[1] for x in mine}
            probe = hg.Count()
            for nm_, f in (("zero", lambda: a.zero()), ("copy", lambda: a.copy()), ("histogram", lambda: a.histogram()),
                           ("getOrElse", lambda: a.getOrElse("no such category", probe)),
                           ("get", lambda: a.get("no such category")), ("mul", lambda: a * 1.0)):
                try:
                    res = f()
                except Exception:  # noqa: BLE001
                    continue
                if res is None or res is probe or not hasattr(res, "entries"):
                    continue
                theirs = []
                try:
                    idseq(res, theirs)
                except Exception:  # noqa: BLE001
                    continue
                if own & {x[1] for x in theirs}:
                    if not hasattr(self, "purelog"):
                        self.purelog = []
                    self.purelog.append("%s() of pool[%d] returned an aggregator that shares objects with the pool" % (nm_, op[1]))
            self.snaps.append([snap(h) for h in self.pool])
            return [9]
        if op[0] == "share":
            h = self.pool[op[1]]
            obj = get_path(h, op[2])
            parent = get_path(h, op[3][:-1])
            set_fixed_child(parent, op[3][-1], obj)
            ob = [0] + snap(h) + [-777] + self.pids()
        elif op[0] == "graft":
            # a new collection built (public constructor) over an existing, possibly already filled
            # and checked, tree and one of its inner nodes: the constructor keeps the objects
            h = self.pool[op[1]]
            x = get_path(h, op[2])
            mode = op[3] if len(op) > 3 else "branch"
            if mode == "edlabel":
                root = hg.Label.ed(0.0, a=x, b=x)          # the immutable form takes live objects too
            elif mode == "edindex":
                root = hg.Index.ed(0.0, x, x)
            else:
                root = hg.Branch(h, x)
            self.pool.append(root)
            ob = [0] + snap(root) + [-777] + self.pids()
        else:
            ob = super().step(op)
            if op[0] == "hash":
                pass
            elif op[0] == "snapall":
                ob = self.pids()
            elif ob == [1] or ob == [2]:
                pass
            else:
                ob = ob + [-777] + self.pids()
        self.snaps.append([snap(h) for h in self.pool])
        return ob


# ----------------------------------------------------------------------------- C17: wrappers
def to_record(d, rec):
    import types as _types
    if rec == "tuple":
        return tuple(d)
    if rec == "scalar":
        return d[0]
    m = dict(zip(FIELDS, d))
    return m if rec == "dict" else _types.SimpleNamespace(**m)


def tok_value(v):
    if isinstance(v, (bool,)) or type(v).__name__ == "bool_":
        return [1, 1 if v else 0]
    if isinstance(v, str):
        return [2] + tok_str(v)
    if v is None:
        return [3]
    return [0] + ftok(float(v))


class FcnMachine(Machine):
    """base ops on trees whose quantities come in every wrapper form, filled with records of the
    representation named in the op; plus wrapper scenarios"""

    def step(self, op):
        t = op[0]
        if t == "fill":
            rec = op[4] if len(op) > 4 else "tuple"
            a = self.pool[op[1]]
            try:
                self._fills = getattr(self, "_fills", 0) + 1
                if op[3] == 1.0 and not isinstance(op[3], bool) and self._fills % 2 == 0:
                    a.fill(to_record(op[2], rec))
                else:
                    a.fill(to_record(op[2], rec), op[3])
                r = 0
            except Exception as e:  # noqa: BLE001
                self.exc.append(exc_class(e))
                r = 1
            return [r] + snap(a)
        if t == "wrap":
            _, sd, wops, ds, rec = op
            try:
                u = apply_wops(mk_src(sd["form"], sd["e"], "dict" if rec == "mixed" else rec, sd.get("fname", "myfn")), wops)
            except ValueError as e:
                self.exc.append(exc_class(e))
                return [1]
            if not isinstance(u, hg.util.UserFcn):
                return [2]
            out = [0, 1 if isinstance(u, hg.util.CachedFcn) else 0] + tok_optstr(u.name)
            # the same function unwrapped, called on fresh copies of the records: the reference
            forms = ["dict", "attr", "scalar"] if rec == "mixed" else [rec]
            raws = {f: mk_src(sd["form"] if sd["form"] != "str" else "lam", sd["e"], f) for f in forms}
            if not hasattr(self, "wraplog"):
                self.wraplog = []
            log = []
            for d in ds:
                if rec == "mixed":
                    fm, d = d[0], d[1]
                else:
                    fm = rec
                raw = raws[fm]
                try:
                    v = u(to_record(d, fm))
                    out += [0] + tok_value(v)
                    got = ("v", tok_value(v))
                except Exception as e:  # noqa: BLE001
                    self.exc.append(exc_class(e))
                    out += [1]
                    got = ("raise",)
                try:
                    w = raw(to_record(d, fm))
                    ref = ("v", tok_value(w))
                except Exception:  # noqa: BLE001
                    ref = ("raise",)
                log.append((got, ref))
            self.wraplog.append(log)
            return out
        if t == "wraparr":
            # calls with arrays (a dict of columns) interleaved with calls on single records; the model
            # only builds the wrapper (arrays are not model values): the oracle compares with the bare function
            import numpy as np
            _, sd, wops, calls = op
            try:
                u = apply_wops(mk_src(sd["form"], sd["e"], "dict", sd.get("fname", "myfn")), wops)
            except ValueError as e:
                self.exc.append(exc_class(e))
                return [1]
            raw = mk_src(sd["form"] if sd["form"] != "str" else "lam", sd["e"], "dict")
            if not hasattr(self, "arrlog"):
                self.arrlog = []
            log = []
            for kind, payload in calls:
                if kind == "rec":
                    arg = to_record(payload, "dict")
                else:
                    cols = columns(payload)
                    arg = dict(zip(FIELDS, cols))

                def run(f):
                    try:
                        v = f(arg)
                        return ("v", np.asarray(v, dtype=float).tolist() if kind == "arr" else tok_value(v))
                    except Exception as e:  # noqa: BLE001
                        return ("raise", type(e).__name__)
                got, ref = run(u), run(raw)
                same = (got == ref) or (got[0] == ref[0] == "v" and kind == "arr" and
                                        _same_array(np.asarray(got[1], dtype=float), np.asarray(ref[1], dtype=float)))
                log.append({"kind": kind, "same": bool(same), "got": got, "ref": ref})
            self.arrlog.append(log)
            return [0, 1 if isinstance(u, hg.util.CachedFcn) else 0] + tok_optstr(u.name)
        if t == "feq":
            _, sd1, w1, sd2, w2, rec = op
            try:
                a = apply_wops(mk_src(sd1["form"], sd1["e"], rec, sd1.get("fname", "myfn")), w1)
                b = apply_wops(mk_src(sd2["form"], sd2["e"], rec, sd2.get("fname", "myfn")), w2)
                return [1 if a == b else 0]
            except Exception as e:  # noqa: BLE001
                self.exc.append(exc_class(e))
                return [2]
        return super().step(op)


class DfMachine(Machine):
    """results of + are observed up to the empty bins the vectorised fills leave behind"""

    def step(self, op):
        if op[0] == "add":
            try:
                c = self.pool[op[1]] + self.pool[op[2]]
            except Exception as e:  # noqa: BLE001
                self.exc.append(exc_class(e))
                self.pool.append(hg.Count())
                return [1]
            self.pool.append(c)
            return [0] + tokens(tree(c, prune=True))
        return super().step(op)
