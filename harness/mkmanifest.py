"""Regenerates MANIFEST.json from the table below (kept in one place so that it stays valid)."""
import json
import os

VERIF = os.path.dirname(os.path.dirname(os.path.abspath(__file__)))

TIE = ("tied to /repo by running the executable Gallina model (binary64 = Coq primitive floats, "
       "bit-exact; exact = rationals with IEEE special values) and the implementation on the same "
       "generated programs on every run, and by evaluating the theorem statements on the "
       "implementation's own observations")

CHECKS = {
    "C01": ("proof",
            "Coq theorems (exact instance, closed under the global context): + is a commutative "
            "monoid on the well-formed states of a specification, zero its unit, fill a "
            "homomorphism, hence every partition / parenthesisation / order of + gives the "
            "aggregate of the whole stream; " + TIE,
            "hypotheses of the theorems: weights finite-positive or gated; Average/Deviate leaves "
            "receive finite quantities; no fill raises. Model hand-written, tie sampled; exact "
            "laws decided on exact-safe programs only",
            "section 6 C01"),
    "C02": ("proof",
            "Coq theorems: for every arithmetic instance, after any stream none of whose fills raises "
            "a node's entries are its initial entries plus the weights > 0 and every fixed child holds "
            "the aggregate of exactly the sub-stream routed to it (the rows of that bin / flow / "
            "threshold / selection, with the weight the node gives them); at the exact instance the "
            "closed forms of Count, Sum, Average and Deviate on finite data (sum of weights, weighted "
            "sum, entries*mean = sum w*q, varianceTimesEntries = sum w*q^2 - entries*mean^2), the extrema "
            "of Minimize / Maximize over any quantities incl. +-inf and NaN (not above/below any non-NaN "
            "quantity, one of the quantities, NaN only if nothing else was filled), the value -> weight "
            "map of a Bag of any range (strings, numbers with NaN under 'nan', vectors), every sparse child (SparselyBin index, Categorize "
            "category) = the template filled with exactly the rows routed to its key (every instance), order "
            "independence of fill, the weight gate and its meaning; the independent exact-rational "
            "reference semantics (harness/refsem.py) is evaluated against the implementation on "
            "every exact program; " + TIE,
            "the closed forms are stated for "
            "finite data and positive weights (extrema and Bag: any quantities); exact laws decided on "
            "exact-safe programs only",
            "section 6 C02"),
    "C03": ("proof",
            "the model of fill.numpy(columns, weights) is the property's right-hand side (the rows "
            "filled one by one with their weights); Coq theorems about it for every arithmetic "
            "instance: every split of a batch into successive calls gives the same aggregate and "
            "outcome, rows of weight zero do not count, and (exact instance) a batch is the aggregate "
            "of the batch alone merged into the accumulator; the column decomposition the kernels "
            "implement (fill of a node with a batch = fill of every fixed / sparse child with the "
            "sub-column of the rows routed to it) is the row semantics, and the batch formulas of "
            "Average._numpy / Deviate._numpy (weighted mean of the selection merged by the "
            "weighted-average and parallel-axis formulas) give exactly the state the row fills reach "
            "(exact instance); a Count handed a sub-column holds its entries plus the weights > 0 of that "
            "sub-column (the counting fast paths); " + TIE + ": a vectorised instance (dict "
            "of arrays or record array) and a row-by-row instance of the same tree are driven through "
            "the same batches (0-10 rows over the tree's critical values, weight 1 / scalar / "
            "non-negative array with zeros) and compared with each other and with the model after "
            "every batch, up to empty sparse bins; the input arrays are compared with copies",
            "partial: the numpy kernels themselves (masks, bincount, np.unique, np.histogram fast paths) "
            "are not modelled, so 'kernel = row semantics' is decided by differential checking (with a "
            "stratum for the Count-valued fast paths under every weight mode), not by a theorem; bit-for-bit only where the arithmetic is exact, otherwise to 1e-9; "
            "Average/Deviate on well-conditioned data only; tuple-of-arrays input and negative "
            "weights are outside the claim",
            "section 6 C03"),
    "C04": ("proof",
            "Coq theorems: toJson is strict JSON for every tree and every arithmetic instance; "
            "fromJson(toJson(leaf)) is the immutable leaf with the same numbers and the inherited "
            "name for Count/Sum/Average/Deviate/Minimize/Maximize (exact instance, both name "
            "positions), Deviate's variance/vte conversion loses nothing; for every tree of every shape "
            "and depth the reader accepts (predicate jwf: the shape the constructors produce, sparse maps "
            "sorted with integer / string keys, Bag keys agreeing with the declared range) "
            "Factory.fromJson(toJson(h)) succeeds, yields the tree reload(h) given in closed form (names "
            "inherited through values:name / bins:name / sub:name) and that tree writes the IDENTICAL "
            "document (exact instance; int(str(z)) = z for the sparse keys via the standard library's "
            "decimal printer); " + TIE + ": the model's "
            "toJson document is compared token by token with the implementation's, the model's "
            "fromJson result with the implementation's reload, and fixpoint / interchangeability "
            "under +, *, zero, copy are evaluated on the implementation's documents",
            "partial: equality of the reload with the original's content and the algebra (+, *, zero, "
            "copy) on the reload are decided by the document correspondence and the oracle on generated "
            "trees, not by a Coq theorem (exactly on exact-safe programs, to 1e-9 otherwise: a reloaded "
            "Deviate went through variance = vte/entries); the two clauses of jwf a reachable tree can "
            "violate are the two known findings (Coq witness C04_empty_sparse_name_refuted); via-string "
            "/ via-file loading is exercised on the implementation only",
            "section 6 C04"),
    "C05": ("proof",
            "Coq theorems (exact instance): the bookkeeping invariant holds at zero and is "
            "preserved by every successful fill (the weight reaches exactly one bin), by + and by "
            "scaling, hence in every state of every history (inv_reach); for every arithmetic "
            "instance, binary64 included: a successful routing of Bin / SparselyBin / CentrallyBin / "
            "IrregularlyBin / Categorize hands the whole weight to exactly one slot and nothing to "
            "any other (route_one_slot_any, C05_one_slot_f64); " + TIE + "; the "
            "invariant and 'no numeric value makes fill raise' are evaluated on the implementation "
            "after every operation, with +-ulp probes of every edge",
            "the invariant includes the Stack clause (levels non-increasing for ascending thresholds, "
            "level 0 + nanflow = entries); partial in one respect: totality of the binary64 routing (index "
            "in range for every double, i.e. no numeric value makes fill raise) is checked on the implementation (+-ulp probes of every edge) "
            "and by the bit-exact correspondence only, not proved; histories with vectorised fills, "
            "JSON reloads and pickle clones are checked, the kernels themselves are not modelled",
            "section 6 C05"),
    "C06": ("proof",
            "Coq theorems for every arithmetic instance on the identity layer: an operation of the "
            "history machine changes at most its designated target (frame), results of "
            "constructors, +, *, zero, copy consist of new objects distinct from all existing ones, and in-place "
            "operations keep the pool free of sharing; "
            + TIE + "; the identity partition (id() of every aggregator and of every dict/list it "
            "owns, across the whole pool) is compared with the model after every operation, and the "
            "snapshots of all non-target entries must stay unchanged",
            "also proved: the pool-wide separation invariant (no identity occurs twice anywhere, all "
            "below the allocation counter) is preserved when a result is pushed and when an in-place "
            "operation (fill, fill.numpy, +=) extends its target (ForestSep.extend_ok); the step from "
            "'no shared objects' to Python's heap semantics is argued in DESIGN.md, not proved",
            "section 6 C06"),
    "C07": ("proof",
            "Coq theorems for every arithmetic instance: on every pair that + accepts, += yields "
            "exactly add_t a b and does not raise; += and + accept the same pairs; " + TIE +
            "; identity of the left operand and absence of leaks are observed on the implementation",
            "aliasing after += (identity graph) belongs to the Forest layer / C06",
            "section 6 C07"),
    "C08": ("proof",
            "Coq theorems (exact instance): h*f = refill with weights*f, multiplicative, h*1=h, "
            "h*2=h+h, distributes over +, non-positive/NaN factor gives zero, Count with a "
            "transform refuses, the product is a well-formed state of the same specification, and "
            "scaling commutes with the JSON round trip (reloading h*f gives (the reload of h)*f, which "
            "writes the document of h*f; every tree the reader accepts); " + TIE,
            "finite positive factors; binary64 rounding of the products is compared on the "
            "implementation (exactly on exact-safe programs, to 1e-9 otherwise)",
            "section 6 C08"),
    "C09": ("proof",
            "Coq theorems (exact instance): a == b holds exactly when the two aggregators have the same "
            "content (primitive, structural parameters, quantity names and code, every number of "
            "every node with NaN = NaN, children in order, bin keys and bin contents, declared bin "
            "type and template of sparse containers) - soundness, completeness, reflexivity, "
            "symmetry, transitivity, copy(); finite tolerances only widen == (and, for every "
            "arithmetic instance, a wider numeric comparison never turns equal into unequal); " + TIE +
            ": the truth values of a == b, b == a and a == b at tolerance 2^-40 are compared with "
            "the model on pairs that differ at exactly one point (spec mutation, one extra fill, "
            "document mutation), and == is compared with equality of the toJson documents; != and "
            "the pickle clone are checked on the implementation",
            "equality of an immutable container with its JSON reload is decided by the "
            "correspondence and the oracle; NaN centers of a "
            "CentrallyBin are excluded (compared with the plain ==); Bag of vectors is not modelled",
            "section 6 C09"),
    "C10": ("proof",
            "Coq theorems for every arithmetic instance: + returns a result only on compatible "
            "operands and raises otherwise; += raises whenever + does, and leaves the left operand "
            "untouched when the mismatch is visible at the top of the operands; the full "
            "'unchanged' statement is refuted in Coq for nested mismatches (known finding "
            "C10-iadd-partial); " + TIE,
            "compatibility of generated pairs is decided by an independent Python transcription "
            "of the property text",
            "section 6 C10"),
    "C11": ("proof",
            "in the model a pickle clone is the same value pushed as a new pool entry with fresh "
            "identities; Coq theorems: every existing entry (content and identities) is untouched by "
            "the clone step (frame theorem of the identity layer, every arithmetic instance), the "
            "clone compares equal to the original (exact instance), and original and clone agree "
            "under every identical continuation of fills and batches; " + TIE + ": trees whose "
            "quantities are lambdas / defs / string expressions, plain, named and cached in every "
            "wrapper order, in live, summed, scaled, copied and JSON-reloaded states, are pickled; "
            "original and clone are compared with ==, toJson, and after identical row fills, a "
            "vectorised batch (an isolated Count through Container.fillnumpy), +, and a second clone; "
            "defs that read constants from module globals are pickled next to an aggregator of the same "
            "shape with other values; identities of the clone are checked to be disjoint from every "
            "existing aggregator",
            "partial: pickle / marshal of the objects and of function code are not modelled - that "
            "the implementation's clone behaves like the model's is decided by differential "
            "checking, not by a theorem; closures over mutable state are outside the claim",
            "section 6 C11"),
    "C12": ("proof",
            "Coq theorems for every arithmetic instance: a raising fill returns a single-path tree "
            "unchanged (any depth, both failure modes), a stream with skipped failures equals the "
            "aggregate of the survivors, and no survivor raises; " + TIE,
            "faults are injected through quantity functions; collections/Fraction/Stack are outside "
            "the guarantee as the property says",
            "section 6 C12"),
    "C13": ("proof",
            "Coq theorems about the transcribed accessors: for Bin (every sub-range, every arithmetic "
            "instance) and SparselyBin (every range reaching the filled bins) one more edge than bins "
            "and one centre and one entry per bin; the views of Bin, SparselyBin and CentrallyBin look "
            "a value up with the very index fill routes it with; (exact instance) the Bin / SparselyBin "
            "bin a value is filled into is the one whose edges contain it; (every instance) the "
            "CentrallyBin bin is the one between the midpoints around x with ties to the upper bin, the "
            "IrregularlyBin bin the one whose threshold is <= x while the next is not; " + TIE + ": num_bins, bin_edges, "
            "bin_centers, bin_entries for the full range and for sub-ranges on, between and within an "
            "ulp of edges, and bin_entries(xvalues), of all four primitives are compared with the "
            "model; on the implementation the views are also checked against the bins, against the "
            "full-range views (slice, cover) and against where a probe fill lands",
            "partial: shapes of CentrallyBin / IrregularlyBin views and everything about binary64 "
            "rounding of edges are decided by the correspondence and the oracle, not proved; 2-D grids "
            "and projections (Bin of Bin, SparselyBin of SparselyBin, IrregularlyBin of IrregularlyBin) "
            "are checked on the implementation against the cells, Categorize labels / entries / mpv "
            "against totals computed from the fills, mpv of Bin / SparselyBin / CentrallyBin against the "
            "bins - none of these is modelled",
            "section 6 C13"),
    "C14": ("proof",
            "make_histograms(df, feature, bin_specs) is modelled as the primitive tree of the feature "
            "filled with the rows of the frame; Coq theorems (exact instance): any partition of the "
            "rows into chunks, summed with + in any order and parenthesisation, gives the histogram "
            "of the whole frame (instance of the C01 theorems), and the entries of the root equal the "
            "number of rows; " + TIE + ": frames with float (NaN), "
            "integer, boolean and timestamp (NaT; resolutions ns / us / ms / s) columns, features of 1-3 "
            "columns, a time_axis whose own width differs from the user's specification, explicit bin "
            "specifications of every supported kind or those returned by make_histograms for "
            "binning auto / unit (with and without time_axis); make_histograms(whole), the sum of "
            "make_histograms(chunk) over a random partition, and the same tree built from the "
            "primitives and filled from the columns are compared with each other and with the model; "
            "entries = rows; the frame is compared with a copy",
            "partial: pandas, the automatic choice of bin specifications, timestamp conversion and "
            "the dtype guards are not modelled (the check uses the specifications make_histograms "
            "returns); the derivation of the tree from (columns, dtypes, bin_specs) is a harness "
            "transcription (harness/dfspec.py); empty frames / chunks are refused by the library "
            "(RuntimeError 'data is empty') and are not generated; string columns are outside the "
            "claim as the property says",
            "section 6 C14"),
    "C15": ("proof",
            "Coq theorems about the reader model for EVERY document and every arithmetic instance: "
            "an accepted document has exactly the header keys, an accepted version and a registered "
            "type; a non-object document or fragment, an unknown type name anywhere, a missing "
            "required key or an extra key in the fragment of any primitive, a negative or non-numeric "
            "'entries' in the fragment of any primitive are rejected; a container that loads has exactly "
            "one child per element of its values / bins / data field (nothing dropped or duplicated; "
            "two SparselyBin keys denoting one index are refused); every document toJson produces is "
            "accepted (exact instance, C04_round_trip); " + TIE +
            ": the model's accept/reject decision and the loaded content are compared with "
            "Factory.fromJson on valid documents and on single-point mutants at random positions",
            "rejection of ill-typed field VALUES other than entries and of malformed list elements is "
            "decided by the correspondence + oracle on generated mutants (incl. numeric-looking strings "
            "such as '2.5', 'NaN', '-Infinity'); the reader model has these branches but no closed-form "
            "theorem is stated for them; for Categorize the one-bin-per-key theorem assumes distinct keys "
            "of the bins object (a Python dict)",
            "section 6 C15"),
    "C16": ("proof",
            "Coq theorem about the guard as coded (identity list threaded through a pre-order walk): "
            "it raises exactly when some object occupies two fillable positions; a rejected fill "
            "changes nothing; " + TIE + " on trees with a child object installed at a second "
            "position (siblings, cousins, below a Select at the root), first and later fills, a new "
            "collection built over an already filled (checked) tree and one of its inner nodes, one live "
            "object placed twice into Label.ed / Index.ed, and unshared controls",
            "cycles (a node below itself) are probed on the implementation only; sharing installed by "
            "attribute assignment after the root was checked is the known finding "
            "C16-shared-after-checked-fill",
            "section 6 C16"),
    "C17": ("proof",
            "Coq theorems for every arithmetic instance: serializable / cached / named applied in any "
            "order and multiplicity (at most one name) yield the wrapper determined by which of them "
            "were applied (hence equal wrappers with the same name), a second name raises, and a "
            "wrapper - cached or not - returns on every call of every call sequence what the "
            "function returns for that argument (cache invariant by induction over the calls; "
            "instantiated at the exact instance for the model's argument comparison); " + TIE +
            ": wrapper scenarios (lambda / def / string expression, wrapper sequences incl. "
            "permutations, repeated and second names, call sequences with repeats, NaN, inf, raising "
            "calls) and trees whose quantities are built in every form, filled with dict / attribute / "
            "bare-scalar records, are compared with the model's expression evaluator",
            "the meaning of a string expression is Python's eval: that it equals the model's "
            "[eval] of the same expression is established by the correspondence on the generated "
            "grammar (+, -, *, <, fields, constants), not proved; numpy.array_equal (the cache's "
            "argument comparison) is assumed to accept only ==-equal arguments; keyword arguments, "
            "numpy record arrays and pandas frames as records are not modelled",
            "section 6 C17"),
}

ALL = ["C%02d" % i for i in range(1, 18)]
NOT_APPLICABLE = []


def main():
    checks = []
    for pid, (cat, text, note, ref) in sorted(CHECKS.items()):
        checks.append({
            "property_id": pid,
            "quick_cmd": "./check %s --tier quick" % pid,
            "thorough_cmd": "./check %s --tier thorough" % pid,
            "evidence_file": "/verif/evidence/%s.json" % pid,
            "replay_cmd_template": "./check %s --replay {path}" % pid,
            "engine": "coq-model+correspondence",
            "level_claimed": {"category": cat, "text": text, "design_ref": ref},
            "level_note": note,
            "technique": "machine-checked proof in Coq 8.16 about an executable Gallina model; "
                         "model tied to the code by differential correspondence (coqc vm_compute "
                         "vs implementation) on generated programs",
        })
    man = {
        "version": 1,
        "setup_cmd": "cd /verif/coq && coq_makefile -f _CoqProject -o Makefile && timeout 3000 make -j16",
        "hooks": {
            "guard": "HISTOGRAMMAR_VERIF",
            "enable": "none needed: every observation (attributes, identities, exceptions) is made from outside",
            "baseline_off_cmd": "cd /repo && /venv/bin/python -m pytest -ra -q -p no:cacheprovider --timeout=900 --continue-on-collection-errors",
            "source_commits": [],
            "add_only": True,
        },
        "engines": [{
            "name": "coq-model+correspondence", "path": "/verif/coq, /verif/harness",
            "serves_properties": sorted(CHECKS),
            "kind_free_text": "Coq development (model, proofs, property files) + Python harness "
                              "running generated programs on model and implementation",
        }],
        "checks": checks,
        "not_applicable": NOT_APPLICABLE + [
            {"property_id": p, "reason": "check under construction in this session (model layer not built yet); "
                                         "not claimed until its check exists"}
            for p in ALL if p not in CHECKS and p not in [x["property_id"] for x in NOT_APPLICABLE]],
        "notes": "see DESIGN.md; known_findings.json lists genuine defects (fixed and open)",
    }
    with open(os.path.join(VERIF, "MANIFEST.json"), "w") as f:
        json.dump(man, f, indent=1)


if __name__ == "__main__":
    main()
