"""Regenerates MANIFEST.json from the table below (kept in one place so that it stays valid)."""
import json
import os

VERIF = os.path.dirname(os.path.dirname(os.path.abspath(__file__)))

CHECKS = {
    "C01": ("proof",
            "Coq theorems (exact instance, closed under the global context): + is a commutative "
            "monoid on the well-formed states of a specification, zero its unit, fill a "
            "homomorphism, hence every partition / parenthesisation / order of + gives the "
            "aggregate of the whole stream; tied to /repo by running the executable model "
            "(binary64 = PrimFloat, bit-exact) and the implementation on the same generated "
            "programs, and by evaluating the theorem statement on the implementation's own results",
            "hypotheses of the theorems: weights finite-positive or gated; Average/Deviate leaves "
            "receive finite quantities; no fill raises. Model hand-written, tie sampled; exact "
            "laws decided on exact-safe programs only",
            "section 6 C01"),
}

NOT_APPLICABLE = []


def main():
    checks = []
    for pid, (cat, text, note, ref) in sorted(CHECKS.items()):
        checks.append({
            "property_id": pid,
            "quick_cmd": "./check %s --tier quick" % pid,
            "thorough_cmd": "./check %s --tier thorough" % pid,
            "evidence_file": "/verif/evidence/%s.json" % pid,
            "replay_cmd_template": "./check %s --replay {path}" % pid,
            "engine": "coq-model+correspondence",
            "level_claimed": {"category": cat, "text": text, "design_ref": ref},
            "level_note": note,
            "technique": "machine-checked proof in Coq 8.16 about an executable Gallina model; "
                         "model tied to the code by differential correspondence (coqc vm_compute "
                         "vs implementation) on generated programs",
        })
    man = {
        "version": 1,
        "setup_cmd": "cd /verif/coq && coq_makefile -f _CoqProject -o Makefile && timeout 3000 make -j16",
        "hooks": {
            "guard": "HISTOGRAMMAR_VERIF",
            "enable": "none needed: every observation (attributes, identities, exceptions) is made from outside",
            "baseline_off_cmd": "cd /repo && /venv/bin/python -m pytest -ra -q -p no:cacheprovider --timeout=900 --continue-on-collection-errors",
            "source_commits": [],
            "add_only": True,
        },
        "engines": [{
            "name": "coq-model+correspondence", "path": "/verif/coq, /verif/harness",
            "serves_properties": sorted(CHECKS),
            "kind_free_text": "Coq development (model, proofs, property files) + Python harness "
                              "running generated programs on model and implementation",
        }],
        "checks": checks,
        "not_applicable": NOT_APPLICABLE,
        "notes": "see DESIGN.md; known_findings.json lists genuine defects (fixed and open)",
    }
    with open(os.path.join(VERIF, "MANIFEST.json"), "w") as f:
        json.dump(man, f, indent=1)


if __name__ == "__main__":
    main()
