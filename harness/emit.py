"""Emit programs as Coq terms (generic in the arithmetic instance N) and run them with coqc."""
import math
import os
import re
import subprocess
import tempfile

from . import hgm

COQ_DIR = os.path.join(os.path.dirname(os.path.dirname(os.path.abspath(__file__))), "coq")

_CODEIDS = {}


def code_id(q):
    """small integer standing for the bytecode of the quantity's function (UserFcn.__eq__
    compares co_code only)"""
    if q is None:
        f = hgm.identity
    else:
        f = hgm.mkq(q)
    code = f.expr.__code__.co_code if hasattr(f.expr, "__code__") else ("str", f.expr)
    if code not in _CODEIDS:
        _CODEIDS[code] = len(_CODEIDS) + 1
    return _CODEIDS[code]


def cnum(x):
    x = float(x)
    if x != x:
        return "(@nnan N)"
    if x == math.inf:
        return "(@npinf N)"
    if x == -math.inf:
        return "(@nninf N)"
    t = hgm.ftok(x)
    return "(L (%d) (%d))" % (t[1], t[2])


def cstr(s):
    assert all(32 <= ord(c) < 127 for c in s), s
    return '"' + s.replace('"', '""') + '"'


def coptstr(s):
    return "None" if s is None else "(Some %s)" % cstr(s)


def cexpr(e):
    t = e[0]
    if t == "vec":
        return "(EVec %s)" % clist("%d%%nat" % i for i in e[1:])
    if t == "f":
        return "(EField %d)" % e[1]
    if t == "c":
        return "(EConst %s)" % cnum(e[1])
    if t in "+-*<":
        c = {"+": "EAdd", "-": "ESub", "*": "EMul", "<": "ELt"}[t]
        return "(%s %s %s)" % (c, cexpr(e[1]), cexpr(e[2]))
    c = {"fault": "EFault", "wrongS": "EWrongS", "wrongN": "EWrongN"}[t]
    return "(%s %d %s)" % (c, e[1], cexpr(e[2]))


def cq(q):
    if q is None:
        # identity: named "identity", d itself; only used where the datum is a bare number
        raise ValueError("identity quantity not supported in specs")
    return "(mkq %s %d %s)" % (coptstr(q["name"]), code_id(q), cexpr(q["e"]))


def clist(xs):
    return "[" + "; ".join(xs) + "]"


def cspec(s):
    k = s["k"]
    if k == "Count":
        return "(mkCount %s)" % ("TId" if s.get("tr", "id") == "id" else "TSq")
    if k in ("Sum", "Average", "Deviate", "Minimize", "Maximize"):
        lk = {"Sum": "LSum", "Average": "LAverage", "Deviate": "LDeviate", "Minimize": "LMin",
              "Maximize": "LMax"}[k]
        return "(mkLeaf %s %s)" % (lk, cq(s["q"]))
    if k == "Bag":
        rng = s["range"]
        return "(mkLeaf (LBag %s) %s)" % ("RS" if rng == "S" else "RN" if rng == "N" else "(RV %d)" % int(rng[1:]), cq(s["q"]))
    if k == "Bin":
        return "(mkBin %d %s %s %s %s %s %s %s)" % (
            s["num"], cnum(s["low"]), cnum(s["high"]), cq(s["q"]), cspec(s["value"]),
            cspec(s["under"]), cspec(s["over"]), cspec(s["nan"]))
    if k == "SparselyBin":
        return "(mkSparse %s %s %s %s %s)" % (cnum(s["bw"]), cq(s["q"]), cspec(s["value"]),
                                              cspec(s["nan"]), cnum(s["origin"]))
    if k == "CentrallyBin":
        return "(mkCentral %s %s %s %s)" % (clist(cnum(c) for c in sorted(s["centers"])),
                                            cq(s["q"]), cspec(s["value"]), cspec(s["nan"]))
    if k in ("IrregularlyBin", "Stack"):
        return "(%s %s %s %s %s)" % ("mkIrr" if k == "IrregularlyBin" else "mkStack",
                                     clist(cnum(c) for c in s["edges"]), cq(s["q"]),
                                     cspec(s["value"]), cspec(s["nan"]))
    if k == "Fraction":
        return "(mkFraction %s %s)" % (cq(s["q"]), cspec(s["value"]))
    if k == "Select":
        return "(mkSelect %s %s)" % (cq(s["q"]), cspec(s["cut"]))
    if k == "Categorize":
        return "(mkCat %s %s)" % (cq(s["q"]), cspec(s["value"]))
    if k in ("Label", "UntypedLabel"):
        items = sorted(s["pairs"].items(), key=lambda kv: kv[0].encode())
        return "(%s %s)" % ("mkLabel" if k == "Label" else "mkULabel",
                            clist("(%s, %s)" % (cstr(kk), cspec(v)) for kk, v in items))
    if k in ("Index", "Branch"):
        return "(%s %s)" % ("mkIndex" if k == "Index" else "mkBranch",
                            clist(cspec(v) for v in s["values"]))
    raise ValueError(k)


def cvalue(v):
    if v is None:
        return "VNone"
    if isinstance(v, bool):
        return "(VBool %s)" % ("true" if v else "false")
    if isinstance(v, str):
        return "(VStr %s)" % cstr(v)
    return "(VNum %s)" % cnum(v)


def cjson(doc):
    if doc is None:
        return "(@JNull N)"
    if isinstance(doc, bool):
        return "(@JBool N %s)" % ("true" if doc else "false")
    if isinstance(doc, (int, float)):
        return "(JNum %s)" % cnum(doc)
    if isinstance(doc, str):
        return "(@JStr N %s)" % cstr(doc)
    if isinstance(doc, (list, tuple)):
        return "(@JArr N %s)" % clist(cjson(x) for x in doc)
    if isinstance(doc, dict):
        return "(@JObj N %s)" % clist("(%s, %s)" % (cstr(str(k)), cjson(v)) for k, v in doc.items())
    raise TypeError(doc)


def cop(op):
    t = op[0]
    if t == "tojson":
        return "OToJson %d" % op[1]
    if t == "fromjson":
        return "OFromJson %s" % cjson(op[1])
    if t == "jsonrt":
        return "OJsonRT %d" % op[1]
    if t == "new":
        return "ONew %s" % cspec(op[1])
    if t == "fill":
        return "OFill %d %s %s" % (op[1], clist(cvalue(v) for v in op[2]), cnum(op[3]))
    if t == "add":
        return "OAdd %d %d" % (op[1], op[2])
    if t == "iadd":
        return "OIAdd %d %d" % (op[1], op[2])
    if t == "mul":
        return "OMul %d %s" % (op[1], cnum(op[2]))
    if t == "zero":
        return "OZero %d" % op[1]
    if t == "copy":
        return "OCopy %d" % op[1]
    if t == "hash":
        return "OHash %d" % op[1]
    if t == "snapall":
        return "OSnapAll"
    if t == "eq":
        return "OEq %d %d %s" % (op[1], op[2], cnum(op[3]))
    if t == "pure":
        return "OEq %d %d %s" % (op[1], op[2], cnum(0.0))     # (a constant observation in the identity layer)
    if t == "fillnp":
        rows, w = op[2], op[3]
        ws = w if isinstance(w, list) else [w] * len(rows)
        return "OFillNp %d %s" % (op[1], clist("(%s, %s)" % (clist(cvalue(v) for v in d), cnum(x))
                                                for d, x in zip(rows, ws)))
    if t == "snapp":
        return "OSnapP %d" % op[1]
    if t == "clone":
        return "OClone %d" % op[1]
    if t == "dfhist":
        from harness import dfspec
        _, cols, dtypes, specs, rows, extra = op
        spec = dfspec.tree(cols, dtypes, specs)
        mrows = dfspec.model_rows(rows, cols, dtypes)
        return "ODf %s %s" % (cspec(spec), clist("(%s, %s)" % (clist(cvalue(v) for v in d), cnum(1.0)) for d in mrows))
    if t == "view":
        def copt(x):
            return "None" if x is None else "(Some %s)" % cnum(x)
        return "OView %d %s %s %s" % (op[1], copt(op[2]), copt(op[3]), clist(cnum(x) for x in op[4]))
    raise ValueError(t)


def csrc(sd, rec):
    e = cexpr(sd["e"])
    if sd["form"] == "str":
        return "(SStr %s %s)" % (cstr(hgm.expr_rec(sd["e"], "names")), e)
    f = hgm.mk_src(sd["form"], sd["e"], rec, sd.get("fname", "myfn"))
    code = f.__code__.co_code
    if code not in _CODEIDS:
        _CODEIDS[code] = len(_CODEIDS) + 1
    if sd["form"] in ("def", "defg"):
        return "(SDef %s %d %s)" % (cstr(sd.get("fname", "myfn")), _CODEIDS[code], e)
    # "lam" and "lamd" (a lambda with a default argument) are lambdas for the wrappers
    return "(SLam %d %s)" % (_CODEIDS[code], e)


def cwops(ws):
    return clist("WSer" if w == "ser" else "WCached" if w == "cached" else "(WNamed %s)" % cstr(w[1]) for w in ws)


def cfop(op):
    if op[0] == "wrap":
        _, sd, wops, ds, rec = op
        if rec == "mixed":
            ds = [d[1] for d in ds]
            rec = "dict"
        return "FWrap %s %s %s" % (csrc(sd, rec), cwops(wops), clist(clist(cvalue(v) for v in d) for d in ds))
    if op[0] == "wraparr":
        _, sd, wops, calls = op
        return "FWrap %s %s []" % (csrc(sd, "dict"), cwops(wops))
    if op[0] == "feq":
        _, sd1, w1, sd2, w2, rec = op
        return "FEq %s %s %s %s" % (csrc(sd1, rec), cwops(w1), csrc(sd2, rec), cwops(w2))
    return "FBase (%s)" % cop(op)


HEADER = """From Coq Require Import ZArith List String.
From Hgm Require Import NumOps F64 Xq Agg Ops Expr Build Snap Json Eq Np Views Run Forest RunId Fcn RunFcn.
Import ListNotations.
Open Scope Z_scope. Open Scope string_scope.
Set Printing Width 100000000. Set Printing Depth 100000000.
"""


def ciop(op):
    if op[0] == "share":
        return "IShare %d %s %s" % (op[1], clist("%d%%nat" % i for i in op[2]), clist("%d%%nat" % i for i in op[3]))
    if op[0] == "graft":
        mode = {"branch": 0, "edlabel": 1, "edindex": 2}[op[3] if len(op) > 3 else "branch"]
        return "IGraft %d %s %d" % (op[1], clist("%d%%nat" % i for i in op[2]), mode)
    return "IBase (%s)" % cop(op)


MODE = {"base": ("op", cop, "run_hash", "run_at"), "id": ("iop", ciop, "runi_hash", "runi_at"),
        "fcn": ("fop", cfop, "runf_hash", "runf_at")}


def program_def(name, ops, mode="base"):
    ty, f, _, _ = MODE[mode]
    body = ";\n    ".join(f(o) for o in ops)
    return ("Definition %s (N : num_ops) : list (@%s N) :=\n  let L := @ndy N in\n  [ %s ].\n"
            % (name, ty, body))


_RES = re.compile(r"=\s*(\[[^\[\]]*\])\s*:\s*list Z", re.S)

HMOD = 2305843009213693951


def htok(tokens):
    h = 7
    for x in tokens:
        h = (h * 1000003 + (x & HMOD)) & HMOD
    return h


def parse_lists(text):
    out = []
    for m in _RES.finditer(text):
        inner = m.group(1)[1:-1].strip()
        out.append([int(x) for x in inner.split(";")] if inner else [])
    return out


def write_case_file(path, programs, instances=("F64",), extra=None, at=None, mode="base"):
    """programs: list of op lists; prints, per program and instance, the list of per-observation
    hashes (or, with at=j, the j-th observation itself)"""
    with open(path, "w") as f:
        f.write(HEADER)
        if extra:
            f.write(extra + "\n")
        for i, ops in enumerate(programs):
            f.write(program_def("p%d" % i, ops, mode))
            _, _, rh, ra = MODE[mode]
            for inst in instances:
                if at is None:
                    f.write("Eval vm_compute in (%s (p%d %s)).\n" % (rh, i, inst))
                else:
                    f.write("Eval vm_compute in (%s (p%d %s) %d).\n" % (ra, i, inst, at))


def run_case_file(path, timeout=900):
    r = subprocess.run(["coqc", "-Q", COQ_DIR, "Hgm", path], capture_output=True, text=True,
                       timeout=timeout, cwd=os.path.dirname(path))
    if r.returncode != 0:
        raise RuntimeError("coqc failed on %s:\n%s" % (path, (r.stdout + r.stderr)[-3000:]))
    return parse_lists(r.stdout)


def _tmpdir():
    base = os.environ.get("VERIF_TMP", "/root/scratch")
    os.makedirs(base, exist_ok=True)
    return tempfile.mkdtemp(prefix="hgmcases_", dir=base)


def run_models(programs, instances=("F64",), shard=12, jobs=16, extra=None, mode="base"):
    """returns, per program, a dict instance -> list of per-observation hashes"""
    import shutil
    from concurrent.futures import ThreadPoolExecutor
    tmp = _tmpdir()
    try:
        shards = [programs[i:i + shard] for i in range(0, len(programs), shard)]
        paths = []
        for si, sh in enumerate(shards):
            p = os.path.join(tmp, "cases%d.v" % si)
            write_case_file(p, sh, instances, extra, mode=mode)
            paths.append(p)
        with ThreadPoolExecutor(max_workers=jobs) as ex:
            results = list(ex.map(run_case_file, paths))
        out = []
        for sh, res in zip(shards, results):
            assert len(res) == len(sh) * len(instances), (len(res), len(sh), len(instances))
            for i in range(len(sh)):
                out.append({inst: res[i * len(instances) + j] for j, inst in enumerate(instances)})
        return out
    finally:
        shutil.rmtree(tmp, ignore_errors=True)


def model_observation(ops, j, inst="F64", extra=None, mode="base"):
    """the full j-th observation of one program (used to describe a disagreement)"""
    import shutil
    tmp = _tmpdir()
    try:
        p = os.path.join(tmp, "one.v")
        write_case_file(p, [ops], (inst,), extra, at=j, mode=mode)
        return run_case_file(p)[0]
    finally:
        shutil.rmtree(tmp, ignore_errors=True)
