import random, sys, json
sys.path.insert(0, "/verif")
from harness import gen, hgm, emit

def prog(r, g):
    spec = g.spec()
    s = gen.stream(r, spec, r.randint(0, 8))
    ops = [("new", spec)]
    for d, w in s:
        ops.append(("fill", 0, d, w))
    ops.append(("zero", 0)); ops.append(("copy", 0)); ops.append(("add", 0, 2)); ops.append(("mul", 0, 0.5)); ops.append(("iadd", 2, 0))
    return ops

seed = int(sys.argv[1]) if len(sys.argv) > 1 else 1
n = int(sys.argv[2]) if len(sys.argv) > 2 else 50
r = random.Random(seed)
progs = []
for i in range(n):
    g = gen.G(r, dyadic=(i % 2 == 0))
    progs.append(prog(r, g))
impl = []
for p in progs:
    m = hgm.Machine()
    impl.append(m.run(p))
mod = emit.run_models(progs, instances=("F64", "Xq"))
bad = 0; exact = 0
for i, (a, b) in enumerate(zip(impl, mod)):
    if a != b["F64"]:
        bad += 1
        for j, (x, y) in enumerate(zip(a, b["F64"])):
            if x != y:
                print("MISMATCH prog", i, "op", j, progs[i][j][0])
                print(" spec", json.dumps(progs[i][0][1]))
                print(" op  ", progs[i][j] if j else "")
                print(" impl ", x[:80]); print(" model", y[:80])
                break
    if b["F64"] == b["Xq"]:
        exact += 1
print("programs", n, "mismatches", bad, "exact-safe", exact)
