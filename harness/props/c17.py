"""C17 -- user-function wrappers preserve behaviour: named / cached / serializable / strings."""
import copy

from harness import gen, hgm
from harness.props import base

MODE = "fcn"
Machine = hgm.FcnMachine

PROP = {
    "id": "C17",
    "quick_n": 300,
    "thorough_n": 3000,
    "rule": "one program = a record representation (dict, attribute object, bare scalar), wrapper "
            "scenarios (a lambda / def / string expression from the arithmetic-boolean grammar, a "
            "random sequence of serializable / cached / named incl. repeated wrappers, the default "
            "name re-applied and a second name, then 6-12 calls over 3-4 records with repeats, NaN, "
            "inf and booleans), the same wrappers applied in a permuted order (compared with ==), and "
            "a tree whose quantities are built in every form and wrapper order, filled with such "
            "records; non-trivial = at least 3 wrapper scenarios; distinct by op list",
    "assumptions": ["functions are pure; records are rebuilt for every call (no in-place mutation "
                    "of an argument between two calls)",
                    "arguments that numpy.array_equal identifies although they are different Python "
                    "values (True and 1.0, False and 0.0) are not mixed in one call sequence: the "
                    "cache may answer one with the (==-equal) value computed for the other"],
}

NAMES = ["n1", "alpha", "x"]


def field0(e):
    if e[0] == "f":
        return ["f", 0]
    return [e[0]] + [field0(x) if isinstance(x, list) else x for x in e[1:]]


def rand_expr(r, g, rec):
    e = g.numexpr() if r.random() < 0.75 else g.boolexpr()
    return field0(e) if rec == "scalar" else e


def rand_wops(r, default_name):
    """(wops, expected outcome description)"""
    c = r.random()
    ws = []
    n = r.choice(NAMES)
    pool = ["ser", "cached", "ser", "cached"]
    k = r.randint(0, 3)
    ws = [r.choice(pool) for _ in range(k)]
    if c < 0.55:
        ws.insert(r.randint(0, len(ws)), ("named", n))
    elif c < 0.7:
        # two different names: the second must raise (unless the first only repeated the default)
        ws.insert(r.randint(0, len(ws)), ("named", n))
        ws.append(("named", n + "2"))
    elif c < 0.8 and default_name is not None:
        # the default name re-applied explicitly, then a real name: allowed
        ws.insert(0, ("named", default_name))
        ws.append(("named", n))
    if not ws:
        ws = [r.choice(["ser", "cached"])]
    return ws


def default_name(sd):
    if sd["form"] == "str":
        return hgm.expr_rec(sd["e"], "names")
    if sd["form"] in ("def", "defg"):
        return sd.get("fname", "myfn")
    return None


def records(r, rec, k, none_p=0.0):
    vals = [-1.0, 0.5, 2.5, -3.75, 0.125, float("nan"), float("inf"), -float("inf"), 3.0]
    # numpy.array_equal identifies True with 1.0 and False with 0.0: never both in one sequence
    vals += r.choice([[0.0, 1.0], [True, False]])
    if r.random() < none_p:
        vals += [None, None, None]      # None in arithmetic raises TypeError: a raising call
    out = []
    for _ in range(k):
        d = [r.choice(vals), r.choice(vals), r.choice(vals), r.choice(["a", "b"]), False]
        out.append(d[:1] if rec == "scalar" else d)
    return out


def decorate(r, spec, rec):
    """give every quantity of the tree a form, a wrapper order and the name that results"""
    for s in gen.walk(spec):
        if "q" not in s:
            continue
        q = s["q"]
        if rec == "scalar":
            q["e"] = field0(q["e"])
        form = r.choice(["lam", "lamd", "def", "str"])
        q["form"], q["rec"], q["fname"] = form, rec, r.choice(["myfn", "getx"])
        ws = [w for w in ["ser", "cached"] if r.random() < 0.5]
        explicit = r.choice([None, "n1", "alpha"])
        if explicit:
            ws.append(("named", explicit))
        r.shuffle(ws)
        if not ws:
            ws = ["ser"]
        q["wops"] = ws
        q["name"] = explicit or default_name({"form": form, "e": q["e"], "fname": q["fname"]})


def gen_one(r, i, tier):
    rec = r.choice(["dict", "attr", "scalar"])
    g = gen.G(r, dyadic=True, max_depth=2)
    ops = []
    meta = {"rec": rec, "wraps": []}
    for _ in range(r.randint(3, 5)):
        e = rand_expr(r, g, rec)
        sd = {"form": r.choice(["lam", "lamd", "def", "str"]), "e": e, "fname": r.choice(["myfn", "getx"])}
        ws = rand_wops(r, default_name(sd))
        recs = records(r, rec, r.randint(2, 4), none_p=0.5)
        ds = [copy.deepcopy(r.choice(recs)) for _ in range(r.randint(6, 12))]
        ops.append(("wrap", sd, ws, ds, rec))
        meta["wraps"].append(len(ops) - 1)
        if sd["form"] == "str" and r.random() < 0.6:
            # one string quantity fed with records of changing representation (dict, attribute object,
            # bare scalar): only for expressions of the single field x
            e0 = field0(e)
            sd0 = dict(sd, e=e0)
            one = records(r, "scalar", 3)
            mixed = [[r.choice(["dict", "attr", "scalar"]), copy.deepcopy(r.choice(one))] for _ in range(r.randint(5, 9))]
            ops.append(("wrap", sd0, [r.choice(["ser", "cached"])], mixed, "mixed"))
        # the same wrappers in another order / with duplicates removed
        ws2 = list(ws)
        r.shuffle(ws2)
        ops.append(("wrap", sd, ws2, ds[:3], rec))
        ops.append(("feq", sd, ws, sd, ws2, rec))
        if r.random() < 0.4:
            sd2 = dict(sd, e=rand_expr(r, g, rec))
            ops.append(("feq", sd, ws, sd2, ws, rec))
    # a (cached) wrapper called with arrays and with single records, interleaved
    if rec == "dict":
        e = rand_expr(r, g, rec)
        sd = {"form": r.choice(["lam", "def", "str"]), "e": e, "fname": "myfn"}
        recs = records(r, rec, 3)
        calls = []
        batches = [[copy.deepcopy(r.choice(recs)) for _ in range(r.randint(1, 4))] for _ in range(2)]
        for _ in range(r.randint(4, 8)):
            if r.random() < 0.5:
                calls.append(["arr", copy.deepcopy(r.choice(batches))])
            else:
                calls.append(["rec", copy.deepcopy(r.choice(recs))])
        ops.append(("wraparr", sd, r.choice([["cached"], ["cached", ("named", "n1")], ["ser"]]), calls))
    # a tree with quantities in every form
    kinds = ["Bin", "SparselyBin", "CentrallyBin", "IrregularlyBin", "Stack", "Fraction", "Select",
             "Label", "UntypedLabel", "Index", "Branch"] + ([] if rec == "scalar" else ["Categorize"])
    leaves = ["Count", "Sum", "Average", "Deviate", "Minimize", "Maximize"]
    g2 = gen.G(r, dyadic=True, max_depth=2, kinds=kinds, leaves=leaves)
    spec = g2.spec(kind=r.choice(kinds + leaves[1:]))
    decorate(r, spec, rec)
    try:
        hgm.build(spec)
    except Exception:  # noqa: BLE001
        return {"ops": ops, "meta": meta}
    pool = sum(1 for o in ops if o[0] in ("new",))
    ops.append(("new", spec))
    recs = records(r, rec, 4)
    for _ in range(r.randint(3, 8)):
        ops.append(("fill", pool, copy.deepcopy(r.choice(recs)), r.choice(gen.POSWEIGHTS), rec))
    return {"ops": ops, "meta": meta}


def gen_programs(r, n, tier):
    return [gen_one(r, i, tier) for i in range(n)]


def names_of(ws):
    return [w[1] for w in ws if w != "ser" and w != "cached"]


def arity_probe(sd, ws):
    """calls with a different NUMBER of positional arguments (a function with a default argument),
    on the implementation only: every call of the wrapper must return what the function returns"""
    import histogrammar as hg
    if sd["form"] == "str" or len(names_of(ws)) > 1:
        return None
    body = hgm.expr_rec(sd["e"], "scalar")
    raw = eval("lambda x, k=1.0: (%s) * k" % body, {"float": float})
    try:
        w = hgm.apply_wops(raw, ws)
    except Exception:  # noqa: BLE001
        return None
    calls = [(3.0, 2.0), (3.0,), (3.0, 2.0), (3.0, 1.0), (3.0,), (0.5,), (0.5, 4.0), (0.5,)]
    for k, args in enumerate(calls):
        try:
            got, ref = w(*args), raw(*args)
        except Exception as e:  # noqa: BLE001
            return "call %d %r raised %s" % (k, args, type(e).__name__)
        if not (got == ref or (got != got and ref != ref)):
            return "call %d %r: wrapper %r, function %r" % (k, args, got, ref)
    return None


def oracle(p, run, exact):
    meta = p.get("meta")
    if not meta:
        return []
    obs = run["obs"]
    m = run["machine"]
    fails = []
    for o in p["ops"]:
        if o[0] == "wrap" and o[4] == "scalar":
            d = arity_probe(o[1], o[2])
            if d:
                fails.append({"clause": "a wrapped function returns on every call what the function returns (calls with and "
                                        "without the defaulted argument)  [C17_calls]", "wrappers": o[2], "diff": d})
                break
    wl = iter(getattr(m, "wraplog", []))
    prev = None
    for log in getattr(m, "arrlog", []):
        for k, c in enumerate(log):
            if not c["same"]:
                fails.append({"clause": "a wrapped function returns on every call what the function returns (arrays and scalars interleaved)  [C17_calls]",
                              "call": k, "kind": c["kind"], "diff": "wrapper %r, function %r" % (c["got"], c["ref"])})
                break
    for j, (o, ob) in enumerate(zip(p["ops"], obs)):
        if o[0] == "wrap":
            _, sd, ws, ds, rec = o
            if rec == "mixed":
                rec = "dict"
            ns = names_of(ws)
            dn = default_name(sd)
            # expected outcome from the property text
            eff = [n for k, n in enumerate(ns) if not (k == 0 and len(ns) > 1 and n == dn)]
            should_raise = len(eff) > 1
            if ob == [2]:
                continue
            if should_raise != (ob == [1]):
                fails.append({"clause": "a second name raises, one name is accepted in any position  [C17_second_name_raises / C17_canonical]",
                              "op": j, "wrappers": ws, "diff": "raised" if ob == [1] else "accepted"})
            if ob == [1]:
                prev = None
                continue
            log = next(wl)
            for k, (got, ref) in enumerate(log):
                if got != ref:
                    fails.append({"clause": "a wrapped function returns on every call what the function returns  [C17_calls]",
                                  "op": j, "call": k, "wrappers": ws, "diff": "wrapper %r, function %r" % (got, ref)})
                    break
            want_name = eff[0] if eff else dn
            want_cached = 1 if "cached" in ws else 0
            got_name = None if ob[2] == 0 else "".join(map(chr, ob[4:4 + ob[3]]))
            if ob[1] != want_cached or got_name != want_name:
                fails.append({"clause": "the wrapper depends only on which wrappers were applied  [C17_canonical]",
                              "op": j, "wrappers": ws, "diff": "cached=%d name=%r, expected cached=%d name=%r" % (ob[1], got_name, want_cached, want_name)})
        elif o[0] == "feq":
            _, sd1, w1, sd2, w2, rec = o
            if sd1 == sd2 and sorted(map(str, w1)) == sorted(map(str, w2)) and len(names_of(w1)) <= 1 and ob != [1]:
                fails.append({"clause": "wrappers applied in any order are equal  [C17_commute]", "op": j,
                              "diff": "%r vs %r compare %r" % (w1, w2, ob)})
    return fails[:5]
