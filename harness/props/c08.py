"""C08 -- scaling by a factor equals refilling with every weight multiplied by it."""
from harness import gen
from harness.props import base

PROP = {
    "id": "C08",
    "quick_n": 360,
    "thorough_n": 3600,
    "rule": "one program = tree spec, stream, factor from {1/4,1/2,1,2,3,0,-1,nan, int 2}; "
            "h*f (or f*h) versus a fresh copy filled with weights*f; (h*f)*g vs h*(g*f); h*1; h*2 "
            "vs h+h; (a+b)*f vs a*f+b*f; then the scaled result is filled, merged and hashed; "
            "non-trivial = more than 2 ops; distinct by op list",
    "assumptions": ["as C01; factors are dyadic so that products of weights are exact"],
}

FACTORS = [0.25, 0.5, 1.0, 2.0, 3.0, 2, 0.0, -1.0, float("nan")]


def gen_one(r, i, tier):
    dyadic = (i % 4 != 3)
    g = gen.G(r, dyadic=dyadic, max_depth=3 if tier == "quick" else 4, counts_tsq=(0.5 if i % 4 == 0 else False))
    spec = g.spec()
    if i % 10 == 5:
        # a transformed Count right below a container: the container must refuse to scale, too
        spec = g.spec(kind=r.choice(["Bin", "SparselyBin", "CentrallyBin", "IrregularlyBin", "Stack", "Categorize", "Fraction"]))
        spec["value"] = {"k": "Count", "tr": "sq"}
    cls = base.classify(spec, dyadic)
    n = r.randint(0, 8 if tier == "quick" else 20)
    s = base.small_stream(r, spec, n, gen.WEIGHTS) if dyadic else gen.stream(r, spec, n)
    s2 = base.small_stream(r, spec, r.randint(0, 4), gen.WEIGHTS) if dyadic else gen.stream(r, spec, 3)
    f = r.choice(FACTORS) if r.random() < 0.7 else r.choice([0.0, -1.0, float("nan"), float("nan")])
    g2 = r.choice([0.5, 2.0, 4.0])
    positive = (f == f and f > 0)
    ops = []
    m = {"cls": cls, "f": f, "positive": positive}

    def push(op):
        ops.append(op)
        return sum(1 for o in ops if o[0] in ("new", "add", "mul", "zero", "copy")) - 1

    a = push(("new", spec)); ops.extend(base.fill_ops(a, s))
    b = push(("new", spec)); ops.extend(base.fill_ops(b, s2))
    m["a"] = a
    m["M"] = push(("mul", a, f, r.random() < 0.3))
    m["R"] = push(("new", spec))
    if positive:
        ops.extend(base.fill_ops(m["R"], [(d, w * f) for d, w in s]))
    m["MM"] = push(("mul", m["M"], g2))
    m["M2"] = push(("mul", a, g2 * f if positive else f))
    m["one"] = push(("mul", a, 1.0))
    m["two"] = push(("mul", a, 2.0))
    m["aa"] = push(("add", a, a))
    m["ab"] = push(("add", a, b))
    m["abf"] = push(("mul", m["ab"], g2))
    m["af"] = push(("mul", a, g2))
    m["bf"] = push(("mul", b, g2))
    m["afbf"] = push(("add", m["af"], m["bf"]))
    m["z"] = push(("zero", a))
    # the scaled result must stay a first-class aggregator: fill, merge, hash (on a second product,
    # so that the comparisons above see the unfilled one)
    m["Mc"] = push(("mul", a, f))
    ops.extend(base.fill_ops(m["Mc"], s2))
    m["Mb"] = push(("add", m["Mc"], m["Mc"]))
    ops.append(("hash", m["Mc"]))
    m["hash_obs"] = len(ops) - 1
    # reference for "can be hashed": the unscaled aggregator with the same further fills
    m["ref"] = push(("copy", a))
    ops.extend(base.fill_ops(m["ref"], s2))
    ops.append(("hash", m["ref"]))
    m["hash_ref_obs"] = len(ops) - 1
    return {"ops": ops, "meta": m}


def gen_programs(r, n, tier):
    return [gen_one(r, i, tier) for i in range(n)]


def oracle(p, run, exact):
    m = run["machine"]
    meta = p.get("meta")
    if not meta:
        return []
    obs = run["obs"]
    # index of the op that produced pool entry j
    prod = [i for i, o in enumerate(p["ops"]) if o[0] in ("new", "add", "mul", "zero", "copy")]

    def ok(j):
        return obs[prod[j]][0] == 0

    cls = meta["cls"]
    dex = exact or cls == "exact"
    decide = dex or cls == "well"
    fails = []
    fills_ok = all(ob[0] == 0 for o, ob in zip(p["ops"], obs) if o[0] == "fill")

    def chk(name, i, j):
        if not (ok(i) and ok(j)):
            return
        d = base.cmp_pool(m, i, j, dex)
        if d is not None and decide:
            fails.append({"clause": name, "diff": d})

    f = meta["f"]
    if not ok(meta["M"]):
        return []         # Count with a non-identity transform refuses: nothing to compare
    if fills_ok:
        if meta["positive"]:
            chk("h*f = refill with weights*f  [C08_refill]", meta["M"], meta["R"])
            chk("(h*f)*g = h*(g*f)  [C08_mul_mul]", meta["MM"], meta["M2"])
        else:
            chk("h*f = zero for f<=0/nan  [C08_nonpositive]", meta["M"], meta["z"])
        chk("h*1 = h  [C08_mul_one]", meta["one"], meta["a"])
        chk("h*2 = h+h  [C08_mul_two]", meta["two"], meta["aa"])
        chk("(a+b)*f = a*f + b*f  [C08_mul_add]", meta["abf"], meta["afbf"])
    # first-class: a fill of the scaled result raises only if the same fill of the original does
    # (the quantities are the same), merging it with itself works, hashing works
    spec_fill_raises = {}
    for i, (o, ob) in enumerate(zip(p["ops"], obs)):
        if o[0] == "fill" and o[1] == 1:       # fills of b use the same data s2
            spec_fill_raises[repr(o[2:])] = ob[0]
    for i, (o, ob) in enumerate(zip(p["ops"], obs)):
        if o[0] == "fill" and o[1] == meta["Mc"]:
            if ob[0] == 1 and spec_fill_raises.get(repr(o[2:]), 1) == 0:
                fails.append({"clause": "the scaled result can be filled  [C08_first_class]",
                              "diff": "fill raised on h*f but not on a fresh tree", "op": i})
    if not ok(meta["Mb"]):
        fails.append({"clause": "the scaled result can be merged  [C08_first_class]", "diff": "(h*f)+(h*f) raised"})
    if obs[meta["hash_obs"]][0] != 0 and obs[meta["hash_ref_obs"]][0] == 0:
        fails.append({"clause": "the scaled result can be hashed", "diff": "hash(h*f) raised"})
    return fails
