"""C02 -- fill computes the specified function of the weighted multiset of data."""
from harness import gen, hgm, refsem
from harness.props import base

PROP = {
    "id": "C02",
    "quick_n": 450,
    "thorough_n": 4500,
    "rule": "one program = tree spec, a stream over the tree's critical values (every edge, "
            "midpoint, threshold, +-ulp, nan, +-inf; strings/None/bool/nan categories) with weights "
            "incl. 0/negative/nan, filled into one copy in order and into a second copy in a "
            "random permutation, plus a third copy that also receives every gated datum twice; the "
            "oracle evaluates an independent exact-rational reference semantics on the multiset; "
            "non-trivial = more than 2 ops; distinct by op list",
    "assumptions": ["the reference semantics (harness/refsem.py) is the reading of the "
                    "Histogrammar specification fixed in DESIGN.md section 6 C02"],
}


def gen_one(r, i, tier):
    dyadic = (i % 3 != 2)
    g = gen.G(r, dyadic=dyadic, max_depth=3 if tier == "quick" else 4)
    spec = g.spec()
    cls = base.classify(spec, dyadic)
    n = r.randint(0, 12 if tier == "quick" else 30)
    s = base.small_stream(r, spec, n, gen.WEIGHTS) if dyadic else gen.stream(r, spec, n)
    perm = list(s)
    r.shuffle(perm)
    gated = [(d, w) for d, w in s if not (w == w and w > 0)]
    ops = [("new", spec)] + base.fill_ops(0, s)
    ops += [("new", spec)] + base.fill_ops(1, perm)
    ops += [("new", spec)] + base.fill_ops(2, [x for x in s if x not in gated])
    return {"ops": ops, "meta": {"cls": cls, "spec": spec, "stream": s}}


def gen_programs(r, n, tier):
    return [gen_one(r, i, tier) for i in range(n)]


def oracle(p, run, exact):
    m = run["machine"]
    meta = p.get("meta")
    if not meta:
        return []
    if any(ob and ob[0] == 1 for ob in run["obs"]):
        return []                       # some fill raised: outside the hypotheses
    cls = meta["cls"]
    dex = exact or cls == "exact"
    decide = dex or cls == "well"
    fails = []

    def chk(name, d):
        if d is not None and decide:
            fails.append({"clause": name, "diff": d})

    chk("order independence  [C02_order_independent]", base.cmp_pool(m, 0, 1, dex))
    chk("weights <= 0 / nan change nothing  [C02_gate]", base.cmp_pool(m, 0, 2, True))
    if dex:
        try:
            ref = refsem.reference(meta["spec"], meta["stream"])
            chk("state = reference semantics of the multiset", hgm.compare_trees(hgm.tree(m.pool[0]), ref, True))
        except refsem.Unsupported:
            pass
    return fails


def extra_evidence(progs, impl):
    n = 0
    for p, r in zip(progs, impl):
        if r["crash"] or not p.get("meta"):
            continue
        try:
            refsem.reference(p["meta"]["spec"], p["meta"]["stream"])
            n += 1
        except Exception:  # noqa: BLE001
            pass
    return {"reference_semantics_evaluated": n}
