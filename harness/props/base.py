"""Helpers shared by the per-property modules."""
import random

from harness import gen, hgm

EXACT_LEAVES = ["Count", "Sum", "Minimize", "Maximize", "Bag"]


def spec_kinds(spec):
    return sorted({s["k"] for s in gen.walk(spec)})


def has_kind(spec, kinds):
    return any(s["k"] in kinds for s in gen.walk(spec))


def classify(spec, dyadic):
    """exact: every float operation on the generated data is exact by construction;
       well: small dyadic data, means/variances are well conditioned; wild: anything goes"""
    if not dyadic:
        return "wild"
    if has_kind(spec, ["Average", "Deviate"]):
        return "well"
    return "exact"


def small_stream(r, spec, n, weights, fault_p=0.0, cats=None):
    """dyadic data with few bits: all sums are exact in binary64"""
    vals = [v for v in gen.critical_values(spec) if v != v or abs(v) == gen.INF or
            (abs(v) <= 64 and float(v * 1024).is_integer())]
    out = []
    for _ in range(n):
        d = gen.datum(r, vals, fault_p, plain=True, cats=cats)
        out.append((d, r.choice(weights)))
    return out


def fill_ops(idx, stream):
    return [("fill", idx, d, w) for d, w in stream]


def random_partition(r, s, k):
    cuts = sorted(r.randint(0, len(s)) for _ in range(k - 1))
    bounds = [0] + cuts + [len(s)]
    return [s[bounds[i]:bounds[i + 1]] for i in range(k)]


def pool_tree(m, i):
    return hgm.tree(m.pool[i])


def cmp_pool(m, i, j, exact):
    return hgm.compare_trees(pool_tree(m, i), pool_tree(m, j), exact)
