"""C10 -- incompatible aggregators are never merged silently."""
import copy
import math

from harness import gen, hgm
from harness.props import base

PROP = {
    "id": "C10",
    "quick_n": 450,
    "thorough_n": 4500,
    "rule": "one program = tree spec a and a copy b with exactly one structural mutation at a "
            "random depth (primitive type, num/low/high, binWidth/origin, centres, thresholds, Bag "
            "range, label keys, collection size, child type), both filled, then a+b, b+a, a+=b, "
            "b+=a with snapshots around; about a quarter of the programs use an unmutated b "
            "(compatible control); non-trivial = more than 3 ops; distinct by op list",
    "assumptions": ["compatibility of the generated pair is decided by an independent transcription "
                    "of the property text over the real objects (py_compatible)"],
}


def nodes_with_path(spec, path=()):
    yield path, spec
    for key in ("value", "under", "over", "nan", "cut"):
        if key in spec:
            yield from nodes_with_path(spec[key], path + (key,))
    if "pairs" in spec:
        for k, v in spec["pairs"].items():
            yield from nodes_with_path(v, path + ("pairs", k))
    if "values" in spec:
        for i, v in enumerate(spec["values"]):
            yield from nodes_with_path(v, path + ("values", i))


def get_at(spec, path):
    for p in path:
        spec = spec[p]
    return spec


def set_at(spec, path, new):
    if not path:
        return new
    cur = spec
    for p in path[:-1]:
        cur = cur[p]
    cur[path[-1]] = new
    return spec


PARAMS = ["bw", "origin", "num", "low", "high", "centers", "edges", "range", "keys", "size"]
PARAM_OF = {"Bin": ["num", "low", "high"], "SparselyBin": ["bw", "origin"], "CentrallyBin": ["centers"],
            "IrregularlyBin": ["edges"], "Stack": ["edges"], "Bag": ["range"], "Label": ["keys", "size"],
            "UntypedLabel": ["keys", "size"], "Index": ["size"], "Branch": ["size"]}


def mutate(r, g, spec, want_class=None, want_param=None):
    """one structural mutation; returns (mutated copy, description).  want_class in {"param", "twin",
    "type"} and want_param (one of PARAMS) steer the choice when the tree offers such a place - the
    generator goes through them program by program so that no kind of difference is left to chance"""
    s = copy.deepcopy(spec)
    cands = list(nodes_with_path(s))
    if want_class == "param":
        with_p = [(p_, n_) for p_, n_ in cands if want_param in PARAM_OF.get(n_["k"], [])] or \
                 [(p_, n_) for p_, n_ in cands if n_["k"] in PARAM_OF]
        if with_p:
            cands = with_p
    for _ in range(30):
        path, node = r.choice(cands)
        k = node["k"]
        opts = ["type"]
        if k == "Bin":
            opts += ["num", "low", "high"]
        if k == "SparselyBin":
            opts += ["bw", "origin"]
        if k == "CentrallyBin":
            opts += ["centers"]
        if k in ("IrregularlyBin", "Stack"):
            opts += ["edges"]
        if k == "Bag":
            opts += ["range"]
        if k in ("Label", "UntypedLabel"):
            opts += ["keys"]
        if k in ("Index", "Branch", "Label", "UntypedLabel"):
            opts += ["size"]
        TWIN = {"Label": "UntypedLabel", "UntypedLabel": "Label", "Index": "Branch", "Branch": "Index",
                "Minimize": "Maximize", "Maximize": "Minimize", "Sum": "Average", "Average": "Sum"}
        if k in TWIN:
            opts += ["twin"]
        # structural parameters are where a comparison is most easily lost: favour them over "type"
        m = r.choice(opts[1:]) if len(opts) > 1 and r.random() < 0.7 else r.choice(opts)
        if want_class == "param" and want_param in opts:
            m = want_param
        elif want_class == "param" and [o_ for o_ in opts if o_ in PARAMS]:
            m = r.choice([o_ for o_ in opts if o_ in PARAMS])
        elif want_class == "twin" and "twin" in opts:
            m = "twin"
        elif want_class == "type":
            m = "type"
        elif m == "twin" and want_class is not None:
            m = "type"
        if m == "type":
            # parents that require homogeneous children cannot hold a child of another type
            if path and path[-2:-1] and path[-2] in ("pairs", "values") and get_at(s, path[:-2])["k"] in ("Label", "Index"):
                continue
            new = g.spec(depth=1)
            if new["k"] == k:
                continue
            return set_at(s, path, new), "%s: %s -> %s" % ("/".join(map(str, path)), k, new["k"])
        tiny = r.random() < 0.4          # the smallest possible difference: the neighbouring float
        if m == "twin":
            # the sibling primitive with the very same children / keys / quantity: only the type differs
            if path and path[-2:-1] and path[-2] in ("pairs", "values") and get_at(s, path[:-2])["k"] in ("Label", "Index"):
                continue
            node["k"] = TWIN[k]
            return s, "%s: %s -> %s (same content)" % ("/".join(map(str, path)), k, TWIN[k])
        if m == "num":
            node["num"] += r.choice([1, 2])
        elif m == "low":
            node["low"] = math.nextafter(node["low"], -math.inf) if tiny else node["low"] - 0.5
        elif m == "high":
            node["high"] = math.nextafter(node["high"], math.inf) if tiny else node["high"] + 0.5
        elif m == "bw":
            node["bw"] = math.nextafter(node["bw"], math.inf) if tiny else node["bw"] * 2.0
        elif m == "origin":
            node["origin"] = math.nextafter(node["origin"], math.inf) if tiny else node["origin"] + 0.25
        elif m == "centers":
            c3 = r.random()
            if c3 < 0.3:
                # the same SET of centres, one of them twice
                node["centers"] = sorted(list(node["centers"]) + [r.choice(list(node["centers"]))])
            else:
                node["centers"] = sorted(node["centers"])[:-1] + [max(node["centers"]) + 1.0] if c3 < 0.65 \
                    else sorted(node["centers"]) + [max(node["centers"]) + 1.0]
        elif m == "edges":
            if tiny:
                es = list(node["edges"])
                es[-1] = math.nextafter(es[-1], math.inf)
                node["edges"] = es
            else:
                node["edges"] = list(node["edges"]) + [max(node["edges"]) + 1.0] if r.random() < 0.5 \
                    else [e + 0.125 for e in node["edges"]]
        elif m == "range":
            if node["range"] == "N":
                node["range"] = "S"
                node["q"] = {"name": node["q"]["name"], "id": 0, "e": ["f", 3]}
            else:
                node["range"] = "N"
                node["q"] = {"name": node["q"]["name"], "id": 0, "e": ["f", 0]}
        elif m == "keys":
            ks = sorted(node["pairs"])
            node["pairs"]["zq"] = node["pairs"].pop(ks[0])
        elif m == "size":
            if k in ("Index", "Branch"):
                node["values"] = node["values"] + [copy.deepcopy(node["values"][0])]
            else:
                node["pairs"]["zz9"] = copy.deepcopy(next(iter(node["pairs"].values())))
        return s, "%s: %s %s" % ("/".join(map(str, path)), k, m)
    return None, None


def py_compatible(a, b):
    """the property's notion of compatibility, read off the real objects"""
    if a.name != b.name:
        return False
    n = a.name
    da, db = a.__dict__, b.__dict__
    if n in ("Count", "Sum", "Average", "Deviate", "Minimize", "Maximize"):
        return True
    if n == "Bag":
        return da["range"] == db["range"]

    def allc(xs, ys):
        return len(xs) == len(ys) and all(py_compatible(x, y) for x, y in zip(xs, ys))
    if n == "Bin":
        return (da["low"] == db["low"] and da["high"] == db["high"] and
                allc(da["values"], db["values"]) and
                all(py_compatible(da[f], db[f]) for f in ("underflow", "overflow", "nanflow")))
    if n in ("SparselyBin", "Categorize"):
        if n == "SparselyBin" and (da["binWidth"] != db["binWidth"] or da["origin"] != db["origin"]):
            return False
        if da["contentType"] != db["contentType"]:
            return False
        if n == "SparselyBin" and not py_compatible(da["nanflow"], db["nanflow"]):
            return False
        return all(py_compatible(v, db["bins"][k]) for k, v in da["bins"].items() if k in db["bins"])
    if n in ("CentrallyBin", "IrregularlyBin", "Stack"):
        ca, cb = [c for c, _ in da["bins"]], [c for c, _ in db["bins"]]
        return (ca == cb and allc([v for _, v in da["bins"]], [v for _, v in db["bins"]])
                and py_compatible(da["nanflow"], db["nanflow"]))
    if n == "Fraction":
        return py_compatible(da["numerator"], db["numerator"]) and py_compatible(da["denominator"], db["denominator"])
    if n == "Select":
        return py_compatible(da["cut"], db["cut"])
    if n in ("Label", "UntypedLabel"):
        return (set(da["pairs"]) == set(db["pairs"]) and
                all(py_compatible(v, db["pairs"][k]) for k, v in da["pairs"].items()))
    if n in ("Index", "Branch"):
        return allc(list(da["values"]), list(db["values"]))
    raise ValueError(n)


def py_top_compatible(a, b):
    if a.name != b.name:
        return False
    n = a.name
    da, db = a.__dict__, b.__dict__
    if n == "Bag":
        return da["range"] == db["range"]
    if n == "Bin":
        return da["low"] == db["low"] and da["high"] == db["high"] and len(da["values"]) == len(db["values"])
    if n == "SparselyBin":
        return (da["binWidth"] == db["binWidth"] and da["origin"] == db["origin"]
                and da["contentType"] == db["contentType"])
    if n == "Categorize":
        return da["contentType"] == db["contentType"]
    if n in ("CentrallyBin", "IrregularlyBin", "Stack"):
        return [c for c, _ in da["bins"]] == [c for c, _ in db["bins"]]
    if n in ("Label", "UntypedLabel"):
        return set(da["pairs"]) == set(db["pairs"])
    if n in ("Index", "Branch"):
        return len(da["values"]) == len(db["values"])
    return True


def gen_one(r, i, tier):
    dyadic = True
    g = gen.G(r, dyadic=dyadic, max_depth=3 if tier == "quick" else 4)
    spec = g.spec(kind=r.choice(gen.NODES + gen.LEAVES))
    desc = "control (no mutation)"
    spec_b = spec
    if i % 4 != 0:
        j_ = i // 4
        want_class = ["param", "param", "param", "twin", "type"][j_ % 5]
        sb, d = mutate(r, g, spec, want_class, PARAMS[(j_ // 5) % len(PARAMS)])
        if sb is not None:
            try:
                hgm.build(sb)           # constructors reject some mutations (heterogeneous Label/Index)
                spec_b, desc = sb, d
            except Exception:  # noqa: BLE001
                pass
    n = 6 if tier == "quick" else 14
    sa = base.small_stream(r, spec, r.randint(0, n), gen.POSWEIGHTS)
    sb_ = base.small_stream(r, spec_b, r.randint(0, n), gen.POSWEIGHTS)
    ops = [("new", spec)] + base.fill_ops(0, sa) + [("new", spec_b)] + base.fill_ops(1, sb_)
    m = {"mutation": desc}
    ops.append(("add", 0, 1)); m["ab"] = len(ops) - 1
    ops.append(("add", 1, 0)); m["ba"] = len(ops) - 1
    # in-place merges on copies, so that both directions start from the same states
    ops.append(("copy", 0)); ops.append(("copy", 1))          # pool[4], pool[5]
    ops.append(("iadd", 4, 1)); m["ia"] = len(ops) - 1
    ops.append(("iadd", 5, 0)); m["ib"] = len(ops) - 1
    return {"ops": ops, "meta": m}


def gen_programs(r, n, tier):
    return [gen_one(r, i, tier) for i in range(n)]


def oracle(p, run, exact):
    meta = p.get("meta")
    if not meta:
        return []
    m = run["machine"]
    obs = run["obs"]
    if any(ob and ob[0] == 1 for o, ob in zip(p["ops"], obs) if o[0] == "fill"):
        return []
    a, b = m.pool[0], m.pool[1]
    # pool: 0 a, 1 b, 2 a+b, 3 b+a, 4 copy a, 5 copy b
    fails = []
    comp_ab, comp_ba = py_compatible(a, b), py_compatible(b, a)
    for name, ob, comp in (("a + b", obs[meta["ab"]], comp_ab), ("b + a", obs[meta["ba"]], comp_ba)):
        if ob[0] == 0 and not comp:
            fails.append({"clause": "%s of incompatible operands raises  [C10_add_rejects]" % name,
                          "diff": "returned a result", "mutation": meta["mutation"]})
    # whether two aggregators can be merged does not depend on the tolerances configured for ==
    if not comp_ab:
        import histogrammar as hg
        hg.util.relativeTolerance, hg.util.absoluteTolerance = 1e-3, 1e-6
        try:
            a + b
            fails.append({"clause": "a + b of incompatible operands raises whatever the == tolerances are  [C10_add_rejects]",
                          "diff": "returned a result with relativeTolerance=1e-3, absoluteTolerance=1e-6",
                          "mutation": meta["mutation"]})
        except Exception:  # noqa: BLE001
            pass
        finally:
            hg.util.relativeTolerance = hg.util.absoluteTolerance = 0.0
    for name, ob, comp, li, ri in (("a += b", obs[meta["ia"]], comp_ab, 4, 1), ("b += a", obs[meta["ib"]], comp_ba, 5, 0)):
        if comp:
            continue
        if ob[0] == 0:
            fails.append({"clause": "%s of incompatible operands raises  [C10_iadd_rejects]" % name,
                          "diff": "did not raise", "mutation": meta["mutation"]})
            continue
        left_before = m.pool[0] if li == 4 else m.pool[1]
        d = hgm.compare_trees(hgm.tree(m.pool[li]), hgm.tree(left_before), True)
        if d is not None:
            top = py_top_compatible(m.pool[li], m.pool[ri])
            fails.append({"clause": "a rejected %s leaves the left operand unchanged" % name, "diff": d,
                          "nested": top, "mutation": meta["mutation"],
                          "site": type(left_before).__mro__[-4].__name__ if False else left_before.name + ".__iadd__"})
    return fails


def is_known(kf, prog, fails):
    # C10-iadd-partial: a nested mismatch (top-level tests pass) raises after entries / earlier
    # children were merged in place.  Every failure of this program must be of that kind.
    if kf.get("id") != "C10-iadd-partial":
        return False
    return all(f.get("nested") is True and "leaves the left operand unchanged" in f["clause"] for f in fails)


def replay_known(kf):
    """the listed witness still fails on the implementation?"""
    import histogrammar as hg
    a = hg.Branch(hg.Sum(lambda d: d), hg.Bin(2, 0.0, 1.0, lambda d: d))
    b = hg.Branch(hg.Sum(lambda d: d), hg.Bin(3, 0.0, 1.0, lambda d: d))
    b.fill(0.5)
    try:
        a += b
        return False
    except Exception:  # noqa: BLE001
        return a.entries != 0.0
