"""C16 -- one aggregator placed at two positions of a tree is detected, not double-filled."""
from harness import gen, hgm
from harness.props import base

MODE = "id"
Machine = hgm.IdMachine

PROP = {
    "id": "C16",
    "quick_n": 300,
    "thorough_n": 3000,
    "rule": "one program = a tree whose root region is made of collections / binning nodes with "
            "several children of one spec; one child object is installed at a second position "
            "(siblings, or cousins under different parents), optionally after unrelated trees were "
            "filled; then fills (first and later) must raise before any change; a control half "
            "builds the same trees without sharing (sparse containers sharing an unfilled template "
            "included) and must never be rejected; cycles (a node installed below itself) are "
            "checked on the implementation only; non-trivial = more than 2 ops; distinct by op list",
    "assumptions": ["sharing is created by assigning the attribute, as a user would"],
}


def positions(spec, path=()):
    """paths (model fixed-child indexes) of all nodes"""
    yield path, spec
    k = spec["k"]
    kids = []
    if k == "Bin":
        kids = [spec["value"]] * spec["num"] + [spec["under"], spec["over"], spec["nan"]]
    elif k == "SparselyBin":
        kids = [spec["nan"]]
    elif k == "CentrallyBin":
        kids = [spec["value"]] * len(spec["centers"]) + [spec["nan"]]
    elif k in ("IrregularlyBin", "Stack"):
        kids = [spec["value"]] * (len(spec["edges"]) + 1) + [spec["nan"]]
    elif k == "Fraction":
        kids = [spec["value"], spec["value"]]
    elif k == "Select":
        kids = [spec["cut"]]
    elif k in ("Label", "UntypedLabel"):
        kids = [spec["pairs"][x] for x in sorted(spec["pairs"], key=lambda s: s.encode())]
    elif k in ("Index", "Branch"):
        kids = list(spec["values"])
    for i, c in enumerate(kids):
        yield from positions(c, path + (i,))


def gen_one(r, i, tier):
    g = gen.G(r, dyadic=True, max_depth=2, vecbags=False)
    for _ in range(50):
        inner = g.spec(depth=1)
        root_kind = r.choice(["Branch", "Index", "Label", "UntypedLabel", "Bin", "Fraction", "IrregularlyBin",
                              "Stack", "CentrallyBin"])
        if root_kind in ("Branch", "Index"):
            spec = {"k": root_kind, "values": [inner, inner] + ([inner] if r.random() < 0.3 else [])}
        elif root_kind in ("Label", "UntypedLabel"):
            spec = {"k": root_kind, "pairs": {"a": inner, "b": inner}}
        elif root_kind == "Bin":
            spec = {"k": "Bin", "num": 3, "low": 0.0, "high": 3.0, "q": g.q(["f", 0]), "value": inner,
                    "under": {"k": "Count"}, "over": {"k": "Count"}, "nan": {"k": "Count"}}
        elif root_kind == "Fraction":
            spec = {"k": "Fraction", "q": g.q(["<", ["f", 0], ["c", 1.0]]), "value": inner}
        elif root_kind == "Stack":
            spec = {"k": "Stack", "edges": [0.0, 1.0], "q": g.q(["f", 0]), "value": inner, "nan": {"k": "Count"}}
        elif root_kind == "CentrallyBin":
            spec = {"k": "CentrallyBin", "centers": [0.0, 1.0, 2.0], "q": g.q(["f", 0]), "value": inner, "nan": {"k": "Count"}}
        else:
            spec = {"k": "IrregularlyBin", "edges": [0.0, 1.0], "q": g.q(["f", 0]), "value": inner, "nan": {"k": "Count"}}
        if r.random() < 0.4:   # one more level: cousins
            spec = {"k": "Branch", "values": [spec, spec]}
        if r.random() < 0.25:
            # a Select at the root: data that fail the selection never reach the cut, yet the tree
            # below contains the shared node and the fill must be refused all the same
            spec = {"k": "Select", "q": g.q(["<", ["f", 0], ["c", 1.0]]), "cut": spec}
        pos = [(p, s) for p, s in positions(spec) if p]
        # two distinct positions holding the same spec, neither an ancestor of the other
        cands = [(p1, p2) for p1, s1 in pos for p2, s2 in pos
                 if p1 < p2 and s1 == s2 and p2[:len(p1)] != p1]
        if cands:
            break
    p1, p2 = r.choice(cands)
    shared = (i % 2 == 0)
    s = base.small_stream(r, spec, r.randint(1, 4), gen.POSWEIGHTS)
    ops = [("new", spec)]
    if r.random() < 0.3:
        ops += [("new", spec)] + base.fill_ops(1, s[:1])
    if i % 5 == 4:
        # a tree that was filled (and checked) on its own becomes part of a new collection together
        # with one of its inner nodes: Branch(h, h.<inner node>).  The new root aliases pool entry 0,
        # so only the (rejected) fills of the new root follow.
        ops = [("new", spec)] + base.fill_ops(0, s[:r.randint(0, 2)])
        ops.append(("graft", 0, list(p1), r.choice(["branch", "branch", "edlabel", "edindex"])))
        root = 1
        ops += base.fill_ops(root, s)
        if any("q" in s_ for s_ in gen.walk(spec)) and not base.has_kind(spec, ["Average", "Deviate"]):
            rows = [[float(v) if not isinstance(v, str) else v for v in d]
                    for d, _ in base.small_stream(r, spec, 2, [1.0], cats=["a", "b", "zz"])]
            ops.append(("fillnp", root, rows, [1.0 for _ in rows]))
        return {"ops": ops, "meta": {"shared": True, "graft": root}}
    if shared:
        ops.append(("share", 0, list(p1), list(p2)))
    if i % 3 == 2 and not base.has_kind(spec, ["Average", "Deviate"]) and any("q" in s_ for s_ in gen.walk(spec)):
        # vectorised fills of the (shared or unshared) tree, between row fills
        rows = [[float(v) if not isinstance(v, str) else v for v in d]
                for d, _ in base.small_stream(r, spec, r.randint(1, 4), [1.0], cats=["a", "b", "zz"])]
        ops += base.fill_ops(0, s[:1])
        ops.append(("fillnp", 0, rows, [r.choice([1.0, 2.0, 0.5]) for _ in rows]))
        ops += base.fill_ops(0, s[1:])
        ops.append(("fillnp", 0, rows[:2], [1.0 for _ in rows[:2]]))
    else:
        ops += base.fill_ops(0, s)
    return {"ops": ops, "meta": {"shared": shared}}


def gen_programs(r, n, tier):
    return [gen_one(r, i, tier) for i in range(n)]


def oracle(p, run, exact):
    meta = p.get("meta")
    if not meta:
        return []
    obs = run["obs"]
    fails = []
    before = None
    shared_now = False
    for i, (o, ob) in enumerate(zip(p["ops"], obs)):
        if o[0] in ("share", "graft"):
            before = ob[1:ob.index(-777)]
            shared_now = True
        if o[0] in ("fill", "fillnp") and o[1] == meta.get("graft", 0):
            if meta["shared"] and shared_now:
                if ob[0] != 1:
                    fails.append({"clause": "filling a tree with a shared aggregator raises", "op": i,
                                  "diff": "fill returned normally (the shared node is filled twice per datum)"})
                elif before is not None and ob[1:ob.index(-777)] != before:
                    fails.append({"clause": "the rejected fill changes nothing", "op": i, "diff": "snapshot changed"})
            else:
                pass
    if not meta["shared"]:
        m = run["machine"]
        if "Container" in m.exc:
            fails.append({"clause": "a tree without shared nodes is never rejected",
                          "diff": "ContainerException on an unshared tree"})
    return fails[:3]


def cycle_probe():
    """a node installed below itself: checked on the implementation only"""
    import histogrammar as hg
    b = hg.Branch(hg.Sum(lambda d: d), hg.Count())
    b.values = (b.values[0], b)
    try:
        b.fill(1.0)
        return "fill of a cyclic tree returned"
    except hg.defs.ContainerException:
        return None
    except RecursionError:
        return "RecursionError instead of ContainerException"


def extra_evidence(progs, impl):
    return {"cycle_probe": cycle_probe() or "ContainerException raised"}


def replay_known(kf):
    """C16-shared-after-checked-fill: sharing installed by assignment after the root was checked"""
    if kf.get("id") != "C16-shared-after-checked-fill":
        return False
    import histogrammar as hg
    b = hg.Branch(hg.Sum(lambda d: d), hg.Sum(lambda d: d))
    b.fill(1.0)
    b.values = (b.values[0], b.values[0])
    try:
        b.fill(2.0)
    except hg.defs.ContainerException:
        return False
    return b.values[0].entries == 3.0
