"""C09 -- equality is exactly equality of aggregated content."""
import copy

from harness import gen, hgm
from harness.props import base

TOL = 2.0 ** -40          # ~ 9.1e-13 (the property's 1e-12 is not a dyadic literal; same regime)

PROP = {
    "id": "C09",
    "quick_n": 330,
    "thorough_n": 3300,
    "rule": "one program = tree spec S, a single-point mutation S' of it (one numeric parameter, "
            "one extra trailing center/edge/threshold/child, one nested child, one quantity name or "
            "code, Count transform, label key), a, a twin and b = S' filled with the same stream, "
            "one extra fill on the twin, copy, the JSON reload (twice), a reload of a single-point "
            "mutation of the document (one number, one bin key, one extra or missing trailing bin) "
            "and the reload of the reload; every pair is compared with == both ways, at tolerance "
            "0 and 2^-40, with !=, and a pickle clone of every self-compared object; the truth of "
            "== is compared with equality of the toJson documents plus quantity code / transform / "
            "template signature; non-trivial = at least 6 comparisons; distinct by op list",
    "assumptions": ["the expected truth value of a == b is 'toJson documents equal and quantity "
                    "names, function bytecode, Count transforms and sparse templates equal'"],
}


def node_paths(spec, path=()):
    yield path, spec
    for key in ("value", "under", "over", "nan", "cut"):
        if key in spec:
            yield from node_paths(spec[key], path + (key,))
    if "pairs" in spec:
        for k, v in spec["pairs"].items():
            yield from node_paths(v, path + ("pairs", k))
    if "values" in spec:
        for i, v in enumerate(spec["values"]):
            yield from node_paths(v, path + ("values", i))


def get(spec, path):
    for p in path:
        spec = spec[p]
    return spec


def mutate_spec(r, spec):
    """(description, S') with S' a valid tree that differs from S at exactly one point"""
    for _ in range(40):
        s2 = copy.deepcopy(spec)
        path, node = r.choice(list(node_paths(s2)))
        k = node["k"]
        where = "/".join(map(str, path)) or "root"
        opts = []
        if "q" in node:
            opts += ["qname", "qcode", "qfield"]
        if k == "Count":
            opts += ["tr"]
        if k == "Bin":
            opts += ["low", "high", "num"]
        if k == "SparselyBin":
            opts += ["bw", "origin"]
        if k == "CentrallyBin":
            opts += ["center", "addcenter"]
        if k in ("IrregularlyBin", "Stack"):
            opts += ["edge", "addedge"]
        if k in ("Label", "UntypedLabel"):
            opts += ["renamekey", "addkey"]
        if k in ("Index", "Branch"):
            opts += ["addchild"]
        if k in gen.LEAVES:
            opts += ["leafkind"]
        if not opts:
            continue
        o = r.choice(opts)
        if o == "qname":
            node["q"]["name"] = r.choice([n for n in ["x", "y", "zz", None] if n != node["q"]["name"]])
        elif o == "qcode":
            node["q"]["e"] = ["+", node["q"]["e"], ["c", 0.0]] if k not in ("Categorize", "Bag") else node["q"]["e"]
            if k in ("Categorize", "Bag"):
                continue
        elif o == "qfield":
            e = node["q"]["e"]
            if e[0] != "f" or e[1] > 2:
                continue
            node["q"]["e"] = ["f", (e[1] + 1) % 3]
        elif o == "tr":
            node["tr"] = "sq" if node.get("tr", "id") == "id" else "id"
        elif o == "low":
            node["low"] -= 0.125
        elif o == "high":
            node["high"] += 0.125
        elif o == "num":
            node["num"] += 1
        elif o == "bw":
            node["bw"] *= 2.0
        elif o == "origin":
            node["origin"] += 0.125
        elif o == "center":
            cs = sorted(node["centers"])
            cs[-1] += 0.125
            node["centers"] = cs
        elif o == "addcenter":
            node["centers"] = sorted(node["centers"]) + [max(node["centers"]) + 1.0]
        elif o == "edge":
            node["edges"][-1] += 0.125
        elif o == "addedge":
            node["edges"] = list(node["edges"]) + [max(node["edges"]) + 1.0]
        elif o == "renamekey":
            ks = list(node["pairs"])
            old = r.choice(ks)
            new = r.choice([x for x in ["a", "b", "x", "yy", "k1", "q9"] if x not in ks])
            node["pairs"] = {(new if kk == old else kk): v for kk, v in node["pairs"].items()}
        elif o == "addkey":
            ks = list(node["pairs"])
            new = r.choice([x for x in ["a", "b", "x", "yy", "k1", "q9"] if x not in ks])
            node["pairs"][new] = copy.deepcopy(node["pairs"][ks[0]])
        elif o == "addchild":
            node["values"] = list(node["values"]) + [copy.deepcopy(node["values"][-1])]
        elif o == "leafkind":
            newk = r.choice([x for x in ["Count", "Sum", "Average", "Deviate", "Minimize", "Maximize", "Bag", "Bag"] if x != k])
            q = node.get("q") or {"name": None, "id": 0, "e": ["f", 0]}
            if k == "Bag" and node["range"] == "S":
                q = {"name": q["name"], "id": 0, "e": ["f", 0]}
            node.clear()
            node.update({"k": newk} if newk == "Count" else {"k": newk, "q": q, "range": "N"} if newk == "Bag"
                        else {"k": newk, "q": q})
        try:
            hgm.build(s2)
        except Exception:  # noqa: BLE001
            continue
        if s2 != spec:
            return "%s at %s" % (o, where), s2
    return None, None


def doc_paths(doc, path=()):
    yield path, doc
    if isinstance(doc, dict):
        for k, v in doc.items():
            yield from doc_paths(v, path + (k,))
    elif isinstance(doc, list):
        for i, v in enumerate(doc):
            yield from doc_paths(v, path + (i,))


MUT_KINDS = ["number", "name", "bagw", "inf", "key", "extra", "drop", "nanw", "empty", "number"]


def mutate_doc(r, doc, prefer=None):
    """a single-point change of a valid document that (usually) gives another valid document; the kind
    of change is `prefer` when the document offers a place for it (the generator goes through
    MUT_KINDS program by program), otherwise any kind it does offer"""
    ps = list(doc_paths(doc))
    where = {
        "empty": [p for p, v in ps if isinstance(v, dict) and v.get("bins") == {} and "bins:type" in v],
        "name": [p for p, v in ps if p and isinstance(p[-1], str) and (p[-1] == "name" or p[-1].endswith(":name"))
                 and isinstance(v, str)],
        "nanw": [p for p, v in ps if isinstance(v, dict) and v.get("v") == "nan" and isinstance(v.get("w"), (int, float))],
        "bagw": [p for p, v in ps if isinstance(v, dict) and "v" in v and isinstance(v.get("w"), (int, float))
                 and not isinstance(v.get("w"), bool)],
        "inf": [p for p, v in ps if p and ((v in ("inf", "-inf") and p[-1] != "atleast") or
                                           (isinstance(v, float) and p[-1] in ("sum", "mean", "min", "max", "variance")))],
        "number": [p for p, v in ps if p and isinstance(v, (int, float)) and not isinstance(v, bool)],
        "key": [p for p, v in ps if isinstance(v, dict) and v and p and p[-1] == "bins" and all(_isint(k) for k in v)],
        "extra": [p for p, v in ps if isinstance(v, list) and v and p and p[-1] in ("bins", "values", "data")],
        "drop": [p for p, v in ps if isinstance(v, list) and len(v) > 1 and p and p[-1] in ("bins", "values", "data")],
    }
    avail = [k for k in where if where[k]]
    if not avail:
        return None, None
    for attempt in range(30):
        kind = prefer if (prefer in avail and attempt < 5) else r.choice(avail)
        d = copy.deepcopy(doc)
        p = r.choice(where[kind])
        at = "/".join(map(str, p))
        if kind == "empty":
            o = get(d, p)
            o["bins:type"] = "Sum" if o["bins:type"] != "Sum" else "Count"
            o.pop("bins:name", None)
            return "declared type of the empty bins at /%s" % at, d
        if kind == "name":
            # a quantity name (also of the immutable form, whose functions are all None)
            get(d, p[:-1])[p[-1]] = get(d, p) + "_2"
            return "quantity name at /%s" % at, d
        if kind in ("nanw", "bagw"):
            get(d, p)["w"] = get(d, p)["w"] + 1.0
            return "weight of the value %r at /%s" % (get(d, p)["v"], at), d
        if kind == "inf":
            v = get(d, p)
            if v in ("inf", "-inf"):
                get(d, p[:-1])[p[-1]] = 5.0 if v == "inf" else -3.0
                return "infinite number made finite at /%s" % at, d
            get(d, p[:-1])[p[-1]] = "inf" if v > 0 else "-inf"
            return "finite number made infinite at /%s" % at, d
        if kind == "number":
            v = get(d, p)
            get(d, p[:-1])[p[-1]] = v + r.choice([0.125, 1.0, 2.0 ** -45 * max(1.0, abs(v))])
            return "number at /%s" % at, d
        if kind == "key":
            b = get(d, p)
            k = r.choice(sorted(b))
            nk = str(int(k) + r.choice([1, -1, 7]))
            if nk in b:
                continue
            b[nk] = b.pop(k)
            return "bin key %s -> %s at /%s" % (k, nk, at), d
        if kind == "extra":
            lst = get(d, p)
            last = copy.deepcopy(lst[-1])
            if isinstance(last, dict) and "atleast" in last:
                if not isinstance(last["atleast"], (int, float)):
                    continue
                last["atleast"] = last["atleast"] + 1.0 if last["atleast"] != float("-inf") else 0.0
            elif isinstance(last, dict) and "center" in last:
                last["center"] = last["center"] + 1.0
            elif isinstance(last, dict) and "v" in last and "w" in last:
                continue
            lst.append(last)
            return "extra trailing element in /%s" % at, d
        if kind == "drop":
            get(d, p).pop()
            return "dropped trailing element of /%s" % at, d
    return None, None


def _isint(k):
    try:
        int(k)
        return True
    except ValueError:
        return False


def gen_one(r, i, tier):
    dyadic = (i % 4 != 3)
    g = gen.G(r, dyadic=dyadic, counts_tsq=True, max_depth=3 if tier == "quick" else 4)
    spec = g.spec(kind=r.choice(gen.NODES + gen.NODES + gen.LEAVES))
    n = r.choice([0, r.randint(1, 6), r.randint(1, 12)])
    s = (base.small_stream(r, spec, n, gen.WEIGHTS, cats=gen.STRCATS) if dyadic
         else gen.stream(r, spec, n, cats=gen.STRCATS))
    extra = (base.small_stream(r, spec, 1, gen.POSWEIGHTS, cats=gen.STRCATS) if dyadic
             else gen.stream(r, spec, 1, gen.POSWEIGHTS, cats=gen.STRCATS))
    desc, spec2 = mutate_spec(r, spec)
    ops = []
    labels = []

    def eq(a, b, what):
        ops.append(("eq", a, b, TOL))
        labels.append(what)

    ops.append(("new", spec)); ops.extend(base.fill_ops(0, s))           # 0 = a
    ops.append(("new", spec)); ops.extend(base.fill_ops(1, s))           # 1 = twin
    nxt = 2
    eq(0, 0, "a == a")
    eq(0, 1, "a == twin (same spec, same stream)")
    if spec2 is not None:
        ops.append(("new", spec2)); ops.extend(base.fill_ops(nxt, s))
        eq(0, nxt, "a == b with spec mutation: %s" % desc)
        eq(nxt, nxt, "b == b")
        nxt += 1
    ops.append(("copy", 0)); eq(0, nxt, "a == a.copy()"); nxt += 1
    ops.extend(base.fill_ops(1, extra))
    eq(0, 1, "a == twin after one extra fill of the twin")
    # immutable forms
    h = hgm.build(spec)
    for d, w in s:
        try:
            h.fill(tuple(d), w)
        except Exception:  # noqa: BLE001
            pass
    doc = h.toJson()
    ops.append(("fromjson", doc)); r1 = nxt; nxt += 1
    ops.append(("fromjson", copy.deepcopy(doc))); r2 = nxt; nxt += 1
    eq(r1, r2, "reload == second reload of the same document")
    eq(r1, r1, "reload == itself")
    eq(0, r1, "live == reload")
    for _k in range(2 if tier == "quick" else 4):
        md, mdoc = mutate_doc(r, doc, MUT_KINDS[(i * 4 + _k) % len(MUT_KINDS)])
        if mdoc is not None:
            # a mutation may make siblings that share one "...:type" field differ in a structural
            # parameter; the constructors of the immutable form then refuse the document (their
            # copy() of a flow child adds it to its own zero()).  Such documents belong to C15, not to
            # a comparison of two reloads: only documents the reader accepts are used here
            try:
                import histogrammar as hg
                hg.Factory.fromJson(copy.deepcopy(mdoc))
            except Exception:  # noqa: BLE001
                mdoc = None
        if mdoc is not None:
            ops.append(("fromjson", mdoc))
            eq(r1, nxt, "reload == reload of mutated document: %s" % md)
            nxt += 1
    ops.append(("jsonrt", r1)); eq(r1, nxt, "reload == reload of the reload"); nxt += 1
    c = r.random()
    if c < 0.3:
        ops.append(("add", r1, r2)); ops.append(("mul", r1, 2.0))
        eq(nxt, nxt + 1, "r + r == r * 2"); nxt += 2
    elif c < 0.5:
        ops.append(("zero", 0)); ops.append(("new", spec))
        eq(nxt, nxt + 1, "a.zero() == fresh"); nxt += 2
    return {"ops": ops, "meta": {"labels": labels, "mutation": desc}}


def gen_programs(r, n, tier):
    return [gen_one(r, i, tier) for i in range(n)]


def oracle(p, run, exact):
    meta = p.get("meta")
    if not meta:
        return []
    obs = run["obs"]
    m = run["machine"]
    log = getattr(m, "eqlog", {})
    fails = []
    j = 0
    for o, ob in zip(p["ops"], obs):
        if o[0] != "eq":
            continue
        what = meta["labels"][j]
        f = log.get(j, {})
        j += 1
        r0, r1, r2 = ob
        if 2 in ob or 3 in ob or f.get("ne") in (2, 3):
            fails.append({"clause": "== returns a truth value", "pair": what, "diff": "raised or returned a non-bool: %r" % (ob,)})
            continue
        if r0 != r1:
            fails.append({"clause": "== is symmetric  [C09_sym]", "pair": what, "diff": "a==b is %d, b==a is %d" % (r0, r1)})
        if f.get("ne") != 1 - r0:
            fails.append({"clause": "!= is the negation of ==", "pair": what, "diff": "a==b is %d, a!=b is %r" % (r0, f.get("ne"))})
        if r0 == 1 and r2 != 1:
            fails.append({"clause": "positive tolerances only widen the comparison  [C09_tolerance_widens]", "pair": what,
                          "diff": "equal at tolerance 0, unequal at 2^-40"})
        if r0 == 1 and any(t_ != 1 for t_ in f.get("one_tolerance", [])):
            fails.append({"clause": "positive tolerances only widen the comparison  [C09_tolerance_widens]", "pair": what,
                          "diff": "equal at tolerance 0, with only the relative / only the absolute tolerance set: %r" % (f.get("one_tolerance"),)})
        if r0 == 1 and not f.get("docs_equal"):
            fails.append({"clause": "a == b implies the same content at every node  [C09_sound]", "pair": what,
                          "diff": "a == b although the toJson documents differ"})
        if r0 == 0 and f.get("docs_equal") and f.get("qsig_equal"):
            fails.append({"clause": "equal content compares equal  [C09_complete]", "pair": what,
                          "diff": "a != b although documents, quantity names/code and templates agree"})
        if o[1] == o[2]:
            if r0 != 1:
                fails.append({"clause": "an aggregator equals itself  [C09_refl]", "pair": what, "diff": "a == a is False"})
            pk = f.get("pickle")
            if pk != [1, 1, True]:
                fails.append({"clause": "an aggregator equals its pickle clone", "pair": what, "diff": "pickle: %r" % (pk,)})
    return fails[:6]
