"""C14 -- DataFrame filling is a homomorphism and agrees with direct filling."""
import copy
import io
import contextlib

from harness import dfspec, gen, hgm
from harness.props import base

NO_SHRINK = True
Machine = hgm.DfMachine
TIE_EXACT_ONLY = True

PROP = {
    "id": "C14",
    "quick_n": 250,
    "thorough_n": 2500,
    "rule": "one program = a dataframe of 1-14 rows with float (NaN), integer, boolean and timestamp "
            "(NaT) columns, one feature of 1-3 columns, bin specifications that are explicit (every "
            "supported kind), or those make_histograms itself returned for binning 'auto' / 'unit' "
            "with ret_specs=True (with and without time_axis); make_histograms(whole), "
            "make_histograms(chunk) for a random partition of the rows into 1-3 chunks summed with +, "
            "and the same tree built from the primitives and filled from the columns; all three are "
            "compared up to empty sparse bins; entries = number of rows; the frame is compared with a "
            "copy; non-trivial = at least 2 rows; distinct by op list",
    "assumptions": ["string columns are outside the claim (pandas 3 string dtype), as the property says",
                    "the tree of a feature is derived from (columns, dtypes, bin_specs) by harness/dfspec.py, "
                    "a transcription of construct_empty_hist / get_hist_bin"],
}

DT = {"x": "float", "y": "float", "i": "int", "b": "bool", "t": "ts"}
DAY = 86400 * 10 ** 9
T0 = 1577836800 * 10 ** 9          # 2020-01-01


def tie_applicable(p, exact):
    return exact


def rand_rows(r, n, unit="ns"):
    # instants with a sub-second part, as fine as the resolution of the column allows
    fine = {"ns": 123456789, "us": 123456000, "ms": 123000000, "s": 0}[unit]
    rows = []
    for _ in range(n):
        rows.append({
            "x": r.choice([None, 0.0, 0.5, 1.0, 1.25, 2.5, -1.0, -0.75, 3.0, 7.5]),
            "y": r.choice([None, 0.0, 0.25, 1.0, 2.0, 4.0, -2.0, 10.0]),
            "i": r.choice([0, 1, 2, 3, 5, 8, -1, -4]),
            "b": r.choice([True, False]),
            "t": r.choice([None, T0, T0 + DAY, T0 + 3 * DAY, T0 + 10 * DAY + 3600 * 10 ** 9, T0 - DAY,
                           T0 + fine, T0 + 3 * DAY + 7 * fine]),
        })
    return rows


def rand_spec(r, col):
    dt = DT[col]
    if dt == "bool":
        return {}
    if dt == "ts":
        return {"binWidth": float(r.choice([DAY, 7 * DAY, 3600 * 10 ** 9])), "origin": float(T0 - r.choice([0, DAY // 2]))}
    c = r.random()
    if c < 0.3:
        if r.random() < 0.3:
            return {"binWidth": r.choice([1.0, 0.5, 2.0, 0.25])}        # the origin defaults to 0
        return {"binWidth": r.choice([1.0, 0.5, 2.0, 0.25]), "origin": r.choice([0.0, 0.5, -0.25])}
    if c < 0.55:
        lo = r.choice([-2.0, 0.0, 0.5])
        return {"num": r.choice([2, 4, 5, 8]), "low": lo, "high": lo + r.choice([2.0, 4.0, 8.0])}
    if c < 0.7:
        return {"edges": sorted(r.sample([-1.0, 0.0, 0.5, 1.0, 2.0, 4.0], r.randint(1, 4)))}
    if c < 0.85:
        return {"centers": sorted(r.sample([-1.0, 0.0, 0.5, 1.0, 2.0, 4.0], r.randint(2, 4)))}
    return {"thresholds": sorted(r.sample([-1.0, 0.0, 1.0, 2.0], r.randint(1, 3)))}


def auto_specs(rows, cols, binning, time_axis):
    """what make_histograms itself chooses and returns (ret_specs=True) for this frame"""
    from histogrammar.dfinterface.make_histograms import make_histograms
    key = ":".join(cols)
    df = dfspec.frame(rows, list(DT), DT)
    kw = {"features": [key], "binning": binning, "ret_specs": True}
    if time_axis:
        kw.update(time_axis="t", time_width="1d", time_offset="2020-01-01")
    with contextlib.redirect_stderr(io.StringIO()):
        out = make_histograms(df, **kw)
    specs = out[2].get(key)
    if specs is None:
        specs = [out[2].get(c, {}) for c in cols]
    if isinstance(specs, dict):
        specs = [specs]
    res = []
    for c, sp in zip(cols, specs):
        sp = {k: (v if isinstance(v, (list, bool)) else int(v) if k == "num" else float(v)) for k, v in dict(sp).items()}
        if "bin_width" in sp:
            sp = {"binWidth": sp["bin_width"], "origin": sp.get("bin_offset", 0.0)}
        res.append(sp)
    return res


def gen_one(r, i, tier):
    # (make_histograms refuses an empty frame with RuntimeError("data is empty"): frames and chunks have rows)
    n = r.choice([1, 2, r.randint(3, 14), r.randint(3, 14), r.randint(3, 14)])
    ts_unit = r.choice(["ns", "ns", "us", "ms", "s"])      # timestamp columns of every resolution
    rows = rand_rows(r, n, ts_unit)
    ndim = r.choice([1, 1, 2, 2, 3])
    cols = r.sample(list(DT), ndim)
    mode = r.choice(["explicit", "explicit", "auto", "unit"]) if n >= 2 else "explicit"
    time_axis = False
    specs = None
    if mode != "explicit":
        time_axis = ("t" in cols and cols[0] == "t" and r.random() < 0.5)
        try:
            specs = auto_specs(rows, cols, mode, time_axis)
            for c, sp in zip(cols, specs):
                dfspec.tree([c], DT, [sp])
        except Exception:  # noqa: BLE001
            specs = None
            mode = "explicit"
            time_axis = False
    if specs is None:
        specs = [rand_spec(r, c) for c in cols]
        if DT[cols[-1]] in ("float", "int", "ts") and r.random() < 0.25:
            # the last axis as a plain aggregate of the column (sum / average / extrema)
            # (sums of instants - 1.6e18 ns each - are exact in one order of summation only: extrema there)
            kinds = ["maximize", "minimize"] if DT[cols[-1]] == "ts" else ["sum", "average", "maximize", "minimize"]
            specs[-1] = {r.choice(kinds): True}
    extra = {"columns": list(DT), "mode": mode}
    if ndim >= 2 and r.random() < 0.4:
        j = r.randrange(ndim)
        if DT[cols[j]] != "bool":
            extra["col_specs"] = {cols[j]: specs[j]}
    # timestamp columns of every resolution (all generated instants are whole seconds)
    extra["ts_unit"] = ts_unit
    # row labels: the default range, repeated labels (what pd.concat of chunks gives) or another order
    extra["index"] = r.choice([None, None, "dup", "rev"])
    # a time axis whose own width / offset differ from the user's specification of that column,
    # which takes precedence (make_histograms: "note: bin_specs takes precedence")
    if "t" in cols and r.random() < 0.5 and (cols == ["t"] or "t" in (extra.get("col_specs") or {})):
        extra.update(time_axis="t", time_width=r.choice(["1d", "30d", 3600e9]),
                     time_offset=r.choice(["2010-01-04", "2020-01-01"]))
    ops = []
    meta = {"mode": mode, "n": n, "cols": cols}
    ops.append(("dfhist", cols, DT, specs, copy.deepcopy(rows), extra)); meta["whole"] = 0
    pool = 1
    # chunks
    k = r.randint(1, min(3, n))
    parts = [p_ for p_ in base.random_partition(r, rows, k) if p_]
    idx = []
    for part in parts:
        ops.append(("dfhist", cols, DT, specs, copy.deepcopy(part), extra))
        idx.append(pool); pool += 1
    acc = idx[0]
    for j in idx[1:]:
        ops.append(("add", acc, j)); acc = pool; pool += 1
    ops.append(("snapp", acc)); meta["sum_snap"] = len(ops) - 1
    meta["chunks"] = [len(p_) for p_ in parts]
    # the same tree from the primitives, filled from the columns
    spec = dfspec.tree(cols, DT, specs)
    ops.append(("new", spec)); d = pool; pool += 1
    ops.append(("fillnp", d, dfspec.model_rows(rows, cols, DT), 1.0))
    ops.append(("snapp", d)); meta["direct_snap"] = len(ops) - 1
    return {"ops": ops, "meta": meta}


def gen_programs(r, n, tier):
    return [gen_one(r, i, tier) for i in range(n)]


def oracle(p, run, exact):
    meta = p.get("meta")
    if not meta:
        return []
    obs = run["obs"]
    m = run["machine"]
    fails = []
    for rec in getattr(m, "dflog", []):
        if "raised" in rec:
            fails.append({"clause": "make_histograms accepts the frame", "rows": rec["rows"], "feature": rec["key"], "diff": rec["raised"]})
            continue
        if rec["entries"] != float(rec["rows"]):
            fails.append({"clause": "entries equals the number of rows", "feature": rec["key"],
                          "diff": "%r entries for %d rows" % (rec["entries"], rec["rows"])})
        if rec.get("pickles") is not True:
            fails.append({"clause": "a histogram made by make_histograms is an ordinary aggregator (it can be pickled)  [C11]",
                          "feature": rec["key"], "diff": "pickle round trip: %r" % (rec.get("pickles"),)})
        if not rec["unmodified"]:
            fails.append({"clause": "the input dataframe is not modified", "feature": rec["key"], "diff": "df.equals(copy) is False"})
    if fails:
        return fails[:4]
    whole = obs[meta["whole"]]
    if whole[0] != 0:
        return fails
    if any(ob == [1] for o, ob in zip(p["ops"], obs) if o[0] == "add"):
        fails.append({"clause": "histograms of chunks made with the same specifications can be added", "diff": "+ raised"})
        return fails
    x = obs[meta["sum_snap"]]
    if whole[1:] != x:
        k = next((q for q, (a, c) in enumerate(zip(whole[1:], x)) if a != c), min(len(x), len(whole) - 1))
        fails.append({"clause": "the histograms of row-wise chunks add up to the histogram of the whole frame  [C14_chunks]",
                      "chunks": meta["chunks"], "feature": ":".join(meta["cols"]),
                      "diff": "token %d: whole %r, sum %r" % (k, whole[1:][max(0, k - 3):k + 5], x[max(0, k - 3):k + 5])})
    y = obs[meta["direct_snap"]]
    if whole[1:] != y:
        k = next((q for q, (a, c) in enumerate(zip(whole[1:], y)) if a != c), min(len(y), len(whole) - 1))
        fails.append({"clause": "make_histograms equals filling the same primitive tree directly from the columns  [C14_direct]",
                      "feature": ":".join(meta["cols"]),
                      "diff": "token %d: make_histograms %r, direct %r" % (k, whole[1:][max(0, k - 3):k + 5], y[max(0, k - 3):k + 5])})
    return fails[:4]
