"""C05 -- bookkeeping invariants: every datum lands in exactly one bin, totals conserve."""
import math

from harness import gen, hgm
from harness.props import base

PROP = {
    "id": "C05",
    "quick_n": 400,
    "thorough_n": 4000,
    "rule": "one program = a history over a pool of up to 6 aggregators of one or two tree specs: "
            "fills over the critical values of the tree (every edge and its +-1,+-2 ulp neighbours, "
            "nan, +-inf; dyadic and non-dyadic configurations such as width 0.1, 1/3, offsets 1e16), "
            "merges (+, +=), scalings, copies, zero - and, in every fourth program, vectorised fills "
            "(weight arrays with zeros), JSON reloads and pickle clones; after every operation the invariant is evaluated "
            "on the implementation's public entries fields of every node; non-trivial = more than 3 "
            "ops; distinct by op list",
    "assumptions": ["sums are compared exactly on exact programs and with 1e-9 tolerance otherwise",
                    "a Count with a non-identity transform is not placed below a binning node"],
}


TIE_EXACT_ONLY = True


def tie_applicable(p, exact):
    """bit-for-bit against the model everywhere, except below a vectorised fill where the arithmetic
    is inexact or Average/Deviate are involved (the kernels sum in another order)"""
    if not any(o[0] == "fillnp" for o in p["ops"]):
        return True
    # (exact-safe certifies the row order only: a batch is bit-exact in numpy's order as well only when
    # every value is a small dyadic by construction)
    return exact and bool(p.get("meta", {}).get("dyadic")) and not base.has_kind(p["ops"][0][1], ["Average", "Deviate"])


def gen_vectorised(r, i, tier):
    """histories that also use fill.numpy, JSON reloads and pickle clones"""
    dyadic = (i % 2 == 0)
    g = gen.G(r, dyadic=dyadic, max_depth=3 if tier == "quick" else 4, vecbags=False)
    for _ in range(30):
        spec = g.spec(kind=r.choice(gen.NODES))
        if any("q" in s_ for s_ in gen.walk(spec)):
            break
    ops = [("new", spec), ("new", spec)]
    npool = 2
    cats = ["a", "b", "zz", ""]

    def rows(k):
        rs = [d for d, _ in (base.small_stream(r, spec, k, [1.0], cats=cats) if dyadic else gen.stream(r, spec, k, [1.0], cats=cats))]
        return [[(float(v) if not isinstance(v, (str, bool)) else float(v) if isinstance(v, bool) and j < 3 else v)
                 for j, v in enumerate(d)] for d in rs]
    frozen = set()      # pool entries without functions (JSON reloads and what is derived from them):
    # fill.numpy on them raises whatever the batch, a row fill only for a positive weight

    def derive(*src):
        if any(x in frozen for x in src):
            frozen.add(npool)
    for _ in range(r.randint(4, 12 if tier == "quick" else 30)):
        c = r.random()
        live = [k for k in range(npool) if k not in frozen]
        if c < 0.35 and live:
            rs = rows(r.randint(0, 6))
            ops.append(("fillnp", r.choice(live), rs, [r.choice([1.0, 2.0, 0.5, 0.0, 0.25]) for _ in rs]))
        elif c < 0.6:
            ops.append(("fill", r.randrange(npool), rows(1)[0], r.choice(gen.WEIGHTS)))
        elif c < 0.7:
            a, b = r.randrange(npool), r.randrange(npool)
            ops.append(("add", a, b)); derive(a, b); npool += 1
        elif c < 0.78:
            a, b = r.randrange(npool), r.randrange(npool)
            ops.append(("iadd", a, b))
            if b in frozen:
                frozen.add(a)        # a now holds bins copied from a function-less reload
        elif c < 0.84:
            a = r.randrange(npool)
            ops.append(("mul", a, r.choice([0.5, 2.0, 0.25, 3.0]))); derive(a); npool += 1
        elif c < 0.9:
            ops.append(("jsonrt", r.randrange(npool))); frozen.add(npool); npool += 1
        elif c < 0.96:
            a = r.randrange(npool)
            ops.append(("clone", a)); derive(a); npool += 1
        else:
            a = r.randrange(npool)
            ops.append(("copy", a)); derive(a); npool += 1
        if npool >= 6:
            break
    return {"ops": ops, "meta": {"dyadic": dyadic, "vectorised": True}}


def gen_one(r, i, tier):
    if i % 4 == 3:
        return gen_vectorised(r, i // 4, tier)
    dyadic = (i % 2 == 0)
    g = gen.G(r, dyadic=dyadic, max_depth=3 if tier == "quick" else 4)
    probe = (i % 4 == 1)
    spec = g.spec(kind=r.choice(["Bin", "Bin", "SparselyBin", "CentrallyBin", "IrregularlyBin", "Stack"])
                  if probe else r.choice(gen.NODES))
    guard = (i % 8 == 6)
    if guard:
        # scaling by a non-positive / NaN factor: every node kind at the root (collections also
        # directly below a collection of their own kind), filled, then scaled and merged back
        K = gen.NODES[(i // 8) % len(gen.NODES)]
        spec = g.spec(kind=K)
        if K in ("Index", "Branch") and (i // 8 // len(gen.NODES)) % 2 == 1:
            spec = {"k": K, "values": [spec]}
    vals = gen.critical_values(spec)
    bf = gen.critical_by_field(spec)
    ops = [("new", spec), ("new", spec)]
    npool = 2
    if guard:
        for _ in range(r.randint(2, 5)):
            d = gen.datum(r, vals, byfield=bf) if not dyadic else base.small_stream(r, spec, 1, [1.0])[0][0]
            ops.append(("fill", 0, d, r.choice([1.0, 2.0, 0.5])))
        f = [-1.0, float("nan"), -float("inf"), 0.0, -0.5][(i // 8) % 5]
        ops.append(("mul", 0, f))          # 2
        ops.append(("add", 0, 2))          # 3
        ops.append(("iadd", 1, 2))
        ops.append(("mul", 3, 2.0))        # 4
        return {"ops": ops, "meta": {"dyadic": dyadic, "guard": True}}
    if probe:
        # edge-adjacency probe: every critical value of the root's own configuration, once,
        # through the field its quantity reads
        fs = [f for f in gen.fields_of(spec["q"]["e"]) if f in (0, 1, 2)]
        if spec["q"]["e"][0] == "f" and fs:
            for v in gen.clean(gen.node_criticals(spec)) + [gen.NAN, gen.INF, -gen.INF]:
                d = gen.datum(r, vals, byfield=bf)
                d[fs[0]] = v
                ops.append(("fill", 0, d, 1.0))
    n = r.randint(4, 14 if tier == "quick" else 40)
    for _ in range(n):
        c = r.random()
        if c < 0.6:
            d = gen.datum(r, vals, byfield=bf) if (not dyadic or r.random() < 0.5) else base.small_stream(r, spec, 1, [1.0])[0][0]
            ops.append(("fill", r.randrange(npool), d, r.choice(gen.WEIGHTS)))
        elif c < 0.72:
            ops.append(("add", r.randrange(npool), r.randrange(npool))); npool += 1
        elif c < 0.8:
            ops.append(("iadd", r.randrange(npool), r.randrange(npool)))
        elif c < 0.88:
            ops.append(("mul", r.randrange(npool), r.choice([0.5, 2.0, 0.25, 3.0, 0.0, -1.0]))); npool += 1
        elif c < 0.94:
            ops.append(("copy", r.randrange(npool))); npool += 1
        else:
            ops.append(("zero", r.randrange(npool))); npool += 1
        if npool >= 6:
            break
    return {"ops": ops, "meta": {"dyadic": dyadic}}


def gen_programs(r, n, tier):
    return [gen_one(r, i, tier) for i in range(n)]


def ent(h):
    return float(h.__dict__["entries"])


def inv(h, exact, path="root"):
    """list of violated clauses of the invariant on a real object"""
    out = []
    n = h.name
    d = h.__dict__
    e = ent(h)

    def eq(x, y):
        return hgm.same_value(x, y) if exact else hgm.close(x, y)
    if not (e >= 0.0) and e == e:
        out.append("%s: entries %r negative" % (path, e))
    kids = []
    if n == "Bag":
        tot = math.fsum(float(c) for c in d["values"].values())
        if not eq(tot, e):
            out.append("%s: Bag weights sum %r != entries %r" % (path, tot, e))
    elif n == "Bin":
        kids = list(d["values"]) + [d["underflow"], d["overflow"], d["nanflow"]]
        part = kids
    elif n == "SparselyBin":
        kids = list(d["bins"].values()) + [d["nanflow"]]
        part = kids
    elif n in ("CentrallyBin", "IrregularlyBin"):
        kids = [v for _, v in d["bins"]] + [d["nanflow"]]
        part = kids
    elif n == "Categorize":
        kids = list(d["bins"].values())
        part = kids
    elif n in ("Label", "UntypedLabel"):
        kids = list(d["pairs"].values())
    elif n in ("Index", "Branch"):
        kids = list(d["values"])
    elif n == "Fraction":
        kids = [d["numerator"], d["denominator"]]
        if not eq(ent(d["denominator"]), e):
            out.append("%s: Fraction denominator %r != entries %r" % (path, ent(d["denominator"]), e))
    elif n == "Select":
        kids = [d["cut"]]
    elif n == "Stack":
        levels = [v for _, v in d["bins"]]
        ths = [c for c, _ in d["bins"]]
        kids = levels + [d["nanflow"]]
        if ths == sorted(ths):
            es = [ent(v) for v in levels]
            if any(es[i] < es[i + 1] and not hgm.close(es[i], es[i + 1]) for i in range(len(es) - 1)):
                out.append("%s: Stack levels increase %r" % (path, es))
            if not eq(es[0] + ent(d["nanflow"]), e):
                out.append("%s: Stack level0+nanflow %r != entries %r" % (path, es[0] + ent(d["nanflow"]), e))
    if n in ("Bin", "SparselyBin", "CentrallyBin", "IrregularlyBin", "Categorize"):
        if n != "IrregularlyBin" or [c for c, _ in d["bins"]] == sorted(c for c, _ in d["bins"]):
            if not any(k.name == "Count" and k.__dict__["transform"] != hgm.identity for k in part):
                tot = math.fsum(ent(k) for k in part)
                if not eq(tot, e):
                    out.append("%s: %s children sum %r != entries %r" % (path, n, tot, e))
    if n in ("Label", "UntypedLabel", "Index", "Branch"):
        for j, k in enumerate(kids):
            if not eq(ent(k), e) and not (k.name == "Count" and k.__dict__["transform"] != hgm.identity):
                out.append("%s: child %d entries %r != parent %r" % (path, j, ent(k), e))
    for j, k in enumerate(kids):
        out += inv(k, exact, "%s/%s[%d]" % (path, n, j))
    return out


class Machine(hgm.PruneMachine):
    """also evaluates the invariant on every pool entry after every op"""

    def __init__(self):
        super().__init__()
        self.inv_fail = []
        self.numeric_raise = []

    def step(self, op):
        ob = super().step(op)
        if op[0] == "fill" and ob and ob[0] == 1:
            # a numeric quantity must be accepted: generated data never has a wrong type for
            # numeric quantities (categorical mismatches raise TypeError and are not counted)
            if self.exc and self.exc[-1] not in ("Type",):
                self.numeric_raise.append({"op": op, "exc": self.exc[-1]})
        return ob


def oracle(p, run, exact):
    m = run["machine"]
    meta = p.get("meta") or {}
    dex = exact or False
    fails = []
    for x in m.numeric_raise:
        fails.append({"clause": "a numeric quantity value is accepted by fill without error",
                      "diff": "fill raised %s" % x["exc"], "op": [x["op"][0], x["op"][1], x["op"][2][:3]]})
    # partial states after a raising fill of a collection are outside the invariant (C12): skip
    # pool entries that experienced a raising fill/iadd
    tainted = set()
    npool = 0
    for o, ob in zip(p["ops"], run["obs"]):
        if o[0] in ("fill", "fillnp", "iadd") and ob and ob[0] == 1:
            tainted.add(o[1])
        if o[0] == "iadd" and o[2] in tainted:
            tainted.add(o[1])
        if o[0] in ("new", "add", "mul", "zero", "copy", "jsonrt", "clone"):
            if any(isinstance(x, int) and x in tainted for x in o[1:3] if not isinstance(x, (dict, float))):
                if o[0] != "zero":
                    tainted.add(npool)
            npool += 1
    for i, h in enumerate(m.pool):
        if i in tainted:
            continue
        for v in inv(h, dex):
            fails.append({"clause": "invariant", "diff": "pool[%d] %s" % (i, v)})
    return fails
