"""C13 -- derived views (bin edges, centres, entries) agree with fill."""
import copy
import math

from harness import gen, hgm
from harness.props import base

NO_SHRINK = True
TIE_EXACT_ONLY = True

PROP = {
    "id": "C13",
    "quick_n": 400,
    "thorough_n": 4000,
    "rule": "one program = a Bin, SparselyBin, CentrallyBin or IrregularlyBin over field 0 (dyadic and "
            "non-dyadic widths, negative sparse indexes), a fill set over its critical values, the "
            "views for the full range with 4-8 probe values, the views for 3-6 sub-ranges low < high "
            "inside the binned domain (on edges, between edges, +-ulp of edges), and for every probe a "
            "copy filled with that one value; the views are checked for mutual consistency, against "
            "the bins themselves, against the full-range views, and against where the probe fill "
            "landed; non-trivial = at least one sub-range and one probe; distinct by op list",
    "assumptions": ["sub-range views are required to be the corresponding slice of the full-range "
                    "views and to cover [low, high] up to numpy.isclose of high with an edge (the "
                    "library's own convention)",
                    "2-D grids / projections of Bin(Bin(Count)) and SparselyBin(SparselyBin(Count)) are checked "
                    "on the implementation against the cells themselves (not modelled); Categorize labels "
                    "and mpv are not checked"],
}

KINDS = ["Bin", "SparselyBin", "CentrallyBin", "IrregularlyBin"]


def tie_applicable(p, exact):
    return exact


def close(a, b):
    if a == b or (a != a and b != b):
        return True
    if math.isinf(a) or math.isinf(b):
        return False
    return abs(a - b) <= 1e-9 * max(1.0, abs(a), abs(b))


def gen_2d(r, i, tier):
    """Bin(Bin(Count)) / SparselyBin(SparselyBin(Count)) over fields 0 and 1, with rows whose y is out of
    range or NaN; the grid and the projections are checked on the implementation (not modelled)"""
    sparse = (i % 2 == 1)
    if sparse:
        inner = {"k": "SparselyBin", "bw": r.choice([0.5, 1.0, 0.25]), "origin": r.choice([0.0, 0.25]),
                 "q": {"name": None, "id": 0, "e": ["f", 1]}, "value": {"k": "Count"}, "nan": {"k": "Count"}}
        spec = {"k": "SparselyBin", "bw": r.choice([0.5, 1.0, 2.0]), "origin": r.choice([0.0, -0.5]),
                "q": {"name": None, "id": 0, "e": ["f", 0]}, "value": inner, "nan": {"k": "Count"}}
    else:
        cnt = {"k": "Count"}
        inner = {"k": "Bin", "num": r.choice([2, 3, 4]), "low": 0.0, "high": 2.0, "q": {"name": None, "id": 0, "e": ["f", 1]},
                 "value": cnt, "under": cnt, "over": cnt, "nan": cnt}
        spec = {"k": "Bin", "num": r.choice([2, 3, 5]), "low": -1.0, "high": 1.5, "q": {"name": None, "id": 0, "e": ["f", 0]},
                "value": inner, "under": cnt, "over": cnt, "nan": cnt}
    ops = [("new", spec)]
    vals = [-1.5, -1.0, -0.5, 0.0, 0.25, 0.5, 1.0, 1.25, 1.5, 2.0, 2.5, 3.0, float("nan")]
    for _ in range(r.randint(1, 14)):
        ops.append(("fill", 0, [r.choice(vals), r.choice(vals), 0.0, "a", False], r.choice([1.0, 1.0, 2.0, 0.5])))
    ops.append(("snapp", 0))
    return {"ops": ops, "meta": {"twod": True, "sparse": sparse}}


def check_2d(h, sparse):
    fails = []

    def bad(clause, diff):
        fails.append({"clause": clause, "diff": diff})
    try:
        hx, hy = h.project_on_x(), h.project_on_y()
        xr, yr, grid = h.xy_ranges_grid()
    except KeyError:
        return fails if not h.bins else [{"clause": "2-D views answer for a filled histogram", "diff": "KeyError"}]
    except Exception as e:  # noqa: BLE001
        return [{"clause": "2-D views answer", "diff": "%s: %s" % (type(e).__name__, e)}]
    if sparse:
        cells = {(i, j): c.entries for i, b in h.bins.items() for j, c in b.bins.items()}
        wantx = {}
        wanty = {}
        for (i, j), e in cells.items():
            wantx[i] = wantx.get(i, 0.0) + e
            wanty[j] = wanty.get(j, 0.0) + e
        gotx = {int(k): v.entries for k, v in hx.bins.items()}
        goty = {int(k): v.entries for k, v in hy.bins.items()}
        if {k: v for k, v in gotx.items() if v} != {int(k): v for k, v in wantx.items() if v}:
            bad("the x projection holds exactly the in-range weights  [C13_projection]", "x projection %r, cells give %r" % (gotx, wantx))
        if {k: v for k, v in goty.items() if v} != {int(k): v for k, v in wanty.items() if v}:
            bad("the y projection holds exactly the in-range weights  [C13_projection]", "y projection %r, cells give %r" % (goty, wanty))
        if abs(float(grid.sum()) - sum(cells.values())) > 1e-9:
            bad("the 2-D grid holds exactly the in-range weights  [C13_grid]", "grid sum %r, cells %r" % (float(grid.sum()), sum(cells.values())))
    else:
        cells = [[c.entries for c in b.values] for b in h.values]
        wantx = [sum(row) for row in cells]
        wanty = [sum(cells[i][j] for i in range(len(cells))) for j in range(len(cells[0]))]
        if [v.entries for v in hx.values] != wantx:
            bad("the x projection holds exactly the in-range weights  [C13_projection]", "x projection %r, cells give %r" % ([v.entries for v in hx.values], wantx))
        if [v.entries for v in hy.values] != wanty:
            bad("the y projection holds exactly the in-range weights  [C13_projection]", "y projection %r, cells give %r" % ([v.entries for v in hy.values], wanty))
        g = [[float(grid[j][i]) for j in range(len(cells[0]))] for i in range(len(cells))]
        if g != cells:
            bad("the 2-D grid holds exactly the in-range weights  [C13_grid]", "grid %r, cells %r" % (g, cells))
    return fails


def gen_one(r, i, tier):
    if i % 6 == 5:
        return gen_2d(r, i // 6, tier)
    dyadic = (i % 3 != 2)
    g = gen.G(r, dyadic=dyadic, max_depth=1, names=False)
    kind = KINDS[i % 4]
    spec = g.spec(kind=kind, depth=1)
    spec["q"] = {"name": None, "id": 0, "e": ["f", 0]}
    spec["value"] = r.choice([{"k": "Count"}, {"k": "Count"}, {"k": "Sum", "q": {"name": None, "id": 0, "e": ["f", 1]}}])
    for k in ("under", "over", "nan"):
        if k in spec:
            spec[k] = {"k": "Count"}
    # extreme magnitudes (1e16 origins with widths of 0.1) leave no precision for the views at all
    for k in ("bw", "origin", "low", "high"):
        if k in spec and abs(spec[k]) > 1e6:
            spec[k] = r.choice([0.1, 0.7, 2.5, 1.0 / 3.0])
    if spec.get("k") == "Bin" and not spec["low"] < spec["high"]:
        spec["high"] = spec["low"] + 1.3
    for k in ("centers", "edges"):
        if k in spec:
            spec[k] = sorted({(v if abs(v) < 1e6 else r.randint(-40, 40) / 10.0) for v in spec[k]})
    if "centers" in spec and len(spec["centers"]) < 2:
        spec["centers"] = [spec["centers"][0], spec["centers"][0] + 1.5]
    crit = [v for v in gen.node_criticals(spec) if v == v and abs(v) != gen.INF and abs(v) < 1e12]
    if dyadic:
        crit = [v for v in crit if float(v * 1024).is_integer()]
    crit = sorted(set(crit + [0.0])) or [0.0, 1.0]
    ops = [("new", spec)]
    n = r.choice([0, r.randint(1, 6), r.randint(4, 14)])
    for _ in range(n):
        x = r.choice(crit) if r.random() < 0.7 else r.randint(-24, 24) / 8.0
        ops.append(("fill", 0, [float(x), float(r.randint(-8, 8)) / 4.0, 0.0, "a", False], r.choice([1.0, 1.0, 2.0, 0.5])))
    xs = [float(r.choice(crit)) for _ in range(r.randint(4, 8))]
    ops.append(("view", 0, None, None, xs))
    meta = {"views": [len(ops) - 1], "probes": [], "dyadic": dyadic}
    lo_dom, hi_dom = min(crit), max(crit)
    for _ in range(r.randint(3, 6)):
        a, b = r.choice(crit), r.choice(crit)
        if a == b:
            b = a + (1.0 if dyadic else 0.7)
        lo, hi = (a, b) if a < b else (b, a)
        if kind == "Bin" and (lo >= spec["high"] or hi <= spec["low"]):
            continue            # not a sub-range of the binned domain
        c = r.random()
        if kind == "SparselyBin":
            pass        # (None means "from the first / to the last filled bin": only meaningful with both or none)
        elif c < 0.15:
            lo = None
        elif c < 0.3:
            hi = None
        ops.append(("view", 0, lo, hi, []))
        meta["views"].append(len(ops) - 1)
    pool = 1
    for x in xs[:4]:
        ops.append(("copy", 0))
        ops.append(("fill", pool, [x, 0.25, 0.0, "a", False], 1.0))
        meta["probes"].append({"x": x, "pool": pool})
        pool += 1
    return {"ops": ops, "meta": meta}


def gen_programs(r, n, tier):
    return [gen_one(r, i, tier) for i in range(n)]


def bins_of(h):
    """(list of (key, entries)) in order, for fixed binnings"""
    n = h.name
    if n == "Bin":
        return [(i, v.entries) for i, v in enumerate(h.values)]
    if n in ("CentrallyBin", "IrregularlyBin"):
        return [(i, v.entries) for i, (c, v) in enumerate(h.bins)]
    return sorted((int(k), v.entries) for k, v in h.bins.items())


def landed(orig, filled):
    """key of the bin whose entries grew, None if the value went to a flow bin"""
    a, b = dict(bins_of(orig)), dict(bins_of(filled))
    grown = [k for k in b if b[k] != a.get(k, 0.0)]
    return grown[0] if len(grown) == 1 else None if not grown else "several"


def oracle(p, run, exact):
    meta = p.get("meta")
    if not meta:
        return []
    m = run["machine"]
    h = m.pool[0]
    if meta.get("twod"):
        return check_2d(h, meta["sparse"])
    spec = p["ops"][0][1]
    kind = spec["k"]
    fails = []
    logs = getattr(m, "viewlog", [])
    full = logs[0]

    def bad(clause, rec, diff):
        fails.append({"clause": clause, "low": rec["lo"], "high": rec["hi"], "diff": diff})

    for rec in logs:
        raised = [k for k in ("num_bins", "bin_edges", "bin_centers", "bin_entries", "entries_at") if isinstance(rec.get(k), str)]
        if raised:
            bad("the accessors answer every query low < high inside the binned domain", rec,
                "; ".join("%s %s" % (k, rec[k]) for k in raised))
            continue
        nb, ed, ce, en = rec["num_bins"], rec["bin_edges"], rec["bin_centers"], rec["bin_entries"]
        if not (len(ed) == nb + 1 and len(ce) == nb and len(en) == nb):
            bad("one more edge than bins, one centre and one entry per bin  [C13_shapes]", rec,
                "num_bins=%d, %d edges, %d centres, %d entries" % (nb, len(ed), len(ce), len(en)))
            continue
        if any(not (x <= y) for x, y in zip(ed, ed[1:])):
            bad("edges are increasing", rec, "edges %r" % ed[:6])
        for i2, c in enumerate(ce):
            lo_e, hi_e = ed[i2], ed[i2 + 1]
            if math.isinf(lo_e) or math.isinf(hi_e):
                continue
            if not (lo_e - 1e-9 * max(1, abs(lo_e)) <= c <= hi_e + 1e-9 * max(1, abs(hi_e))):
                bad("centres lie between their edges  [C13_centres]", rec, "centre %r not in [%r, %r]" % (c, lo_e, hi_e))
                break
    if fails:
        return fails[:4]
    # full range against the bins themselves
    actual = bins_of(h)
    if kind == "SparselyBin":
        if actual:
            ks = [k for k, _ in actual]
            want = [dict(actual).get(k, 0.0) for k in range(min(ks), max(ks) + 1)]
        else:
            want = []
    else:
        want = [e for _, e in actual]
    if [float(x) for x in full["bin_entries"]] != [float(x) for x in want]:
        bad("bin_entries() is the content of the bins", full, "views %r, bins %r" % (full["bin_entries"][:8], want[:8]))
    # sub-ranges are slices of the full range that cover [low, high]
    fe, fn = full["bin_edges"], full["bin_entries"]
    for rec in logs[1:]:
        ed, en = rec["bin_edges"], rec["bin_entries"]
        if kind == "SparselyBin" and not fe:
            continue
        if not ed:
            continue
        if kind == "SparselyBin":
            # a sparse sub-range may extend beyond the filled range: compare where they overlap
            pairs = [(e0, n0) for e0, n0 in zip(ed, en)]
            fmap = {round(e0, 9): n0 for e0, n0 in zip(fe, fn)}
            wrong = [(e0, n0, fmap[round(e0, 9)]) for e0, n0 in pairs if round(e0, 9) in fmap and fmap[round(e0, 9)] != n0]
            if wrong:
                bad("a sub-range view is the corresponding slice of the full view  [C13_slice]", rec, "edge, entries, full entries: %r" % (wrong[:3],))
        else:
            start = next((j for j, e0 in enumerate(fe) if close(e0, ed[0])), None)
            if start is None or start + len(ed) > len(fe) or any(not close(x, y) for x, y in zip(ed, fe[start:])) \
                    or [float(x) for x in en] != [float(x) for x in fn[start:start + len(en)]]:
                bad("a sub-range view is the corresponding slice of the full view  [C13_slice]", rec,
                    "edges %r entries %r; full edges %r entries %r" % (ed[:5], en[:5], fe[:6], fn[:6]))
                continue
        lo, hi = rec["lo"], rec["hi"]
        if kind == "SparselyBin" and not bins_of(h):
            continue
        if lo is not None and ed[0] > lo and not close(ed[0], lo) and not (kind == "Bin" and lo < spec["low"]):
            bad("the sub-range view starts at or below low  [C13_cover]", rec, "first edge %r" % ed[0])
        if hi is not None and ed[-1] < hi and not close(ed[-1], hi) and not (kind == "Bin" and hi >= spec["high"]):
            bad("the sub-range view ends at or above high  [C13_cover]", rec, "last edge %r" % ed[-1])
        # ... and is tight: the first bin contains low, the last bin reaches high
        if lo is not None and len(ed) > 1 and ed[1] <= lo and not close(ed[1], lo) and not math.isinf(ed[1]):
            bad("the first bin of a sub-range view contains low  [C13_tight]", rec, "second edge %r <= low" % ed[1])
        if hi is not None and len(ed) > 1 and ed[-2] >= hi and not close(ed[-2], hi) and not math.isinf(ed[-2]) \
                and not (kind == "Bin" and hi < spec["low"]):
            bad("the last bin of a sub-range view starts below high  [C13_tight]", rec, "last-but-one edge %r >= high" % ed[-2])
    # probes
    at = full.get("entries_at") or []
    for j, pr in enumerate(meta["probes"]):
        x = pr["x"]
        k = landed(h, m.pool[pr["pool"]])
        if k == "several":
            bad("a fill lands in one bin", full, "x=%r changed several bins" % x)
            continue
        if k is None:
            if kind == "SparselyBin":
                bad("a finite datum lands in a bin", full, "x=%r landed nowhere" % x)
            elif j < len(at) and at[j] != 0.0 and kind == "Bin":
                bad("bin_entries(xvalues=[x]) is 0 outside the range", full, "x=%r -> %r" % (x, at[j]))
            continue
        before = dict(bins_of(h)).get(k, 0.0)
        if j < len(at) and float(at[j]) != float(before):
            bad("bin_entries(xvalues=[x]) is the content of the bin a fill at x lands in  [C13_probe]", full,
                "x=%r: view %r, bin %r holds %r" % (x, at[j], k, before))
        # the edges of that bin contain x
        if kind == "SparselyBin":
            if not fe:
                continue
            ks = [kk for kk, _ in bins_of(h)]
            if not ks:
                continue
            pos = k - min(ks)
            if pos < 0 or pos + 1 >= len(fe):
                continue
        else:
            pos = k
        lo_e, hi_e = fe[pos], fe[pos + 1]
        tol = 0.0 if meta.get("dyadic") else 1e-9 * max(1.0, abs(x))
        if not (lo_e - tol <= x and (x < hi_e + tol or (math.isinf(hi_e) and x <= hi_e))):
            bad("a datum filled at x is in the bin whose edges contain x  [C13_partition]", full,
                "x=%r landed in bin %r with edges [%r, %r)" % (x, k, lo_e, hi_e))
    return fails[:5]
