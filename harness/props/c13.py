"""C13 -- derived views (bin edges, centres, entries) agree with fill."""
import copy
import math

from harness import gen, hgm
from harness.props import base

NO_SHRINK = True
TIE_EXACT_ONLY = True

PROP = {
    "id": "C13",
    "quick_n": 400,
    "thorough_n": 4000,
    "rule": "one program = a Bin, SparselyBin, CentrallyBin or IrregularlyBin over field 0 (dyadic and "
            "non-dyadic widths, negative sparse indexes), a fill set over its critical values, the "
            "views for the full range with 4-8 probe values, the views for 3-6 sub-ranges low < high "
            "inside the binned domain (on edges, between edges, +-ulp of edges), and for every probe a "
            "copy filled with that one value; the views are checked for mutual consistency, against "
            "the bins themselves, against the full-range views, and against where the probe fill "
            "landed; non-trivial = at least one sub-range and one probe; distinct by op list",
    "assumptions": ["sub-range views are required to be the corresponding slice of the full-range "
                    "views and to cover [low, high] up to numpy.isclose of high with an edge (the "
                    "library's own convention)",
                    "2-D grids / projections of Bin(Bin(Count)) and SparselyBin(SparselyBin(Count)) are checked "
                    "on the implementation against the cells themselves (not modelled); Categorize labels / "
                    "entries / mpv against totals computed from the fills, mpv of Bin / SparselyBin / "
                    "CentrallyBin against the bins themselves (implementation only)"],
}

KINDS = ["Bin", "SparselyBin", "CentrallyBin", "IrregularlyBin"]


def tie_applicable(p, exact):
    return exact


def close(a, b):
    if a == b or (a != a and b != b):
        return True
    if math.isinf(a) or math.isinf(b):
        return False
    return abs(a - b) <= 1e-9 * max(1.0, abs(a), abs(b))


def gen_2d(r, i, tier):
    """Bin(Bin(Count)) / SparselyBin(SparselyBin(Count)) over fields 0 and 1, with rows whose y is out of
    range or NaN; the grid and the projections are checked on the implementation (not modelled)"""
    sparse = (i % 3 == 1)
    irr = (i % 3 == 2)
    if irr:
        cnt = {"k": "Count"}
        inner = {"k": "IrregularlyBin", "edges": r.choice([[0.0, 1.0, 2.0], [-0.5, 0.5, 1.5, 2.5]]),
                 "q": {"name": None, "id": 0, "e": ["f", 1]}, "value": cnt, "nan": cnt}
        spec = {"k": "IrregularlyBin", "edges": r.choice([[-1.0, 0.0, 1.0], [-1.5, -0.5, 0.5, 1.5]]),
                "q": {"name": None, "id": 0, "e": ["f", 0]}, "value": inner, "nan": cnt}
    elif sparse:
        inner = {"k": "SparselyBin", "bw": r.choice([0.5, 1.0, 0.25]), "origin": r.choice([0.0, 0.25]),
                 "q": {"name": None, "id": 0, "e": ["f", 1]}, "value": {"k": "Count"}, "nan": {"k": "Count"}}
        spec = {"k": "SparselyBin", "bw": r.choice([0.5, 1.0, 2.0]), "origin": r.choice([0.0, -0.5]),
                "q": {"name": None, "id": 0, "e": ["f", 0]}, "value": inner, "nan": {"k": "Count"}}
    else:
        cnt = {"k": "Count"}
        inner = {"k": "Bin", "num": r.choice([2, 3, 4, 7, 10]), "low": 0.0, "high": r.choice([2.0, 2.0, 1.0, 0.7]), "q": {"name": None, "id": 0, "e": ["f", 1]},
                 "value": cnt, "under": cnt, "over": cnt, "nan": cnt}
        spec = {"k": "Bin", "num": r.choice([2, 3, 5, 7, 10]), "low": -1.0, "high": r.choice([1.5, 1.5, 2.0]), "q": {"name": None, "id": 0, "e": ["f", 0]},
                "value": inner, "under": cnt, "over": cnt, "nan": cnt}
    ops = [("new", spec)]
    vals = [-1.5, -1.0, -0.5, 0.0, 0.25, 0.5, 1.0, 1.25, 1.5, 2.0, 2.5, 3.0, float("nan")]
    for _ in range(r.randint(1, 14)):
        ops.append(("fill", 0, [r.choice(vals), r.choice(vals), 0.0, "a", False], r.choice([1.0, 1.0, 2.0, 0.5])))
    ops.append(("snapp", 0))
    return {"ops": ops, "meta": {"twod": True, "sparse": sparse, "irr": irr}}


def check_2d(h, sparse, irr=False):
    fails = []

    def bad(clause, diff):
        fails.append({"clause": clause, "diff": diff})
    try:
        hx, hy = h.project_on_x(), h.project_on_y()
        xr, yr, grid = h.xy_ranges_grid()
    except KeyError:
        return fails if not h.bins else [{"clause": "2-D views answer for a filled histogram", "diff": "KeyError"}]
    except Exception as e:  # noqa: BLE001
        return [{"clause": "2-D views answer", "diff": "%s: %s" % (type(e).__name__, e)}]
    if irr:
        cells = [[c.entries for _, c in b.bins] for _, b in h.bins]
        wantx = [sum(row) for row in cells]
        wanty = [sum(cells[i][j] for i in range(len(cells))) for j in range(len(cells[0]))]
        gotx = [v.entries for _, v in hx.bins]
        goty = [v.entries for _, v in hy.bins]
        if gotx != wantx:
            bad("the x projection holds exactly the in-range weights  [C13_projection]", "x projection %r, cells give %r" % (gotx, wantx))
        if goty != wanty:
            bad("the y projection holds exactly the in-range weights  [C13_projection]", "y projection %r, cells give %r" % (goty, wanty))
        g = [[float(grid[j - 1][i - 1]) for j in range(1, len(cells[0]) - 1)] for i in range(1, len(cells) - 1)]
        inner_cells = [row[1:-1] for row in cells[1:-1]]
        if g != inner_cells:
            bad("the 2-D grid holds exactly the in-range weights  [C13_grid]", "grid %r, cells %r" % (g, inner_cells))
    elif sparse:
        cells = {(i, j): c.entries for i, b in h.bins.items() for j, c in b.bins.items()}
        wantx = {}
        wanty = {}
        for (i, j), e in cells.items():
            wantx[i] = wantx.get(i, 0.0) + e
            wanty[j] = wanty.get(j, 0.0) + e
        gotx = {int(k): v.entries for k, v in hx.bins.items()}
        goty = {int(k): v.entries for k, v in hy.bins.items()}
        if {k: v for k, v in gotx.items() if v} != {int(k): v for k, v in wantx.items() if v}:
            bad("the x projection holds exactly the in-range weights  [C13_projection]", "x projection %r, cells give %r" % (gotx, wantx))
        if {k: v for k, v in goty.items() if v} != {int(k): v for k, v in wanty.items() if v}:
            bad("the y projection holds exactly the in-range weights  [C13_projection]", "y projection %r, cells give %r" % (goty, wanty))
        if abs(float(grid.sum()) - sum(cells.values())) > 1e-9:
            bad("the 2-D grid holds exactly the in-range weights  [C13_grid]", "grid sum %r, cells %r" % (float(grid.sum()), sum(cells.values())))
    else:
        cells = [[c.entries for c in b.values] for b in h.values]
        wantx = [sum(row) for row in cells]
        wanty = [sum(cells[i][j] for i in range(len(cells))) for j in range(len(cells[0]))]
        if [v.entries for v in hx.values] != wantx:
            bad("the x projection holds exactly the in-range weights  [C13_projection]", "x projection %r, cells give %r" % ([v.entries for v in hx.values], wantx))
        if [v.entries for v in hy.values] != wanty:
            bad("the y projection holds exactly the in-range weights  [C13_projection]", "y projection %r, cells give %r" % ([v.entries for v in hy.values], wanty))
        # the ranges are the edges of the two axes: one more edge than bins, equal to bin_edges()
        for nm_, got_, want_ in (("x", xr, h.bin_edges()), ("y", yr, h.values[0].bin_edges())):
            got_, want_ = [float(v) for v in got_], [float(v) for v in want_]
            if len(got_) != len(want_) or any(not close(a_, b_) for a_, b_ in zip(got_, want_)):
                bad("xy_ranges_grid returns the bin edges of both axes  [C13_grid]",
                    "%s ranges %r, bin_edges %r" % (nm_, got_[:8], want_[:8]))
        if tuple(grid.shape) != (len(cells[0]), len(cells)):
            bad("the 2-D grid has one cell per pair of bins  [C13_grid]", "grid shape %r for %d x %d bins" % (grid.shape, len(cells), len(cells[0])))
            return fails
        g = [[float(grid[j][i]) for j in range(len(cells[0]))] for i in range(len(cells))]
        if g != cells:
            bad("the 2-D grid holds exactly the in-range weights  [C13_grid]", "grid %r, cells %r" % (g, cells))
    return fails


CATS = ["a", "b", "zz", "", "tt", "long label"]


def gen_cat(r, i, tier):
    """Categorize over the string field: labels / entries / mpv are checked on the implementation
    against totals computed from the fills themselves (not modelled beyond the fills)"""
    value = r.choice([{"k": "Count"}, {"k": "Count"}, {"k": "Sum", "q": {"name": None, "id": 0, "e": ["f", 1]}}])
    spec = {"k": "Categorize", "q": {"name": None, "id": 0, "e": ["f", 3]}, "value": value}
    ops = [("new", spec)]
    totals = {}
    order = []
    for _ in range(r.choice([0, r.randint(1, 5), r.randint(4, 14)])):
        c = r.choice(CATS)
        # every second program fills unit weights only: equal contents (ties for mpv) are common
        w = 1.0 if i % 2 == 0 else r.choice([1.0, 1.0, 2.0, 0.5, 0.0, 3.0])
        ops.append(("fill", 0, [0.5, float(r.randint(-8, 8)) / 4.0, 0.0, c, False], w))
        if w > 0.0:
            if c not in totals:
                order.append(c)
            totals[c] = totals.get(c, 0.0) + w
    ops.append(("snapp", 0))
    return {"ops": ops, "meta": {"cat": True, "totals": totals, "order": order}}


def check_cat(h, meta):
    fails = []

    def bad(clause, diff):
        fails.append({"clause": clause, "diff": diff})
    totals, order = meta["totals"], meta["order"]
    try:
        labels = [str(x) for x in h.bin_labels()]
        entries = [float(x) for x in h.bin_entries()]
        nb = h.n_bins
    except Exception as e:  # noqa: BLE001
        return [{"clause": "Categorize views answer", "diff": "%s: %s" % (type(e).__name__, e)}]
    if sorted(labels) != sorted(totals) or nb != len(totals) or len(entries) != len(labels):
        bad("bin_labels() are the categories that were filled  [C13_labels]",
            "labels %r (n_bins %r, %d entries), filled %r" % (labels, nb, len(entries), sorted(totals)))
        return fails
    got = dict(zip(labels, entries))
    if any(got[k] != totals[k] for k in totals):
        bad("bin_entries() holds, label by label, the weight filled into that category  [C13_labels]",
            "views %r, fills %r" % (got, totals))
    probe = list(totals)[:2] + ["no such label"] + list(totals)[-1:]
    try:
        sel = [float(x) for x in h.bin_entries(labels=probe)]
    except Exception as e:  # noqa: BLE001
        sel = "%s: %s" % (type(e).__name__, e)
    if sel != [totals.get(k, 0.0) for k in probe]:
        bad("bin_entries(labels=L) is the content of each named category, 0 for an absent one", "labels %r -> %r" % (probe, sel))
    if totals:
        short = [str(x) for x in h.bin_labels(max_length=2)]
        if short != [k[:2] for k in labels]:
            bad("bin_labels(max_length) truncates the labels", "%r vs %r" % (short, labels))
        top = max(totals.values())
        firstmax = next(k for k in labels if totals[k] == top)
        try:
            mpv = str(h.mpv)
        except Exception as e:  # noqa: BLE001
            mpv = "%s: %s" % (type(e).__name__, e)
        if mpv != firstmax:
            bad("mpv is the (first) category with the largest content  [C13_mpv]", "mpv %r, contents %r" % (mpv, got))
    return fails


def expected_mpv(h, kind, spec):
    """centre of the first bin with the largest content, from the bins themselves"""
    b = bins_of(h)
    if kind == "SparselyBin":
        if not b:
            return None
        ks = [k for k, _ in b]
        d = dict(b)
        seq = [(k, d.get(k, 0.0)) for k in range(min(ks), max(ks) + 1)]
        k = max(seq, key=lambda kv: kv[1])[0] if seq else None
        k = next(kk for kk, e in seq if e == max(e2 for _, e2 in seq))
        return (k + 0.5) * h.binWidth + h.origin
    if not b:
        return None
    top = max(e for _, e in b)
    i = next(k for k, e in b if e == top)
    if kind == "Bin":
        return h.low + (i + 0.5) * (h.high - h.low) / len(h.values)
    if kind == "CentrallyBin":
        return h.centers[i]
    return None


def gen_sweep(r, i, tier):
    """non-dyadic widths: a sub-range ending on EVERY edge origin + k*w (for widths like 0.1 the
    quotient (edge - origin)/w is k only for some k), on a histogram filled well beyond it"""
    sparse = (i % 2 == 0)
    bw = [0.1, 0.7, 0.3, 1.0 / 3.0, 10.1][(i // 2) % 5]
    origin = [0.0, 0.3, -1.7][(i // 10) % 3]
    cnt = {"k": "Count"}
    if sparse:
        spec = {"k": "SparselyBin", "bw": bw, "origin": origin, "q": {"name": None, "id": 0, "e": ["f", 0]},
                "value": cnt, "nan": cnt}
        ks = list(range(-8, 9))
        edge = lambda k: origin + k * bw          # noqa: E731
    else:
        num = 16
        spec = {"k": "Bin", "num": num, "low": origin - 8 * bw, "high": origin + 8 * bw,
                "q": {"name": None, "id": 0, "e": ["f", 0]}, "value": cnt, "under": cnt, "over": cnt, "nan": cnt}
        ks = list(range(1, 16))
        w = (spec["high"] - spec["low"]) / num
        edge = lambda k: spec["low"] + w * k      # noqa: E731
    ops = [("new", spec)]
    for k in range(-9, 10):
        ops.append(("fill", 0, [origin + (k + 0.5) * bw, 0.25, 0.0, "a", False], 1.0))
    ops.append(("view", 0, None, None, []))
    meta = {"views": [len(ops) - 1], "probes": [], "dyadic": False}
    lo = origin - 8.5 * bw if sparse else spec["low"] + 0.5 * bw
    for k in ks:
        hi = float(edge(k))
        if hi > lo:
            ops.append(("view", 0, float(lo), hi, []))
            meta["views"].append(len(ops) - 1)
    return {"ops": ops, "meta": meta}


def gen_one(r, i, tier):
    if i % 6 == 5:
        return gen_2d(r, i // 6, tier)
    if i % 20 == 7:
        return gen_sweep(r, i // 20, tier)
    if i % 12 == 4:
        return gen_cat(r, i // 12, tier)
    dyadic = (i % 3 != 2)
    g = gen.G(r, dyadic=dyadic, max_depth=1, names=False)
    kind = KINDS[i % 4]
    spec = g.spec(kind=kind, depth=1)
    spec["q"] = {"name": None, "id": 0, "e": ["f", 0]}
    spec["value"] = r.choice([{"k": "Count"}, {"k": "Count"}, {"k": "Sum", "q": {"name": None, "id": 0, "e": ["f", 1]}}])
    for k in ("under", "over", "nan"):
        if k in spec:
            spec[k] = {"k": "Count"}
    # extreme magnitudes (1e16 origins with widths of 0.1) leave no precision for the views at all
    for k in ("bw", "origin", "low", "high"):
        if k in spec and abs(spec[k]) > 1e6:
            spec[k] = r.choice([0.1, 0.7, 2.5, 1.0 / 3.0])
    if spec.get("k") == "Bin" and not spec["low"] < spec["high"]:
        spec["high"] = spec["low"] + 1.3
    for k in ("centers", "edges"):
        if k in spec:
            spec[k] = sorted({(v if abs(v) < 1e6 else r.randint(-40, 40) / 10.0) for v in spec[k]})
    if "centers" in spec and len(spec["centers"]) < 2:
        spec["centers"] = [spec["centers"][0], spec["centers"][0] + 1.5]
    crit = [v for v in gen.node_criticals(spec) if v == v and abs(v) != gen.INF and abs(v) < 1e12]
    if kind == "SparselyBin":
        # more edges: for widths like 0.1 only some k make (origin + k*w - origin)/w differ from k
        crit += [spec["origin"] + k * spec["bw"] for k in range(-8, 9)]
    if dyadic:
        crit = [v for v in crit if float(v * 1024).is_integer()]
    crit = sorted(set(crit + [0.0])) or [0.0, 1.0]
    ops = [("new", spec)]
    n = r.choice([0, r.randint(1, 6), r.randint(4, 14)])
    for _ in range(n):
        x = r.choice(crit) if r.random() < 0.7 else r.randint(-24, 24) / 8.0
        ops.append(("fill", 0, [float(x), float(r.randint(-8, 8)) / 4.0, 0.0, "a", False], r.choice([1.0, 1.0, 2.0, 0.5])))
    xs = [float(r.choice(crit)) for _ in range(r.randint(4, 8))]
    ops.append(("view", 0, None, None, xs))
    meta = {"views": [len(ops) - 1], "probes": [], "dyadic": dyadic}
    lo_dom, hi_dom = min(crit), max(crit)
    for _ in range(r.randint(3, 6)):
        a, b = r.choice(crit), r.choice(crit)
        if a == b:
            b = a + (1.0 if dyadic else 0.7)
        lo, hi = (a, b) if a < b else (b, a)
        if kind == "Bin" and (lo >= spec["high"] or hi <= spec["low"]):
            continue            # not a sub-range of the binned domain
        c = r.random()
        if kind == "SparselyBin":
            pass        # (None means "from the first / to the last filled bin": only meaningful with both or none)
        elif c < 0.15:
            lo = None
        elif c < 0.3:
            hi = None
        ops.append(("view", 0, lo, hi, []))
        meta["views"].append(len(ops) - 1)
    pool = 1
    if r.random() < 0.35:
        # a second histogram with data beyond the range seen so far is merged IN PLACE after the views
        # have been asked once: every later view must describe the merged content (no stale extent)
        ops.append(("new", spec))
        for _ in range(r.randint(1, 4)):
            x2 = r.choice(crit) + r.choice([-1.0, 1.0]) * (abs(hi_dom - lo_dom) + 1.0) * r.choice([1.0, 2.0])
            ops.append(("fill", 1, [float(x2), 0.25, 0.0, "a", False], 1.0))
        ops.append(("iadd", 0, 1))
        ops.append(("view", 0, None, None, xs))
        meta["views"].append(len(ops) - 1)
        meta["merged"] = len(ops) - 1
        pool = 2
    for x in xs[:4]:
        ops.append(("copy", 0))
        ops.append(("fill", pool, [x, 0.25, 0.0, "a", False], 1.0))
        meta["probes"].append({"x": x, "pool": pool})
        pool += 1
    return {"ops": ops, "meta": meta}


def gen_programs(r, n, tier):
    return [gen_one(r, i, tier) for i in range(n)]


def bins_of(h):
    """(list of (key, entries)) in order, for fixed binnings"""
    n = h.name
    if n == "Bin":
        return [(i, v.entries) for i, v in enumerate(h.values)]
    if n in ("CentrallyBin", "IrregularlyBin"):
        return [(i, v.entries) for i, (c, v) in enumerate(h.bins)]
    return sorted((int(k), v.entries) for k, v in h.bins.items())


def landed(orig, filled):
    """key of the bin whose entries grew, None if the value went to a flow bin"""
    a, b = dict(bins_of(orig)), dict(bins_of(filled))
    grown = [k for k in b if b[k] != a.get(k, 0.0)]
    return grown[0] if len(grown) == 1 else None if not grown else "several"


def oracle(p, run, exact):
    meta = p.get("meta")
    if not meta:
        return []
    m = run["machine"]
    h = m.pool[0]
    if meta.get("twod"):
        return check_2d(h, meta["sparse"], meta.get("irr", False))
    if meta.get("cat"):
        return check_cat(h, meta)
    spec = p["ops"][0][1]
    kind = spec["k"]
    fails = []
    logs = getattr(m, "viewlog", [])
    full = logs[0]
    # with an in-place merge after the first views: the sub-range views belong to the state before it,
    # the last full view (and the probes) to the merged state
    merged = meta.get("merged") is not None
    final_full = logs[-1] if merged else logs[0]
    subviews = logs[1:-1] if merged else logs[1:]

    def bad(clause, rec, diff):
        fails.append({"clause": clause, "low": rec["lo"], "high": rec["hi"], "diff": diff})

    for rec in logs:
        raised = [k for k in ("num_bins", "bin_edges", "bin_centers", "bin_entries", "entries_at") if isinstance(rec.get(k), str)]
        if raised:
            bad("the accessors answer every query low < high inside the binned domain", rec,
                "; ".join("%s %s" % (k, rec[k]) for k in raised))
            continue
        nb, ed, ce, en = rec["num_bins"], rec["bin_edges"], rec["bin_centers"], rec["bin_entries"]
        if not (len(ed) == nb + 1 and len(ce) == nb and len(en) == nb):
            bad("one more edge than bins, one centre and one entry per bin  [C13_shapes]", rec,
                "num_bins=%d, %d edges, %d centres, %d entries" % (nb, len(ed), len(ce), len(en)))
            continue
        if any(not (x <= y) for x, y in zip(ed, ed[1:])):
            bad("edges are increasing", rec, "edges %r" % ed[:6])
        for i2, c in enumerate(ce):
            lo_e, hi_e = ed[i2], ed[i2 + 1]
            if math.isinf(lo_e) or math.isinf(hi_e):
                continue
            if not (lo_e - 1e-9 * max(1, abs(lo_e)) <= c <= hi_e + 1e-9 * max(1, abs(hi_e))):
                bad("centres lie between their edges  [C13_centres]", rec, "centre %r not in [%r, %r]" % (c, lo_e, hi_e))
                break
    if fails:
        return fails[:4]
    # full range against the bins themselves
    actual = bins_of(h)
    if kind == "SparselyBin":
        if actual:
            ks = [k for k, _ in actual]
            want = [dict(actual).get(k, 0.0) for k in range(min(ks), max(ks) + 1)]
        else:
            want = []
    else:
        want = [e for _, e in actual]
    if [float(x) for x in final_full["bin_entries"]] != [float(x) for x in want]:
        bad("bin_entries() is the content of the bins", final_full, "views %r, bins %r" % (final_full["bin_entries"][:8], want[:8]))
    # sub-ranges are slices of the full range that cover [low, high]
    fe, fn = full["bin_edges"], full["bin_entries"]
    for rec in subviews:
        ed, en = rec["bin_edges"], rec["bin_entries"]
        if kind == "SparselyBin" and not fe:
            continue
        if not ed:
            continue
        if kind == "SparselyBin":
            # a sparse sub-range may extend beyond the filled range: compare where they overlap
            pairs = [(e0, n0) for e0, n0 in zip(ed, en)]
            fmap = {round(e0, 9): n0 for e0, n0 in zip(fe, fn)}
            wrong = [(e0, n0, fmap[round(e0, 9)]) for e0, n0 in pairs if round(e0, 9) in fmap and fmap[round(e0, 9)] != n0]
            if wrong:
                bad("a sub-range view is the corresponding slice of the full view  [C13_slice]", rec, "edge, entries, full entries: %r" % (wrong[:3],))
        else:
            start = next((j for j, e0 in enumerate(fe) if close(e0, ed[0])), None)
            if start is None or start + len(ed) > len(fe) or any(not close(x, y) for x, y in zip(ed, fe[start:])) \
                    or [float(x) for x in en] != [float(x) for x in fn[start:start + len(en)]]:
                bad("a sub-range view is the corresponding slice of the full view  [C13_slice]", rec,
                    "edges %r entries %r; full edges %r entries %r" % (ed[:5], en[:5], fe[:6], fn[:6]))
                continue
        lo, hi = rec["lo"], rec["hi"]
        if kind == "SparselyBin" and (not bins_of(h) or (merged and not logs[0]["bin_entries"])):
            continue            # (the views of an empty sparse histogram are a placeholder)
        if lo is not None and ed[0] > lo and not close(ed[0], lo) and not (kind == "Bin" and lo < spec["low"]):
            bad("the sub-range view starts at or below low  [C13_cover]", rec, "first edge %r" % ed[0])
        if hi is not None and ed[-1] < hi and not close(ed[-1], hi) and not (kind == "Bin" and hi >= spec["high"]):
            bad("the sub-range view ends at or above high  [C13_cover]", rec, "last edge %r" % ed[-1])
        # an upper bound that IS (to 1e-9) an edge the full view reports ends the sub-range view: no
        # further bin beyond it (the accessors test high against the edges with numpy.isclose; a lower
        # bound is looked up with fill's own index and may fall into the bin below a rounded edge)
        if kind in ("Bin", "SparselyBin") and fe:
            if hi is not None and any(close(e0, hi) for e0 in fe) and not close(ed[-1], hi):
                bad("a sub-range ending on a reported edge ends there  [C13_tight]", rec, "last edge %r, high %r" % (ed[-1], hi))
        # ... and is tight: the first bin contains low, the last bin reaches high
        if lo is not None and len(ed) > 1 and ed[1] <= lo and not close(ed[1], lo) and not math.isinf(ed[1]):
            bad("the first bin of a sub-range view contains low  [C13_tight]", rec, "second edge %r <= low" % ed[1])
        if hi is not None and len(ed) > 1 and ed[-2] >= hi and not close(ed[-2], hi) and not math.isinf(ed[-2]) \
                and not (kind == "Bin" and hi < spec["low"]):
            bad("the last bin of a sub-range view starts below high  [C13_tight]", rec, "last-but-one edge %r >= high" % ed[-2])
    full = final_full
    fe, fn = full["bin_edges"], full["bin_entries"]
    # mpv: the centre of the first bin with the largest content
    want_mpv = expected_mpv(h, kind, spec)
    if want_mpv is not None and not any(e != e for _, e in bins_of(h)):
        try:
            got_mpv = float(h.mpv)
        except Exception as e:  # noqa: BLE001
            got_mpv = "%s: %s" % (type(e).__name__, e)
        if isinstance(got_mpv, str) or not close(got_mpv, want_mpv):
            bad("mpv is the centre of the (first) bin with the largest content  [C13_mpv]", full,
                "mpv %r, expected %r from bins %r" % (got_mpv, want_mpv, bins_of(h)[:8]))
    # probes
    at = full.get("entries_at") or []
    for j, pr in enumerate(meta["probes"]):
        x = pr["x"]
        k = landed(h, m.pool[pr["pool"]])
        if k == "several":
            bad("a fill lands in one bin", full, "x=%r changed several bins" % x)
            continue
        if k is None:
            if kind == "SparselyBin":
                bad("a finite datum lands in a bin", full, "x=%r landed nowhere" % x)
            elif j < len(at) and at[j] != 0.0 and kind == "Bin":
                bad("bin_entries(xvalues=[x]) is 0 outside the range", full, "x=%r -> %r" % (x, at[j]))
            continue
        before = dict(bins_of(h)).get(k, 0.0)
        if j < len(at) and float(at[j]) != float(before):
            bad("bin_entries(xvalues=[x]) is the content of the bin a fill at x lands in  [C13_probe]", full,
                "x=%r: view %r, bin %r holds %r" % (x, at[j], k, before))
        # the edges of that bin contain x
        if kind == "SparselyBin":
            if not fe:
                continue
            ks = [kk for kk, _ in bins_of(h)]
            if not ks:
                continue
            pos = k - min(ks)
            if pos < 0 or pos + 1 >= len(fe):
                continue
        else:
            pos = k
        lo_e, hi_e = fe[pos], fe[pos + 1]
        tol = 0.0 if meta.get("dyadic") else 1e-9 * max(1.0, abs(x))
        if not (lo_e - tol <= x and (x < hi_e + tol or (math.isinf(hi_e) and x <= hi_e))):
            bad("a datum filled at x is in the bin whose edges contain x  [C13_partition]", full,
                "x=%r landed in bin %r with edges [%r, %r)" % (x, k, lo_e, hi_e))
    return fails[:5]
