"""C12 -- a fill that raises leaves the aggregator as if the record had been skipped."""
from harness import gen, hgm
from harness.props import base

PROP = {
    "id": "C12",
    "quick_n": 450,
    "thorough_n": 4500,
    "rule": "one program = a single-path tree (Bin, SparselyBin, CentrallyBin, IrregularlyBin, "
            "Categorize, Select nested over any leaf) whose quantities at random depths are "
            "fault-injectable (raise / wrong return type, switched by a datum field), a stream with "
            "a random subset of positions made to fail, and a second copy filled with the surviving "
            "records only; non-trivial = at least one failing fill; distinct by op list",
    "assumptions": ["faults are exceptions raised by the quantity function or values of the wrong "
                    "type; collections, Fraction and Stack are outside the guarantee (as stated)"],
}


def gen_one(r, i, tier):
    dyadic = (i % 3 != 2)
    g = gen.G(r, dyadic=dyadic, faults=True, kinds=gen.SINGLE_PATH,
              max_depth=3 if tier == "quick" else 5)
    spec = g.spec(kind=r.choice(gen.SINGLE_PATH))
    n = r.randint(1, 10 if tier == "quick" else 24)
    fp = r.choice([0.2, 0.5, 0.8])
    s = base.small_stream(r, spec, n, gen.POSWEIGHTS + [0.0], fp) if dyadic else gen.stream(r, spec, n, fault_p=fp)
    ops = [("new", spec)] + base.fill_ops(0, s)
    return {"ops": ops, "meta": {"spec": spec, "stream": s}}


def gen_programs(r, n, tier):
    return [gen_one(r, i, tier) for i in range(n)]


def oracle(p, run, exact):
    meta = p.get("meta")
    if not meta:
        return []
    obs = run["obs"]
    fails = []
    prev = obs[0][1:]
    survivors = []
    for i, (o, ob) in enumerate(zip(p["ops"], obs)):
        if o[0] != "fill":
            continue
        if ob[0] == 1:
            if ob[1:] != prev:
                fails.append({"clause": "a raising fill leaves the tree untouched  [C12_rollback]",
                              "op": i, "diff": "snapshot changed by a fill that raised"})
        else:
            survivors.append((o[2], o[3]))
        prev = ob[1:]
    # the aggregate of the survivors, filled into a fresh copy by the implementation itself
    h = hgm.build(meta["spec"])
    try:
        for d, w in survivors:
            h.fill(tuple(d), w)
    except Exception as e:  # noqa: BLE001
        fails.append({"clause": "no survivor raises  [C12_survivors_do_not_raise]", "diff": repr(e)})
        return fails
    d = hgm.compare_trees(hgm.tree(run["machine"].pool[0]), hgm.tree(h), True)
    if d is not None:
        fails.append({"clause": "stream with skipped failures = aggregate of the survivors  [C12_skip_failures]",
                      "diff": d})
    return fails


def extra_evidence(progs, impl):
    nf = sum(1 for r in impl if r["obs"] and any(ob and ob[0] == 1 for ob in r["obs"]))
    tot = sum(sum(1 for ob in r["obs"] if ob and ob[0] == 1) for r in impl if r["obs"])
    return {"programs_with_a_failing_fill": nf, "failing_fills": tot}
