"""C03 -- vectorised (numpy) fill is observationally equal to per-row fill."""
import copy

from harness import gen, hgm
from harness.props import base

TIE_EXACT_ONLY = True


def tie_applicable(p, exact):
    """bit-for-bit comparison with the model: only where every operation is exact, and never with
    Average/Deviate below a vectorised fill (their batch formulas round differently even on data
    for which the row-by-row recurrences are exact)"""
    spec = p["ops"][0][1]
    # exact-safe certifies the ROW order of the arithmetic only; numpy sums a batch first and in
    # another order, which is exact as well only when every value is a small dyadic by construction
    return exact and bool(p.get("meta", {}).get("dyadic")) and not base.has_kind(spec, ["Average", "Deviate"])
NO_SHRINK = True      # a batch and its row-by-row twin must be dropped together
Machine = hgm.FcnMachine

PROP = {
    "id": "C03",
    "quick_n": 300,
    "thorough_n": 3000,
    "rule": "one program = tree spec with at least one quantity-bearing node (every primitive in "
            "every child / flow position), two instances a (vectorised) and b (row by row), 1-3 "
            "successive batches of 0-10 rows over the critical-value alphabet of the tree (edges, "
            "midpoints, thresholds +-ulp, NaN, +-inf) with weight 1, a scalar weight or a "
            "non-negative weight array incl. zeros; after every batch both are observed up to "
            "empty sparse bins; the input arrays are compared with their copies; non-trivial = at "
            "least one non-empty batch; distinct by op list",
    "assumptions": ["numeric columns are float64 arrays, the categorical column an object array of "
                    "strings; quantities are vectorisable expressions (+, -, *, <) of the columns",
                    "bit-for-bit comparison with the model only on programs whose arithmetic is exact "
                    "(numpy sums in another order); otherwise numbers are compared to 1e-9"],
}

CATS = ["a", "b", "", "tt", "zz"]


def quantity_bearing(spec):
    return any("q" in s for s in gen.walk(spec))


def gen_one(r, i, tier):
    dyadic = (i % 4 != 3)
    # non-dyadic configurations scale quantities up to 1e16, where the batch formulas for mean and
    # variance cancel catastrophically: Average/Deviate are exercised on well-conditioned data only
    g = gen.G(r, dyadic=dyadic, counts_tsq=False, max_depth=3 if tier == "quick" else 4, vecbags=False,
              leaves=None if dyadic else ["Count", "Sum", "Minimize", "Maximize", "Bag"])
    for _ in range(50):
        spec = g.spec(kind=r.choice(gen.NODES + gen.NODES + gen.LEAVES[1:]))
        if quantity_bearing(spec):
            break
    if not dyadic and spec["k"] in ("Average", "Deviate"):
        # the root kind is drawn from all leaves: an Average/Deviate root of an inexact program gets
        # its constants of magnitude 1e16 replaced (x - 1e16 makes the variance formulas cancel)
        def tame(e):
            if isinstance(e, list):
                if len(e) == 2 and e[0] == "c" and isinstance(e[1], float) and abs(e[1]) >= 1e4:
                    e[1] = 2.5
                for x in e:
                    tame(x)
        tame(spec["q"]["e"])
    # stratum for the kernels' special cases (np.histogram / np.unique fast paths of Count-valued
    # Bin, CentrallyBin, SparselyBin, Categorize, which depend on the weight being 1, a scalar or an
    # array): such a node at the root or directly below a collection, every weight mode in turn
    fast = (i % 5 == 4)
    if fast:
        kind = ["Categorize", "Bin", "SparselyBin", "CentrallyBin"][(i // 5) % 4]
        spec = g.spec(depth=1, kind=kind)
        spec["value"] = {"k": "Count"}
        wrap = (i // 20) % 5
        if wrap == 1:
            spec = {"k": "Label", "pairs": {"a": spec}}
        elif wrap == 2:
            spec = {"k": "Branch", "values": [{"k": "Count"}, spec]}
        elif wrap == 3:
            spec = {"k": "UntypedLabel", "pairs": {"k1": {"k": "Count"}, "b": spec}}
        elif wrap == 4:
            spec = {"k": "Index", "values": [spec]}
    # stratum: Bin configurations whose factor num/(high-low) is inexact, filled exactly on every inner
    # edge (computed in the two usual ways): the vectorised index must be the row index, ulp for ulp
    sweep = (i % 10 == 7)
    if sweep:
        num, lo_, hi_ = [(100, -3.0, 3.0), (12, 0.0, 1.2), (50, 0.0, 5.0), (7, 0.0, 0.7), (3, 1.0 / 3.0, 0.7),
                         (10, 0.1, 1.1), (30, 0.0, 3.0)][(i // 10) % 7]
        cnt = {"k": "Count"}
        spec = {"k": "Bin", "num": num, "low": lo_, "high": hi_, "q": {"name": None, "id": 0, "e": ["f", 0]},
                "value": r.choice([cnt, {"k": "Sum", "q": {"name": None, "id": 0, "e": ["f", 1]}}]),
                "under": cnt, "over": cnt, "nan": cnt}
        fast = False
        dyadic = False
    # boolean categories: a Categorize over a comparison (a numpy bool array in the vectorised fill)
    for s_ in gen.walk(spec):
        if s_["k"] == "Categorize" and r.random() < 0.25:
            s_["q"]["e"] = ["<", ["f", r.randint(0, 2)], ["c", r.choice([0.5, 0.0, -1.0, 1.25])]]
    # quantities read named columns: d["x"] works on a dict of arrays, a record array and a dict row
    for s_ in gen.walk(spec):
        if "q" in s_:
            q = s_["q"]
            q["form"], q["rec"] = r.choice(["lam", "lam", "str"]), "dict"
            q["wops"] = [("named", q["name"])] if q["name"] is not None and q["form"] != "str" else \
                ([("named", q["name"])] if q["name"] is not None else ["ser"])
            if q["name"] is None and q["form"] == "str":
                q["name"] = hgm.expr_rec(q["e"], "names")
    form = r.choice(["dict", "dict", "rec"])
    ops = [("new", spec), ("new", spec)]
    meta = {"batches": [], "input": form, "dyadic": dyadic}
    for b in range(3 if fast else r.randint(1, 3)):
        n = r.choice([0, 1, 2, r.randint(3, 10), r.randint(3, 10)])
        rows = [d for d, _ in (base.small_stream(r, spec, n, [1.0], cats=CATS) if dyadic
                               else gen.stream(r, spec, n, [1.0], cats=CATS))]
        rows = [[float(v) if not isinstance(v, (str, bool)) else (float(v) if isinstance(v, bool) and j < 3 else v)
                 for j, v in enumerate(d)] for d in rows]
        if sweep:
            w_ = (spec["high"] - spec["low"]) / spec["num"]
            ks = r.sample(range(1, spec["num"]), min(spec["num"] - 1, 24))
            xs = [spec["low"] + k * w_ for k in ks] + [spec["low"] + k * (spec["high"] - spec["low"]) / spec["num"] for k in ks]
            rows = [[float(x), 0.5, 0.0, "a", False] for x in xs]
        if not dyadic:
            # sums of values of magnitude 1e16 and of order 1 depend on the order of summation
            # (numpy sums pairwise): inexact programs use well-conditioned data only
            rows = [[(v if isinstance(v, str) or v != v or abs(v) == float("inf") or abs(v) < 1e4 else r.randint(-40, 40) / 10.0)
                     for v in d] for d in rows]
        c = r.random()
        if fast:
            c = [0.1, 0.4, 0.4, 0.9, 0.9][(i // 100 + b) % 5]
        if fast and c > 0.55 and (i // 100 + b) % 5 == 4:
            w = [1.0 for _ in rows]          # an array of ones (takes the unit-weight fast path)
        elif c < 0.35:
            w = 1.0
        elif c < 0.55:
            w = r.choice([2.0, 0.5, 0.25, 3.0, 0.0] if dyadic else [0.1, 2.0, 1.0 / 3.0, 0.0])
        else:
            w = [r.choice([1.0, 1.0, 2.0, 0.5, 0.0, 0.25, 3.0] if dyadic else [1.0, 0.1, 0.7, 0.0, 2.5]) for _ in rows]
        ops.append(("fillnp", 0, copy.deepcopy(rows), w, form))
        ws = w if isinstance(w, list) else [w] * len(rows)
        for d, x in zip(rows, ws):
            ops.append(("fill", 1, d, x, "dict"))
        ops.append(("snapp", 0)); ia = len(ops) - 1
        ops.append(("snapp", 1)); ib = len(ops) - 1
        meta["batches"].append({"fillnp_op": ia - 1 - len(rows), "snap_np": ia, "snap_rows": ib, "n": len(rows),
                                "weight": "array" if isinstance(w, list) else w})
    return {"ops": ops, "meta": meta}


def gen_programs(r, n, tier):
    return [gen_one(r, i, tier) for i in range(n)]


def oracle(p, run, exact):
    meta = p.get("meta")
    if not meta:
        return []
    obs = run["obs"]
    m = run["machine"]
    fails = []
    log = getattr(m, "nplog", [])
    k = 0
    for o, ob in zip(p["ops"], obs):
        if o[0] == "fillnp":
            info = log[k]
            k += 1
            if ob[0] == 1:
                fails.append({"clause": "fill.numpy accepts the batch", "rows": len(o[2]), "weight": o[3] if not isinstance(o[3], list) else "array",
                              "diff": "raised %s" % info["raised"]})
            if not info["inputs_unmodified"]:
                fails.append({"clause": "the input arrays are left unmodified", "diff": "a column or the weight array changed"})
    if fails:
        return fails[:4]
    rowfail = any(ob and ob[0] == 1 for o, ob in zip(p["ops"], obs) if o[0] == "fill")
    if rowfail:
        return []
    exact = exact and tie_applicable(p, exact)
    if exact:
        for bi, b in enumerate(meta["batches"]):
            x, y = obs[b["snap_np"]], obs[b["snap_rows"]]
            if x != y:
                k = next((i for i, (a, c) in enumerate(zip(x, y)) if a != c), min(len(x), len(y)))
                fails.append({"clause": "fill.numpy(batch, weights) has the content of filling row by row  [C03]",
                              "batch": bi, "rows": b["n"], "weight": b["weight"],
                              "diff": "tokens differ at %d: numpy %r, rows %r" % (k, x[max(0, k - 4):k + 6], y[max(0, k - 4):k + 6])})
                break
    if not fails:
        d = hgm.compare_trees(hgm.tree(m.pool[0], prune=True), hgm.tree(m.pool[1], prune=True), exact)
        if d is not None:
            fails.append({"clause": "fill.numpy(batch, weights) has the content of filling row by row  [C03]",
                          "batch": "final state", "diff": d})
    return fails[:4]


