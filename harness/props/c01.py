"""C01 -- merge is a commutative monoid homomorphism: partition-invariant aggregation."""
from harness import gen, hgm
from harness.props import base

PROP = {
    "id": "C01",
    "quick_n": 400,
    "thorough_n": 4000,
    "rule": "one program = a tree spec (19 primitives, depth<=3; dyadic and non-dyadic families), "
            "a stream over the tree's critical values (edges, midpoints, thresholds, +-ulp, nan, "
            "+-inf) with weights incl. 0/negative/nan, a random partition into 1..5 chunks (empty "
            "chunks allowed) each filled into a fresh copy, a random permutation and "
            "parenthesisation of +, plus zero-identity and commutativity probes; non-trivial = "
            "more than 2 ops; distinct by op list",
    "assumptions": ["quantity functions are deterministic and side-effect free",
                    "exact clauses are decided on programs whose run is exact (identical "
                    "observations at the exact and the binary64 instance, or exact by construction); "
                    "rounding-sensitive programs are compared with 1e-9 tolerance when well "
                    "conditioned, and only recorded otherwise"],
}


def gen_one(r, i, tier):
    dyadic = (i % 3 != 2)
    g = gen.G(r, dyadic=dyadic, max_depth=3 if tier == "quick" else 4)
    spec = g.spec()
    cls = base.classify(spec, dyadic)
    n = r.randint(0, 10 if tier == "quick" else 24)
    if dyadic:
        s = base.small_stream(r, spec, n, gen.WEIGHTS)
    else:
        s = gen.stream(r, spec, n)
    k = r.randint(1, 5)
    chunks = base.random_partition(r, s, k)
    if i % 12 == 5:
        # chunks of one kind of value: a partial result that saw only NaN (or only +inf, only -inf) meets
        # partial results that saw numbers, as left and as right operand
        leaf = {"k": r.choice(["Minimize", "Maximize", "Average", "Sum", "Deviate"]), "q": {"name": None, "id": 0, "e": ["f", 0]}}
        wrap = (i // 12) % 3
        cnt = {"k": "Count"}
        spec = leaf if wrap == 0 else \
            {"k": "Bin", "num": 2, "low": 0.0, "high": 2.0, "q": {"name": None, "id": 0, "e": ["f", 1]}, "value": leaf,
             "under": cnt, "over": cnt, "nan": cnt} if wrap == 1 else \
            {"k": "Categorize", "q": {"name": None, "id": 0, "e": ["f", 3]}, "value": leaf}
        cls = base.classify(spec, True)
        special = [float("nan"), float("inf"), -float("inf")][(i // 36) % 3]

        def row(x):
            return ([x, 0.5, 0.0, "a", False], r.choice([1.0, 2.0, 0.5]))
        chunks = [[row(special) for _ in range(r.randint(1, 2))], [row(r.choice([1.0, -0.5, 2.25])) for _ in range(r.randint(1, 3))],
                  [row(r.choice([0.25, 3.0])) for _ in range(r.randint(0, 2))]]
        r.shuffle(chunks)
        s = [x for c_ in chunks for x in c_]
        k = len(chunks)
    ops = [("new", spec)] + base.fill_ops(0, s)
    for j, c in enumerate(chunks):
        ops.append(("new", spec))
        ops += base.fill_ops(1 + j, c)
    nxt = 1 + k
    # random permutation and parenthesisation
    items = list(range(1, 1 + k))
    r.shuffle(items)
    while len(items) > 1:
        j = r.randrange(len(items) - 1)
        a, b = items[j], items[j + 1]
        ops.append(("add", a, b))
        items[j:j + 2] = [nxt]
        nxt += 1
    result = items[0]
    # identities and commutativity on reachable states
    ops.append(("zero", 0)); z = nxt; nxt += 1
    ops.append(("add", 0, z)); idr = nxt; nxt += 1
    ops.append(("add", z, 0)); idl = nxt; nxt += 1
    meta = {"whole": 0, "result": result, "idr": idr, "idl": idl, "cls": cls, "k": k}
    if k >= 2:
        ops.append(("add", 1, 2)); ab = nxt; nxt += 1
        ops.append(("add", 2, 1)); ba = nxt; nxt += 1
        meta.update(ab=ab, ba=ba)
    return {"ops": ops, "meta": meta}


def gen_programs(r, n, tier):
    return [gen_one(r, i, tier) for i in range(n)]


def oracle(p, run, exact):
    """the theorems of Properties/C01.v instantiated on the implementation's observations"""
    m = run["machine"]
    meta = p.get("meta")
    if not meta:
        return []
    if any(ob and ob[0] == 1 for ob in run["obs"]):
        return []                       # a fill or merge raised: outside the theorems' hypotheses
    cls = meta["cls"]
    decide_exact = exact or cls == "exact"
    decide = decide_exact or cls == "well"
    fails = []

    def chk(name, i, j):
        d = base.cmp_pool(m, i, j, decide_exact)
        if d is not None and decide:
            fails.append({"clause": name, "diff": d})

    chk("fill-all = reduce(chunk fills)  [C01_partition_invariant]", meta["whole"], meta["result"])
    chk("a + zero = a  [C01_zero_right]", meta["whole"], meta["idr"])
    chk("zero + a = a  [C01_zero_left]", meta["whole"], meta["idl"])
    if "ab" in meta:
        chk("a + b = b + a  [C01_add_comm]", meta["ab"], meta["ba"])
    return fails


def search_around(p, rng):
    """the tie broke on p: look for a failing oracle on exact-by-construction programs over the
    same primitives"""
    spec = p["ops"][0][1]
    kinds = base.spec_kinds(spec)
    for i in range(300):
        g = gen.G(rng, dyadic=True, max_depth=3, kinds=[k for k in kinds if k in gen.NODES] or None,
                  leaves=[k for k in kinds if k in gen.LEAVES and k in base.EXACT_LEAVES] or base.EXACT_LEAVES)
        q = gen_one(rng, 0, "quick")
        from harness.check import run_impl
        r = run_impl(q)
        if r["crash"] is None and oracle(q, r, False):
            return dict(q, failures=oracle(q, r, False))
    return None
