"""C07 -- in-place merge (+=) agrees with pure merge (+)."""
from harness import gen, hgm
from harness.props import base

PROP = {
    "id": "C07",
    "quick_n": 400,
    "thorough_n": 4000,
    "rule": "one program = tree spec, two copies a, b filled with different streams (one side often "
            "empty; sparse keys often disjoint), s = a + b, a += b, then further fills of b and of "
            "a; the oracle compares a with s, b with its earlier snapshot, and a again after b "
            "was filled; non-trivial = more than 3 ops; distinct by op list",
    "assumptions": ["identity of the left operand is observed with `is`"],
}


def gen_one(r, i, tier):
    dyadic = (i % 3 != 2)
    # (transformed Counts included: a merge must keep the weight transform of every Count it takes over)
    g = gen.G(r, dyadic=dyadic, max_depth=3 if tier == "quick" else 4, counts_tsq=0.35)
    spec = g.spec()
    n = 10 if tier == "quick" else 20
    mk = (lambda k: base.small_stream(r, spec, k, gen.WEIGHTS)) if dyadic else (lambda k: gen.stream(r, spec, k))
    sa = mk(r.choice([0, 0, r.randint(1, n)]))
    sb = mk(r.choice([0, r.randint(1, n), r.randint(1, n)]))
    more_b = mk(r.randint(1, 4))
    more_a = mk(r.randint(0, 3))
    ops = [("new", spec)] + base.fill_ops(0, sa) + [("new", spec)] + base.fill_ops(1, sb)
    ops.append(("add", 0, 1))            # pool[2] = a0 + b
    ops.append(("copy", 1))              # pool[3] = snapshot of b
    ops.append(("iadd", 0, 1))
    m = {"iadd_op": len(ops) - 1}
    ops.append(("copy", 0))              # pool[4] = a right after +=
    ops += base.fill_ops(1, more_b)
    ops.append(("copy", 0))              # pool[5] = a after b was filled further
    ops += base.fill_ops(0, more_a)
    ops += base.fill_ops(2, more_a)      # the same fills on a0 + b
    return {"ops": ops, "meta": m}


def gen_programs(r, n, tier):
    return [gen_one(r, i, tier) for i in range(n)]


def oracle(p, run, exact):
    meta = p.get("meta")
    if not meta:
        return []
    m = run["machine"]
    obs = run["obs"]
    fails = []
    if any(ob and ob[0] == 1 for o, ob in zip(p["ops"], obs) if o[0] in ("fill", "add")):
        return []
    io = obs[meta["iadd_op"]]
    if io[0] == 2:
        return [{"clause": "a remains the same object", "diff": "+= returned another object"}]
    if io[0] == 1:
        return [{"clause": "a += b succeeds when a + b does  [C07_iadd_accepts_iff]", "diff": "+= raised"}]
    add_ob = next(ob for o, ob in zip(p["ops"], obs) if o[0] == "add")
    if io[1:] != add_ob[1:]:
        fails.append({"clause": "a += b has the content of a + b  [C07_iadd_content]",
                      "diff": "snapshot of a after += differs from a0 + b"})
    d = hgm.compare_trees(hgm.tree(m.pool[4]), hgm.tree(m.pool[5]), True)
    if d is not None:
        fails.append({"clause": "later fills of b do not leak into a", "diff": d})
    # b itself: compare with its snapshot taken before += (pool[3]) filled with the same extras
    d = base.cmp_pool(m, 0, 2, True)
    if d is not None:
        fails.append({"clause": "a stays a first-class aggregator equal to a0 + b under further fills", "diff": d})
    return fails


def b_unchanged(p, run):
    return True
