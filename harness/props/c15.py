"""C15 -- malformed or foreign JSON is rejected, never loaded as a corrupted aggregator."""
import copy

from harness import gen, hgm
from harness.props import base

PROP = {
    "id": "C15",
    "quick_n": 200,
    "thorough_n": 2000,
    "rule": "one program = a valid document (toJson of a random reachable state of a random tree) "
            "followed by single-point structural mutations of it at random positions: delete a "
            "required key, add an unknown key, retype a value to each other JSON type, rename a "
            "type to an unknown primitive, replace / truncate a list element, negative entries, "
            "incompatible or malformed version, duplicated sparse key or Bag value, extra top-level "
            "key; every mutant must make Factory.fromJson raise and the valid document must be "
            "accepted and re-serialise identically; non-trivial = at least one mutant; distinct by "
            "op list",
    "assumptions": ["mutations that yield another valid document (e.g. renaming a type to a "
                    "compatible registered one, 3 -> 3.0, name -> null) are not generated"],
}

REQUIRED = {"low", "high", "entries", "values:type", "values", "underflow:type", "underflow",
            "overflow:type", "overflow", "nanflow:type", "nanflow", "binWidth", "bins:type", "bins",
            "origin", "sub:type", "numerator", "denominator", "data", "sum", "mean", "variance",
            "min", "max", "range", "w", "v", "center", "atleast", "type", "version"}


def paths(doc, path=()):
    yield path, doc
    if isinstance(doc, dict):
        for k, v in doc.items():
            yield from paths(v, path + (k,))
    elif isinstance(doc, list):
        for i, v in enumerate(doc):
            yield from paths(v, path + (i,))


def get(doc, path):
    for p in path:
        doc = doc[p]
    return doc


def mutants(r, doc, n):
    """(description, mutated document) pairs, each invalid by construction"""
    out = []
    ps = list(paths(doc))
    dicts = [p for p, v in ps if isinstance(v, dict)]
    for _ in range(n * 4):
        if len(out) >= n:
            break
        d = copy.deepcopy(doc)
        c = r.random()
        if c < 0.2:
            if not dicts:
                continue
            p = r.choice(dicts)
            o = get(d, p)
            # object keys that are data (bins / pairs of sparse containers and labels) are not "required"
            ks = [k for k in o if k in REQUIRED and not (p and p[-1] in ("bins", "data") and not isinstance(get(d, p[:-1]), list))]
            if not ks:
                continue
            k = r.choice(ks)
            del o[k]
            out.append(("delete key %s at /%s" % (k, "/".join(map(str, p))), d))
        elif c < 0.35:
            if not dicts:
                continue
            p = r.choice(dicts)
            if p and p[-1] in ("bins", "data"):
                continue            # a new key inside a bins/data mapping is a new bin, not a format error
            # an unknown key: a novel word, or a word of the format that is required elsewhere
            # ("version" / "type" / "data" belong to the header and to typed items only)
            tgt = get(d, p)
            word = r.choice(["bogus", "version", "type", "data"])
            if word in tgt or (word != "bogus" and not p):
                word = "bogus"
            tgt[word] = 1.0 if word == "bogus" else ("1.1" if word == "version" else "Count" if word == "type" else 0.0)
            out.append(("add key %s at /%s" % (word, "/".join(map(str, p))), d))
        elif c < 0.65:
            pv = [(p, v) for p, v in ps if p]
            if not pv:
                continue
            p, v = r.choice(pv)
            parent = get(d, p[:-1])
            if isinstance(v, bool):
                continue
            if isinstance(v, (int, float)):
                # numeric-looking strings are not numbers of the format (only "nan", "inf", "-inf" are)
                new = r.choice(["abc", [1.0], {"a": 1.0}, None, repr(float(v)), "NaN", "-Infinity", "1e1",
                                " 1", "-INF", "0"])
            elif isinstance(v, str):
                if v in ("nan", "inf", "-inf"):
                    new = r.choice([[1.0], {"a": 1.0}, None, "abc", "NaN", "Infinity", "-INF", " inf", "nan "])
                elif p[-1] in ("name", "values:name", "bins:name", "sub:name"):
                    new = r.choice([1.0, [1.0], {"a": 1.0}, 0.0, [], {}, False, 0])
                else:
                    new = r.choice([1.0, [1.0], {"a": 1.0}, None, [], {}, False, 0])
            elif isinstance(v, list):
                new = r.choice([1.0, "abc", {"a": 1.0}, None, {}, "", 0, False])
            elif isinstance(v, dict):
                new = r.choice([1.0, "abc", [1.0], None, [], "", 0, False])
            else:
                continue
            parent[p[-1]] = new
            out.append(("retype /%s to %r" % ("/".join(map(str, p)), new), d))
        elif c < 0.75:
            cands = [p for p, v in ps if p and isinstance(p[-1], str) and (p[-1] == "type" or p[-1].endswith(":type"))]
            if not cands:
                continue
            p = r.choice(cands)
            get(d, p[:-1])[p[-1]] = "Foo"
            out.append(("rename type at /%s" % "/".join(map(str, p)), d))
        elif c < 0.85:
            cands = [p for p, v in ps if isinstance(v, list) and v and p and p[-1] in ("bins", "values", "data")]
            if not cands:
                continue
            p = r.choice(cands)
            lst = get(d, p)
            i = r.randrange(len(lst))
            lst[i] = r.choice([1.5, None, "x"]) if not isinstance(lst[i], (int, float, str)) else {"bad": 1}
            out.append(("replace element %d of /%s" % (i, "/".join(map(str, p))), d))
        elif c < 0.93:
            cands = [p for p, v in ps if p and p[-1] == "entries"]
            if not cands:
                continue
            p = r.choice(cands)
            get(d, p[:-1])["entries"] = -1.0
            out.append(("negative entries at /%s" % "/".join(map(str, p)), d))
        else:
            v = r.choice(["2.0", "1.2", "3.0.1", "abc", "1", 1.1, None, "", "1.05", "1.09", "01.7", "1.", "1.!",
                          "0.banana", "1.10"])
            d["version"] = v
            out.append(("version %r" % (v,), d))
    return out


def gen_one(r, i, tier):
    g = gen.G(r, dyadic=True, max_depth=3)
    spec = g.spec(kind=r.choice(gen.NODES + gen.LEAVES))
    s = base.small_stream(r, spec, r.randint(0, 6), gen.POSWEIGHTS, cats=gen.STRCATS)
    h = hgm.build(spec)
    for d, w in s:
        try:
            h.fill(tuple(d), w)
        except Exception:  # noqa: BLE001
            pass
    doc = h.toJson()
    ops = [("fromjson", doc)]
    descs = ["valid"]
    for desc, md in mutants(r, doc, 10 if tier == "quick" else 16):
        ops.append(("fromjson", md))
        descs.append(desc)
    # special single-point mutations with a dedicated meaning
    for desc, md in special(r, doc):
        ops.append(("fromjson", md))
        descs.append(desc)
    return {"ops": ops, "meta": {"descs": descs}}


def special(r, doc):
    out = []
    d = copy.deepcopy(doc)
    d["extra"] = 1
    out.append(("extra top-level key", d))
    for p, v in paths(doc):
        if isinstance(v, dict) and "bins" in v and isinstance(v["bins"], dict) and "binWidth" in v and v["bins"]:
            d = copy.deepcopy(doc)
            b = get(d, p)["bins"]
            k = next(iter(b))
            alias = ("0" + k) if not k.startswith("-") else ("-0" + k[1:])
            b[alias] = copy.deepcopy(b[k])
            out.append(("sparse key alias %s of %s at /%s" % (alias, k, "/".join(map(str, p))), d))
            break
    nums = [p for p, v in paths(doc) if p and isinstance(v, (int, float)) and not isinstance(v, bool)]
    if nums:
        p = r.choice(nums)
        d = copy.deepcopy(doc)
        get(d, p[:-1])[p[-1]] = True
        out.append(("bool for number at /%s" % "/".join(map(str, p)), d))
    for p, v in paths(doc):
        if isinstance(v, dict) and "values" in v and isinstance(v.get("range"), str) and len(v["range"]) > 1 and v["values"]:
            d = copy.deepcopy(doc)
            vs = get(d, p)["values"]
            if r.random() < 0.5:
                vs[0]["v"] = vs[0]["v"][:-1]
                out.append(("vector value of a Bag truncated at /%s" % "/".join(map(str, p)), d))
            else:
                vs[0]["v"] = vs[0]["v"] + [1.0]
                out.append(("vector value of a Bag extended at /%s" % "/".join(map(str, p)), d))
            break
    for p, v in paths(doc):
        if isinstance(v, dict) and "values" in v and "range" in v and v["values"]:
            d = copy.deepcopy(doc)
            vs = get(d, p)["values"]
            vs.append(copy.deepcopy(vs[0]))
            out.append(("duplicate Bag value at /%s" % "/".join(map(str, p)), d))
            break
    return out


def gen_programs(r, n, tier):
    return [gen_one(r, i, tier) for i in range(n)]


def oracle(p, run, exact):
    meta = p.get("meta")
    if not meta:
        return []
    obs = run["obs"]
    fails = []
    valid = p["ops"][0][1]
    if obs[0][0] != 0:
        fails.append({"clause": "every document produced by toJson is accepted", "diff": "fromJson raised on a valid document"})
    for i, (desc, ob) in enumerate(zip(meta["descs"], obs)):
        if i == 0:
            continue
        if ob[0] == 0:
            fails.append({"clause": "a malformed document is rejected", "mutation": desc, "op": i,
                          "diff": "fromJson returned a container",
                          "known": desc.startswith("bool for number")})
    return fails[:6]


def is_known(kf, prog, fails):
    if kf.get("id") != "C15-bool-accepted-as-number":
        return False
    return all(f.get("known") is True for f in fails)


def replay_known(kf):
    import histogrammar as hg
    try:
        h = hg.Factory.fromJson({"type": "Count", "data": True, "version": "1.1"})
    except Exception:  # noqa: BLE001
        return False
    return h.entries == 1.0
