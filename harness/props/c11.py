"""C11 -- pickling preserves content, equality and fillability."""
import copy

from harness import gen, hgm
from harness.props import base
from harness.props import c17

Machine = hgm.FcnMachine
TIE_EXACT_ONLY = True
NO_SHRINK = True

PROP = {
    "id": "C11",
    "quick_n": 300,
    "thorough_n": 3000,
    "rule": "one program = tree spec whose quantities are lambdas, defs and string expressions, plain, "
            "named and cached in every wrapper order; a state reached by fills (dict records), "
            "optionally +, *, copy or a JSON reload; its pickle clone; then original and clone are "
            "compared (==, toJson) and driven through the same continuation: row fills, one "
            "vectorised batch, + with a third aggregator, * and a second clone; after every step the "
            "two must agree and the original must be what it was; non-trivial = a continuation of at "
            "least 3 steps; distinct by op list",
    "assumptions": ["quantities are self-contained (no closures over mutable state)"],
}

TOL = 2.0 ** -40


def tie_applicable(p, exact):
    spec = p["ops"][0][1]
    # Average/Deviate below a vectorised batch round differently from the row recurrences
    return exact and not (base.has_kind(spec, ["Average", "Deviate"]) and any(o[0] == "fillnp" for o in p["ops"]))


def variant(spec):
    """the same tree with every constant of every quantity changed (names recomputed)"""
    s2 = copy.deepcopy(spec)

    def chg(e):
        if e[0] == "c":
            return ["c", float(e[1]) * 2.0 + 1.0]
        return [e[0]] + [chg(x) if isinstance(x, list) else x for x in e[1:]]
    for s_ in gen.walk(s2):
        if "q" in s_:
            q = s_["q"]
            q["e"] = chg(q["e"])
            if not any(isinstance(w, (list, tuple)) and w[0] == "named" for w in q.get("wops", [])):
                q["name"] = c17.default_name({"form": q["form"], "e": q["e"], "fname": q.get("fname", "myfn")})
    return s2


def gen_one(r, i, tier):
    dyadic = True
    g = gen.G(r, dyadic=dyadic, max_depth=3 if tier == "quick" else 4, vecbags=False)
    spec = g.spec(kind=r.choice(gen.NODES + gen.LEAVES))
    if i % 12 == 11:
        spec = {"k": "Count"}        # an isolated Count: vectorised through Container.fillnumpy
    c17.decorate(r, spec, "dict")
    for s_ in gen.walk(spec):
        if "q" in s_ and s_["q"].get("form") == "def" and r.random() < 0.6 and s_["q"]["e"][0] != "vec":
            s_["q"]["form"] = "defg"          # a def that reads its constants from module globals
            if r.random() < 0.5 and all(f_ in (0, 1, 2) for f_ in gen.fields_of(s_["q"]["e"])):
                # ... one of them falsy (0.0): it must travel with the pickled function all the same
                s_["q"]["e"] = ["+", s_["q"]["e"], ["c", 0.0]]
    try:
        hgm.build(spec)
    except Exception:  # noqa: BLE001
        spec = {"k": "Count"}
    ops = []
    pool = [0]

    def push(op):
        ops.append(op)
        pool[0] += 1
        return pool[0] - 1

    recs = [d for d, _ in base.small_stream(r, spec, 6, [1.0], cats=["a", "b", "zz"])]
    recs = [[float(v) if not isinstance(v, (str, bool)) else v for v in d] for d in recs]

    def fills(idx, k):
        for _ in range(k):
            ops.append(("fill", idx, copy.deepcopy(r.choice(recs)), r.choice(gen.POSWEIGHTS), "dict"))

    a = push(("new", spec)); fills(a, r.choice([0, 2, 5]))
    b = push(("new", spec)); fills(b, r.choice([0, 2]))
    c = r.random()
    t = a
    state = "live"
    if c < 0.15:
        t = push(("add", a, b)); state = "sum"
    elif c < 0.3:
        t = push(("mul", a, 2.0)); state = "product"
    elif c < 0.4:
        t = push(("copy", a)); state = "copy"
    elif c < 0.55:
        t = push(("jsonrt", a)); state = "reloaded"
    cl = push(("clone", t))
    pairs = []                       # (op index on the original, op index on the clone, what)
    if any("q" in s_ and s_["q"].get("form") == "defg" for s_ in gen.walk(spec)):
        # another aggregator of the same shape whose functions read DIFFERENT values from globals of
        # the same names is pickled and unpickled before the clone is used
        v = push(("new", variant(spec))); fills(v, 1)
        push(("clone", v))

    def both(mk, what):
        ops.append(mk(t)); i1 = len(ops) - 1
        ops.append(mk(cl)); i2 = len(ops) - 1
        pairs.append((i1, i2, what))

    ops.append(("eq", t, cl, TOL)); eq0 = len(ops) - 1
    both(lambda x: ("tojson", x), "toJson")
    for _ in range(r.randint(1, 4)):
        d, w = copy.deepcopy(r.choice(recs)), r.choice(gen.POSWEIGHTS)
        both(lambda x: ("fill", x, copy.deepcopy(d), w, "dict"), "fill")
    ops.append(("eq", t, cl, TOL)); eq1 = len(ops) - 1
    both(lambda x: ("tojson", x), "toJson after the continuation")
    # merges: new pool entries
    ops.append(("add", t, b)); s1 = pool[0]; pool[0] += 1; i1 = len(ops) - 1
    ops.append(("add", cl, b)); s2 = pool[0]; pool[0] += 1; i2 = len(ops) - 1
    pairs.append((i1, i2, "+ with a third aggregator"))
    # scaling: the clone's Counts hold an equal copy of the identity transform, not the object itself
    ops.append(("mul", t, 2.0)); pool[0] += 1; i1 = len(ops) - 1
    ops.append(("mul", cl, 2.0)); pool[0] += 1; i2 = len(ops) - 1
    pairs.append((i1, i2, "* 2"))
    ops.append(("add", t, cl)); pool[0] += 1; mixed = len(ops) - 1
    ops.append(("clone", cl)); cl2 = pool[0]; pool[0] += 1
    ops.append(("eq", cl, cl2, TOL)); eq2 = len(ops) - 1
    # the vectorised batch comes last: it leaves empty bins behind, so only pruned snapshots after it
    if state != "reloaded" and (any("q" in s_ for s_ in gen.walk(spec)) or spec["k"] == "Count"):
        # (a reloaded container has no functions: fill.numpy raises even for an empty batch)
        rows = [copy.deepcopy(r.choice(recs)) for _ in range(r.randint(0, 5))]
        w = r.choice([1.0, 2.0, [r.choice([1.0, 2.0, 0.5]) for _ in rows]])     # (no zero weights: they leave empty bins)
        both(lambda x: ("fillnp", x, copy.deepcopy(rows), w, "dict"), "fill.numpy")
        both(lambda x: ("snapp", x), "content after fill.numpy")
    return {"ops": ops, "meta": {"state": state, "pairs": pairs, "eqs": [eq0, eq1, eq2], "mixed": mixed,
                                 "t": t, "clone": cl}}


def gen_programs(r, n, tier):
    return [gen_one(r, i, tier) for i in range(n)]


def oracle(p, run, exact):
    meta = p.get("meta")
    if not meta:
        return []
    obs = run["obs"]
    m = run["machine"]
    fails = []
    for j, (o, ob) in enumerate(zip(p["ops"], obs)):
        if o[0] == "clone" and ob == [1]:
            return [{"clause": "pickle.dumps / loads accept the aggregator", "op": j, "diff": "raised %s" % (m.exc[-1:],)}]
    for info in getattr(m, "clonelog", []):
        if not info["original_unchanged"]:
            fails.append({"clause": "pickling does not change the original", "diff": "snapshot of the original changed"})
        if info["shares_objects"]:
            fails.append({"clause": "the clone shares no object with any existing aggregator", "diff": "common object identities"})
        if not info["type_same"]:
            fails.append({"clause": "the clone has the class of the original", "diff": "different class"})
    for k, e in enumerate(meta["eqs"]):
        if obs[e][:2] != [1, 1]:
            fails.append({"clause": "the clone equals the original (%s)" % ["immediately", "after identical further operations", "clone of the clone"][k],
                          "diff": "== gave %r" % (obs[e],)})
    for i1, i2, what in meta["pairs"]:
        if obs[i1] != obs[i2]:
            x, y = obs[i1], obs[i2]
            k = next((q for q, (a, c) in enumerate(zip(x, y)) if a != c), min(len(x), len(y)))
            fails.append({"clause": "original and clone agree after: %s" % what, "ops": [i1, i2],
                          "diff": "token %d: original %r, clone %r" % (k, x[max(0, k - 3):k + 5], y[max(0, k - 3):k + 5])})
    if obs[meta["mixed"]][0] != 0 and obs[meta["pairs"][-1][0]][0] == 0:
        fails.append({"clause": "original + clone is accepted", "diff": "raised"})
    return fails[:5]
