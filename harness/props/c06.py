"""C06 -- non-interference: operations never mutate operands or share mutable state."""
from harness import gen, hgm
from harness.props import base

MODE = "id"
Machine = hgm.IdMachine

PROP = {
    "id": "C06",
    "quick_n": 330,
    "thorough_n": 3300,
    "rule": "one program = a history over a pool of up to 7 aggregators (two or three constructed "
            "separately from the same spec, some relying on default arguments), interleaving "
            "fills, +=, +, *, zero, copy and hash; after every operation the identity partition "
            "(id() of every aggregator object and of every dict/list it owns, over the whole pool) "
            "and the snapshots of all entries are taken; non-trivial = more than 3 ops; distinct by "
            "op list",
    "assumptions": ["UserFcn objects and value templates are shared by design and excluded",
                    "immutable tuples (IrregularlyBin/Stack bins, Index/Branch values) are not "
                    "mutable state"],
}


def add_defaults(r, spec):
    """make some Selects rely on the default argument cut=Count()"""
    for s in gen.walk(spec):
        if s["k"] == "Select" and r.random() < 0.5:
            s["cut"] = {"k": "Count"}
            s["default_cut"] = True


def gen_one(r, i, tier):
    dyadic = (i % 3 != 2)
    vect = dyadic and (i % 2 == 1)          # programs that also fill vectorised
    g = gen.G(r, dyadic=dyadic, max_depth=3, vecbags=not vect)
    spec = g.spec(kind=r.choice(gen.NODES + ["Select", "Select", "SparselyBin", "Categorize", "Bag"]))
    add_defaults(r, spec)
    # (the batch formulas of Average/Deviate round differently from the row recurrences)
    vect = vect and not base.has_kind(spec, ["Average", "Deviate"]) and any("q" in s_ for s_ in gen.walk(spec))
    vals = gen.critical_values(spec)
    ops = [("new", spec), ("new", spec)]
    npool = 2
    n = r.randint(5, 14 if tier == "quick" else 30)
    for _ in range(n):
        c = r.random()
        if vect and c < 0.15:
            rows = [d for d, _ in base.small_stream(r, spec, r.randint(0, 5), [1.0], cats=["a", "b", "zz", ""])]
            rows = [[float(v) if not isinstance(v, str) else v for v in d] for d in rows]
            # (no zero weights here: the kernels leave an empty bin behind for a zero-weight row, which
            # the snapshots prune but which can change the outcome of hash(); C03 / C05 cover them)
            ops.append(("fillnp", r.randrange(npool), rows, [r.choice([1.0, 2.0, 0.5, 0.25]) for _ in rows]))
        elif c < 0.5:
            d = base.small_stream(r, spec, 1, [1.0])[0][0] if dyadic else gen.datum(r, vals)
            ops.append(("fill", r.randrange(npool), d, r.choice(gen.POSWEIGHTS)))
        elif c < 0.62 and npool < 7:
            ops.append(("add", r.randrange(npool), r.randrange(npool))); npool += 1
        elif c < 0.70:
            ops.append(("iadd", r.randrange(npool), r.randrange(npool)))
        elif c < 0.78 and npool < 7:
            ops.append(("mul", r.randrange(npool), r.choice([0.5, 2.0, 0.0, 1.0, 1.0]))); npool += 1
        elif c < 0.84 and npool < 7:
            ops.append(("copy", r.randrange(npool))); npool += 1
        elif c < 0.88 and npool < 7:
            ops.append(("zero", r.randrange(npool))); npool += 1
        elif c < 0.90 and not vect:
            # (after a vectorised fill a Categorize below another binning node holds an empty bin for
            # every category of the batch - the kernels pass all rows down with masked weights - so
            # whether hash() meets bool and str keys in one node is not what the row model says)
            ops.append(("hash", r.randrange(npool)))
        elif c < 0.97:
            ops.append(("pure", r.randrange(npool), r.randrange(npool)))
        elif npool < 7:
            ops.append(("new", spec)); npool += 1
    # every program ends with the read-only operations on both originals (helper methods such as
    # histogram(), getOrElse(), zero(), copy() must neither change them nor hand out their objects)
    ops.append(("pure", 0, 1))
    ops.append(("pure", 1, 0))
    return {"ops": ops, "meta": {}}


def gen_programs(r, n, tier):
    return [gen_one(r, i, tier) for i in range(n)]


def oracle(p, run, exact):
    m = run["machine"]
    fails = []
    # (1) ownership: no aggregator object and no dict/list is reachable from two positions
    ids = m.pids()
    if ids != list(range(len(ids))):
        dup = next(i for i, x in enumerate(ids) if x != max(ids[:i] + [-1]) + 1)
        fails.append({"clause": "no two positions of the pool share an object or container",
                      "diff": "position %d aliases an earlier one (canonical ids %r...)" % (dup, ids[max(0, dup - 6):dup + 1])})
    # (2) frame: an operation changes at most its designated target
    prev = None
    for i, (o, snaps) in enumerate(zip(p["ops"], m.snaps)):
        if prev is not None:
            target = o[1] if o[0] in ("fill", "fillnp", "iadd") else None
            for j, (a, b) in enumerate(zip(prev, snaps)):
                if j != target and a != b:
                    fails.append({"clause": "op %s changed pool[%d], which is not its target" % (o[0], j),
                                  "op": i, "diff": "snapshot of pool[%d] differs" % j})
        prev = snaps
    for msg in getattr(m, "purelog", [])[:2]:
        fails.append({"clause": "a method that returns a new aggregator shares nothing with its operand", "diff": msg})
    return fails[:5]
