"""C04 -- JSON serialisation is lossless, strict and yields a fully usable container."""
from harness import gen, hgm
from harness.props import base

PROP = {
    "id": "C04",
    "quick_n": 360,
    "thorough_n": 3600,
    "rule": "one program = tree spec (every primitive in every child/flow position, sparse "
            "containers with non-Count contents, named and unnamed quantities), a reachable state "
            "(fills incl. nan/+-inf data, +, *, copy; often left empty), then toJson (strictness "
            "and document correspondence), reload, toJson of the reload (fixpoint), and the same "
            "+, *, zero, copy applied to original and reload with their documents compared; "
            "non-trivial = more than 3 ops; distinct by op list",
    "assumptions": ["documents are compared after sorting object keys; 3 and 3.0 are the same number"],
}


def gen_one(r, i, tier):
    dyadic = (i % 3 != 2)
    g = gen.G(r, dyadic=dyadic, max_depth=3 if tier == "quick" else 4)
    spec = g.spec(kind=r.choice(gen.NODES + gen.LEAVES + ["SparselyBin", "Categorize", "CentrallyBin"]))
    n = r.choice([0, 0, r.randint(1, 8)])
    s = (base.small_stream(r, spec, n, gen.WEIGHTS, cats=gen.STRCATS) if dyadic
         else gen.stream(r, spec, n, cats=gen.STRCATS))
    ops = []
    m = {}

    def push(op):
        ops.append(op)
        return sum(1 for o in ops if o[0] in ("new", "add", "mul", "zero", "copy", "jsonrt", "fromjson")) - 1

    a = push(("new", spec)); ops.extend(base.fill_ops(a, s))
    c = r.random()
    if i % 15 == 7:
        # merged Deviates of one repeated non-dyadic value: the variance comes out as round-off residue
        # (possibly a tiny NEGATIVE number), which must survive the round trip like any other number
        v = r.choice([2.3, 1.1, 0.7, 10.1])
        dev = {"k": "Deviate", "q": {"name": None, "id": 0, "e": ["f", 0]}}
        spec = dev if r.random() < 0.5 else {"k": "Select", "q": {"name": None, "id": 0, "e": ["<", ["f", 1], ["c", 1.0]]}, "cut": dev}
        ops[:] = []
        a = push(("new", spec))
        ops.extend([("fill", a, [v, 0.5, 0.0, "a", False], 1.0) for _ in range(r.randint(2, 3))])
        b = push(("new", spec))
        ops.extend([("fill", b, [v, 0.5, 0.0, "a", False], 1.0) for _ in range(r.randint(3, 6))])
        a = push(("add", a, b))
    elif i % 15 == 3:
        # a Bag of vectors (2, 3 or 10 components) that really holds NaN / infinite components, alone or
        # below another container: its keys must come back from the document as they were
        nvec = [2, 3, 10][(i // 15) % 3]
        bag = {"k": "Bag", "range": "N%d" % nvec, "q": {"name": None, "id": 0, "e": ["vec"] + [r.randint(0, 2) for _ in range(nvec)]}}
        wrap = (i // 45) % 3
        spec = bag if wrap == 0 else \
            {"k": "Categorize", "q": {"name": None, "id": 0, "e": ["f", 3]}, "value": bag} if wrap == 1 else \
            {"k": "Select", "q": {"name": None, "id": 0, "e": ["<", ["f", 1], ["c", 4.0]]}, "cut": bag}
        ops[:] = []
        a = push(("new", spec))
        vals = [float("nan"), float("inf"), -float("inf"), 1.0, 0.5, -2.25]
        rows_ = [[r.choice(vals), r.choice(vals[3:] + vals[:1]), r.choice(vals), r.choice(["a", "b"]), False] for _ in range(4)]
        for d_ in rows_ + rows_[:2]:
            ops.append(("fill", a, list(d_), r.choice([1.0, 2.0, 0.5])))
    elif c < 0.2:
        b = push(("new", spec)); ops.extend(base.fill_ops(b, s[:2])); a = push(("add", a, b))
    elif c < 0.35:
        a = push(("mul", a, r.choice([0.5, 2.0])))
    elif c < 0.45:
        a = push(("copy", a))
    m["a"] = a
    ops.append(("tojson", a)); m["ja"] = len(ops) - 1
    R = push(("jsonrt", a, r.choice(["dict", "dict", "string", "file"]))); m["R"] = R; m["rt"] = len(ops) - 1
    ops.append(("tojson", R)); m["jR"] = len(ops) - 1
    pairs = []
    f = r.choice([0.5, 2.0, 3.0])
    for name, mk in (("x + x", lambda x: ("add", x, x)), ("x * f", lambda x: ("mul", x, f)),
                     ("zero(x)", lambda x: ("zero", x)), ("copy(x)", lambda x: ("copy", x))):
        ia = push(mk(a)); ja = len(ops); ops.append(("tojson", ia))
        ir = push(mk(R)); jr = len(ops); ops.append(("tojson", ir))
        pairs.append((name, ja, jr, len(ops) - 4, len(ops) - 2))
    # mixed: original + reload
    im = push(("add", a, R)); ops.append(("tojson", im)); m["mixed"] = len(ops) - 2
    m["pairs"] = pairs
    # the immutable twins built directly with the public .ed() constructors (keyword / positional
    # forms, default arguments included), of the state and of its zero: each is what the reader
    # builds, and building the second does not touch the first
    z = push(("zero", a))
    e1 = push(("jsonrt", a, "ed"))
    e2 = push(("jsonrt", z, "ed"))
    ops.append(("tojson", e2)); ops.append(("tojson", e1))
    return {"ops": ops, "meta": m}


def gen_programs(r, n, tier):
    return [gen_one(r, i, tier) for i in range(n)]


def docdiff(a, b, path="", out=None, tol=0.0):
    """structured differences between two JSON documents (a: original, b: reload); tol > 0: numbers
    are compared with that relative tolerance (results of further arithmetic on a reload whose
    Deviate went through variance = vte/entries are equal only up to rounding in binary64)"""
    if out is None:
        out = []
    if isinstance(a, dict) and isinstance(b, dict):
        for k in sorted(set(a) | set(b)):
            if k not in b:
                out.append({"path": path + "/" + k, "kind": "missing_in_reload", "orig": a[k],
                            "empty_sparse": isinstance(a.get("bins"), dict) and len(a["bins"]) == 0})
            elif k not in a:
                out.append({"path": path + "/" + k, "kind": "missing_in_orig", "reload": b[k]})
            else:
                docdiff(a[k], b[k], path + "/" + k, out, tol)
    elif isinstance(a, list) and isinstance(b, list):
        if len(a) != len(b):
            out.append({"path": path, "kind": "length", "orig": len(a), "reload": len(b)})
        for i, (x, y) in enumerate(zip(a, b)):
            docdiff(x, y, path + "[%d]" % i, out, tol)
    else:
        same = (a == b) or (isinstance(a, float) and isinstance(b, float) and a != a and b != b)
        if (not same and tol and isinstance(a, (int, float)) and isinstance(b, (int, float))
                and not isinstance(a, bool) and not isinstance(b, bool)):
            same = abs(a - b) <= tol * max(abs(a), abs(b), 1e-300)
        # numbers are compared by value (a quantity that returned a bool is stored as such)
        if not same:
            out.append({"path": path, "kind": "value", "orig": a, "reload": b})
    return out


def known_name_loss(diffs):
    """C04-empty-sparse-bins-name: the only differences are bins:name keys dropped at empty
    immutable SparselyBin/Categorize nodes"""
    return bool(diffs) and all(d["kind"] == "missing_in_reload" and d["path"].endswith("/bins:name")
                               and d.get("empty_sparse") for d in diffs)


def oracle(p, run, exact):
    meta = p.get("meta")
    if not meta:
        return []
    obs = run["obs"]
    m = run["machine"]
    fails = []
    ja = obs[meta["ja"]]
    if ja == [8]:
        return [{"clause": "toJson is strict JSON (json.dumps allow_nan=False)", "diff": "raw NaN/Infinity in the document"}]
    if obs[meta["rt"]][0] != 0:
        return [{"clause": "Factory.fromJson accepts the document toJson produced", "diff": "fromJson raised"}]
    # pool indexes of the objects: recompute from the ops
    prod = [i for i, o in enumerate(p["ops"]) if o[0] in ("new", "add", "mul", "zero", "copy", "jsonrt", "fromjson")]

    def doc(pool_index):
        return m.pool[pool_index].toJson()

    d = docdiff(doc(meta["a"]), doc(meta["R"]))
    if d:
        fails.append({"clause": "toJson(fromJson(toJson(h))) is the identical document", "diff": d[:4],
                      "known": known_name_loss(d)})
    # the identical-document clause is exact; arithmetic on the reload is compared exactly on
    # exact-safe programs and up to rounding otherwise
    tol = 0.0 if exact else 1e-9
    for name, ja_, jr_, oa, orr in meta["pairs"]:
        pa, pr = obs[oa], obs[orr]
        ia, ir = prod.index(oa), prod.index(orr)
        if pa[0] == 0 and pr[0] != 0:
            fails.append({"clause": "the reload supports %s like the original" % name, "diff": "raised on the reload"})
        elif pa[0] == 0:
            d = docdiff(doc(ia), doc(ir), tol=tol)
            if d:
                fails.append({"clause": "%s on the reload gives the same document as on the original" % name,
                              "diff": d[:4], "known": known_name_loss(d)})
    if obs[meta["mixed"]][0] != 0:
        fails.append({"clause": "original + reload is accepted", "diff": "raised"})
    else:
        # original + reload is original + original (the reload is interchangeable with the original)
        ia = prod.index(meta["pairs"][0][3])
        im = prod.index(meta["mixed"])
        d = docdiff(doc(ia), doc(im), tol=tol)
        if d and obs[meta["pairs"][0][3]][0] == 0:
            fails.append({"clause": "original + reload gives the same document as original + original",
                          "diff": d[:4], "known": known_name_loss(d)})
    return fails[:4]


def is_known(kf, prog, fails):
    if kf.get("id") != "C04-empty-sparse-bins-name":
        return False
    return all(f.get("known") is True for f in fails)


def replay_known(kf):
    import histogrammar as hg
    if kf.get("id") == "C04-categorize-bool-str-collision":
        c = hg.Categorize(lambda d: d, hg.Count())
        c.fill(True); c.fill("True"); c.fill("True")
        r = hg.Factory.fromJson(c.toJson())
        return len(c.bins) == 2 and len(r.bins) == 1
    h = hg.Categorize(lambda d: d, hg.Sum(hg.util.named("w", lambda d: 1.0)))
    r = hg.Factory.fromJson(h.toJson())
    return "bins:name" in h.toJson()["data"] and "bins:name" not in r.toJson()["data"]
