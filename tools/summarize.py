#!/usr/bin/env python3
"""group the replay files of one property by failing clause / difference (development aid)"""
import collections
import glob
import json
import sys

pid = sys.argv[1]
c = collections.Counter()
ex = {}


def kinds(s, acc):
    acc.append(s["k"])
    for k in ("value", "under", "over", "nan", "cut"):
        if k in s:
            kinds(s[k], acc)
    for v in s.get("pairs", {}).values():
        kinds(v, acc)
    for v in s.get("values", []):
        kinds(v, acc)
    return acc


for f in sorted(glob.glob("/verif/replays/%s_*.json" % pid)):
    d = json.load(open(f))
    spec = next((o[1] for o in d.get("ops", []) if o[0] == "new"), None)
    ks = kinds(spec, []) if spec else []
    if "failures" in d and d["failures"]:
        x = d["failures"][0]
        key = ("oracle", x["clause"][:60], (ks[0] if ks else "") + " " + (str(x.get("diff"))[:70] if len(sys.argv) < 3 else ""))
    elif "correspondence" in d:
        cc = d["correspondence"]
        op = d["ops"][cc["op"]] if cc.get("op", 10 ** 9) < len(d["ops"]) else ["?"]
        key = ("tie", op[0], str(cc.get("impl"))[:40] + " / " + str(cc.get("model"))[:40])
    else:
        key = ("other", str(list(d))[:60], "")
    c[key] += 1
    ex.setdefault(key, (f.split("/")[-1], ks[:8], d.get("exact_safe")))
for k, v in c.most_common():
    print(v, k, ex[k])
