#!/usr/bin/env python3
"""Confirm seeded changes and run the registered checks against them.

  tools/seedtest.py confirm <src_dir> ...   # src_dir holds patch.diff, demo.py, meta.json
        -> copies a confirmed change to /verif/seeded/<PID>-<name>/ (tests unchanged, demo exits 1
           with the patch and 0 without)
  tools/seedtest.py detect [<seeded name> ...]
        -> applies each seeded patch to /repo, runs ./check <PID> --tier quick, undoes the patch,
           and records in meta.json whether the check reported the violation

Scratch copies live under /root/scratch and are removed afterwards.
"""
import json
import os
import shutil
import subprocess
import sys
from concurrent.futures import ThreadPoolExecutor

VERIF = os.path.dirname(os.path.dirname(os.path.abspath(__file__)))
SEEDED = os.path.join(VERIF, "seeded")
SCRATCH = "/root/scratch/seed"
PY = "/venv/bin/python"
ENV = dict(os.environ, PYTHONHASHSEED="0")


def sh(cmd, cwd=None, env=None, timeout=1800):
    return subprocess.run(cmd, shell=True, cwd=cwd, env=env or ENV, capture_output=True, text=True, timeout=timeout)


def test_outcomes(tree):
    """set of passing test ids of the repository copy at <tree>"""
    env = dict(ENV, PYTHONPATH=tree)
    r = sh("%s -m pytest -q -p no:cacheprovider --timeout=900 --continue-on-collection-errors -rA 2>&1 | grep -E '^(PASSED|FAILED|ERROR)'" % PY,
           cwd=tree, env=env)
    return sorted(l.split(" - ")[0] for l in r.stdout.splitlines() if l.startswith("PASSED"))


def scratch_copy(name):
    d = os.path.join(SCRATCH, name)
    shutil.rmtree(d, ignore_errors=True)
    os.makedirs(d)
    sh("git -C /repo archive HEAD | tar -x -C %s" % d)
    return d


def confirm_one(src):
    meta = json.load(open(os.path.join(src, "meta.json")))
    pid = meta["property"]
    name = "%s-%s" % (pid, os.path.basename(os.path.normpath(src)))
    out = {"name": name, "property": pid, "src": src}
    d = scratch_copy(name)
    try:
        r = sh("git apply --whitespace=nowarn %s" % os.path.join(src, "patch.diff"), cwd=d)
        if r.returncode != 0:
            r = sh("patch -p1 < %s" % os.path.join(src, "patch.diff"), cwd=d)
        out["applies"] = r.returncode == 0
        if not out["applies"]:
            out["error"] = (r.stdout + r.stderr)[-500:]
            return out
        out["passing"] = test_outcomes(d)
        env = dict(ENV, PYTHONPATH=d)
        r1 = sh("%s %s" % (PY, os.path.join(src, "demo.py")), cwd=d, env=env, timeout=600)
        out["demo_with_patch"] = r1.returncode
        r0 = sh("%s %s" % (PY, os.path.join(src, "demo.py")), cwd="/repo", env=dict(ENV, PYTHONPATH="/repo"), timeout=600)
        out["demo_without_patch"] = r0.returncode
        out["demo_output"] = r1.stdout[-1500:]
    finally:
        shutil.rmtree(d, ignore_errors=True)
    return out


def confirm(srcs):
    base = scratch_copy("_base")
    try:
        baseline = test_outcomes(base)
    finally:
        shutil.rmtree(base, ignore_errors=True)
    print("baseline: %d passing tests" % len(baseline))
    with ThreadPoolExecutor(max_workers=8) as ex:
        results = list(ex.map(confirm_one, srcs))
    for o in results:
        ok = (o.get("applies") and o.get("passing") == baseline and o.get("demo_with_patch") == 1
              and o.get("demo_without_patch") == 0)
        print("%-12s applies=%s tests_same=%s demo(patch)=%s demo(clean)=%s -> %s" % (
            o["name"], o.get("applies"), o.get("passing") == baseline, o.get("demo_with_patch"),
            o.get("demo_without_patch"), "CONFIRMED" if ok else "rejected"))
        if not ok:
            if o.get("passing") is not None and o.get("passing") != baseline:
                print("    tests changed:", sorted(set(baseline) ^ set(o["passing"]))[:5])
            continue
        dst = os.path.join(SEEDED, o["name"])
        os.makedirs(dst, exist_ok=True)
        for f in ("patch.diff", "demo.py"):
            shutil.copy(os.path.join(o["src"], f), os.path.join(dst, f))
        meta = json.load(open(os.path.join(o["src"], "meta.json")))
        meta.update({"confirmed": {"tests_unchanged": True, "passing_tests": len(baseline),
                                   "demo_exit_with_patch": 1, "demo_exit_without_patch": 0,
                                   "repo_head": sh("git -C /repo rev-parse --short HEAD").stdout.strip()},
                     "demo_output_with_patch": o["demo_output"]})
        json.dump(meta, open(os.path.join(dst, "meta.json"), "w"), indent=1)
    shutil.rmtree(SCRATCH, ignore_errors=True)


def detect(names):
    names = names or sorted(os.listdir(SEEDED))
    for n in names:
        d = os.path.join(SEEDED, n)
        if not os.path.isfile(os.path.join(d, "patch.diff")):
            continue
        meta = json.load(open(os.path.join(d, "meta.json")))
        pid = meta["property"]
        assert sh("git -C /repo status --porcelain").stdout.strip() == "", "/repo is not clean"
        r = sh("git -C /repo apply --whitespace=nowarn %s" % os.path.join(d, "patch.diff"))
        if r.returncode != 0:
            print("%-12s patch no longer applies: %s" % (n, r.stderr[-200:]))
            continue
        try:
            checks = [pid] + [c for c in meta.get("also_check", []) if c != pid]
            res = {}
            for c in checks:
                r = sh("./check %s --tier quick" % c, cwd=VERIF, timeout=3000)
                lines = [l for l in r.stdout.splitlines() if l.startswith("VIOLATION")]
                res[c] = {"exit": r.returncode, "violations": len(lines), "first": lines[:1],
                          "no_failing_input": any(l.endswith("no-failing-input-found") for l in lines) and
                          all(l.endswith("no-failing-input-found") for l in lines)}
        finally:
            sh("git -C /repo checkout -- .")
        meta["detection"] = res
        json.dump(meta, open(os.path.join(d, "meta.json"), "w"), indent=1)
        print("%-12s %s" % (n, " ".join("%s:exit=%d,viol=%d%s" % (c, v["exit"], v["violations"],
                                                                  "(nfi)" if v["no_failing_input"] else "")
                                        for c, v in res.items())))


def detect_par_one(n):
    d = os.path.join(SEEDED, n)
    meta = json.load(open(os.path.join(d, "meta.json")))
    pid = meta["property"]
    w = os.path.join("/root/scratch/det", n)
    shutil.rmtree(w, ignore_errors=True)
    os.makedirs(os.path.join(w, "repo"))
    try:
        sh("git -C /repo archive HEAD | tar -x -C %s/repo" % w)
        r = sh("git apply --whitespace=nowarn %s" % os.path.join(d, "patch.diff"), cwd=os.path.join(w, "repo"))
        if r.returncode != 0:
            r = sh("patch -p1 < %s" % os.path.join(d, "patch.diff"), cwd=os.path.join(w, "repo"))
        if r.returncode != 0:
            return n, {"error": "patch does not apply"}
        sh("cp -r %s %s/verif" % (SNAP, w))
        res = {}
        for c in [pid] + [c for c in meta.get("also_check", []) if c != pid]:
            r = sh("./check %s --tier quick" % c, cwd=os.path.join(w, "verif"),
                   env=dict(ENV, VERIF_DEV_REPO=os.path.join(w, "repo")), timeout=3000)
            lines = [l for l in r.stdout.splitlines() if l.startswith("VIOLATION")]
            res[c] = {"exit": r.returncode, "violations": len(lines), "first": lines[:1],
                      "summary": [l for l in r.stdout.splitlines() if l.startswith(c + ":")][-1:],
                      "no_failing_input": bool(lines) and all(l.endswith("no-failing-input-found") for l in lines)}
        return n, res
    finally:
        shutil.rmtree(w, ignore_errors=True)


SNAP = "/root/scratch/det/_verif_snapshot"


def detect_par(names):
    """development aid: a frozen copy of /verif against patched scratch copies of the repository"""
    names = names or sorted(x for x in os.listdir(SEEDED) if os.path.isfile(os.path.join(SEEDED, x, "patch.diff")))
    shutil.rmtree("/root/scratch/det", ignore_errors=True)
    os.makedirs("/root/scratch/det")
    sh("cp -r %s %s && rm -rf %s/.git %s/replays/*" % (VERIF, SNAP, SNAP, SNAP))
    with ThreadPoolExecutor(max_workers=5) as ex:
        for n, res in ex.map(detect_par_one, names):
            print("%-12s %s" % (n, " ".join("%s:exit=%s,viol=%s%s" % (c, v.get("exit"), v.get("violations"),
                                                                    "(nfi)" if v.get("no_failing_input") else "")
                                            if isinstance(v, dict) else "%s:%s" % (c, v) for c, v in res.items())), flush=True)
            meta = json.load(open(os.path.join(SEEDED, n, "meta.json")))
            meta["detection_dev"] = res
            json.dump(meta, open(os.path.join(SEEDED, n, "meta.json"), "w"), indent=1)
    shutil.rmtree("/root/scratch/det", ignore_errors=True)


if __name__ == "__main__":
    if sys.argv[1] == "confirm":
        confirm(sys.argv[2:])
    elif sys.argv[1] == "detect-par":
        detect_par(sys.argv[2:])
    else:
        detect(sys.argv[2:])
