#!/usr/bin/env python3
"""development aid: replay a C03 program on the implementation and print both documents"""
import json, sys, os
sys.path.insert(0, "/verif")
os.environ.setdefault("PYTHONHASHSEED", "0")
from harness import hgm
d = json.load(open(sys.argv[1]))
m = hgm.FcnMachine()
print(json.dumps(d["ops"][0][1])[:700])
for o in d["ops"]:
    ob = m.step(o)
    if o[0] == "fillnp":
        print("fillnp rows=", [r[:4] for r in o[2]], "w=", o[3], o[4], "->", ob, m.exc[-1:] if ob == [1] else "")
    if o[0] == "snapp" and o[1] == 1:
        a, b = m.pool[0].toJson()["data"], m.pool[1].toJson()["data"]
        if a != b:
            from harness.props.c04 import docdiff
            for x in docdiff(a, b)[:6]:
                print("   ", x["path"], x["kind"], "numpy=", x.get("orig"), "rows=", x.get("reload"))
