(* C01 -- Merge is a commutative monoid homomorphism: partition-invariant aggregation.
   Statements only; every proof is "exact <lemma>".  Exact instance (Xq): rationals with the
   IEEE special values, no rounding.

   Vocabulary (Proofs/Algebra.v, Proofs/Stream.v):
     same a b     both are states of one specification (zero a = zero b): same primitives,
                  parameters, quantities, templates at every position
     wf a         reachable-state invariant (Average/Deviate empty <-> mean NaN, sparse keys
                  sorted, sparse children instances of the template, Bag keys sorted)
     okstream t s data admissible for the exact laws: weights finite-positive or gated
                  (0, negative, NaN); Average/Deviate leaves receive finite numbers;
                  Fraction/Select selections are not infinite
     okchunk t c  okstream, and filling c into a fresh empty copy of t raises nowhere
     rtree        a reduction schedule (parenthesisation); chunks_of its leaves in order *)
From Coq Require Import List Permutation.
From Hgm Require Import NumOps Xq Agg Ops Algebra Stream.
Import ListNotations.

(* zero() is a two-sided identity *)
Theorem C01_zero_right : forall a, wf a -> add_t a (zero a) = a.
Proof. exact add_zero_r. Qed.
Theorem C01_zero_left : forall a, wf a -> add_t (zero a) a = a.
Proof. exact add_zero_l. Qed.

(* + is commutative and associative on states of one specification *)
Theorem C01_add_comm : forall a b, same a b -> wf a -> wf b -> add_t a b = add_t b a.
Proof. exact add_comm. Qed.
Theorem C01_add_assoc : forall a b c,
  same a b -> same b c -> wf a -> wf b -> wf c -> add_t (add_t a b) c = add_t a (add_t b c).
Proof. exact add_assoc. Qed.

(* + stays inside the reachable states of the specification *)
Theorem C01_add_closed : forall a b, same a b -> wf a -> wf b -> wf (add_t a b) /\ same (add_t a b) a.
Proof. intros a b S Wa Wb. split; [apply wf_add; assumption | apply same_add_r; assumption]. Qed.

(* fill is a homomorphism: two chunks *)
Theorem C01_two_chunks : forall t s1 s2,
  okstream t s1 -> okstream t s2 -> fills_ok (zero t) s2 ->
  fills (zero t) (s1 ++ s2) = add_t (fills (zero t) s1) (fills (zero t) s2).
Proof. exact fills_chunks. Qed.

(* any number of chunks (empty ones included), any parenthesisation of + *)
Theorem C01_any_grouping : forall t r,
  Forall (okchunk t) (chunks_of r) -> reduce t r = fills (zero t) (List.concat (chunks_of r)).
Proof. exact reduce_tree. Qed.

(* ... and any order of the partial results *)
Theorem C01_any_order : forall t r1 r2,
  Permutation (chunks_of r1) (chunks_of r2) -> Forall (okchunk t) (chunks_of r1) ->
  reduce t r1 = reduce t r2.
Proof. exact reduce_any. Qed.

(* the property as stated: cs is the dataset split into chunks (in dataset order, empty chunks
   allowed); r is any schedule whose leaves are these chunks in any order *)
Theorem C01_partition_invariant : forall t r cs,
  Forall (okchunk t) (chunks_of r) -> Permutation (chunks_of r) cs ->
  reduce t r = fills (zero t) (List.concat cs).
Proof. exact partition_invariant. Qed.

Print Assumptions C01_zero_right.
Print Assumptions C01_zero_left.
Print Assumptions C01_add_comm.
Print Assumptions C01_add_assoc.
Print Assumptions C01_add_closed.
Print Assumptions C01_two_chunks.
Print Assumptions C01_any_grouping.
Print Assumptions C01_any_order.
Print Assumptions C01_partition_invariant.

(* ---- non-vacuity: a nested tree and chunks that satisfy every hypothesis above ---- *)
From Coq Require Import ZArith QArith Qcanon String.
From Hgm Require Import Expr Build.
Local Open Scope string_scope.

Definition exq : quantity Xq := mkq (Some "x") 1 (EField 0).
Definition ext : agg Xq :=
  mkSparse (ndy 1 (-1)) exq
    (mkBin 2 (ndy 0 0) (ndy 2 0) exq (mkLeaf LDeviate exq) (mkCount TId) (mkCount TId) (mkCount TId))
    (mkLeaf LAverage exq) (ndy 0 0).
Definition exd (m e : Z) : datum Xq := [VNum (ndy m e)].
Definition exc1 : list (datum Xq * T Xq) := [(exd 1 (-1), ndy 1 0); (exd 3 (-2), ndy 2 0)].
Definition exc2 : list (datum Xq * T Xq) := [(exd 5 (-2), ndy 1 (-1)); (exd 7 0, ndy 0 0); (exd 9 (-2), @nnan Xq); (exd (-3) 0, ndy (-1) 0)].

Ltac ok_weight :=
  first [ left; eexists; split; [vm_compute; reflexivity | vm_compute; reflexivity]
        | right; vm_compute; reflexivity ].

Ltac ok_stream :=
  unfold okstream; repeat (apply Forall_cons || apply Forall_nil); cbn [fst snd];
  (split; [vm_compute; tauto | ok_weight]).

Example C01_example_chunks : okchunk ext exc1 /\ okchunk ext exc2 /\ okchunk ext [].
Proof.
  repeat split; try ok_stream; try (vm_compute; tauto).
Qed.

Example C01_example_nontrivial :
  reduce ext (RNode (RLeaf exc2) (RNode (RLeaf []) (RLeaf exc1))) = fills (zero ext) (exc1 ++ exc2)%list
  /\ entries_of (fills (zero ext) (exc1 ++ exc2)%list) = ndy 7 (-1).
Proof.
  split.
  - change (exc1 ++ exc2)%list with (List.concat [exc1; []; (exc2 ++ [])%list]). rewrite app_nil_r.
    apply C01_partition_invariant.
    + destruct C01_example_chunks as (H1 & H2 & H3). cbn [chunks_of app].
      repeat (apply Forall_cons; [assumption|]). apply Forall_nil.
    + cbn [chunks_of app]. apply Permutation_sym.
      apply (perm_trans (l' := [exc2; exc1; []])).
      * apply (perm_trans (l' := [exc1; exc2; []])); [apply perm_skip; apply perm_swap | apply perm_swap].
      * apply perm_skip. apply perm_swap.
  - vm_compute. reflexivity.
Qed.
