(* C11 -- Pickling preserves content, equality and fillability.
   In the model a pickle clone is the same value installed as a new pool entry with fresh object
   identities (Run.OClone, RunId: push with fresh_like).  What pickle / marshal really do with
   the objects and code of user functions is not modelled: that the implementation's clone
   behaves like this one - immediately and under every continuation - is what the correspondence
   and the oracle decide on every run.  The theorems state what then follows. *)
From Coq Require Import List Bool.
From Hgm Require Import NumOps Xq Agg Ops Eq Np Run Forest RunId ForestFacts EqFacts.
Import ListNotations.

(* the clone is pushed, every existing entry of the pool (content and identities) stays what it
   was: pickling does not change the original *)
Theorem C11_original_unchanged : forall (N : num_ops) (w : @world N) (i j : nat),
  (j < List.length (pl w))%nat ->
  nth j (pl (fst (stepi w (IBase (OClone i))))) (Run.dummy, dummy_it) = nth j (pl w) (Run.dummy, dummy_it).
Proof. intros N w i j Hj. apply step_frame; [exact Hj | discriminate]. Qed.

(* the clone equals the original *)
Theorem C11_clone_equal : forall (p : list (agg Xq)) (i : nat),
  all_centers_ok (get p i) ->
  let p' := fst (step p (OClone i)) in
  eqb numeq (get p i) (nth (List.length p) p' dummy) = true.
Proof.
  intros p i H. cbn [step fst]. rewrite app_nth2, PeanoNat.Nat.sub_diag; [|apply le_n].
  cbn [nth]. apply eqb_refl. exact H.
Qed.

(* clone and original stay equal under every identical continuation of fills and batches *)
Theorem C11_same_continuation : forall (N : num_ops) (p : list (agg N)) (i : nat) (rows : list (datum N * T N)),
  let c := nth (List.length p) (fst (step p (OClone i))) dummy in
  fillnp c rows = fillnp (get p i) rows /\ fills c rows = fills (get p i) rows.
Proof.
  intros N p i rows. cbn [step fst]. rewrite app_nth2, PeanoNat.Nat.sub_diag; [|apply le_n].
  cbn [nth]. split; reflexivity.
Qed.

Print Assumptions C11_original_unchanged.
Print Assumptions C11_clone_equal.
Print Assumptions C11_same_continuation.
