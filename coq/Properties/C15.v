(* C15 -- Malformed or foreign JSON is rejected, never loaded as a corrupted aggregator.
   Statements about the reader model (Model/Json.v from_json / from_frag), for EVERY document and
   every arithmetic instance.  "Err" = an exception. *)
From Coq Require Import List String Bool.
From Hgm Require Import NumOps Agg Ops Build Json JsonFacts.
Import ListNotations.
Local Open Scope string_scope.

(* header: an object with exactly type, data, version; a version string this reader accepts;
   a registered primitive name *)
Theorem C15_header : forall (N : num_ops) fuel (o : list (string * json N)) a,
  from_json fuel (JObj o) = Ok a ->
  has_keys o ["type"; "data"; "version"] [] = true /\
  (exists v, jget "version" o = Some (JStr v) /\ version_ok v = Some true) /\
  (exists t, jget "type" o = Some (JStr t) /\ registered t = true).
Proof. intros N. apply rejects_bad_header. Qed.

Theorem C15_not_an_object : forall (N : num_ops) fuel (j : json N), is_obj j = false -> from_json fuel j = Err.
Proof. intros N. apply rejects_non_document. Qed.

(* an unknown primitive name anywhere (top level or a ...:type field) *)
Theorem C15_unknown_type : forall (N : num_ops) fuel ty (j : json N) p,
  registered ty = false -> from_frag fuel ty j p = Err.
Proof. intros N. apply rejects_unknown_type. Qed.

(* a missing required key or an extra key in the fragment of any primitive *)
Theorem C15_wrong_keys : forall (N : num_ops) fuel ty (o : list (string * json N)) p a,
  String.eqb ty "Count" = false ->
  from_frag fuel ty (JObj o) p = Ok a -> has_keys o (req_keys ty) (opt_keys ty) = true.
Proof. intros N. apply rejects_wrong_keys. Qed.

(* a fragment of the wrong JSON type *)
Theorem C15_fragment_not_object : forall (N : num_ops) fuel ty (j : json N) p,
  String.eqb ty "Count" = false -> is_obj j = false -> from_frag fuel ty j p = Err.
Proof. intros N. apply rejects_non_object. Qed.

Theorem C15_versions :
  version_ok "1.1" = Some true /\ version_ok "1.0" = Some true /\ version_ok "0.9" = Some true /\
  version_ok "1.2" = Some false /\ version_ok "2.0" = Some false /\ version_ok "3.0.1" = Some false /\
  version_ok "abc" = None /\ version_ok "1" = None.
Proof. exact version_examples. Qed.

Print Assumptions C15_header.
Print Assumptions C15_not_an_object.
Print Assumptions C15_unknown_type.
Print Assumptions C15_wrong_keys.
Print Assumptions C15_fragment_not_object.
Print Assumptions C15_versions.
