(* C15 -- Malformed or foreign JSON is rejected, never loaded as a corrupted aggregator.
   Statements about the reader model (Model/Json.v from_json / from_frag), for EVERY document and
   every arithmetic instance.  "Err" = an exception. *)
From Coq Require Import List String Bool.
From Hgm Require Import NumOps Xq Agg Ops Build Json JsonFacts JsonNeg JsonRT.
Import ListNotations.
Local Open Scope string_scope.

(* header: an object with exactly type, data, version; a version string this reader accepts;
   a registered primitive name *)
Theorem C15_header : forall (N : num_ops) fuel (o : list (string * json N)) a,
  from_json fuel (JObj o) = Ok a ->
  has_keys o ["type"; "data"; "version"] [] = true /\
  (exists v, jget "version" o = Some (JStr v) /\ version_ok v = Some true) /\
  (exists t, jget "type" o = Some (JStr t) /\ registered t = true).
Proof. intros N. apply rejects_bad_header. Qed.

Theorem C15_not_an_object : forall (N : num_ops) fuel (j : json N), is_obj j = false -> from_json fuel j = Err.
Proof. intros N. apply rejects_non_document. Qed.

(* an unknown primitive name anywhere (top level or a ...:type field) *)
Theorem C15_unknown_type : forall (N : num_ops) fuel ty (j : json N) p,
  registered ty = false -> from_frag fuel ty j p = Err.
Proof. intros N. apply rejects_unknown_type. Qed.

(* a missing required key or an extra key in the fragment of any primitive *)
Theorem C15_wrong_keys : forall (N : num_ops) fuel ty (o : list (string * json N)) p a,
  String.eqb ty "Count" = false ->
  from_frag fuel ty (JObj o) p = Ok a -> has_keys o (req_keys ty) (opt_keys ty) = true.
Proof. intros N. apply rejects_wrong_keys. Qed.

(* a fragment of the wrong JSON type *)
Theorem C15_fragment_not_object : forall (N : num_ops) fuel ty (j : json N) p,
  String.eqb ty "Count" = false -> is_obj j = false -> from_frag fuel ty j p = Err.
Proof. intros N. apply rejects_non_object. Qed.

Theorem C15_versions :
  version_ok "1.1" = Some true /\ version_ok "1.0" = Some true /\ version_ok "0.9" = Some true /\
  version_ok "1.2" = Some false /\ version_ok "2.0" = Some false /\ version_ok "3.0.1" = Some false /\
  version_ok "abc" = None /\ version_ok "1" = None.
Proof. exact version_examples. Qed.

(* a negative "entries" in the fragment of any primitive, at any depth *)
Theorem C15_negative_entries : forall (N : num_ops) fuel ty (o : list (string * json N)) p je e,
  String.eqb ty "Count" = false ->
  jget "entries" o = Some je -> jnum je = Some e -> entries_ok e = false ->
  from_frag fuel ty (JObj o) p = Err.
Proof. intros N. apply rejects_negative_entries. Qed.

Theorem C15_negative_count : forall (N : num_ops) fuel (j : json N) p e,
  jnum j = Some e -> entries_ok e = false -> from_frag fuel "Count" j p = Err.
Proof. intros N. apply rejects_negative_count. Qed.

(* "entries" of the wrong JSON type (a string other than nan/inf/-inf, null, a list, an object) *)
Theorem C15_entries_not_a_number : forall (N : num_ops) fuel ty (o : list (string * json N)) p je,
  String.eqb ty "Count" = false ->
  jget "entries" o = Some je -> jnum je = None -> from_frag fuel ty (JObj o) p = Err.
Proof. intros N. apply rejects_bad_entries_type. Qed.

(* nothing silently dropped or duplicated: a container that loads has exactly one child per element
   of its values / bins / data field (Bin, CentrallyBin, IrregularlyBin, Stack, SparselyBin, Label,
   UntypedLabel, Index, Branch); so a malformed element cannot be skipped, and two SparselyBin keys
   denoting the same index cannot be merged *)
Theorem C15_no_element_dropped : forall (N : num_ops) fuel ty (o : list (string * json N)) p a xs,
  from_frag fuel ty (JObj o) p = Ok a -> elements ty o = Some xs -> n_children a = List.length xs.
Proof. intros N. apply keeps_every_element. Qed.

(* ... and a Categorize has exactly one bin per key of its "bins" object (the keys of a parsed JSON
   object - a Python dict - are distinct) *)
Theorem C15_categorize_no_bin_dropped : forall (N : num_ops) fuel (o : list (string * json N)) p a kvs,
  from_frag fuel "Categorize" (JObj o) p = Ok a -> jget "bins" o = Some (JObj kvs) ->
  NoDup (map fst kvs) -> n_children a = List.length kvs.
Proof. intros N. apply categorize_keeps_every_bin. Qed.

(* every document produced by toJson is accepted (exact instance, every tree satisfying jwf, see
   C04_round_trip) *)
Theorem C15_accepts_own_documents : forall (a : agg Xq) fuel, jwf a -> (height a <= fuel)%nat ->
  exists b, from_json fuel (to_json a) = Ok b.
Proof. intros a fuel W H. eexists. apply (json_round_trip a fuel W H). Qed.

Print Assumptions C15_header.
Print Assumptions C15_negative_entries.
Print Assumptions C15_negative_count.
Print Assumptions C15_entries_not_a_number.
Print Assumptions C15_no_element_dropped.
Print Assumptions C15_accepts_own_documents.
Print Assumptions C15_categorize_no_bin_dropped.
Print Assumptions C15_not_an_object.
Print Assumptions C15_unknown_type.
Print Assumptions C15_wrong_keys.
Print Assumptions C15_fragment_not_object.
Print Assumptions C15_versions.
