(* C03 -- Vectorised (numpy) fill is observationally equal to per-row fill.
   The model of h.fill.numpy(columns, weights) IS the property's right-hand side: the rows of the
   batch filled one by one, each with its weight (Model/Np.v).  That the numpy kernels of the
   implementation (masks, bincount, np.unique, batch formulas for mean and variance) compute this
   is decided on every run by the correspondence and by the oracle on the implementation itself.
   Proved: the algebra of batches the property quantifies over; that the aggregate of a batch is,
   child by child and key by key, the aggregate of the sub-column the node hands down (what the
   masks of the vectorised code implement); and that the batch formulas of the Average / Deviate
   kernels equal the row recurrences in exact arithmetic.  Not modelled: the masks themselves
   (bincount, np.unique, comparisons on float arrays) and binary64 summation order. *)
From Coq Require Import List Bool QArith Qcanon.
From Hgm Require Import NumOps Xq Agg Ops Np SL Algebra Stream NpFacts Denote LeafDenote.
Import ListNotations.

Theorem C03_content : forall (N : num_ops) (a : agg N) (rs : list (datum N * T N)),
  fst (fillnp a rs) = fills a rs.
Proof. intros N. apply fillnp_content. Qed.

(* all splits of a batch into successive fill.numpy calls *)
Theorem C03_split : forall (N : num_ops) (a : agg N) (r1 r2 : list (datum N * T N)),
  fillnp a (r1 ++ r2) =
  (fst (fillnp (fst (fillnp a r1)) r2), worse (snd (fillnp a r1)) (snd (fillnp (fst (fillnp a r1)) r2))).
Proof. intros N. apply fillnp_split. Qed.

(* zero weights in a weight array: those rows do not count *)
Theorem C03_zero_weights : forall (N : num_ops) (rs : list (datum N * T N)) (a : agg N),
  fillnp a rs = fillnp a (filter (fun dw => pos (snd dw)) rs).
Proof. intros N. apply fillnp_zero_weight_rows. Qed.

(* the batch aggregated on its own and merged into the accumulator (how the kernels work) *)
Theorem C03_merge : forall (t a : agg Xq) (rs : list (datum Xq * xq)),
  same a t -> wf a -> okstream t rs -> fills_ok (zero t) rs ->
  fst (fillnp a rs) = add_t a (fst (fillnp (zero t) rs)).
Proof. exact fillnp_merge. Qed.

(* column-wise: the aggregate of a batch is, child by child, the aggregate of the sub-column the node
   hands to that child (the masks of the vectorised code), recursively down to the leaves *)
Theorem C03_columns_fixed : forall (N : num_ops) k q (rows : list (datum N * T N)) e fx sp tm ct,
  all_done (Node k q e fx sp tm ct) rows ->
  exists e' fx' sp',
    fst (fillnp (Node k q e fx sp tm ct) rows) = Node k q e' fx' sp' tm ct /\
    e' = fold_left (fun acc w => nadd acc w) (counted rows) e /\
    forall i c, nth_error fx i = Some c ->
      nth_error fx' i = Some (fst (fillnp c (sub_stream k q (List.length fx) i rows))).
Proof.
  intros N k q rows e fx sp tm ct H. rewrite fillnp_content.
  destruct (fills_children k q rows e fx sp tm ct H) as (e' & fx' & sp' & E & _ & He & C).
  exists e', fx', sp'. repeat split; auto. intros i c Hc. rewrite fillnp_content. apply C. exact Hc.
Qed.

Theorem C03_columns_sparse : forall (N : num_ops) k q (rows : list (datum N * T N)) e fx sp tm ct,
  SL.sorted key_cmp sp -> all_done (Node k q e fx sp tm ct) rows ->
  exists e' fx' sp',
    fst (fillnp (Node k q e fx sp tm ct) rows) = Node k q e' fx' sp' tm ct /\
    forall kk, sl_lookup key_cmp kk sp' =
               grown tm (sl_lookup key_cmp kk sp) (sub_key k q (List.length fx) kk rows).
Proof.
  intros N k q rows e fx sp tm ct S H. rewrite fillnp_content.
  destruct (fills_sparse k q rows e fx sp tm ct S H) as (e' & fx' & sp' & E & _ & _ & C).
  exists e', fx', sp'. split; assumption.
Qed.

(* the batch formulas of the leaf kernels (average.py / deviate.py _numpy: numpy.average of the
   batch, merged into the accumulator) give what the row-by-row recurrences give (exact instance,
   finite data, positive weights) *)
Theorem C03_average_kernel : forall (rs : rows) e m,
  (0 < e)%Qc -> pos_rows rs -> rs <> [] ->
  lfills LAverage (mkst (XF e) (XF m) (XF 0)) rs =
  mkst (XF (e + sw rs)%Qc) (XF (np_merge_mean e m rs)) (XF 0).
Proof. exact np_average_kernel. Qed.

Theorem C03_average_kernel_empty : forall rs : rows, pos_rows rs -> rs <> [] ->
  lfills LAverage (leaf_zero LAverage) rs = mkst (XF (sw rs)) (XF (np_mean rs)) (XF 0).
Proof. exact np_average_kernel_empty. Qed.

Theorem C03_deviate_kernel : forall (rs : rows) e m v,
  (0 < e)%Qc -> pos_rows rs -> rs <> [] ->
  lfills LDeviate (mkst3 (XF e) (XF m) (XF v)) rs =
  mkst3 (XF (e + sw rs)%Qc) (XF (np_merge_mean e m rs)) (XF (np_merge_vte e m v rs)).
Proof. exact np_deviate_kernel. Qed.

(* the counting kernels (np.histogram / np.bincount / np.unique(return_counts) fast paths of the
   Count-valued binnings): a Count that receives a sub-column holds its initial entries plus the sum
   of the weights > 0 of that sub-column - with unit weights, the number of its rows.  Together with
   C03_columns_fixed / C03_columns_sparse: bin i (key k) of a Count-valued Bin, CentrallyBin,
   SparselyBin or Categorize counts exactly the rows routed to it *)
Theorem C03_count_kernel : forall (N : num_ops) tr q (st : leafstate N) (rows : list (datum N * T N)),
  fst (fillnp (Leaf (LCount tr) q st) rows) =
  Leaf (LCount tr) q {| le := fold_left (fun acc w => nadd acc (apply_trans tr w)) (counted rows) (le st);
                        l1 := l1 st; l2 := l2 st; lv := lv st |}.
Proof.
  intros N tr q st rows. rewrite fillnp_content. unfold fills, counted. revert st.
  induction rows as [|[d w] rows IH]; intro st; cbn [fold_left filter map snd fst].
  - destruct st; reflexivity.
  - unfold fill at 2. cbn [fillz]. destruct (pos w) eqn:P; cbn [negb fst snd filter map fold_left leaf_fill].
    + rewrite IH. cbn [le l1 l2 lv]. reflexivity.
    + rewrite IH. reflexivity.
Qed.

Print Assumptions C03_content.
Print Assumptions C03_columns_fixed.
Print Assumptions C03_columns_sparse.
Print Assumptions C03_average_kernel.
Print Assumptions C03_average_kernel_empty.
Print Assumptions C03_deviate_kernel.
Print Assumptions C03_split.
Print Assumptions C03_zero_weights.
Print Assumptions C03_merge.
Print Assumptions C03_count_kernel.
