(* C03 -- Vectorised (numpy) fill is observationally equal to per-row fill.
   The model of h.fill.numpy(columns, weights) IS the property's right-hand side: the rows of the
   batch filled one by one, each with its weight (Model/Np.v).  That the numpy kernels of the
   implementation (masks, bincount, np.unique, batch formulas for mean and variance) compute this
   is decided on every run by the correspondence and by the oracle on the implementation itself;
   it is not a theorem - the kernels are not modelled.  What is proved is the algebra of batches
   the property quantifies over. *)
From Coq Require Import List Bool.
From Hgm Require Import NumOps Xq Agg Ops Np Algebra Stream NpFacts.
Import ListNotations.

Theorem C03_content : forall (N : num_ops) (a : agg N) (rs : list (datum N * T N)),
  fst (fillnp a rs) = fills a rs.
Proof. intros N. apply fillnp_content. Qed.

(* all splits of a batch into successive fill.numpy calls *)
Theorem C03_split : forall (N : num_ops) (a : agg N) (r1 r2 : list (datum N * T N)),
  fillnp a (r1 ++ r2) =
  (fst (fillnp (fst (fillnp a r1)) r2), worse (snd (fillnp a r1)) (snd (fillnp (fst (fillnp a r1)) r2))).
Proof. intros N. apply fillnp_split. Qed.

(* zero weights in a weight array: those rows do not count *)
Theorem C03_zero_weights : forall (N : num_ops) (rs : list (datum N * T N)) (a : agg N),
  fillnp a rs = fillnp a (filter (fun dw => pos (snd dw)) rs).
Proof. intros N. apply fillnp_zero_weight_rows. Qed.

(* the batch aggregated on its own and merged into the accumulator (how the kernels work) *)
Theorem C03_merge : forall (t a : agg Xq) (rs : list (datum Xq * xq)),
  same a t -> wf a -> okstream t rs -> fills_ok (zero t) rs ->
  fst (fillnp a rs) = add_t a (fst (fillnp (zero t) rs)).
Proof. exact fillnp_merge. Qed.

Print Assumptions C03_content.
Print Assumptions C03_split.
Print Assumptions C03_zero_weights.
Print Assumptions C03_merge.
