(* C09 -- Equality is exactly equality of aggregated content.
   Model: Model/Eq.v (util.numeq and every primitive's __eq__, field by field).
   [content] (Proofs/EqFacts.v) keeps of an aggregator everything == is meant to see: the
   primitive and its structural parameters, quantity names and code, every number of every node
   (Deviate through its variance), the children in order, the bin keys with their contents, and
   for sparse containers the declared bin type and template. *)
From Coq Require Import List String Bool QArith Qcanon.
From Hgm Require Import NumOps Xq Agg Ops Expr Build Eq Algebra EqFacts EqCopy.
Import ListNotations.

(* a == b implies the same type, parameters and content at every node, NaN equal to NaN *)
Theorem C09_sound : forall a b : agg Xq, eqb numeq a b = true -> content a = content b.
Proof. exact eqb_sound. Qed.

(* ... so any difference in any bin, at any depth, or in the number of bins or thresholds makes
   the two unequal *)
Theorem C09_detects : forall a b : agg Xq, content a <> content b -> eqb numeq a b = false.
Proof. exact eqb_detects. Qed.

(* and conversely (CentrallyBin compares centers with the plain ==, so NaN centers are excluded) *)
Theorem C09_exact : forall a b : agg Xq, all_centers_ok a ->
  (eqb numeq a b = true <-> content a = content b).
Proof. exact eqb_iff. Qed.

Theorem C09_refl : forall a : agg Xq, all_centers_ok a -> eqb numeq a a = true.
Proof. exact eqb_refl. Qed.

Theorem C09_sym : forall a b : agg Xq, all_centers_ok a -> all_centers_ok b ->
  eqb numeq a b = eqb numeq b a.
Proof. exact eqb_sym. Qed.

Theorem C09_copy : forall a : agg Xq, wf a -> all_centers_ok a -> eqb numeq a (copy a) = true.
Proof. exact eqb_copy. Qed.

(* positive (finite) tolerances only widen the comparison *)
Theorem C09_tolerance_widens : forall (r t : Qc) (a b : agg Xq),
  eqb numeq a b = true -> eqb (@numeq_t Xq (XF r) (XF t)) a b = true.
Proof. exact eqb_tolerance_widens. Qed.

(* for every arithmetic instance: a wider numeric comparison never turns equal into unequal *)
Theorem C09_monotone : forall (N : num_ops) (ne ne' : T N -> T N -> bool),
  (forall x y, ne x y = true -> ne' x y = true) ->
  forall a b : agg N, eqb ne a b = true -> eqb ne' a b = true.
Proof. intros N ne ne' H a. apply eqb_mono. exact H. Qed.

Print Assumptions C09_sound.
Print Assumptions C09_detects.
Print Assumptions C09_exact.
Print Assumptions C09_refl.
Print Assumptions C09_sym.
Print Assumptions C09_copy.
Print Assumptions C09_tolerance_widens.
Print Assumptions C09_monotone.

(* ---- non-vacuity: concrete pairs that differ in exactly one place ---- *)
Local Open Scope string_scope.
Definition q0 : quantity Xq := @mkq Xq (Some "x") 1 (EField 0).
Definition irr (ths : list xq) : agg Xq := @mkIrr Xq ths q0 (mkCount TId) (mkCount TId).
Definition filled (a : agg Xq) (x : xq) : agg Xq := fst (@fill Xq a [@VNum Xq x] (xdy 1 0)).

(* one extra trailing threshold (the zip-truncation defect of IrregularlyBin/Stack.__eq__) *)
Example extra_threshold_unequal :
  eqb numeq (irr [xdy 1 0]) (irr [xdy 1 0; xdy 2 0]) = false /\ eqb numeq (irr [xdy 1 0; xdy 2 0]) (irr [xdy 1 0]) = false.
Proof. split; vm_compute; reflexivity. Qed.

(* same sparse bin keys, different content in a bin (the keys-only defect of SparselyBin.__eq__) *)
Definition sparse2 : agg Xq := @mkSparse Xq (xdy 1 0) q0 (mkLeaf LSum q0) (mkCount TId) (xdy 0 0).
Example same_keys_different_bins :
  eqb numeq (filled (filled sparse2 (xdy 1 0)) (xdy 1 0)) (filled sparse2 (xdy 1 0)) = false
  /\ eqb numeq (filled sparse2 (xdy 1 0)) (filled sparse2 (xdy 1 0)) = true.
Proof. split; vm_compute; reflexivity. Qed.

Example centers_ok_holds : all_centers_ok (filled sparse2 (xdy 1 0)) /\ all_centers_ok (irr [xdy 1 0; xdy 2 0]).
Proof. split; vm_compute; tauto. Qed.
