(* C06 -- Non-interference: operations never mutate operands or share mutable state.
   Every arithmetic instance.  Identity layer (Model/Forest.v, Model/RunId.v): every aggregator
   object and every dict/list it owns has an identity; a pool entry is (content, identities).
     stepi w o      one operation of the history machine on the world w
     target o       the pool entry the operation may change (fill, +=); None for + * zero copy
                    hash and constructors
     fresh_like     how the result of a constructor, +, *, zero, copy gets its identities *)
From Coq Require Import List PArith.
From Hgm Require Import NumOps Xq Agg Ops Forest Run RunId Algebra ForestFacts ForestSep SepWf.
Import ListNotations.

(* every other aggregator of the pool -- content and identities -- is exactly what it was; a pure
   operation only appends its result *)
Theorem C06_frame : forall (N : num_ops) (w : @world N) (o : @iop N) j,
  (j < List.length (pl w))%nat -> target o <> Some j ->
  nth j (pl (fst (stepi w o))) (Run.dummy, dummy_it) = nth j (pl w) (Run.dummy, dummy_it).
Proof. intros N w o j. apply step_frame. Qed.

(* the objects of a result are new: pairwise distinct, and different from every identity handed
   out before (all of which are below the allocation pointer) *)
Theorem C06_fresh_result : forall (N : num_ops) (a : agg N) nx t nx',
  fresh_like a nx = (t, nx') ->
  (nx < nx')%positive /\ within nx nx' (ids t) /\ NoDup (ids t).
Proof. intros N a nx t nx'. apply fresh_like_spec. Qed.

(* [sep w]: every identity in use is below the allocation counter and no identity occurs twice
   anywhere in the pool - no object and no dict/list is reachable from two positions of any one or
   any two aggregators *)

(* a result (constructor, +, *, zero, copy, pickle clone) joins the pool without sharing anything *)
Theorem C06_result_shares_nothing : forall (N : num_ops) (w : @world N) (a : agg N),
  sep w -> sep (fst (push w a)).
Proof. intros N. apply push_sep. Qed.

(* an in-place operation (fill, fill.numpy, +=) keeps the objects of its target and allocates the
   sparse children it creates: still no sharing anywhere in the pool.  a' is the new content of
   entry i; its sparse keys are pairwise distinct (true of every well-formed state: C06_wf_keys) *)
Theorem C06_inplace_shares_nothing : forall (N : num_ops) (w : @world N) (i : nat) (a' : agg N),
  sep w -> (i < List.length (pl w))%nat -> keys_distinct a' ->
  let '(t', n') := extend (snd (geti w i)) a' (nxt w) in
  sep {| nxt := n'; pl := seti (pl w) i (a', t') |}.
Proof. intros N. apply replace_sep. Qed.

Theorem C06_wf_keys : forall a : agg Xq, wf a -> keys_distinct a.
Proof. exact wf_keys_distinct. Qed.

Print Assumptions C06_frame.
Print Assumptions C06_fresh_result.
Print Assumptions C06_result_shares_nothing.
Print Assumptions C06_inplace_shares_nothing.
Print Assumptions C06_wf_keys.
(* Stated, not proved: that Python's heap semantics coincides with this labelled-forest semantics
   while [sep] holds - see DESIGN.md section 3.4; the identity correspondence compares id() of every
   object and container of the whole pool with the model after every operation. *)
