(* C06 -- Non-interference: operations never mutate operands or share mutable state.
   Every arithmetic instance.  Identity layer (Model/Forest.v, Model/RunId.v): every aggregator
   object and every dict/list it owns has an identity; a pool entry is (content, identities).
     stepi w o      one operation of the history machine on the world w
     target o       the pool entry the operation may change (fill, +=); None for + * zero copy
                    hash and constructors
     fresh_like     how the result of a constructor, +, *, zero, copy gets its identities *)
From Coq Require Import List PArith.
From Hgm Require Import NumOps Agg Ops Forest Run RunId ForestFacts.
Import ListNotations.

(* every other aggregator of the pool -- content and identities -- is exactly what it was; a pure
   operation only appends its result *)
Theorem C06_frame : forall (N : num_ops) (w : @world N) (o : @iop N) j,
  (j < List.length (pl w))%nat -> target o <> Some j ->
  nth j (pl (fst (stepi w o))) (Run.dummy, dummy_it) = nth j (pl w) (Run.dummy, dummy_it).
Proof. intros N w o j. apply step_frame. Qed.

(* the objects of a result are new: pairwise distinct, and different from every identity handed
   out before (all of which are below the allocation pointer) *)
Theorem C06_fresh_result : forall (N : num_ops) (a : agg N) nx t nx',
  fresh_like a nx = (t, nx') ->
  (nx < nx')%positive /\ within nx nx' (ids t) /\ NoDup (ids t).
Proof. intros N a nx t nx'. apply fresh_like_spec. Qed.

Print Assumptions C06_frame.
Print Assumptions C06_fresh_result.
(* Not proved (observed by the identity correspondence on every run): that the identities kept by
   fill / += (Forest.extend) stay pairwise distinct -- see DESIGN.md section 6 C06. *)
