(* C14 -- DataFrame filling is a homomorphism and agrees with direct filling.
   make_histograms(df, feature, bin_specs) is modelled as: build the primitive tree of the feature
   (harness/dfspec.py transcribes construct_empty_hist / get_hist_bin) and fill it with the rows of
   the frame (Run.ODf = Np.fillnp from the zero of that tree).  pandas itself, the automatic choice
   of bin specifications (quantiles, integer ranges), timestamp conversion and the dtype guards are
   not modelled: the check takes the specifications make_histograms returns and compares, on every
   run, what it built and filled with this model and with a direct fill of the same tree.  The
   theorems give the homomorphism over chunks of rows. *)
From Coq Require Import List Bool Permutation.
From Coq Require Import QArith Qcanon.
From Coq Require Import ZArith.
From Hgm Require Import NumOps Xq Agg Ops Np Algebra Stream NpFacts Denote XqFacts ViewPartition.
Import ListNotations.

(* the histogram of a frame is the row-by-row aggregate of its rows *)
Theorem C14_direct : forall (N : num_ops) (t : agg N) (rows : list (datum N * T N)),
  fst (fillnp (zero t) rows) = fills (zero t) rows.
Proof. intros N t rows. apply fillnp_content. Qed.

(* two chunks add up to the whole *)
Theorem C14_chunks2 : forall (t : agg Xq) (r1 r2 : list (datum Xq * xq)),
  okstream t r1 -> okstream t r2 -> fills_ok (zero t) r2 ->
  fst (fillnp (zero t) (r1 ++ r2)) = add_t (fst (fillnp (zero t) r1)) (fst (fillnp (zero t) r2)).
Proof. intros t r1 r2 O1 O2 F. rewrite !fillnp_content. apply fills_chunks; assumption. Qed.

(* any partition of the rows into chunks, summed in any order and parenthesisation, gives the
   histogram of the whole frame *)
Theorem C14_partition : forall (t : agg Xq) (r : rtree),
  Forall (okchunk t) (chunks_of r) ->
  reduce t r = fst (fillnp (zero t) (List.concat (chunks_of r))).
Proof. intros t r F. rewrite fillnp_content. apply reduce_tree. exact F. Qed.

Theorem C14_any_order : forall (t : agg Xq) (r1 r2 : rtree),
  Permutation (chunks_of r1) (chunks_of r2) -> Forall (okchunk t) (chunks_of r1) ->
  reduce t r1 = reduce t r2.
Proof. exact reduce_any. Qed.

(* entries equals the number of rows: a frame fills every row with weight 1 *)
Definition unit_rows (ds : list (datum Xq)) : list (datum Xq * xq) := map (fun d => (d, XF (Q2Qc 1))) ds.

Lemma counted_unit (ds : list (datum Xq)) : counted (unit_rows ds) = map (fun _ => XF (Q2Qc 1)) ds.
Proof.
  unfold counted, unit_rows. induction ds as [|d ds IH]; [reflexivity|]. cbn [map filter snd].
  change (@pos Xq (XF (Q2Qc 1))) with true. cbn [map snd]. f_equal. exact IH.
Qed.

Lemma zq_succ z : zq (Z.succ z) = (zq z + 1)%Qc.
Proof.
  apply Qc_is_canon. unfold Qcplus. cbn [this Q2Qc]. rewrite Qred_correct, !this_zq.
  unfold Z.succ. rewrite inject_Z_plus. reflexivity.
Qed.

Lemma fold_units (ds : list (datum Xq)) : forall a : Qc,
  fold_left (fun acc w => @nadd Xq acc w) (map (fun _ => XF (Q2Qc 1)) ds) (XF a) =
  XF (a + zq (Z.of_nat (List.length ds)))%Qc.
Proof.
  induction ds as [|d ds IH]; intro a; cbn [map fold_left List.length].
  - f_equal. change (zq (Z.of_nat 0)) with 0%Qc. ring.
  - change (@nadd Xq (XF a) (XF (Q2Qc 1))) with (XF (a + 1)%Qc). rewrite IH. f_equal.
    rewrite Nat2Z.inj_succ, zq_succ. ring.
Qed.

Theorem C14_entries_is_row_count : forall (k : nodekind Xq) q fx sp tm ct (ds : list (datum Xq)),
  all_done (Node k q (@nzero Xq) fx sp tm ct) (unit_rows ds) ->
  entries_of (fst (fillnp (Node k q (@nzero Xq) fx sp tm ct) (unit_rows ds))) =
  XF (zq (Z.of_nat (List.length ds))).
Proof.
  intros k q fx sp tm ct ds H. rewrite fillnp_content.
  destruct (fills_children k q (unit_rows ds) _ fx sp tm ct H) as (e' & fx' & sp' & E & _ & He & _).
  rewrite E. cbn [entries_of]. rewrite He, counted_unit. change (@nzero Xq) with (XF 0%Qc).
  rewrite fold_units. f_equal. ring.
Qed.

Print Assumptions C14_direct.
Print Assumptions C14_entries_is_row_count.
Print Assumptions C14_chunks2.
Print Assumptions C14_partition.
Print Assumptions C14_any_order.
