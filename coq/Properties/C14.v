(* C14 -- DataFrame filling is a homomorphism and agrees with direct filling.
   make_histograms(df, feature, bin_specs) is modelled as: build the primitive tree of the feature
   (harness/dfspec.py transcribes construct_empty_hist / get_hist_bin) and fill it with the rows of
   the frame (Run.ODf = Np.fillnp from the zero of that tree).  pandas itself, the automatic choice
   of bin specifications (quantiles, integer ranges), timestamp conversion and the dtype guards are
   not modelled: the check takes the specifications make_histograms returns and compares, on every
   run, what it built and filled with this model and with a direct fill of the same tree.  The
   theorems give the homomorphism over chunks of rows. *)
From Coq Require Import List Bool Permutation.
From Hgm Require Import NumOps Xq Agg Ops Np Algebra Stream NpFacts.
Import ListNotations.

(* the histogram of a frame is the row-by-row aggregate of its rows *)
Theorem C14_direct : forall (N : num_ops) (t : agg N) (rows : list (datum N * T N)),
  fst (fillnp (zero t) rows) = fills (zero t) rows.
Proof. intros N t rows. apply fillnp_content. Qed.

(* two chunks add up to the whole *)
Theorem C14_chunks2 : forall (t : agg Xq) (r1 r2 : list (datum Xq * xq)),
  okstream t r1 -> okstream t r2 -> fills_ok (zero t) r2 ->
  fst (fillnp (zero t) (r1 ++ r2)) = add_t (fst (fillnp (zero t) r1)) (fst (fillnp (zero t) r2)).
Proof. intros t r1 r2 O1 O2 F. rewrite !fillnp_content. apply fills_chunks; assumption. Qed.

(* any partition of the rows into chunks, summed in any order and parenthesisation, gives the
   histogram of the whole frame *)
Theorem C14_partition : forall (t : agg Xq) (r : rtree),
  Forall (okchunk t) (chunks_of r) ->
  reduce t r = fst (fillnp (zero t) (List.concat (chunks_of r))).
Proof. intros t r F. rewrite fillnp_content. apply reduce_tree. exact F. Qed.

Theorem C14_any_order : forall (t : agg Xq) (r1 r2 : rtree),
  Permutation (chunks_of r1) (chunks_of r2) -> Forall (okchunk t) (chunks_of r1) ->
  reduce t r1 = reduce t r2.
Proof. exact reduce_any. Qed.

Print Assumptions C14_direct.
Print Assumptions C14_chunks2.
Print Assumptions C14_partition.
Print Assumptions C14_any_order.
