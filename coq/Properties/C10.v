(* C10 -- Incompatible aggregators are never merged silently.
   Proved for every arithmetic instance (no arithmetic is involved).
     compatible a b   the property's notion: same primitive, equal structural parameters (bin range,
                      width, origin, centres, thresholds, Bag range, label sets, collection sizes),
                      equal declared bin type of sparse containers, and compatible children at
                      every position both operands have
     add / iadd       the model of + / += ; Err / Raise = an exception *)
From Coq Require Import List Bool.
From Hgm Require Import NumOps Agg Ops Merge.
Import ListNotations.

(* + never returns a result on incompatible operands: it raises on them *)
Theorem C10_no_silent_merge : forall (N : num_ops) (a b c : agg N), add a b = Ok c -> compatible a b = true.
Proof. intros N a b c. apply add_only_compatible. Qed.
Theorem C10_add_rejects : forall (N : num_ops) (a b : agg N), compatible a b = false -> add a b = Err.
Proof. intros N a b. apply add_rejects. Qed.
(* (+ is a function of values: a rejected + cannot have changed its operands) *)

(* += raises on every pair that is not compatible ... *)
Theorem C10_iadd_rejects : forall (N : num_ops) (a b : agg N), compatible a b = false -> snd (iadd a b) = Raise.
Proof.
  intros N a b H. apply iadd_raises. destruct (addable a b) eqn:E; [|reflexivity].
  apply addable_compatible in E. congruence.
Qed.

(* ... and leaves the left operand exactly as it was when the mismatch is visible at the top of
   the two operands (primitive type, parameters, declared bin type, number of children) *)
Theorem C10_iadd_unchanged_partial : forall (N : num_ops) (a b : agg N),
  top_compatible a b = false -> iadd a b = (a, Raise).
Proof. intros N a b. apply iadd_rejects_top. Qed.

Print Assumptions C10_no_silent_merge.
Print Assumptions C10_add_rejects.
Print Assumptions C10_iadd_rejects.
Print Assumptions C10_iadd_unchanged_partial.

(* The full statement "a rejected += leaves the left operand exactly as it was" is FALSE of the
   code (known finding C10-iadd-partial): every container __iadd__ adds the entries and merges the
   earlier children in place before a nested mismatch raises.  Witness (replayed against the
   implementation by the check): Branch(Sum, Bin(2,...)) += Branch(Sum, Bin(3,...)). *)
From Coq Require Import ZArith String.
From Hgm Require Import Xq Expr Build.
Local Open Scope string_scope.

Definition q10 : quantity Xq := mkq None 1 (EField 0).
Definition a10 : agg Xq :=
  mkBranch [mkLeaf LSum q10; mkBin 2 (ndy 0 0) (ndy 1 0) q10 (mkCount TId) (mkCount TId) (mkCount TId) (mkCount TId)].
Definition b10 : agg Xq :=
  fst (fill (mkBranch [mkLeaf LSum q10;
                       mkBin 3 (ndy 0 0) (ndy 1 0) q10 (mkCount TId) (mkCount TId) (mkCount TId) (mkCount TId)])
            [VNum (ndy 1 (-1))] (ndy 1 0)).

Lemma C10_iadd_unchanged_refuted :
  compatible a10 b10 = false /\ snd (iadd a10 b10) = Raise /\
  xtok (entries_of (fst (iadd a10 b10))) <> xtok (entries_of a10).
Proof.
  split; [vm_compute; reflexivity | split; [vm_compute; reflexivity | vm_compute; discriminate]].
Qed.

(* non-vacuity of the positive statements *)
Example C10_example :
  compatible a10 a10 = true /\ top_compatible a10 (mkLeaf LSum q10) = false /\ addable a10 a10 = true.
Proof.
  split; [vm_compute; reflexivity | split; [vm_compute; reflexivity | vm_compute; reflexivity]].
Qed.
