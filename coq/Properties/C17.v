(* C17 -- User-function wrappers preserve behaviour: named / cached / serializable / strings.
   Model: Model/Fcn.v (UserFcn / CachedFcn, serializable, cached, named, __call__ as in util.py).
   A string expression and the Python function with the same meaning are the same [expr] of the
   model (Model/Expr.v); that the implementation evaluates both like [eval] is what the
   correspondence establishes on every run (string / lambda / def forms over dict, attribute and
   bare-scalar records). *)
From Coq Require Import List String Bool Permutation.
From Hgm Require Import NumOps Xq Agg Ops Expr Fcn RunFcn FcnFacts.
Import ListNotations.

(* serializable / cached / named (at most one name), in any order and with any repetition, yield
   the wrapper determined by WHICH of them were applied *)
Theorem C17_canonical : forall (N : num_ops) (s : @src N) (ws : list wop),
  ws <> [] -> (List.length (names ws) <= 1)%nat ->
  apply_wops ws (Raw s) = Ok (Wrapped (mk s (hd_error (names ws)) (existsb is_cachedop ws))).
Proof. intros N. apply wops_canonical. Qed.

Theorem C17_commute : forall (N : num_ops) (s : @src N) (ws ws' : list wop),
  Permutation ws ws' -> (List.length (names ws) <= 1)%nat ->
  apply_wops ws (Raw s) = apply_wops ws' (Raw s).
Proof. intros N. apply wops_commute. Qed.

(* applying a second name raises (the first one being a real name, not the default re-applied) *)
Theorem C17_second_name_raises : forall (N : num_ops) (s : @src N) (ws : list wop) n m,
  names ws = [n] -> default_name s <> Some n -> apply_wops (ws ++ [WNamed m]) (Raw s) = Err.
Proof. intros N. apply second_name_raises. Qed.

(* a wrapped function, cached or not, returns on every call what the function returns for that
   argument, however equal and different arguments are interleaved; [hit] is any comparison of
   the new argument with the remembered one that only accepts arguments with the same result *)
Theorem C17_calls : forall (N : num_ops) (hit : datum N -> datum N -> bool) (ds : list (datum N)) (u : @ufcn N),
  cache_ok u -> hit_sound hit u -> calls hit u ds = map (eval (src_expr (usrc u))) ds.
Proof. intros N hit ds u. apply calls_correct. Qed.

(* ... in particular for the comparison of the model (equal values), at the exact instance, and
   for every wrapper just built (its cache is empty) *)
Theorem C17_calls_exact : forall (s : @src Xq) nm c (ds : list (datum Xq)),
  calls datum_eqb (mk s nm c) ds = map (eval (src_expr s)) ds.
Proof. intros s nm c ds. apply (calls_cached_exact (mk s nm c)). exact I. Qed.

Print Assumptions C17_canonical.
Print Assumptions C17_commute.
Print Assumptions C17_second_name_raises.
Print Assumptions C17_calls.
Print Assumptions C17_calls_exact.

(* non-vacuity *)
Local Open Scope string_scope.
Example three_orders :
  let s : @src Xq := SStr "x" (EField 0) in
  apply_wops [WNamed "n"; WSer; WCached] (Raw s) = apply_wops [WCached; WNamed "n"; WSer] (Raw s)
  /\ apply_wops [WSer; WNamed "n"] (Raw s) = Ok (Wrapped (mk s (Some "n") false))
  /\ apply_wops [WNamed "n"; WNamed "m"] (Raw s) = Err.
Proof. repeat split; vm_compute; reflexivity. Qed.
