(* C05 -- Bookkeeping invariants: every datum lands in exactly one bin, totals conserve.
   Exact instance.
     inv a      every node: entries >= 0; Bin / SparselyBin / CentrallyBin / IrregularlyBin /
                Categorize: the entries of all bins and flows sum to the node's entries;
                Label / UntypedLabel / Index / Branch: every child has the parent's entries;
                Fraction: the denominator has the parent's entries; Bag: the weights sum to entries;
                Stack with thresholds -inf = t0 <= t1 <= ... and one child per threshold plus the
                nanflow: the levels are non-increasing and level 0 + nanflow = entries
     reach t a  a is reachable from the empty tree of specification t by fills (finite positive
                weight, or any gated weight), +, scaling by a finite positive factor, zero (copy is
                a + zero(a))
     sc / arity no Count with a non-identity transform; children lists have the arity of their
                primitive, IrregularlyBin thresholds cover the line (irr_total)
   Every instance, binary64 included (C05_one_slot_any, C05_one_slot_exactly, C05_one_slot_f64):
   whenever the routing of a partition primitive succeeds the datum is handed with its whole
   weight to exactly one slot (one bin / flow, or one sparse key) and to no other - for every
   double incl. NaN, +-inf and the neighbours of every edge, whatever the rounding does.
   Not covered by a theorem (decided by the bit-exact correspondence and the +-ulp edge probes
   only): totality in binary64 - that routing a double never raises (see DESIGN.md section 6 C05). *)
From Coq Require Import List QArith Qcanon.
From Hgm Require Import NumOps Xq Agg Ops XqFacts LeafAlg Algebra MulAlg Stream StackLists Invariant.
From Hgm Require Import F64 RouteAny.
Import ListNotations.

Theorem C05_inv_zero : forall a : agg Xq, inv (zero a).
Proof. exact inv_zero. Qed.

(* one successful fill preserves the invariant (the datum landed in exactly one bin) *)
Theorem C05_inv_fill : forall t a d w a',
  same a t -> wf a -> sc a -> arity a -> okw w -> okd a d -> inv a ->
  fill a d w = (a', Done) -> inv a'.
Proof. exact inv_fill_gen. Qed.

(* what the invariant says at a Stack *)
Theorem C05_stack : forall ts q e fx sp tm ct,
  inv (Node (KStack ts) q e fx sp tm ct) -> stack_ok ts -> List.length fx = S (List.length ts) ->
  nonincreasing (removelast (map (@entries_of Xq) fx)) /\
  xadd (hd (XF 0) (map (@entries_of Xq) fx)) (last (map (@entries_of Xq) fx) (XF 0)) = e.
Proof.
  intros ts q e fx sp tm ct (_ & _ & _ & H) Hok L. apply H; [exact Hok | rewrite map_length; exact L].
Qed.

Theorem C05_inv_add : forall a b : agg Xq, same a b -> wf a -> wf b -> inv a -> inv b -> inv (add_t a b).
Proof. exact inv_add. Qed.

Theorem C05_inv_mul : forall (a : agg Xq) f, finpos f -> inv a -> inv (mul_t a f).
Proof. exact inv_mul. Qed.

(* every state of every history *)
Theorem C05_inv_history : forall t a,
  sc (zero t) -> arity (zero t) -> reach t a -> inv a /\ same a t /\ wf a.
Proof. exact inv_reach. Qed.

(* a partition primitive hands the whole weight to exactly one child *)
Theorem C05_one_bin : forall (k : nodekind Xq) n v w ws sk,
  partition_kind k = true -> node_arity k n -> route k n v w = RTo ws sk ->
  List.length ws = n /\
  ((sk = None /\ wsum ws = w) \/ (exists k1 : key, sk = Some (k1, w) /\ wsum ws = XF 0%Qc)).
Proof. exact route_part. Qed.

(* every arithmetic instance: a successful routing names exactly one slot *)
Theorem C05_one_slot_any : forall (N : num_ops) (k : nodekind N) n v w ws sk,
  route k n v w = RTo ws sk ->
  match k with
  | KBin _ _ => (3 <= n)%nat -> sk = None /\ one_slot n w ws
  | KSparse _ _ => n = 1%nat ->
      (sk = None /\ one_slot n w ws) \/ (exists b, sk = Some (KInt b, w) /\ no_slot n ws)
  | KCentral cs => n = S (List.length cs) -> cs <> [] -> sk = None /\ one_slot n w ws
  | KIrr ths => n = S (List.length ths) -> sk = None /\ (one_slot n w ws \/ no_slot n ws)
  | KCat => n = 0%nat -> exists k1, sk = Some (k1, w) /\ no_slot n ws
  | _ => True
  end.
Proof. intro N. exact (@route_one_slot_any N). Qed.

Theorem C05_one_slot_exactly : forall (N : num_ops) n (w : T N) ws, one_slot n w ws ->
  List.length ws = n /\
  exists i, (i < n)%nat /\ nth i ws None = Some w /\
            forall j, (j < n)%nat -> j <> i -> nth j ws None = None.
Proof. intro N. exact (@one_slot_exactly N). Qed.

(* the binary64 reading for Bin: no double is counted in two bins (the defect repaired in
   Bin._numpy counted x == high twice; the row path cannot) *)
Theorem C05_one_slot_f64 : forall (low high : T F64) num v w ws sk,
  route (KBin low high) (num + 3) v w = RTo ws sk ->
  sk = None /\ List.length ws = (num + 3)%nat /\
  exists i, (i < num + 3)%nat /\ nth i ws None = Some w /\
            forall j, (j < num + 3)%nat -> j <> i -> nth j ws None = None.
Proof.
  intros low high num v w ws sk E.
  destruct (@route_one_slot_any F64 (KBin low high) _ v w ws sk E) as [Hs H1]; [apply Nat.le_add_l|].
  split; [exact Hs|]. apply one_slot_exactly. exact H1.
Qed.

Print Assumptions C05_inv_zero.
Print Assumptions C05_one_slot_any.
Print Assumptions C05_one_slot_exactly.
Print Assumptions C05_one_slot_f64.
Print Assumptions C05_stack.
Print Assumptions C05_inv_fill.
Print Assumptions C05_inv_add.
Print Assumptions C05_inv_mul.
Print Assumptions C05_inv_history.
Print Assumptions C05_one_bin.

(* non-vacuity: the example tree of C01 satisfies the side conditions and its filled state is
   reachable *)
From Coq Require Import ZArith QArith Qcanon.
From Hgm Require C01.
Example C05_example :
  sc (zero C01.ext) /\ arity (zero C01.ext) /\ reach C01.ext (zero C01.ext).
Proof.
  split; [vm_compute; repeat split; try reflexivity; exact I|].
  split; [|constructor].
  vm_compute. repeat split; try reflexivity; try exact I; repeat constructor.
Qed.

(* non-vacuity in binary64: Bin(10, -3, 7) routes pred(7.0) = 0x1.bffffffffffffp+2 (the double on
   which the pinned code raised IndexError before the clamp) to the last regular bin, and 7.0
   itself to the overflow only *)
Example C05_f64_example :
  route (KBin (ndy (-3) 0) (ndy 7 0)) 13 (VNum (ndy 7881299347898367 (-50))) (ndy 1 0)
    = RTo (@only F64 13 9 (ndy 1 0)) None /\
  route (KBin (ndy (-3) 0) (ndy 7 0)) 13 (VNum (ndy 7 0)) (ndy 1 0)
    = RTo (@only F64 13 11 (ndy 1 0)) None.
(* plain [reflexivity] (kernel lazy conversion computes the primitive floats): [vm_compute] on the
   goal would strongly normalise the type argument [routed F64] of [eq], i.e. the whole F64
   record including Prim2SF under binders, which does not finish *)
Proof. split; reflexivity. Qed.
