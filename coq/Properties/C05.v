(* C05 -- Bookkeeping invariants: every datum lands in exactly one bin, totals conserve.
   Exact instance.
     inv a      every node: entries >= 0; Bin / SparselyBin / CentrallyBin / IrregularlyBin /
                Categorize: the entries of all bins and flows sum to the node's entries;
                Label / UntypedLabel / Index / Branch: every child has the parent's entries;
                Fraction: the denominator has the parent's entries; Bag: the weights sum to entries;
                Stack with thresholds -inf = t0 <= t1 <= ... and one child per threshold plus the
                nanflow: the levels are non-increasing and level 0 + nanflow = entries
     reach t a  a is reachable from the empty tree of specification t by fills (finite positive
                weight, or any gated weight), +, scaling by a finite positive factor, zero (copy is
                a + zero(a))
     sc / arity no Count with a non-identity transform; children lists have the arity of their
                primitive, IrregularlyBin thresholds cover the line (irr_total)
   Not covered (checked on the implementation and by the bit-exact correspondence only): the
   binary64 half - that every double is routed to exactly one bin (see DESIGN.md section 6 C05). *)
From Coq Require Import List QArith Qcanon.
From Hgm Require Import NumOps Xq Agg Ops XqFacts LeafAlg Algebra MulAlg Stream StackLists Invariant.
Import ListNotations.

Theorem C05_inv_zero : forall a : agg Xq, inv (zero a).
Proof. exact inv_zero. Qed.

(* one successful fill preserves the invariant (the datum landed in exactly one bin) *)
Theorem C05_inv_fill : forall t a d w a',
  same a t -> wf a -> sc a -> arity a -> okw w -> okd a d -> inv a ->
  fill a d w = (a', Done) -> inv a'.
Proof. exact inv_fill_gen. Qed.

(* what the invariant says at a Stack *)
Theorem C05_stack : forall ts q e fx sp tm ct,
  inv (Node (KStack ts) q e fx sp tm ct) -> stack_ok ts -> List.length fx = S (List.length ts) ->
  nonincreasing (removelast (map (@entries_of Xq) fx)) /\
  xadd (hd (XF 0) (map (@entries_of Xq) fx)) (last (map (@entries_of Xq) fx) (XF 0)) = e.
Proof.
  intros ts q e fx sp tm ct (_ & _ & _ & H) Hok L. apply H; [exact Hok | rewrite map_length; exact L].
Qed.

Theorem C05_inv_add : forall a b : agg Xq, same a b -> wf a -> wf b -> inv a -> inv b -> inv (add_t a b).
Proof. exact inv_add. Qed.

Theorem C05_inv_mul : forall (a : agg Xq) f, finpos f -> inv a -> inv (mul_t a f).
Proof. exact inv_mul. Qed.

(* every state of every history *)
Theorem C05_inv_history : forall t a,
  sc (zero t) -> arity (zero t) -> reach t a -> inv a /\ same a t /\ wf a.
Proof. exact inv_reach. Qed.

(* a partition primitive hands the whole weight to exactly one child *)
Theorem C05_one_bin : forall (k : nodekind Xq) n v w ws sk,
  partition_kind k = true -> node_arity k n -> route k n v w = RTo ws sk ->
  List.length ws = n /\
  ((sk = None /\ wsum ws = w) \/ (exists k1 : key, sk = Some (k1, w) /\ wsum ws = XF 0%Qc)).
Proof. exact route_part. Qed.

Print Assumptions C05_inv_zero.
Print Assumptions C05_stack.
Print Assumptions C05_inv_fill.
Print Assumptions C05_inv_add.
Print Assumptions C05_inv_mul.
Print Assumptions C05_inv_history.
Print Assumptions C05_one_bin.

(* non-vacuity: the example tree of C01 satisfies the side conditions and its filled state is
   reachable *)
From Coq Require Import ZArith QArith Qcanon.
From Hgm Require C01.
Example C05_example :
  sc (zero C01.ext) /\ arity (zero C01.ext) /\ reach C01.ext (zero C01.ext).
Proof.
  split; [vm_compute; repeat split; try reflexivity; exact I|].
  split; [|constructor].
  vm_compute. repeat split; try reflexivity; try exact I; repeat constructor.
Qed.
