(* C02 -- Fill computes the specified function of the weighted multiset of data.
   Order independence and the weight gate at the exact instance; the node-level specification
   (total weight; every fixed child holds the aggregate of exactly the sub-stream routed to it) for
   every arithmetic instance; the closed forms of Count, Sum, Average and Deviate on finite data with
   positive weights (sum of weights, weighted sum, weighted mean, weighted sum of squared deviations)
   at the exact instance; the extrema of Minimize / Maximize ignoring NaN over any quantities
   (finite, +-inf, NaN) and the value -> weight map of a Bag of numbers (NaN under "nan").  The same
   quantities are also evaluated by the independent exact-rational reference semantics
   harness/refsem.py on every exact program. *)
From Coq Require Import List Permutation Bool QArith Qcanon.
From Hgm Require Import NumOps Xq Agg Ops XqFacts SL LeafAlg Algebra Stream Denote LeafDenote.
Import ListNotations.

(* the result does not depend on the order in which data are filled *)
Theorem C02_order_independent : forall t s s',
  Permutation s s' -> okstream t s -> Forall (fun dw => fills_ok (zero t) [dw]) s ->
  fills (zero t) s = fills (zero t) s'.
Proof. exact fills_perm. Qed.

(* a fill whose weight is not > 0 (zero, negative, NaN) changes nothing and cannot raise *)
Theorem C02_gate : forall (a : agg Xq) d w, @pos Xq w = false -> fill a d w = (a, Done).
Proof. exact fill_gated. Qed.

Lemma pos_false_iff (w : xq) :
  @pos Xq w = false <-> (w = XNaN \/ w = XNInf \/ exists q, w = XF q /\ (q <= 0)%Qc).
Proof.
  unfold pos; xproj. destruct w as [q| | |]; simpl; split; intro H; auto; try discriminate.
  - right; right. exists q. split; auto. unfold xltb in H.
    destruct (0 ?= q)%Qc eqn:E; try discriminate; cmp_hyps.
    + subst. apply Qcanon.Qcle_refl.
    + apply Qcanon.Qclt_le_weak. exact E.
  - destruct H as [H|[H|(q' & H & Hq)]]; try discriminate. inversion H; subst.
    unfold xltb. destruct (0 ?= q')%Qc eqn:E; auto. cmp_hyps.
    exfalso. apply (Qcanon.Qclt_not_le _ _ E). exact Hq.
  - destruct H as [H|[H|(q' & H & _)]]; discriminate.
Qed.

Theorem C02_gate_meaning : forall w : xq,
  @pos Xq w = false <-> (w = XNaN \/ w = XNInf \/ exists q, w = XF q /\ (q <= 0)%Qc).
Proof. exact pos_false_iff. Qed.

(* after any stream none of whose fills raises: the entries are the initial entries plus the
   weights > 0, and fixed child i is its initial state filled with the sub-stream of the rows the
   node routes to position i, each with the weight the node gives it (Bin: the rows of that
   interval / flow; CentrallyBin: nearest centre; IrregularlyBin: that interval; Stack: at or above
   that threshold; Fraction: all rows / the selected rows; Select: weight * selection; collections:
   every row) *)
Theorem C02_children : forall (N : num_ops) k q (s : list (datum N * T N)) e fx sp tm ct,
  all_done (Node k q e fx sp tm ct) s ->
  exists e' fx' sp',
    fills (Node k q e fx sp tm ct) s = Node k q e' fx' sp' tm ct /\
    List.length fx' = List.length fx /\
    e' = fold_left (fun acc w => nadd acc w) (counted s) e /\
    forall i c, nth_error fx i = Some c ->
      nth_error fx' i = Some (fills c (sub_stream k q (List.length fx) i s)).
Proof. intros N k q s. apply fills_children. Qed.

(* ... and the sparse child under every key (bin index of a SparselyBin, category of a Categorize)
   is what it was - or the empty template, created when the first such row arrives - filled with
   exactly the rows routed to that key *)
Theorem C02_sparse_children : forall (N : num_ops) k q (s : list (datum N * T N)) e fx sp tm ct,
  SL.sorted key_cmp sp -> all_done (Node k q e fx sp tm ct) s ->
  exists e' fx' sp',
    fills (Node k q e fx sp tm ct) s = Node k q e' fx' sp' tm ct /\
    List.length fx' = List.length fx /\ SL.sorted key_cmp sp' /\
    forall kk, sl_lookup key_cmp kk sp' =
               grown tm (sl_lookup key_cmp kk sp) (sub_key k q (List.length fx) kk s).
Proof. intros N k q s. apply fills_sparse. Qed.

(* leaves, finite data (q, w) with w > 0, filled into the empty leaf: sw = sum of w,
   swq = sum of w*q, swqq = sum of w*q*q *)
Theorem C02_count : forall (rs : rows) s, le (lfills (LCount TId) s rs) = xadd (le s) (XF (sw rs)).
Proof. exact count_denote. Qed.

Theorem C02_sum : forall (rs : rows) e0 s0,
  let s := lfills LSum (mkst (XF e0) (XF s0) (XF 0)) rs in
  le s = XF (e0 + sw rs)%Qc /\ l1 s = XF (s0 + swq rs)%Qc.
Proof. exact sum_denote. Qed.

(* entries * mean = sum of weight * quantity *)
Theorem C02_average : forall rs : rows, pos_rows rs -> rs <> [] ->
  exists m, lfills LAverage (leaf_zero LAverage) rs = mkst (XF (sw rs)) (XF m) (XF 0) /\
            (sw rs * m = swq rs)%Qc.
Proof. exact average_denote. Qed.

(* ... and varianceTimesEntries = sum of weight * quantity^2 - entries * mean^2
   (= sum of weight * (quantity - mean)^2) *)
Theorem C02_deviate : forall rs : rows, pos_rows rs -> rs <> [] ->
  exists m v, lfills LDeviate (leaf_zero LDeviate) rs = mkst3 (XF (sw rs)) (XF m) (XF v) /\
              (sw rs * m = swq rs)%Qc /\ (v + sw rs * m * m = swqq rs)%Qc.
Proof. exact deviate_denote. Qed.

(* any quantities (finite, +-inf, NaN), weights > 0: Minimize holds a value that is not above any
   non-NaN quantity filled (and is itself not NaN as soon as one was filled), and that is one of the
   quantities filled unless it is still NaN (nothing but NaN was filled) *)
Theorem C02_minimize : forall rs : xrows,
  let m := l1 (lfillsx LMin (leaf_zero LMin) rs) in
  (forall q, In q (map fst rs) -> xisnan q = false -> xisnan m = false /\ xltb q m = false) /\
  (xisnan m = false -> In m (map fst rs)).
Proof. exact min_denote. Qed.

Theorem C02_maximize : forall rs : xrows,
  let m := l1 (lfillsx LMax (leaf_zero LMax) rs) in
  (forall q, In q (map fst rs) -> xisnan q = false -> xisnan m = false /\ xltb m q = false) /\
  (xisnan m = false -> In m (map fst rs)).
Proof. exact max_denote. Qed.

(* Bag of numbers filled from empty: under every key the sum of the weights of the rows with that
   value (NaN quantities under the key "nan"), no entry for a value never filled *)
Theorem C02_bag : forall (rs : xrows) k,
  sl_lookup (@bag_cmp Xq) k (lv (lfillsx (LBag RN) (leaf_zero (LBag RN)) rs)) =
  if existsb (fun qw => key_is k (fst qw)) rs then Some (XF (wkey k rs)) else None.
Proof. exact bag_denote. Qed.

(* ... and for a Bag of any range (strings; numbers; vectors with NaN components marked): the
   rows the Bag accepts are counted under their key, rows of the wrong type raise and change nothing *)
Theorem C02_bag_any : forall r (rs : vrows) k,
  sl_lookup (@bag_cmp Xq) k (lv (lfillsv (LBag r) (leaf_zero (LBag r)) rs)) =
  if existsb (fun vw => vkey_is r k (fst vw)) rs then Some (XF (wvkey r k rs)) else None.
Proof. exact bag_denote_any. Qed.

Example C02_extrema_bag_ex :
  let three := XF (Q2Qc 3) in
  let rs := [(XNaN, Q2Qc 1); (three, Q2Qc 2); (XNInf, Q2Qc 1); (three, Q2Qc 1); (XPInf, Q2Qc 1)] in
  l1 (lfillsx LMin (leaf_zero LMin) rs) = XNInf /\ l1 (lfillsx LMax (leaf_zero LMax) rs) = XPInf /\
  sl_lookup (@bag_cmp Xq) (@BNum Xq three) (lv (lfillsx (LBag RN) (leaf_zero (LBag RN)) rs)) = Some three /\
  sl_lookup (@bag_cmp Xq) (@BNan Xq) (lv (lfillsx (LBag RN) (leaf_zero (LBag RN)) rs)) = Some (XF (Q2Qc 1)).
Proof. vm_compute. repeat split; reflexivity. Qed.

Print Assumptions C02_order_independent.
Print Assumptions C02_minimize.
Print Assumptions C02_maximize.
Print Assumptions C02_bag.
Print Assumptions C02_bag_any.
Print Assumptions C02_children.
Print Assumptions C02_sparse_children.
Print Assumptions C02_count.
Print Assumptions C02_sum.
Print Assumptions C02_average.
Print Assumptions C02_deviate.
Print Assumptions C02_gate.
Print Assumptions C02_gate_meaning.
