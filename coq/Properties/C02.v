(* C02 -- Fill computes the specified function of the weighted multiset of data.
   Exact instance.  (The specification itself -- Proofs/Denote.v -- is stated below once proved;
   this file lists what is proved about it.) *)
From Coq Require Import List Permutation Bool QArith Qcanon.
From Hgm Require Import NumOps Xq Agg Ops XqFacts LeafAlg Algebra Stream.
Import ListNotations.

(* the result does not depend on the order in which data are filled *)
Theorem C02_order_independent : forall t s s',
  Permutation s s' -> okstream t s -> Forall (fun dw => fills_ok (zero t) [dw]) s ->
  fills (zero t) s = fills (zero t) s'.
Proof. exact fills_perm. Qed.

(* a fill whose weight is not > 0 (zero, negative, NaN) changes nothing and cannot raise *)
Theorem C02_gate : forall (a : agg Xq) d w, @pos Xq w = false -> fill a d w = (a, Done).
Proof. exact fill_gated. Qed.

Lemma pos_false_iff (w : xq) :
  @pos Xq w = false <-> (w = XNaN \/ w = XNInf \/ exists q, w = XF q /\ (q <= 0)%Qc).
Proof.
  unfold pos; xproj. destruct w as [q| | |]; simpl; split; intro H; auto; try discriminate.
  - right; right. exists q. split; auto. unfold xltb in H.
    destruct (0 ?= q)%Qc eqn:E; try discriminate; cmp_hyps.
    + subst. apply Qcanon.Qcle_refl.
    + apply Qcanon.Qclt_le_weak. exact E.
  - destruct H as [H|[H|(q' & H & Hq)]]; try discriminate. inversion H; subst.
    unfold xltb. destruct (0 ?= q')%Qc eqn:E; auto. cmp_hyps.
    exfalso. apply (Qcanon.Qclt_not_le _ _ E). exact Hq.
  - destruct H as [H|[H|(q' & H & _)]]; discriminate.
Qed.

Theorem C02_gate_meaning : forall w : xq,
  @pos Xq w = false <-> (w = XNaN \/ w = XNInf \/ exists q, w = XF q /\ (q <= 0)%Qc).
Proof. exact pos_false_iff. Qed.

Print Assumptions C02_order_independent.
Print Assumptions C02_gate.
Print Assumptions C02_gate_meaning.
