(* C12 -- A fill that raises leaves the aggregator as if the record had been skipped.
   Proved for every arithmetic instance at once (no arithmetic is involved): the theorems hold for
   the exact and for the binary64 model alike.
     single_path a   a is built from Bin, SparselyBin, CentrallyBin, IrregularlyBin, Categorize,
                     Select nested arbitrarily over any leaf (value templates included)
     Raise           the quantity function raised, returned a value of the wrong type, or (binary64
                     only) an index fell outside the bins *)
From Coq Require Import List.
From Hgm Require Import NumOps Agg Ops Rollback.
Import ListNotations.

(* the node owning the failing function, its whole subtree and every ancestor are untouched *)
Theorem C12_rollback : forall (N : num_ops) (a a' : agg N) d w,
  single_path a -> fill a d w = (a', Raise) -> a' = a.
Proof. intros N a a' d w. apply fill_rollback. Qed.

(* try: h.fill(d) except: continue  ==  the aggregate of the records that did not fail *)
Theorem C12_skip_failures : forall (N : num_ops) (a : agg N) s,
  single_path a -> fills a s = fills a (survivors a s).
Proof. intros N a s. apply skip_failures. Qed.

(* ... and none of the surviving records raises when filled in that order *)
Theorem C12_survivors_do_not_raise : forall (N : num_ops) (a : agg N) s,
  single_path a ->
  Forall (fun o => o = Done)
         (snd (fold_left (fun acc dw => let '(st, os) := acc in
                                      let '(st', o) := fill st (fst dw) (snd dw) in
                                      (st', os ++ [o])) (survivors a s) (a, []))).
Proof. intros N a s. apply survivors_ok. Qed.

(* the shape needed by the hypotheses is stable under fill *)
Theorem C12_single_path_stable : forall (N : num_ops) (a : agg N) d w,
  single_path a -> single_path (fst (fill a d w)).
Proof. intros N a d w. apply single_path_fillz. Qed.

Print Assumptions C12_rollback.
Print Assumptions C12_skip_failures.
Print Assumptions C12_survivors_do_not_raise.
Print Assumptions C12_single_path_stable.

(* ---- non-vacuity: a nested single-path tree whose innermost quantity fails ---- *)
From Coq Require Import ZArith String.
From Hgm Require Import F64 Expr Build.
Local Open Scope string_scope.

Definition fq : quantity F64 := mkq None 1 (EField 0).
Definition bad : quantity F64 := mkq None 2 (EFault 1 (EField 0)).
Definition t12 : agg F64 :=
  mkSparse (ndy 1 0) fq
    (mkBin 4 (ndy 0 0) (ndy 4 0) fq (mkSelect fq (mkLeaf LSum bad)) (mkCount TId) (mkCount TId) (mkCount TId))
    (mkCount TId) (ndy 0 0).
Definition good_d : datum F64 := [VNum (ndy 5 (-1)); VBool false].
Definition bad_d : datum F64 := [VNum (ndy 5 (-1)); VBool true].

Example C12_example :
  single_path t12 /\ snd (fill t12 bad_d (ndy 1 0)) = Raise /\ snd (fill t12 good_d (ndy 1 0)) = Done
  /\ snd (fill (fst (fill t12 good_d (ndy 1 0))) bad_d (ndy 1 0)) = Raise.
Proof.
  split; [vm_compute; repeat split; reflexivity | split; [vm_compute; reflexivity | split; vm_compute; reflexivity]].
Qed.
