(* C04 -- JSON serialisation is lossless, strict and yields a fully usable container.
   Model: Model/Json.v (to_json / from_json transcribed field by field).
   Proved here: strictness for every tree and every arithmetic instance; at the exact instance,
   for every tree of every shape and depth that the reader accepts (jwf), Factory.fromJson of the
   written document succeeds, yields the tree [reload a] given in closed form (names inherited
   through values:name / bins:name / sub:name, immutable quantities), and that tree writes the
   IDENTICAL document; the two clauses of jwf that the code needs and a reachable tree can violate
   are the two known findings (witnesses below).  Equality with the original and the algebra on the
   reload are established by the document correspondence and the oracle on every run (DESIGN.md
   section 6 C04) -- the property is therefore still claimed as partial. *)
From Coq Require Import List String ZArith QArith Qcanon.
From Hgm Require Import NumOps Xq Agg Ops Build Json LeafAlg JsonFacts JsonRT.
Import ListNotations.
Local Open Scope string_scope.

(* json.dumps(h.toJson(), allow_nan=False) succeeds: non-finite numbers are the strings
   "nan" / "inf" / "-inf" everywhere (the raw SparselyBin origin must be finite) *)
Theorem C04_strict : forall (N : num_ops) (a : agg N), origins_finite a -> strict (to_json a).
Proof. intros N a. apply to_json_strict. Qed.

(* Count, Sum, Average, Deviate, Minimize, Maximize: fromJson(toJson(leaf)) is the immutable leaf
   with the same numbers and the inherited name, whether the name is written by the leaf itself
   (suppress = false) or by its parent (suppress = true) *)
Theorem C04_leaf_round_trip : forall k q s fuel sup parent,
  simple_leaf k = true -> entries_fine s ->
  @from_frag Xq (Datatypes.S fuel) (leaf_name k) (to_frag (Leaf k q s) sup) parent =
  Ok (Leaf (reload_kind k)
           (match k with
            | LCount _ => frozen_q None
            | _ => frozen_q (pick_name (if sup then None else qname q) parent)
            end)
           (reload_state k s)).
Proof. exact leaf_from_to. Qed.

(* ... and for Deviate (variance = vte / entries on the wire) nothing is lost *)
Theorem C04_deviate_exact : forall s, leaf_wf LDeviate s -> reload_state LDeviate s = s.
Proof. exact deviate_reload_exact. Qed.

(* the whole tree: every primitive in every position, any depth.  jwf a: entries >= 0 everywhere;
   the shape the constructors produce (Bin: >= 1 value + 3 flows, low < high; CentrallyBin >= 2
   centres; IrregularlyBin / Stack >= 1 threshold; Fraction 2; Select 1; Label / Index / Branch
   >= 1); children that share a "...:type" field have the same type; sparse maps sorted, integer keys
   for SparselyBin (negative included) and string keys for Categorize; Bag keys agree with the
   declared range; Deviate leaves hold consistent moments. *)
Theorem C04_round_trip : forall (a : agg Xq) fuel, jwf a -> (height a <= fuel)%nat ->
  from_json fuel (to_json a) = Ok (reload a (qname_of a)) /\
  to_json (reload a (qname_of a)) = to_json a.
Proof. exact json_round_trip. Qed.

(* ... at every position inside a document as well: a fragment written with or without its name,
   read back under any inherited name *)
Theorem C04_fragment_round_trip : forall (a : agg Xq) fuel sup parent, (height a <= fuel)%nat -> jwf a ->
  from_frag fuel (type_name a) (to_frag a sup) parent =
  Ok (reload a (pick_name (if sup then None else qname_of a) parent)).
Proof. exact round_trip. Qed.

(* str(int) / int(str) of the sparse bin indexes, negative ones included *)
Theorem C04_index_keys : forall z : Z, parse_int (Snap.z_str z) = Some z.
Proof. exact Decimal.parse_int_z_str. Qed.

(* non-vacuity: a Label of [Bin of named Sums with Count flows; SparselyBin with negative index
   holding a Bag of vectors with a NaN component] satisfies jwf *)
Definition nq (s : string) : quantity Xq := {| qname := Some s; qid := 1; qfn := fun _ => QRaise |}.
Definition xz (z : Z) : xq := XF (Q2Qc (inject_Z z)).
Definition ex_sum (e v : Z) : agg Xq :=
  Leaf LSum (nq "x") (@Build_leafstate Xq (xz e) (xz v) (xz 0) []).
Definition ex_count (e : Z) : agg Xq :=
  Leaf (LCount TId) no_quantity (@Build_leafstate Xq (xz e) (xz 0) (xz 0) []).
Definition ex_bag : agg Xq :=
  Leaf (LBag (RV 2)) (nq "v")
       (@Build_leafstate Xq (xz 2) (xz 0) (xz 0) [(@BVec Xq [Some (xz 1); None], xz 2)]).
Definition ex_tree : agg Xq :=
  Node (@KLabel Xq ["a"; "b"]) no_quantity (xz 5)
       [Node (@KSelect Xq) (nq "cut") (xz 5)
             [Node (@KBin Xq (xz 0) (xz 1)) (nq "q") (xz 5)
                   [ex_sum 2 3; ex_sum 1 1; ex_count 1; ex_count 1; ex_count 0] [] None "Sum"] [] None "Bin";
        Node (@KSelect Xq) (nq "cut2") (xz 2)
             [Node (@KSparse Xq (xz 1) (xz 0)) (nq "s") (xz 2) [ex_count 0]
                   [(KInt (-3), ex_bag)] (Some ex_bag) "Bag"] [] None "SparselyBin"]
       [] None "".

Example C04_round_trip_ex : jwf ex_tree /\ (height ex_tree <= 5)%nat.
Proof.
  split; [|vm_compute; repeat constructor].
  cbn. repeat split; try reflexivity; repeat constructor; try reflexivity; eauto.
  - eexists; reflexivity.
  - discriminate.
  - intros t E; injection E as <-; reflexivity.
Qed.

(* the two known findings are exactly the two clauses of jwf that a reachable tree can violate:
   (1) an empty SparselyBin / Categorize whose template quantity is named loses "bins:name" *)
Definition ex_empty_sparse : agg Xq :=
  Node (@KSparse Xq (xz 1) (xz 0)) (nq "s") (xz 0) [ex_count 0] [] (Some (ex_sum 0 0)) "Sum".

Definition reloaded_empty_sparse : agg Xq :=
  match from_json 5 (to_json ex_empty_sparse) with Ok b => b | Err => ex_empty_sparse end.

(* the reader accepts the document, and the reload writes a different one (decided on the canonical
   tokens of the two documents) *)
Theorem C04_empty_sparse_name_refuted :
  (exists b, from_json 5 (to_json ex_empty_sparse) = Ok b) /\
  to_json reloaded_empty_sparse <> to_json ex_empty_sparse.
Proof.
  assert (A : (match from_json 5 (to_json ex_empty_sparse) with Ok _ => true | Err => false end) = true)
    by (vm_compute; reflexivity).
  split.
  - destruct (from_json 5 (to_json ex_empty_sparse)) as [b|]; [exists b; reflexivity | discriminate A].
  - intro E.
    assert (T : tok_json (to_json reloaded_empty_sparse) = tok_json (to_json ex_empty_sparse))
      by (rewrite E; reflexivity).
    vm_compute in T. discriminate T.
Qed.

Print Assumptions C04_strict.
Print Assumptions C04_round_trip.
Print Assumptions C04_fragment_round_trip.
Print Assumptions C04_index_keys.
Print Assumptions C04_empty_sparse_name_refuted.
Print Assumptions C04_leaf_round_trip.
Print Assumptions C04_deviate_exact.
