(* C04 -- JSON serialisation is lossless, strict and yields a fully usable container.
   Model: Model/Json.v (to_json / from_json transcribed field by field).
   Proved here: strictness for every tree and every arithmetic instance; the exact round trip of
   the leaves (name inheritance included).  The round trip of the container primitives and the
   algebra on the reload are established by the document correspondence and the oracle on every
   run (DESIGN.md section 6 C04) -- this property is therefore claimed as partial. *)
From Coq Require Import List String.
From Hgm Require Import NumOps Xq Agg Ops Build Json LeafAlg JsonFacts.
Import ListNotations.

(* json.dumps(h.toJson(), allow_nan=False) succeeds: non-finite numbers are the strings
   "nan" / "inf" / "-inf" everywhere (the raw SparselyBin origin must be finite) *)
Theorem C04_strict : forall (N : num_ops) (a : agg N), origins_finite a -> strict (to_json a).
Proof. intros N a. apply to_json_strict. Qed.

(* Count, Sum, Average, Deviate, Minimize, Maximize: fromJson(toJson(leaf)) is the immutable leaf
   with the same numbers and the inherited name, whether the name is written by the leaf itself
   (suppress = false) or by its parent (suppress = true) *)
Theorem C04_leaf_round_trip : forall k q s fuel sup parent,
  simple_leaf k = true -> entries_fine s ->
  @from_frag Xq (Datatypes.S fuel) (leaf_name k) (to_frag (Leaf k q s) sup) parent =
  Ok (Leaf (reload_kind k)
           (match k with
            | LCount _ => frozen_q None
            | _ => frozen_q (pick_name (if sup then None else qname q) parent)
            end)
           (reload_state k s)).
Proof. exact leaf_from_to. Qed.

(* ... and for Deviate (variance = vte / entries on the wire) nothing is lost *)
Theorem C04_deviate_exact : forall s, leaf_wf LDeviate s -> reload_state LDeviate s = s.
Proof. exact deviate_reload_exact. Qed.

Print Assumptions C04_strict.
Print Assumptions C04_leaf_round_trip.
Print Assumptions C04_deviate_exact.
