(* C16 -- One aggregator placed at two positions of a tree is detected, not double-filled.
   xcheck t   the cross-reference guard as coded (defs.py _checkForCrossReferences): a pre-order
              walk threading an identity list, value templates not walked; true = it raises
   obj_ids t  the object identities of all fillable positions of the tree *)
From Coq Require Import List PArith.
From Hgm Require Import NumOps Agg Ops Forest Run RunId ForestFacts ForestSep.
Import ListNotations.

(* the guard raises exactly when some object occupies two fillable positions (siblings, cousins,
   a node and one of its descendants); a tree without shared nodes is never rejected, whatever its
   value templates are (they are not among the fillable positions) *)
Theorem C16_detects_exactly : forall t : itree, xcheck t = true <-> ~ NoDup (obj_ids t).
Proof. exact xcheck_iff. Qed.

(* fill consults the guard first; when it raises nothing at all has changed *)
Theorem C16_rejected_fill_changes_nothing : forall (N : num_ops) (w : @world N) i d wt,
  xcheck (snd (geti w i)) = true -> fst (stepi w (IBase (OFill i d wt))) = w.
Proof.
  intros N w i d wt H. cbn [stepi]. destruct (geti w i) as [a t]. simpl in H. rewrite H. reflexivity.
Qed.

(* ... and the vectorised fill runs the same guard first *)
Theorem C16_rejected_fillnp_changes_nothing : forall (N : num_ops) (w : @world N) i rows,
  xcheck (snd (geti w i)) = true -> fst (stepi w (IBase (OFillNp i rows))) = w.
Proof.
  intros N w i rows H. cbn [stepi]. destruct (geti w i) as [a t]. simpl in H. rewrite H. reflexivity.
Qed.

(* a new collection built over a tree and one of the tree's own nodes (any depth, the tree itself
   included), whether or not the tree was filled and checked before, is always rejected *)
Lemma sub_it_in : forall (p : list nat) (t xt : itree), sub_it t p = Some xt -> In (it_id xt) (obj_ids t).
Proof.
  induction p as [|i p IH]; intros t xt H.
  - destruct t as [id c ks ss tm]. cbn in H. injection H as <-. left. reflexivity.
  - destruct t as [id c ks ss tm]. cbn [sub_it] in H. destruct (nth_error ks i) as [k0|] eqn:E; [|discriminate].
    cbn [obj_ids]. right. apply in_or_app. left. apply in_concat. exists (obj_ids k0). split.
    + apply in_map. eapply nth_error_In. exact E.
    + apply IH. exact H.
Qed.

Theorem C16_graft_detected : forall (t xt : itree) p n c,
  sub_it t p = Some xt -> xcheck (IT n c [t; xt] [] None) = true.
Proof.
  intros t xt p n c H. apply xcheck_iff. cbn [obj_ids map List.concat]. rewrite !app_nil_r.
  intro ND. inversion ND as [|? ? _ ND']; subst. apply NoDup_app_inv in ND' as (_ & _ & D).
  apply (D (it_id xt)); [eapply sub_it_in; exact H|]. destruct xt; left; reflexivity.
Qed.

(* ... and so is a collection that holds one object twice, however it is built (constructor or
   the immutable form .ed(), which also takes live objects) *)
Theorem C16_twice_detected : forall (xt : itree) n c, xcheck (IT n c [xt; xt] [] None) = true.
Proof.
  intros xt n c. apply xcheck_iff. cbn [obj_ids map List.concat]. rewrite !app_nil_r.
  intro ND. inversion ND as [|? ? _ ND']; subst. apply NoDup_app_inv in ND' as (_ & _ & D).
  apply (D (it_id xt)); destruct xt; left; reflexivity.
Qed.

Print Assumptions C16_detects_exactly.
Print Assumptions C16_twice_detected.
Print Assumptions C16_rejected_fillnp_changes_nothing.
Print Assumptions C16_graft_detected.
Print Assumptions C16_rejected_fill_changes_nothing.

Example C16_example :
  xcheck (IT 1 2 [IT 3 4 [] [] None; IT 3 4 [] [] None] [] None) = true /\
  xcheck (IT 1 2 [IT 3 4 [] [] (Some (IT 9 9 [] [] None)); IT 5 6 [] [] (Some (IT 9 9 [] [] None))] [] None) = false.
Proof. split; reflexivity. Qed.
