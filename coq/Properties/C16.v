(* C16 -- One aggregator placed at two positions of a tree is detected, not double-filled.
   xcheck t   the cross-reference guard as coded (defs.py _checkForCrossReferences): a pre-order
              walk threading an identity list, value templates not walked; true = it raises
   obj_ids t  the object identities of all fillable positions of the tree *)
From Coq Require Import List PArith.
From Hgm Require Import NumOps Agg Ops Forest Run RunId ForestFacts.
Import ListNotations.

(* the guard raises exactly when some object occupies two fillable positions (siblings, cousins,
   a node and one of its descendants); a tree without shared nodes is never rejected, whatever its
   value templates are (they are not among the fillable positions) *)
Theorem C16_detects_exactly : forall t : itree, xcheck t = true <-> ~ NoDup (obj_ids t).
Proof. exact xcheck_iff. Qed.

(* fill consults the guard first; when it raises nothing at all has changed *)
Theorem C16_rejected_fill_changes_nothing : forall (N : num_ops) (w : @world N) i d wt,
  xcheck (snd (geti w i)) = true -> fst (stepi w (IBase (OFill i d wt))) = w.
Proof.
  intros N w i d wt H. cbn [stepi]. destruct (geti w i) as [a t]. simpl in H. rewrite H. reflexivity.
Qed.

Print Assumptions C16_detects_exactly.
Print Assumptions C16_rejected_fill_changes_nothing.

Example C16_example :
  xcheck (IT 1 2 [IT 3 4 [] [] None; IT 3 4 [] [] None] [] None) = true /\
  xcheck (IT 1 2 [IT 3 4 [] [] (Some (IT 9 9 [] [] None)); IT 5 6 [] [] (Some (IT 9 9 [] [] None))] [] None) = false.
Proof. split; reflexivity. Qed.
