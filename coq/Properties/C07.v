(* C07 -- In-place merge (+=) agrees with pure merge (+).
   Content part (every arithmetic instance) and identity part (identity layer Model/Forest.v,
   Model/RunId.v: a stays the same object, b is exactly what it was, and no object or dict/list is
   reachable from two places afterwards). *)
From Coq Require Import List Bool PArith.
From Hgm Require Import NumOps Agg Ops Merge Forest Run RunId ForestFacts ForestSep.
Import ListNotations.

(* after a += b, a has exactly the content of (old a) + b, at every depth, and nothing raises *)
Theorem C07_iadd_content : forall (N : num_ops) (a b : agg N),
  addable a b = true -> iadd a b = (add_t a b, Done).
Proof. intros N a b. apply iadd_add. Qed.

(* += and + accept exactly the same pairs *)
Theorem C07_iadd_accepts_iff : forall (N : num_ops) (a b : agg N),
  snd (iadd a b) = Done <-> (exists c, add a b = Ok c).
Proof.
  intros N a b. unfold add. split.
  - intro H. destruct (addable a b) eqn:E; [eexists; reflexivity|].
    rewrite (iadd_raises a b E) in H. discriminate.
  - intros [c H]. destruct (addable a b) eqn:E; [|discriminate]. rewrite (iadd_add a b E). reflexivity.
Qed.

(* ---- identity part: the operation a += b of the history machine, a = entry i, b = entry j ---- *)

(* b (content and identities) is exactly what it was, and so is every other aggregator *)
Theorem C07_b_unchanged : forall (N : num_ops) (w : @world N) i j k,
  (k < List.length (pl w))%nat -> k <> i ->
  nth k (pl (fst (stepi w (IBase (OIAdd i j))))) (Run.dummy, dummy_it) = nth k (pl w) (Run.dummy, dummy_it).
Proof. intros N w i j k Hk Hne. apply step_frame; [exact Hk|]. cbn [target]. congruence. Qed.

Lemma nth_seti_eq (N : num_ops) (p : list (agg N * itree)) : forall i x d,
  (i < List.length p)%nat -> nth i (seti p i x) d = x.
Proof.
  induction p as [|y p IH]; intros i x d H; [cbn in H; inversion H|].
  destruct i; cbn [seti nth]; [reflexivity|]. apply IH. cbn in H. apply le_S_n. exact H.
Qed.

(* a remains the same object *)
Theorem C07_same_object : forall (N : num_ops) (w : @world N) i j,
  (i < List.length (pl w))%nat ->
  it_id (snd (nth i (pl (fst (stepi w (IBase (OIAdd i j))))) (Run.dummy, dummy_it))) =
  it_id (snd (nth i (pl w) (Run.dummy, dummy_it))).
Proof.
  intros N w i j Hi. cbn [stepi]. unfold geti. destruct (nth i (pl w) (Run.dummy, dummy_it)) as [a t] eqn:E.
  destruct (iadd a _) as [a' r]. pose proof (extend_root t a' (nxt w)) as R.
  destruct (extend t a' (nxt w)) as [t' n']. cbn [fst pl]. rewrite nth_seti_eq by exact Hi. exact R.
Qed.

(* ... and afterwards no object and no dict/list is reachable from two positions of any one or any
   two aggregators of the pool: a and b share no mutable state (sep, keys_distinct: see C06) *)
Theorem C07_no_sharing : forall (N : num_ops) (w : @world N) i j,
  sep w -> (i < List.length (pl w))%nat ->
  keys_distinct (fst (iadd (fst (geti w i)) (fst (geti w j)))) ->
  sep (fst (stepi w (IBase (OIAdd i j)))).
Proof.
  intros N w i j S Hi K. cbn [stepi]. pose proof (replace_sep w i (fst (iadd (fst (geti w i)) (fst (geti w j)))) S Hi K) as R.
  destruct (geti w i) as [a t]. cbn [fst snd] in *. destruct (iadd a (fst (geti w j))) as [a' r]. cbn [fst] in *.
  destruct (extend t a' (nxt w)) as [t' n']. exact R.
Qed.

Print Assumptions C07_iadd_content.
Print Assumptions C07_b_unchanged.
Print Assumptions C07_same_object.
Print Assumptions C07_no_sharing.
Print Assumptions C07_iadd_accepts_iff.
