(* C07 -- In-place merge (+=) agrees with pure merge (+).
   Content part (every arithmetic instance).  The identity part -- a stays the same object, b is
   unchanged, a and b share no mutable state afterwards -- is Forest.v / C06.v. *)
From Coq Require Import List Bool.
From Hgm Require Import NumOps Agg Ops Merge.
Import ListNotations.

(* after a += b, a has exactly the content of (old a) + b, at every depth, and nothing raises *)
Theorem C07_iadd_content : forall (N : num_ops) (a b : agg N),
  addable a b = true -> iadd a b = (add_t a b, Done).
Proof. intros N a b. apply iadd_add. Qed.

(* += and + accept exactly the same pairs *)
Theorem C07_iadd_accepts_iff : forall (N : num_ops) (a b : agg N),
  snd (iadd a b) = Done <-> (exists c, add a b = Ok c).
Proof.
  intros N a b. unfold add. split.
  - intro H. destruct (addable a b) eqn:E; [eexists; reflexivity|].
    rewrite (iadd_raises a b E) in H. discriminate.
  - intros [c H]. destruct (addable a b) eqn:E; [|discriminate]. rewrite (iadd_add a b E). reflexivity.
Qed.

Print Assumptions C07_iadd_content.
Print Assumptions C07_iadd_accepts_iff.
