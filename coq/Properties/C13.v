(* C13 -- Derived views (bin edges, centres, entries) agree with fill.
   Model: Model/Views.v (num_bins / bin_edges / bin_centers / bin_entries of Bin, SparselyBin,
   CentrallyBin, IrregularlyBin for every sub-range and probe list, transcribed from the code and
   compared with it on every run). *)
From Coq Require Import ZArith List Bool QArith Qcanon.
From Hgm Require Import NumOps Xq Agg Ops Views ViewFacts ViewPartition ViewPartition2.
Import ListNotations.

(* Bin, every arithmetic instance, full range and every sub-range: one more edge than bins, one
   centre and one entry per bin *)
Theorem C13_bin_shapes : forall (N : num_ops) (low high : T N) (vals : list (agg N)) lo hi xs,
  lt_opt lo hi = false ->
  exists n es cs en,
    v_num (bin_views low high vals lo hi xs) = VInt n /\
    v_edges (bin_views low high vals lo hi xs) = VList es /\
    v_centers (bin_views low high vals lo hi xs) = VList cs /\
    v_entries (bin_views low high vals lo hi xs) = VList en /\
    (0 <= n)%Z /\ List.length es = (Z.to_nat n + 1)%nat /\
    List.length cs = Z.to_nat n /\ List.length en = Z.to_nat n.
Proof. intros N. apply bin_shapes. Qed.

(* SparselyBin, whenever the queried range reaches the filled bins *)
Theorem C13_sparse_shapes : forall (N : num_ops) (bw origin : T N) (sp : list (key * agg N)) lo hi xs,
  lt_opt lo hi = false ->
  let '(mn, mx, n, le_, re_) := sbin_range bw origin sp lo hi in
  (0 <= n)%Z ->
  exists es cs en,
    v_num (sparse_views bw origin sp lo hi xs) = VInt n /\
    v_edges (sparse_views bw origin sp lo hi xs) = VList es /\
    v_centers (sparse_views bw origin sp lo hi xs) = VList cs /\
    v_entries (sparse_views bw origin sp lo hi xs) = VList en /\
    List.length es = (Z.to_nat n + 1)%nat /\
    List.length cs = Z.to_nat n /\ List.length en = Z.to_nat n.
Proof. intros N. apply sparse_shapes. Qed.

(* the views look a value up with the very index fill routes it with *)
Theorem C13_bin_same_index : forall (N : num_ops) (low high : T N) (vals flows : list (agg N)) (x w : T N),
  List.length flows = 3%nat ->
  nisnan x = false -> nltb x low = false -> nleb high x = false ->
  (0 <= bin_index low high vals x)%Z ->
  route (KBin low high) (List.length (vals ++ flows)) (VNum x) w =
  RTo (only (List.length (vals ++ flows)) (Z.to_nat (bin_index low high vals x)) w) None.
Proof. intros N. apply bin_route_agrees. Qed.

Theorem C13_sparse_same_index : forall (N : num_ops) (bw origin : T N) (sp : list (key * agg N)) (x w : T N) (n : nat),
  nisnan x = false ->
  match route (KSparse bw origin) n (VNum x) w with
  | RTo _ (Some (KInt b, _)) => b = sbin_index bw origin x
  | RTo _ _ => False
  | RErr => nfloor (ndiv (nsub x origin) bw) = None
  end.
Proof. intros N bw origin sp. apply sparse_route_agrees. exact sp. Qed.

Theorem C13_central_same_index : forall (N : num_ops) (cs : list (T N)) (x w : T N) (n : nat),
  nisnan x = false ->
  route (KCentral cs) n (VNum x) w = RTo (only n (Z.to_nat (cindex cs x true)) w) None.
Proof. intros N. apply central_route_agrees. Qed.

(* exact instance: the bin a value is filled into is the one whose edges contain it
   (edge i of the full range is low + i * (high - low) / num, the last one high) *)
Theorem C13_bin_partition : forall (l h q : Qc) (vals : list (agg Xq)),
  l < h -> vals <> [] -> l <= q -> q < h ->
  let num := Z.of_nat (List.length vals) in
  let k := bin_index (N:=Xq) (XF l) (XF h) vals (XF q) in
  let step := (h - l) / zq num in
  (0 <= k < num)%Z /\
  l + zq k * step <= q /\
  ((k + 1 < num)%Z -> q < l + zq (k + 1) * step) /\
  ((k + 1 = num)%Z -> q < h).
Proof. exact bin_partition. Qed.

Print Assumptions C13_bin_shapes.
Print Assumptions C13_sparse_shapes.
Print Assumptions C13_bin_same_index.
Print Assumptions C13_sparse_same_index.
Print Assumptions C13_central_same_index.
Print Assumptions C13_bin_partition.

(* exact instance: the SparselyBin bin a value is filled into ([origin + k w, origin + (k+1) w)) contains it *)
Theorem C13_sparse_partition : forall (bw o q : Qc),
  0 < bw -> zq (- zmax63) < ssoft bw o q -> ssoft bw o q < zq zmax63 ->
  let k := sbin_index (N:=Xq) (XF bw) (XF o) (XF q) in
  o + zq k * bw <= q /\ q < o + zq (k + 1) * bw.
Proof.
  intros bw o q Hb Hlo Hhi k. apply sparse_partition; [exact Hb|].
  unfold k. apply sbin_index_exact; assumption.
Qed.
Print Assumptions C13_sparse_partition.

(* CentrallyBin, every instance: fill puts x into bin k where every midpoint (c_j + c_j+1)/2 below
   bin k is <= x (not x < midpoint) and, unless k is the last bin, x < the midpoint above it: the bin
   whose edges - the midpoints bin_edges reports - contain x, ties going to the upper bin *)
Theorem C13_central_partition : forall (N : num_ops) (cs : list (T N)) (x w : T N) (n : nat),
  nisnan x = false ->
  exists k, route (KCentral cs) n (VNum x) w = RTo (only n k w) None /\
            (k < Nat.max 1 (List.length cs))%nat /\
            (forall j, (j < k)%nat -> nltb x (mid cs j) = false) /\
            ((S k < List.length cs)%nat -> nltb x (mid cs k) = true).
Proof.
  intros N cs x w n Hn. exists (central_index cs x 0). split.
  - unfold route. cbn [as_real]. rewrite Hn. reflexivity.
  - pose proof (central_index_spec cs x 0) as H. cbn zeta in H. rewrite Nat.sub_0_r in H. tauto.
Qed.

(* IrregularlyBin, every instance: fill puts x into the bin k whose threshold is <= x while the next
   threshold is not (the last bin is unbounded); a value below every threshold reaches no bin *)
Theorem C13_irr_partition : forall (N : num_ops) (ts : list (T N)) (x w : T N) (n : nat),
  nisnan x = false ->
  (exists k, route (KIrr ts) n (VNum x) w = RTo (only n k w) None /\ (k < List.length ts)%nat /\
             nleb (nth k ts nnan) x = true /\
             nleb (match nth_error ts (S k) with Some t2 => t2 | None => nnan end) x = false) \/
  (route (KIrr ts) n (VNum x) w = RTo (map (fun _ => None) (seq 0 n)) None /\ irr_index ts x 0 = None).
Proof.
  intros N ts x w n Hn. unfold route. cbn [as_real]. rewrite Hn.
  destruct (irr_index ts x 0) as [k|] eqn:E; [left | right; split; reflexivity].
  exists k. destruct (irr_index_spec ts x 0 k E) as (_ & B & H1 & H2). rewrite Nat.sub_0_r in *.
  repeat split; assumption.
Qed.

Print Assumptions C13_central_partition.
Print Assumptions C13_irr_partition.
