(* C08 -- Scaling by a factor equals refilling with every weight multiplied by it.
   Exact instance.  Vocabulary as in C01.v, plus
     finpos f   f is a finite, strictly positive number
     sc a       no Count with a non-identity transform occurs in a (Count refuses to be scaled)
     scale f s  the stream s with every weight multiplied by f *)
From Coq Require Import List Bool QArith Qcanon.
From Hgm Require Import NumOps Xq Agg Ops XqFacts Algebra MulAlg Stream Json JsonRT JsonMul.
Import ListNotations.

(* h * f = the aggregate of the same data with every weight multiplied by f *)
Theorem C08_refill : forall t f s,
  finpos f -> sc (zero t) -> okstream t s -> fills_ok (zero t) s ->
  mul_t (fills (zero t) s) f = fills (zero t) (scale f s).
Proof. exact mul_fills. Qed.

(* the checked operation is mul_t exactly when nothing refuses *)
Theorem C08_mul_accepts : forall (a : agg Xq) f, finpos f -> scalable a = true -> mul a f = Ok (mul_t a f).
Proof. exact mul_pos. Qed.
Theorem C08_count_transform_refuses : forall (a : agg Xq) f, finpos f -> scalable a = false -> mul a f = Err.
Proof. exact mul_refuses. Qed.

(* f <= 0 or NaN: the empty aggregator *)
Theorem C08_nonpositive : forall (a : agg Xq) f,
  (@nisnan Xq f || @nleb Xq f (@nzero Xq)) = true -> is_tcount a = false -> mul a f = Ok (zero a).
Proof. exact mul_nonpos. Qed.

(* multiplicative, h*1 = h, h*2 = h+h, distributes over + *)
Theorem C08_mul_mul : forall (a : agg Xq) f g, finpos f -> finpos g -> mul_t (mul_t a f) g = mul_t a (xmul g f).
Proof. exact mul_mul. Qed.
Theorem C08_mul_one : forall a : agg Xq, mul_t a (XF 1%Qc) = a.
Proof. exact mul_one. Qed.
Theorem C08_mul_two : forall a : agg Xq, wf a -> mul_t a (XF (1 + 1)%Qc) = add_t a a.
Proof. exact mul_two. Qed.
Theorem C08_mul_add : forall (a : agg Xq) f, finpos f -> forall b, same a b -> wf a -> wf b ->
  mul_t (add_t a b) f = add_t (mul_t a f) (mul_t b f).
Proof. exact mul_add. Qed.

(* the scaled result is again a well-formed state of the same specification: it can be filled and
   merged like any other (every theorem of C01 applies to it) *)
Theorem C08_first_class : forall (a : agg Xq) f, finpos f -> wf a -> wf (mul_t a f) /\ same (mul_t a f) a.
Proof. intros a f Hf W. split; [apply wf_mul; assumption | apply same_mul]. Qed.

(* scaling commutes with the JSON round trip: reloading h * f gives (the reload of h) * f, and that
   tree writes the document of h * f (every tree the reader accepts, C04_round_trip) *)
Theorem C08_commutes_with_json : forall (a : agg Xq) f fuel,
  finpos f -> jwf a -> (height a <= fuel)%nat ->
  from_json fuel (to_json (mul_t a f)) = Ok (mul_t (reload a (qname_of a)) f) /\
  from_json fuel (to_json a) = Ok (reload a (qname_of a)) /\
  to_json (mul_t (reload a (qname_of a)) f) = to_json (mul_t a f).
Proof. exact json_mul_commute. Qed.

Print Assumptions C08_refill.
Print Assumptions C08_commutes_with_json.
Print Assumptions C08_mul_accepts.
Print Assumptions C08_count_transform_refuses.
Print Assumptions C08_nonpositive.
Print Assumptions C08_mul_mul.
Print Assumptions C08_mul_one.
Print Assumptions C08_mul_two.
Print Assumptions C08_mul_add.
Print Assumptions C08_first_class.

(* ---- non-vacuity ---- *)
From Coq Require Import ZArith QArith Qcanon String.
From Hgm Require Import Expr Build.
From Hgm Require C01.

Example C08_example :
  finpos (@ndy Xq 3 (-2)) /\ sc (zero C01.ext) /\ okstream C01.ext C01.exc1 /\
  fills_ok (zero C01.ext) C01.exc1 /\
  xtok (entries_of (mul_t (fills (zero C01.ext) C01.exc1) (@ndy Xq 3 (-2)))) = xtok (@ndy Xq 9 (-2)).
Proof.
  destruct C01.C01_example_chunks as ((O1 & K1) & _).
  split; [|split; [|split; [exact O1 | split; [exact K1|]]]].
  - eexists. split; [vm_compute; reflexivity | vm_compute; reflexivity].
  - vm_compute. repeat split; try reflexivity; exact I.
  - vm_compute. reflexivity.
Qed.
