(* binary64 instance: Coq primitive floats. Python's float + - * /, comparisons, math.floor,
   math.isnan/isinf are these operations. *)
From Coq Require Import ZArith List PrimFloat FloatOps Uint63 SpecFloat.
From Hgm Require Import NumOps.
Import ListNotations.
Local Open Scope Z_scope.

Definition f_isnan (x : float) : bool := negb (PrimFloat.eqb x x).
Definition f_isinf (x : float) : bool :=
  PrimFloat.eqb x infinity || PrimFloat.eqb x neg_infinity.

(* exact conversion of an integer of magnitude < 2^62 (Python ints beyond 2^53 are rounded by
   of_uint63 with round-to-nearest-even, which is what int->float does) *)
Definition f_ofZ (z : Z) : float :=
  if z <? 0 then PrimFloat.opp (of_uint63 (Uint63.of_Z (- z)))
  else of_uint63 (Uint63.of_Z z).

(* m * 2^e for |m| < 2^53 (exact whenever the result is representable) *)
Definition f_dy (m e : Z) : float :=
  ldshiftexp (f_ofZ m) (Uint63.of_Z (e + FloatOps.shift)).

Definition f_floor (x : float) : option Z :=
  match Prim2SF x with
  | S754_zero _ => Some 0
  | S754_infinity _ => None
  | S754_nan => None
  | S754_finite s m e =>
      let mz := if s then Z.neg m else Z.pos m in
      if 0 <=? e then Some (mz * 2 ^ e) else Some (mz / 2 ^ (- e))
  end.

(* tokens: [0;m;e] finite with the canonical mantissa of Prim2SF, zero (either sign) [0;0;0],
   [1] nan, [2] +inf, [3] -inf *)
Definition f_tok (x : float) : list Z :=
  match Prim2SF x with
  | S754_zero _ => [0; 0; 0]
  | S754_infinity false => [2]
  | S754_infinity true => [3]
  | S754_nan => [1]
  | S754_finite s m e => [0; (if s then Z.neg m else Z.pos m); e]
  end.

Definition F64 : num_ops := {|
  T := float;
  nadd := PrimFloat.add; nsub := PrimFloat.sub; nmul := PrimFloat.mul; ndiv := PrimFloat.div;
  nneg := PrimFloat.opp; nabs := PrimFloat.abs;
  nltb := PrimFloat.ltb; nleb := PrimFloat.leb; neqb := PrimFloat.eqb;
  nisnan := f_isnan; nisinf := f_isinf;
  nzero := PrimFloat.zero; none := PrimFloat.one; nnan := nan; npinf := infinity;
  nninf := neg_infinity;
  nofZ := f_ofZ; ndy := f_dy; nfloor := f_floor; ntok := f_tok |}.
