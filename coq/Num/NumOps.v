(* Arithmetic signature shared by the exact instance (Xq) and the binary64 instance (F64).
   Every model definition is written once, in a Section over [N : num_ops]. *)
From Coq Require Import ZArith List.
Import ListNotations.

Record num_ops := {
  T : Type;
  nadd : T -> T -> T;
  nsub : T -> T -> T;
  nmul : T -> T -> T;
  ndiv : T -> T -> T;
  nneg : T -> T;
  nabs : T -> T;
  nltb : T -> T -> bool;     (* IEEE comparisons: false as soon as one side is NaN *)
  nleb : T -> T -> bool;
  neqb : T -> T -> bool;
  nisnan : T -> bool;
  nisinf : T -> bool;
  nzero : T;
  none : T;
  nnan : T;
  npinf : T;
  nninf : T;
  nofZ : Z -> T;             (* Python int -> float conversion *)
  ndy : Z -> Z -> T;         (* m * 2^e, exact (how literals enter a program) *)
  nfloor : T -> option Z;    (* math.floor; None on NaN/inf (Python raises) *)
  ntok : T -> list Z         (* canonical observation tokens *)
}.

Arguments nadd {_}. Arguments nsub {_}. Arguments nmul {_}. Arguments ndiv {_}.
Arguments nneg {_}. Arguments nabs {_}. Arguments nltb {_}. Arguments nleb {_}.
Arguments neqb {_}. Arguments nisnan {_}. Arguments nisinf {_}. Arguments nzero {_}.
Arguments none {_}. Arguments nnan {_}. Arguments npinf {_}. Arguments nninf {_}.
Arguments nofZ {_}. Arguments ndy {_}. Arguments nfloor {_}. Arguments ntok {_}.

Declare Scope num_scope.
Delimit Scope num_scope with num.
Infix "+" := nadd : num_scope.
Infix "-" := nsub : num_scope.
Infix "*" := nmul : num_scope.
Infix "/" := ndiv : num_scope.
Infix "<?" := nltb : num_scope.
Infix "<=?" := nleb : num_scope.
Infix "=?" := neqb : num_scope.

Section Derived.
  Context {N : num_ops}.
  Local Open Scope num_scope.
  Definition ngtb (x y : T N) : bool := y <? x.
  Definition ngeb (x y : T N) : bool := y <=? x.
  (* Python: weight > 0.0 *)
  Definition pos (w : T N) : bool := nzero <? w.
  Definition ntwo : T N := none + none.
End Derived.
