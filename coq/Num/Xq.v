(* Exact instance: rationals (Qc, Leibniz equality) extended with +inf, -inf, NaN, following the
   IEEE-754 rules for special values. No rounding ever happens here; the algebraic theorems are
   proved at this instance. *)
From Coq Require Import ZArith List Bool QArith Qcanon Qround.
From Hgm Require Import NumOps.
Import ListNotations.

Inductive xq := XF (q : Qc) | XPInf | XNInf | XNaN.

Definition qsgn (q : Qc) : comparison := (q ?= 0)%Qc.   (* Lt: negative, Eq: zero, Gt: positive *)

Definition xadd (x y : xq) : xq :=
  match x, y with
  | XNaN, _ | _, XNaN => XNaN
  | XPInf, XNInf | XNInf, XPInf => XNaN
  | XPInf, _ | _, XPInf => XPInf
  | XNInf, _ | _, XNInf => XNInf
  | XF a, XF b => XF (a + b)
  end.

Definition xneg (x : xq) : xq :=
  match x with XF a => XF (- a) | XPInf => XNInf | XNInf => XPInf | XNaN => XNaN end.

Definition xsub (x y : xq) : xq := xadd x (xneg y).

Definition xinf_signed (c : comparison) (pos_is_pinf : bool) : xq :=
  match c with
  | Eq => XNaN
  | Gt => if pos_is_pinf then XPInf else XNInf
  | Lt => if pos_is_pinf then XNInf else XPInf
  end.

Definition xmul (x y : xq) : xq :=
  match x, y with
  | XNaN, _ | _, XNaN => XNaN
  | XF a, XF b => XF (a * b)
  | XPInf, XPInf | XNInf, XNInf => XPInf
  | XPInf, XNInf | XNInf, XPInf => XNInf
  | XPInf, XF b | XF b, XPInf => xinf_signed (qsgn b) true
  | XNInf, XF b | XF b, XNInf => xinf_signed (qsgn b) false
  end.

(* division by an exact zero follows IEEE with a positive zero (numpy); the scalar Python code
   never divides by zero on the paths that are modelled *)
Definition xdiv (x y : xq) : xq :=
  match x, y with
  | XNaN, _ | _, XNaN => XNaN
  | XF a, XF b =>
      match qsgn b with
      | Eq => xinf_signed (qsgn a) true
      | _ => XF (a / b)
      end
  | XF _, (XPInf | XNInf) => XF 0
  | (XPInf | XNInf), (XPInf | XNInf) => XNaN
  | XPInf, XF b => match qsgn b with Lt => XNInf | _ => XPInf end
  | XNInf, XF b => match qsgn b with Lt => XPInf | _ => XNInf end
  end.

Definition xabs (x : xq) : xq :=
  match x with
  | XF a => match qsgn a with Lt => XF (- a) | _ => XF a end
  | XPInf | XNInf => XPInf
  | XNaN => XNaN
  end.

Definition xltb (x y : xq) : bool :=
  match x, y with
  | XNaN, _ | _, XNaN => false
  | XF a, XF b => match (a ?= b)%Qc with Lt => true | _ => false end
  | XNInf, XNInf => false
  | XNInf, _ => true
  | _, XNInf => false
  | XPInf, _ => false
  | _, XPInf => true
  end.

Definition xeqb (x y : xq) : bool :=
  match x, y with
  | XF a, XF b => match (a ?= b)%Qc with Eq => true | _ => false end
  | XPInf, XPInf | XNInf, XNInf => true
  | _, _ => false
  end.

Definition xleb (x y : xq) : bool := xltb x y || xeqb x y.

Definition xisnan (x : xq) : bool := match x with XNaN => true | _ => false end.
Definition xisinf (x : xq) : bool := match x with XPInf | XNInf => true | _ => false end.

Definition xofZ (z : Z) : xq := XF (Q2Qc (inject_Z z)).
Definition xdy (m e : Z) : xq := XF (Q2Qc (inject_Z m * Qpower (2 # 1) e)).

Definition xfloor (x : xq) : option Z :=
  match x with XF a => Some (Qfloor a) | _ => None end.

(* tokens: a dyadic value that binary64 represents as a normal number gets the very encoding the
   F64 instance emits ([0; m; e] with a 53-bit mantissa), so that an exact-safe run of a program
   produces identical token streams at both instances; other rationals are [4; num; den] *)
Definition xtok (x : xq) : list Z :=
  match x with
  | XF a =>
      let n := Qnum a in
      let d := Z.pos (Qden a) in
      if (n =? 0)%Z then [0; 0; 0]%Z
      else
        let k := Z.log2 d in
        let b := Z.log2 (Z.abs n) in
        if ((d =? 2 ^ k) && (b <? 53) && (-1022 <=? b - k) && (b - k <? 1024))%Z%bool
        then [0; n * 2 ^ (52 - b); - k - (52 - b)]%Z
        else [4; n; d]%Z
  | XNaN => [1] | XPInf => [2] | XNInf => [3]
  end%Z.

Definition Xq : num_ops := {|
  T := xq;
  nadd := xadd; nsub := xsub; nmul := xmul; ndiv := xdiv; nneg := xneg; nabs := xabs;
  nltb := xltb; nleb := xleb; neqb := xeqb; nisnan := xisnan; nisinf := xisinf;
  nzero := XF 0; none := XF 1; nnan := XNaN; npinf := XPInf; nninf := XNInf;
  nofZ := xofZ; ndy := xdy; nfloor := xfloor; ntok := xtok |}.
