(* C04: Factory.fromJson (toJson a) for whole trees (exact instance): the reloaded tree [reload a]
   is given in closed form, and it re-serialises to the identical document. *)
From Coq Require Import ZArith List String Ascii Bool Lia QArith Qcanon.
From Hgm Require Import NumOps Xq Agg Ops Build Snap Json SL KeyFacts AggInd XqFacts LeafAlg JsonFacts Decimal.
Import ListNotations.
Local Open Scope string_scope.
Local Open Scope list_scope.

Notation xagg := (agg Xq).
Notation xjson := (json Xq).

(* ---------- names ---------- *)
Definition named (a : xagg) : bool :=
  match a with
  | Leaf (LCount _) _ _ => false
  | Leaf _ _ _ => true
  | Node k _ _ _ _ _ _ => has_quantity k
  end.

Lemma named_type (a b : xagg) : type_name a = type_name b -> named a = named b.
Proof.
  destruct a as [k q s|k q e fx sp tm ct], b as [k' q' s'|k' q' e' fx' sp' tm' ct'];
    destruct k, k'; cbn; intro H; try reflexivity; discriminate.
Qed.

Lemma qname_of_unnamed (a : xagg) : named a = false -> qname_of a = None.
Proof. destruct a as [k q s|k q e fx sp tm ct]; cbn; [destruct k; try discriminate; reflexivity|]. intros ->. reflexivity. Qed.

Lemma pick_none_r (x : option string) : pick_name x None = x.
Proof. destruct x; reflexivity. Qed.

Lemma registered_type (a : xagg) : registered (type_name a) = true.
Proof. destruct a as [k q s|k q e fx sp tm ct]; destruct k; reflexivity. Qed.

(* ---------- the reloaded tree ---------- *)
Definition first_name (fx : list xagg) := match fx with c :: _ => qname_of c | [] => None end.
Definition first_type (fx : list xagg) := match fx with c :: _ => type_name c | [] => "" end.
Definition sp_name (sp : list (key * xagg)) (tm : option xagg) :=
  match tm with
  | Some t => qname_of t
  | None => match sp with (_, c) :: _ => qname_of c | [] => None end
  end.
Definition sp_type (sp : list (key * xagg)) (tm : option xagg) (ct : string) :=
  match sp with
  | (_, c) :: _ => type_name c
  | [] => match tm with Some t => type_name t | None => ct end
  end.

Fixpoint reload (a : xagg) (nm : option string) {struct a} : xagg :=
  match a with
  | Leaf k q s =>
      Leaf (reload_kind k) (frozen_q (match k with LCount _ => None | _ => nm end)) (reload_state k s)
  | Node k q e fx sp tm ct =>
      let inh := map (fun c => reload c (first_name fx)) fx in     (* children named by the parent *)
      let own := map (fun c => reload c (qname_of c)) fx in        (* children keeping their own name *)
      match k with
      | KBin _ _ =>
          let num := (List.length fx - 3)%nat in
          Node k (frozen_q nm) e (firstn num inh ++ skipn num own) [] None (first_type fx)
      | KSparse _ _ =>
          Node k (frozen_q nm) e own
               (map (fun kc => (fst kc, reload (snd kc) (sp_name sp tm))) sp) None (sp_type sp tm ct)
      | KCentral cs | KIrr cs | KStack cs =>
          let n := List.length cs in
          Node k (frozen_q nm) e (firstn n inh ++ skipn n own) [] None (first_type fx)
      | KFraction =>
          let nn := nth 1 (map (@qname_of Xq) fx) None in
          Node k (frozen_q nm) e (map (fun c => reload c nn) fx) [] None (nth 1 (map (@type_name Xq) fx) "")
      | KSelect => Node k (frozen_q nm) e own [] None (first_type fx)
      | KCat =>
          Node k (frozen_q nm) e []
               (map (fun kc => (fst kc, reload (snd kc) (sp_name sp tm))) sp) None (sp_type sp tm ct)
      | KLabel _ | KULabel _ | KIndex | KBranch => Node k no_quantity e own [] None ""
      end
  end.

Lemma reload_type (a : xagg) nm : type_name (reload a nm) = type_name a.
Proof. destruct a as [k q s|k q e fx sp tm ct]; destruct k; reflexivity. Qed.

Lemma reload_named (a : xagg) nm : named (reload a nm) = named a.
Proof. destruct a as [k q s|k q e fx sp tm ct]; destruct k; reflexivity. Qed.

Lemma reload_qname (a : xagg) nm : qname_of (reload a nm) = if named a then nm else None.
Proof. destruct a as [k q s|k q e fx sp tm ct]; destruct k; reflexivity. Qed.

Lemma reload_own_name (a : xagg) : qname_of (reload a (qname_of a)) = qname_of a.
Proof. rewrite reload_qname. destruct (named a) eqn:E; [reflexivity|]. symmetry. apply qname_of_unnamed. exact E. Qed.

(* ---------- height ---------- *)
Fixpoint height (a : xagg) : nat :=
  match a with
  | Leaf _ _ _ => 1
  | Node _ _ _ fx sp _ _ =>
      S (Nat.max (list_max (map height fx)) (list_max (map (fun kc => height (snd kc)) sp)))
  end.

Lemma height_fx k q e fx sp tm ct c : In c fx -> (height c < height (Node k q e fx sp tm ct))%nat.
Proof.
  intro H. cbn [height]. assert (height c <= list_max (map height fx))%nat; [|lia].
  pose proof (list_max_le (map height fx) (list_max (map height fx))) as [L _].
  specialize (L (Nat.le_refl _)). rewrite Forall_forall in L. apply L. apply in_map. exact H.
Qed.

Lemma height_sp k q e fx sp tm ct kc : In kc sp -> (height (snd kc) < height (Node k q e fx sp tm ct))%nat.
Proof.
  intro H. cbn [height]. set (l := map (fun kc => height (snd kc)) sp).
  assert (height (snd kc) <= list_max l)%nat; [|lia].
  pose proof (list_max_le l (list_max l)) as [L _].
  specialize (L (Nat.le_refl _)). rewrite Forall_forall in L. apply L.
  unfold l. apply (in_map (fun kc => height (snd kc))). exact H.
Qed.

(* ---------- what a tree must satisfy for the reader to accept its document ---------- *)
Definition same_type (t : string) (l : list xagg) : Prop := Forall (fun c => type_name c = t) l.

Definition comp_ok (c : option xq) : Prop := match c with Some x => xisnan x = false | None => True end.

Definition bagkey_for (r : brange) (k : bagkey Xq) : Prop :=
  match r, k with
  | RS, BStr _ => True
  | RN, BNum x => xisnan x = false
  | RN, BNan => True
  | RV n, BVec l => List.length l = n /\ Forall comp_ok l
  | _, _ => False
  end.

Fixpoint jwf (a : xagg) : Prop :=
  match a with
  | Leaf k q s =>
      entries_fine s /\
      match k with
      | LDeviate => leaf_wf LDeviate s
      | LBag r => sorted (@bag_cmp Xq) (lv s) /\ Forall (fun kc => bagkey_for r (fst kc)) (lv s)
      | _ => True
      end
  | Node k q e fx sp tm ct =>
      @entries_ok Xq e = true /\ allP jwf fx /\ allP (fun kc => jwf (snd kc)) sp /\
      match k with
      | KBin lo hi =>
          @nleb Xq hi lo = false /\ (3 < List.length fx)%nat /\
          same_type (first_type fx) (firstn (List.length fx - 3) fx)
      | KSparse bw org =>
          @nleb Xq bw (@nzero Xq) = false /\ @nisnan Xq bw = false /\ List.length fx = 1%nat /\
          sorted key_cmp sp /\ Forall (fun kc => exists z, fst kc = KInt z) sp /\
          same_type (sp_type sp tm ct) (map snd sp) /\
          (sp = [] -> sp_name sp tm = None) /\ (forall t, tm = Some t -> type_name t = sp_type sp tm ct) /\
          registered (sp_type sp tm ct) = true
      | KCentral cs =>
          (2 <= List.length cs)%nat /\ List.length fx = S (List.length cs) /\
          same_type (first_type fx) (firstn (List.length cs) fx)
      | KIrr cs | KStack cs =>
          (1 <= List.length cs)%nat /\ List.length fx = S (List.length cs) /\
          same_type (first_type fx) (firstn (List.length cs) fx)
      | KFraction => List.length fx = 2%nat /\ same_type (nth 1 (map (@type_name Xq) fx) "") fx
      | KSelect => List.length fx = 1%nat
      | KCat =>
          sorted key_cmp sp /\ Forall (fun kc => exists s, fst kc = KStr s) sp /\
          same_type (sp_type sp tm ct) (map snd sp) /\
          (sp = [] -> sp_name sp tm = None) /\ (forall t, tm = Some t -> type_name t = sp_type sp tm ct) /\
          registered (sp_type sp tm ct) = true
      | KLabel ks => List.length ks = List.length fx /\ (1 <= List.length fx)%nat /\ same_type (first_type fx) fx
      | KULabel ks => List.length ks = List.length fx
      | KIndex => (1 <= List.length fx)%nat /\ same_type (first_type fx) fx
      | KBranch => (1 <= List.length fx)%nat
      end
  end.

Definition RT (c : xagg) : Prop := forall fuel sup parent, (height c <= fuel)%nat -> jwf c ->
  from_frag fuel (type_name c) (to_frag c sup) parent =
  Ok (reload c (pick_name (if sup then None else qname_of c) parent)).

Lemma all_ok_inh fuel t pn (l : list xagg) :
  Forall RT l -> Forall (fun c => height c <= fuel)%nat l -> allP jwf l -> same_type t l ->
  all_ok (map (fun x => from_frag fuel t x pn) (map (fun c => to_frag c true) l)) =
  Ok (map (fun c => reload c pn) l).
Proof.
  induction l as [|c l IH]; intros HR HH HW HT; [reflexivity|].
  inversion HR as [|? ? R1 R2]; subst. inversion HH as [|? ? H1 H2]; subst.
  inversion HT as [|? ? T1 T2]; subst. destruct HW as [W1 W2].
  cbn [map all_ok]. rewrite (R1 fuel true pn H1 W1). cbn [pick_name]. rewrite IH by assumption. reflexivity.
Qed.

Lemma all_ok_own fuel t (l : list xagg) :
  Forall RT l -> Forall (fun c => height c <= fuel)%nat l -> allP jwf l -> same_type t l ->
  all_ok (map (fun x => from_frag fuel t x None) (map (fun c => to_frag c false) l)) =
  Ok (map (fun c => reload c (qname_of c)) l).
Proof.
  induction l as [|c l IH]; intros HR HH HW HT; [reflexivity|].
  inversion HR as [|? ? R1 R2]; subst. inversion HH as [|? ? H1 H2]; subst.
  inversion HT as [|? ? T1 T2]; subst. destruct HW as [W1 W2].
  cbn [map all_ok]. rewrite (R1 fuel false None H1 W1). rewrite pick_none_r. rewrite IH by assumption. reflexivity.
Qed.

(* ---------- lists ---------- *)
Lemma all_ok_map {A B C} (g : B -> res C) (enc : A -> B) (r : A -> C) (l : list A) :
  (forall x, In x l -> g (enc x) = Ok (r x)) -> all_ok (map g (map enc l)) = Ok (map r l).
Proof.
  induction l as [|x l IH]; intro H; [reflexivity|]. cbn [map all_ok].
  rewrite (H x (or_introl eq_refl)), IH; [reflexivity|]. intros y Hy. apply H. right. exact Hy.
Qed.

Lemma map_combine_snd {A B C} (f : B -> C) (ks : list A) (l : list B) :
  List.length ks = List.length l -> map (fun kv => f (snd kv)) (combine ks l) = map f l.
Proof.
  revert l. induction ks as [|k ks IH]; intros [|x l] H; try discriminate; [reflexivity|].
  cbn [combine map snd]. f_equal. apply IH. cbn in H. lia.
Qed.

Lemma map_fst_combine {A B} (ks : list A) (l : list B) :
  List.length ks = List.length l -> map fst (combine ks l) = ks.
Proof.
  revert l. induction ks as [|k ks IH]; intros [|x l] H; try discriminate; [reflexivity|].
  cbn [combine map fst]. f_equal. apply IH. cbn in H. lia.
Qed.

Lemma combine_map_r {A B C} (f : B -> C) (ks : list A) (l : list B) :
  combine ks (map f l) = map (fun p => (fst p, f (snd p))) (combine ks l).
Proof.
  revert l. induction ks as [|k ks IH]; intros [|x l]; try reflexivity. cbn [combine map fst snd].
  f_equal. apply IH.
Qed.

Lemma firstn_map_app {A B} (f : A -> B) (l r : list A) : firstn (List.length l) (map f (l ++ r)) = map f l.
Proof. rewrite map_app, <- (map_length f l), firstn_app, Nat.sub_diag, firstn_all, firstn_O, app_nil_r. reflexivity. Qed.

Lemma skipn_map_app {A B} (f : A -> B) (l r : list A) : skipn (List.length l) (map f (l ++ r)) = map f r.
Proof. rewrite map_app, <- (map_length f l), skipn_app, Nat.sub_diag, skipn_all. reflexivity. Qed.

Lemma nth_map_app {A B} (f : A -> B) (l r : list A) i d :
  nth (List.length l + i) (map f (l ++ r)) d = nth i (map f r) d.
Proof. rewrite map_app, <- (map_length f l), app_nth2_plus. reflexivity. Qed.

Lemma all_ok_combine {K A B C} (g : K * B -> res C) (enc : A -> B) (r : A -> C) (ks : list K) (l : list A) :
  List.length ks = List.length l -> (forall k x, In x l -> g (k, enc x) = Ok (r x)) ->
  all_ok (map g (combine ks (map enc l))) = Ok (map r l).
Proof.
  revert l. induction ks as [|k ks IH]; intros [|x l] HL H; try discriminate; [reflexivity|].
  cbn [map combine all_ok]. rewrite (H k x (or_introl eq_refl)), IH; [reflexivity | cbn in HL; lia |].
  intros k' y Hy. apply H. right. exact Hy.
Qed.

Lemma split_last_n {A} (n : nat) (l : list A) : (n <= List.length l)%nat ->
  exists a b, l = a ++ b /\ List.length a = (List.length l - n)%nat /\ List.length b = n.
Proof.
  intro H. exists (firstn (List.length l - n) l), (skipn (List.length l - n) l).
  rewrite firstn_skipn, firstn_length, skipn_length. repeat split; lia.
Qed.

Lemma RT_height k q e fx sp tm ct fuel :
  (height (Node k q e fx sp tm ct) <= S fuel)%nat ->
  Forall (fun c => height c <= fuel)%nat fx /\ Forall (fun kc => height (snd kc) <= fuel)%nat sp.
Proof.
  intro H. split; apply Forall_forall.
  - intros c Hc. pose proof (height_fx k q e fx sp tm ct c Hc). lia.
  - intros c Hc. pose proof (height_sp k q e fx sp tm ct c Hc). lia.
Qed.

Ltac rt_cbn :=
  cbn [from_frag String.eqb Ascii.eqb Bool.eqb maybe_add app has_keys forallb map fst mem_str
       orb andb jget jname].

(* children that keep their own name *)
Lemma own_children fuel (l : list xagg) x :
  Forall RT l -> Forall (fun c => height c <= fuel)%nat l -> allP jwf l -> In x l ->
  from_frag fuel (type_name x) (to_frag x false) None = Ok (reload x (qname_of x)).
Proof.
  intros HR HH HW Hx. rewrite Forall_forall in HR, HH. apply allP_Forall in HW. rewrite Forall_forall in HW.
  rewrite (HR x Hx fuel false None (HH x Hx) (HW x Hx)), pick_none_r. reflexivity.
Qed.

Lemma inh_children fuel (l : list xagg) pn x :
  Forall RT l -> Forall (fun c => height c <= fuel)%nat l -> allP jwf l -> In x l ->
  from_frag fuel (type_name x) (to_frag x true) pn = Ok (reload x pn).
Proof.
  intros HR HH HW Hx. rewrite Forall_forall in HR, HH. apply allP_Forall in HW. rewrite Forall_forall in HW.
  rewrite (HR x Hx fuel true pn (HH x Hx) (HW x Hx)). reflexivity.
Qed.

Lemma rt_select q e fx sp tm ct : Forall RT fx -> RT (Node KSelect q e fx sp tm ct).
Proof.
  intros IH fuel sup parent Hh (He & Wfx & _ & Hk). cbn [jwf] in Hk.
  destruct fuel as [|fuel]; [cbn in Hh; lia|]. apply RT_height in Hh. destruct Hh as [Hfx _].
  destruct fx as [|c [|? ?]]; try discriminate.
  pose proof (own_children fuel [c] c IH Hfx Wfx (or_introl eq_refl)) as Rc.
  cbn [type_name node_name to_frag map nth].
  destruct sup; cbn [qname_of has_quantity]; destruct (qname q) as [nm|]; rt_cbn;
    rewrite jnum_fnum, registered_type, Rc, He; reflexivity.
Qed.

Lemma rt_label ks q e fx sp tm ct : Forall RT fx -> RT (Node (KLabel ks) q e fx sp tm ct).
Proof.
  intros IH fuel sup parent Hh (He & Wfx & _ & Hk). cbn [jwf] in Hk. destruct Hk as (Hl & Hn & Ht).
  destruct fuel as [|fuel]; [cbn in Hh; lia|]. apply RT_height in Hh. destruct Hh as [Hfx _].
  cbn [type_name node_name to_frag]. rt_cbn.
  change (match fx with [] => "" | c :: _ => type_name c end) with (first_type fx).
  rewrite jnum_fnum.
  assert (Hr : registered (first_type fx) = true) by (destruct fx; [cbn in Hn; lia | apply registered_type]).
  rewrite Hr.
  rewrite (map_combine_snd (fun x => from_frag fuel (first_type fx) x None)) by (rewrite map_length; exact Hl).
  rewrite (all_ok_own fuel (first_type fx) fx IH Hfx Wfx Ht), He, map_length.
  rewrite map_fst_combine by (rewrite map_length; exact Hl).
  destruct fx; [cbn in Hn; lia|]. reflexivity.
Qed.

Lemma rt_index q e fx sp tm ct : Forall RT fx -> RT (Node KIndex q e fx sp tm ct).
Proof.
  intros IH fuel sup parent Hh (He & Wfx & _ & Hk). cbn [jwf] in Hk. destruct Hk as (Hn & Ht).
  destruct fuel as [|fuel]; [cbn in Hh; lia|]. apply RT_height in Hh. destruct Hh as [Hfx _].
  cbn [type_name node_name to_frag]. rt_cbn.
  change (match fx with [] => "" | c :: _ => type_name c end) with (first_type fx).
  rewrite jnum_fnum.
  assert (Hr : registered (first_type fx) = true) by (destruct fx; [cbn in Hn; lia | apply registered_type]).
  rewrite Hr.
  rewrite (all_ok_own fuel (first_type fx) fx IH Hfx Wfx Ht), He, map_length.
  destruct fx; [cbn in Hn; lia|]. reflexivity.
Qed.

Lemma rt_ulabel ks q e fx sp tm ct : Forall RT fx -> RT (Node (KULabel ks) q e fx sp tm ct).
Proof.
  intros IH fuel sup parent Hh (He & Wfx & _ & Hk). cbn [jwf] in Hk.
  destruct fuel as [|fuel]; [cbn in Hh; lia|]. apply RT_height in Hh. destruct Hh as [Hfx _].
  cbn [type_name node_name to_frag]. rt_cbn.
  rewrite jnum_fnum.
  rewrite (all_ok_combine _ _ (fun c => reload c (qname_of c))); [|exact Hk|].
  2:{ intros k x Hx. cbn [snd]. rt_cbn. rewrite registered_type. apply (own_children fuel fx x IH Hfx Wfx Hx). }
  rewrite He. cbn [negb]. rewrite map_fst_combine by (rewrite map_length; exact Hk). reflexivity.
Qed.

Lemma rt_branch q e fx sp tm ct : Forall RT fx -> RT (Node KBranch q e fx sp tm ct).
Proof.
  intros IH fuel sup parent Hh (He & Wfx & _ & Hk). cbn [jwf] in Hk.
  destruct fuel as [|fuel]; [cbn in Hh; lia|]. apply RT_height in Hh. destruct Hh as [Hfx _].
  cbn [type_name node_name to_frag]. rt_cbn.
  rewrite jnum_fnum.
  rewrite (all_ok_map _ _ (fun c => reload c (qname_of c))).
  2:{ intros x Hx. rt_cbn. rewrite registered_type. apply (own_children fuel fx x IH Hfx Wfx Hx). }
  rewrite He, map_length. destruct fx; [cbn in Hk; lia|]. reflexivity.
Qed.

Lemma rt_fraction q e fx sp tm ct : Forall RT fx -> RT (Node KFraction q e fx sp tm ct).
Proof.
  intros IH fuel sup parent Hh (He & Wfx & _ & Hk). cbn [jwf] in Hk. destruct Hk as [Hl Ht].
  destruct fuel as [|fuel]; [cbn in Hh; lia|]. apply RT_height in Hh. destruct Hh as [Hfx _].
  destruct fx as [|de [|nu [|? ?]]]; try discriminate.
  cbn [type_name node_name to_frag map nth] in *.
  inversion Ht as [|? ? Tde _]; subst.
  assert (Rnu : forall pn, from_frag fuel (type_name nu) (to_frag nu true) pn = Ok (reload nu pn)).
  { intro pn. apply (inh_children fuel [de; nu] pn nu IH Hfx Wfx). right. left. reflexivity. }
  assert (Rde : forall pn, from_frag fuel (type_name nu) (to_frag de true) pn = Ok (reload de pn)).
  { intro pn. rewrite <- Tde. apply (inh_children fuel [de; nu] pn de IH Hfx Wfx). left. reflexivity. }
  destruct sup; cbn [qname_of has_quantity]; destruct (qname q) as [nm|]; destruct (qname_of nu) as [sn|] eqn:Esn; rt_cbn;
    rewrite jnum_fnum, registered_type, Rnu, Rde, He; cbn [reload map nth]; rewrite ?Esn; reflexivity.
Qed.

Lemma nth_map_app0 {A B} (f : A -> B) l x r d : nth (List.length l) (map f (l ++ x :: r)) d = f x.
Proof. rewrite <- (Nat.add_0_r (List.length l)), nth_map_app. reflexivity. Qed.
Lemma nth_map_app1 {A B} (f : A -> B) l x y r d : nth (List.length l + 1) (map f (l ++ x :: y :: r)) d = f y.
Proof. rewrite nth_map_app. reflexivity. Qed.
Lemma nth_map_app2 {A B} (f : A -> B) l x y z r d : nth (List.length l + 2) (map f (l ++ x :: y :: z :: r)) d = f z.
Proof. rewrite nth_map_app. reflexivity. Qed.

Lemma first_type_app (vs r : list xagg) : vs <> [] -> first_type (vs ++ r) = first_type vs.
Proof. destruct vs; [congruence | reflexivity]. Qed.
Lemma first_name_app (vs r : list xagg) : vs <> [] -> first_name (vs ++ r) = first_name vs.
Proof. destruct vs; [congruence | reflexivity]. Qed.

Lemma rt_bin lo hi q e fx sp tm ct : Forall RT fx -> RT (Node (KBin lo hi) q e fx sp tm ct).
Proof.
  intros IH fuel sup parent Hh (He & Wfx & _ & Hk). cbn [jwf] in Hk. destruct Hk as (Hlh & Hn & Ht).
  destruct fuel as [|fuel]; [cbn in Hh; lia|]. apply RT_height in Hh. destruct Hh as [Hfx _].
  destruct (split_last_n 3 fx ltac:(lia)) as (vs & r & -> & Lvs & Lr).
  destruct r as [|u [|o [|n [|? ?]]]]; try discriminate.
  assert (Hv : vs <> []) by (rewrite app_length in Hn; cbn in Hn; destruct vs; [cbn in Hn; lia | discriminate]).
  rewrite <- Lvs in Ht. rewrite <- (app_nil_r (firstn _ _)) in Ht.
  rewrite <- (map_id (vs ++ [u; o; n])) in Ht at 2. rewrite firstn_map_app in Ht. rewrite map_id, app_nil_r in Ht.
  rewrite first_type_app in Ht by exact Hv.
  cbn [type_name node_name to_frag]. rewrite <- Lvs.
  rewrite !firstn_map_app, !nth_map_app0, !nth_map_app1, !nth_map_app2.
  change (match vs ++ [u; o; n] with [] => "" | c :: _ => type_name c end) with (first_type (vs ++ [u; o; n])).
  change (match vs ++ [u; o; n] with [] => None | c :: _ => qname_of c end) with (first_name (vs ++ [u; o; n])).
  rewrite first_type_app, first_name_app by exact Hv.
  assert (Rv : forall pn, all_ok (map (fun x => from_frag fuel (first_type vs) x pn) (map (fun c => to_frag c true) vs))
                         = Ok (map (fun c => reload c pn) vs)).
  { intro pn. apply Forall_app in IH, Hfx. apply allP_Forall in Wfx. apply Forall_app in Wfx.
    apply all_ok_inh; try tauto. apply allP_Forall. tauto. }
  assert (Ro : forall x, In x [u; o; n] -> from_frag fuel (type_name x) (to_frag x false) None = Ok (reload x (qname_of x))).
  { intros x Hx. apply (own_children fuel _ x IH Hfx Wfx). apply in_or_app. right. exact Hx. }
  pose proof (Ro u ltac:(cbn; tauto)) as Ru. pose proof (Ro o ltac:(cbn; tauto)) as Rov.
  pose proof (Ro n ltac:(cbn; tauto)) as Rn.
  assert (Hr : registered (first_type vs) = true) by (destruct vs; [congruence | apply registered_type]).
  assert (Hlen : forall pn, (List.length (map (fun c => reload c pn) vs) =? 0)%nat = false).
  { intro pn. rewrite map_length. destruct vs; [congruence | reflexivity]. }
  assert (RHS : forall nm0, reload (Node (KBin lo hi) q e (vs ++ [u; o; n]) sp tm ct) nm0 =
                Node (KBin lo hi) (frozen_q nm0) e
                     (map (fun c => reload c (first_name vs)) vs ++ map (fun c => reload c (qname_of c)) [u; o; n])
                     [] None (first_type vs)).
  { intro nm0. cbn [reload]. rewrite <- Lvs, firstn_map_app, skipn_map_app, first_name_app, first_type_app by exact Hv.
    reflexivity. }
  destruct sup; cbn [qname_of has_quantity]; destruct (qname q) as [nm|]; destruct (first_name vs) as [vn|] eqn:Evn; rt_cbn;
    rewrite !jnum_fnum, Hr, !registered_type, Rv, Ru, Rov, Rn, Hlh, He, Hlen, RHS; reflexivity.
Qed.

Lemma cas_fst (cs : list xq) (vs : list xagg) pn : List.length cs = List.length vs ->
  map fst (map (fun p : xq * xagg => (fst p, reload (snd p) pn)) (combine cs vs)) = cs.
Proof. intro H. rewrite map_map. cbn [fst]. apply map_fst_combine. exact H. Qed.

Lemma cas_snd (cs : list xq) (vs : list xagg) pn : List.length cs = List.length vs ->
  map snd (map (fun p : xq * xagg => (fst p, reload (snd p) pn)) (combine cs vs)) = map (fun c => reload c pn) vs.
Proof. intro H. rewrite map_map. cbn [snd]. apply (map_combine_snd (fun c => reload c pn)). exact H. Qed.

Lemma cas_len (cs : list xq) (vs : list xagg) pn : List.length cs = List.length vs ->
  List.length (map (fun p : xq * xagg => (fst p, reload (snd p) pn)) (combine cs vs)) = List.length vs.
Proof. intro H. rewrite map_length, combine_length, H, Nat.min_id. reflexivity. Qed.

Lemma rt_central cs q e fx sp tm ct : Forall RT fx -> RT (Node (KCentral cs) q e fx sp tm ct).
Proof.
  intros IH fuel sup parent Hh (He & Wfx & _ & Hk). cbn [jwf] in Hk. destruct Hk as (Hcs & Hl & Ht).
  destruct fuel as [|fuel]; [cbn in Hh; lia|]. apply RT_height in Hh. destruct Hh as [Hfx _].
  destruct (split_last_n 1 fx ltac:(lia)) as (vs & r & -> & Lvs & Lr).
  destruct r as [|nf [|? ?]]; try discriminate.
  assert (Lc : List.length cs = List.length vs).
  { rewrite app_length in Hl. cbn [List.length] in Hl. rewrite Nat.add_1_r in Hl. injection Hl as Hl. symmetry. exact Hl. }
  rewrite Lc in Hcs, Ht.
  assert (Hv : vs <> []) by (intro E; subst vs; cbn in Hcs; lia).
  rewrite <- (app_nil_r (firstn _ _)) in Ht.
  rewrite <- (map_id (vs ++ [nf])) in Ht at 2. rewrite firstn_map_app in Ht. rewrite map_id, app_nil_r in Ht.
  rewrite first_type_app in Ht by exact Hv.
  assert (RHS : forall nm0, reload (Node (KCentral cs) q e (vs ++ [nf]) sp tm ct) nm0 =
                Node (KCentral cs) (frozen_q nm0) e
                     (map (fun c => reload c (first_name vs)) vs ++ [reload nf (qname_of nf)])
                     [] None (first_type vs)).
  { intro nm0. cbn [reload]. rewrite Lc, firstn_map_app, skipn_map_app, first_name_app, first_type_app by exact Hv.
    reflexivity. }
  cbn [type_name node_name to_frag]. rewrite Lc.
  rewrite !firstn_map_app, !nth_map_app0.
  change (match vs ++ [nf] with [] => "" | c :: _ => type_name c end) with (first_type (vs ++ [nf])).
  change (match vs ++ [nf] with [] => None | c :: _ => qname_of c end) with (first_name (vs ++ [nf])).
  rewrite first_type_app, first_name_app by exact Hv.
  rewrite combine_map_r, map_map.
  assert (Rnf : from_frag fuel (type_name nf) (to_frag nf false) None = Ok (reload nf (qname_of nf))).
  { apply (own_children fuel _ nf IH Hfx Wfx). apply in_or_app. right. left. reflexivity. }
  assert (Rin : forall pn x, In x vs -> from_frag fuel (first_type vs) (to_frag x true) pn = Ok (reload x pn)).
  { intros pn x Hx. unfold same_type in Ht. rewrite Forall_forall in Ht. rewrite <- (Ht x Hx).
    apply (inh_children fuel _ pn x IH Hfx Wfx). apply in_or_app. left. exact Hx. }
  assert (Hr : registered (first_type vs) = true) by (destruct vs; [congruence | apply registered_type]).
  destruct sup; cbn [qname_of has_quantity]; destruct (qname q) as [nm|]; destruct (first_name vs) as [vn|] eqn:Evn; rt_cbn;
    rewrite jnum_fnum, Hr, registered_type; cbn [andb];
    match goal with |- context [from_frag fuel (first_type vs) _ ?pn] =>
      rewrite (all_ok_map _ _ (fun p : xq * xagg => (fst p, reload (snd p) pn)));
      [| intros [c a] Hx; cbn [fst snd]; rt_cbn; rewrite jnum_fnum, (Rin pn a (in_combine_r _ _ _ _ Hx)); reflexivity ]
    end;
    rewrite Rnf, He, cas_len, cas_fst, cas_snd, RHS by exact Lc; cbn [negb];
    (destruct vs as [|v1 [|v2 vs']]; [congruence | cbn in Hcs; lia | reflexivity]).
Qed.

Lemma rt_irr cs q e fx sp tm ct : Forall RT fx -> RT (Node (KIrr cs) q e fx sp tm ct).
Proof.
  intros IH fuel sup parent Hh (He & Wfx & _ & Hk). cbn [jwf] in Hk. destruct Hk as (Hcs & Hl & Ht).
  destruct fuel as [|fuel]; [cbn in Hh; lia|]. apply RT_height in Hh. destruct Hh as [Hfx _].
  destruct (split_last_n 1 fx ltac:(lia)) as (vs & r & -> & Lvs & Lr).
  destruct r as [|nf [|? ?]]; try discriminate.
  assert (Lc : List.length cs = List.length vs).
  { rewrite app_length in Hl. cbn [List.length] in Hl. rewrite Nat.add_1_r in Hl. injection Hl as Hl. symmetry. exact Hl. }
  rewrite Lc in Hcs, Ht.
  assert (Hv : vs <> []) by (intro E; subst vs; cbn in Hcs; lia).
  rewrite <- (app_nil_r (firstn _ _)) in Ht.
  rewrite <- (map_id (vs ++ [nf])) in Ht at 2. rewrite firstn_map_app in Ht. rewrite map_id, app_nil_r in Ht.
  rewrite first_type_app in Ht by exact Hv.
  assert (RHS : forall nm0, reload (Node (KIrr cs) q e (vs ++ [nf]) sp tm ct) nm0 =
                Node (KIrr cs) (frozen_q nm0) e
                     (map (fun c => reload c (first_name vs)) vs ++ [reload nf (qname_of nf)])
                     [] None (first_type vs)).
  { intro nm0. cbn [reload]. rewrite Lc, firstn_map_app, skipn_map_app, first_name_app, first_type_app by exact Hv.
    reflexivity. }
  cbn [type_name node_name to_frag]. rewrite Lc.
  rewrite !firstn_map_app, !nth_map_app0.
  change (match vs ++ [nf] with [] => "" | c :: _ => type_name c end) with (first_type (vs ++ [nf])).
  change (match vs ++ [nf] with [] => None | c :: _ => qname_of c end) with (first_name (vs ++ [nf])).
  rewrite first_type_app, first_name_app by exact Hv.
  rewrite combine_map_r, map_map.
  assert (Rnf : from_frag fuel (type_name nf) (to_frag nf false) None = Ok (reload nf (qname_of nf))).
  { apply (own_children fuel _ nf IH Hfx Wfx). apply in_or_app. right. left. reflexivity. }
  assert (Rin : forall pn x, In x vs -> from_frag fuel (first_type vs) (to_frag x true) pn = Ok (reload x pn)).
  { intros pn x Hx. unfold same_type in Ht. rewrite Forall_forall in Ht. rewrite <- (Ht x Hx).
    apply (inh_children fuel _ pn x IH Hfx Wfx). apply in_or_app. left. exact Hx. }
  assert (Hr : registered (first_type vs) = true) by (destruct vs; [congruence | apply registered_type]).
  destruct sup; cbn [qname_of has_quantity]; destruct (qname q) as [nm|]; destruct (first_name vs) as [vn|] eqn:Evn; rt_cbn;
    rewrite jnum_fnum, Hr, registered_type; cbn [andb];
    match goal with |- context [from_frag fuel (first_type vs) _ ?pn] =>
      rewrite (all_ok_map _ _ (fun p : xq * xagg => (fst p, reload (snd p) pn)));
      [| intros [c a] Hx; cbn [fst snd]; rt_cbn; rewrite jnum_fnum, (Rin pn a (in_combine_r _ _ _ _ Hx)); reflexivity ]
    end;
    rewrite Rnf, He, cas_len, cas_fst, cas_snd, RHS by exact Lc; cbn [negb];
    (destruct vs as [|v1 [|v2 vs']]; [congruence | reflexivity | reflexivity]).
Qed.

Lemma rt_stack cs q e fx sp tm ct : Forall RT fx -> RT (Node (KStack cs) q e fx sp tm ct).
Proof.
  intros IH fuel sup parent Hh (He & Wfx & _ & Hk). cbn [jwf] in Hk. destruct Hk as (Hcs & Hl & Ht).
  destruct fuel as [|fuel]; [cbn in Hh; lia|]. apply RT_height in Hh. destruct Hh as [Hfx _].
  destruct (split_last_n 1 fx ltac:(lia)) as (vs & r & -> & Lvs & Lr).
  destruct r as [|nf [|? ?]]; try discriminate.
  assert (Lc : List.length cs = List.length vs).
  { rewrite app_length in Hl. cbn [List.length] in Hl. rewrite Nat.add_1_r in Hl. injection Hl as Hl. symmetry. exact Hl. }
  rewrite Lc in Hcs, Ht.
  assert (Hv : vs <> []) by (intro E; subst vs; cbn in Hcs; lia).
  rewrite <- (app_nil_r (firstn _ _)) in Ht.
  rewrite <- (map_id (vs ++ [nf])) in Ht at 2. rewrite firstn_map_app in Ht. rewrite map_id, app_nil_r in Ht.
  rewrite first_type_app in Ht by exact Hv.
  assert (RHS : forall nm0, reload (Node (KStack cs) q e (vs ++ [nf]) sp tm ct) nm0 =
                Node (KStack cs) (frozen_q nm0) e
                     (map (fun c => reload c (first_name vs)) vs ++ [reload nf (qname_of nf)])
                     [] None (first_type vs)).
  { intro nm0. cbn [reload]. rewrite Lc, firstn_map_app, skipn_map_app, first_name_app, first_type_app by exact Hv.
    reflexivity. }
  cbn [type_name node_name to_frag]. rewrite Lc.
  rewrite !firstn_map_app, !nth_map_app0.
  change (match vs ++ [nf] with [] => "" | c :: _ => type_name c end) with (first_type (vs ++ [nf])).
  change (match vs ++ [nf] with [] => None | c :: _ => qname_of c end) with (first_name (vs ++ [nf])).
  rewrite first_type_app, first_name_app by exact Hv.
  rewrite combine_map_r, map_map.
  assert (Rnf : from_frag fuel (type_name nf) (to_frag nf false) None = Ok (reload nf (qname_of nf))).
  { apply (own_children fuel _ nf IH Hfx Wfx). apply in_or_app. right. left. reflexivity. }
  assert (Rin : forall pn x, In x vs -> from_frag fuel (first_type vs) (to_frag x true) pn = Ok (reload x pn)).
  { intros pn x Hx. unfold same_type in Ht. rewrite Forall_forall in Ht. rewrite <- (Ht x Hx).
    apply (inh_children fuel _ pn x IH Hfx Wfx). apply in_or_app. left. exact Hx. }
  assert (Hr : registered (first_type vs) = true) by (destruct vs; [congruence | apply registered_type]).
  destruct sup; cbn [qname_of has_quantity]; destruct (qname q) as [nm|]; destruct (first_name vs) as [vn|] eqn:Evn; rt_cbn;
    rewrite jnum_fnum, Hr, registered_type; cbn [andb];
    match goal with |- context [from_frag fuel (first_type vs) _ ?pn] =>
      rewrite (all_ok_map _ _ (fun p : xq * xagg => (fst p, reload (snd p) pn)));
      [| intros [c a] Hx; cbn [fst snd]; rt_cbn; rewrite jnum_fnum, (Rin pn a (in_combine_r _ _ _ _ Hx)); reflexivity ]
    end;
    rewrite Rnf, He, cas_len, cas_fst, cas_snd, RHS by exact Lc; cbn [negb];
    (destruct vs as [|v1 [|v2 vs']]; [congruence | reflexivity | reflexivity]).
Qed.


(* ---------- sparse containers ---------- *)
Section FoldUpd.
  Context {K V : Type} (cmp : K -> K -> comparison).
  Hypothesis cmp_antisym : forall a b, cmp b a = CompOpp (cmp a b).

  Lemma upd_append k (f : option V -> V) (acc : list (K * V)) :
    Forall (fun kv => cmp (fst kv) k = Lt) acc -> sl_upd cmp k f acc = acc ++ [(k, f None)].
  Proof.
    induction acc as [|[k' v] acc IH]; intro H; [reflexivity|]. inversion H as [|? ? H1 H2]; subst.
    cbn [sl_upd]. cbn [fst] in H1. rewrite cmp_antisym, H1. cbn [CompOpp app]. rewrite IH by exact H2. reflexivity.
  Qed.

  Lemma sorted_app_head (acc : list (K * V)) k v l :
    sorted cmp (acc ++ (k, v) :: l) -> Forall (fun kv => cmp (fst kv) k = Lt) acc.
  Proof.
    induction acc as [|a acc IH]; intro S; [constructor|]. cbn [app] in S. inversion S as [|? ? S1 S2]; subst.
    constructor; [|apply IH; exact S1]. rewrite Forall_forall in S2. apply (S2 (k, v)). apply in_elt.
  Qed.

  Lemma fold_upd_sorted (l : list (K * V)) : forall acc, sorted cmp (acc ++ l) ->
    fold_left (fun a kw => sl_upd cmp (fst kw) (fun _ => snd kw) a) l acc = acc ++ l.
  Proof.
    induction l as [|[k v] l IH]; intros acc S; [rewrite app_nil_r; reflexivity|].
    cbn [fold_left fst snd]. rewrite upd_append by (eapply sorted_app_head; exact S).
    rewrite IH; rewrite <- app_assoc; [reflexivity | exact S].
  Qed.
End FoldUpd.

Lemma sorted_map_val {K V W} (cmp : K -> K -> comparison) (g : V -> W) (l : list (K * V)) :
  sorted cmp l -> sorted cmp (map (fun kc => (fst kc, g (snd kc))) l).
Proof.
  induction 1 as [|a l S IH F]; [constructor|]. cbn [map]. constructor; [exact IH|].
  rewrite Forall_forall in *. intros x Hx. apply in_map_iff in Hx. destruct Hx as (y & <- & Hy).
  apply (F y Hy).
Qed.

Lemma sp_children fuel t pn (sp : list (key * xagg)) kc :
  Forall (fun kc => RT (snd kc)) sp -> Forall (fun kc => height (snd kc) <= fuel)%nat sp ->
  allP (fun kc => jwf (snd kc)) sp -> same_type t (map snd sp) -> In kc sp ->
  from_frag fuel t (to_frag (snd kc) true) pn = Ok (reload (snd kc) pn).
Proof.
  intros HR HH HW HT Hx. rewrite Forall_forall in HR, HH. apply allP_Forall in HW. rewrite Forall_forall in HW.
  unfold same_type in HT. rewrite Forall_forall in HT.
  rewrite <- (HT (snd kc) (in_map snd _ _ Hx)).
  rewrite (HR kc Hx fuel true pn (HH kc Hx) (HW kc Hx)). reflexivity.
Qed.

Lemma fold_upd_sp pn (sp : list (key * xagg)) :
  sorted key_cmp sp ->
  fold_left (fun acc (kc : key * xagg) => sl_upd key_cmp (fst kc) (fun _ => snd kc) acc)
            (map (fun kc => (fst kc, reload (snd kc) pn)) sp) [] = map (fun kc => (fst kc, reload (snd kc) pn)) sp.
Proof.
  intro S. rewrite (fold_upd_sorted key_cmp key_cmp_antisym _ []); [reflexivity|].
  cbn [app]. apply (sorted_map_val key_cmp (fun c => reload c pn)). exact S.
Qed.

Lemma rt_sparse bw org q e fx sp tm ct :
  Forall RT fx -> Forall (fun kc => RT (snd kc)) sp -> RT (Node (KSparse bw org) q e fx sp tm ct).
Proof.
  intros IH IHsp fuel sup parent Hh (He & Wfx & Wsp & Hk). cbn [jwf] in Hk.
  destruct Hk as (Hbw & Hnan & Hl & Hs & Hkeys & Ht & Hempty & Htm & Hreg).
  destruct fuel as [|fuel]; [cbn in Hh; lia|]. apply RT_height in Hh. destruct Hh as [Hfx Hsp].
  destruct fx as [|nf [|? ?]]; try discriminate.
  pose proof (own_children fuel [nf] nf IH Hfx Wfx (or_introl eq_refl)) as Rnf.
  assert (RHS : forall nm0, reload (Node (KSparse bw org) q e [nf] sp tm ct) nm0 =
                Node (KSparse bw org) (frozen_q nm0) e [reload nf (qname_of nf)]
                     (map (fun kc => (fst kc, reload (snd kc) (sp_name sp tm))) sp) None (sp_type sp tm ct))
    by reflexivity.
  cbn [type_name node_name to_frag map nth].
  fold (sp_name sp tm). fold (sp_type sp tm ct).
  rewrite Forall_forall in Hkeys.
  destruct sup; cbn [qname_of has_quantity]; destruct (qname q) as [nm|]; destruct (sp_name sp tm) as [bn|] eqn:Ebn; rt_cbn;
    rewrite !jnum_fnum; cbn [jnum]; rewrite Hreg, registered_type; cbn [andb];
    match goal with |- context [from_frag fuel (sp_type sp tm ct) _ ?pn] =>
      rewrite (all_ok_map _ _ (fun kc : key * xagg => (fst kc, reload (snd kc) pn)));
      [| intros kc Hx; cbn [fst snd]; destruct (Hkeys kc Hx) as [z Hz]; rewrite Hz; cbn [key_str];
         rewrite parse_int_z_str, (sp_children fuel _ pn sp kc IHsp Hsp Wsp Ht Hx); reflexivity ]
    end;
    rewrite Rnf, He, Hbw, Hnan, fold_upd_sp, Nat.eqb_refl, RHS by exact Hs; reflexivity.
Qed.

Lemma rt_cat q e fx sp tm ct :
  Forall (fun kc => RT (snd kc)) sp -> RT (Node KCat q e fx sp tm ct).
Proof.
  intros IHsp fuel sup parent Hh (He & Wfx & Wsp & Hk). cbn [jwf] in Hk.
  destruct Hk as (Hs & Hkeys & Ht & Hempty & Htm & Hreg).
  destruct fuel as [|fuel]; [cbn in Hh; lia|]. apply RT_height in Hh. destruct Hh as [Hfx Hsp].
  assert (RHS : forall nm0, reload (Node KCat q e fx sp tm ct) nm0 =
                Node KCat (frozen_q nm0) e []
                     (map (fun kc => (fst kc, reload (snd kc) (sp_name sp tm))) sp) None (sp_type sp tm ct))
    by reflexivity.
  cbn [type_name node_name to_frag map nth].
  fold (sp_name sp tm). fold (sp_type sp tm ct).
  rewrite Forall_forall in Hkeys.
  destruct sup; cbn [qname_of has_quantity]; destruct (qname q) as [nm|]; destruct (sp_name sp tm) as [bn|] eqn:Ebn; rt_cbn;
    rewrite !jnum_fnum; rewrite Hreg;
    match goal with |- context [from_frag fuel (sp_type sp tm ct) _ ?pn] =>
      rewrite (all_ok_map _ _ (fun kc : key * xagg => (fst kc, reload (snd kc) pn)));
      [| intros kc Hx; cbn [fst snd]; destruct (Hkeys kc Hx) as [z Hz]; rewrite Hz; cbn [key_str];
         rewrite (sp_children fuel _ pn sp kc IHsp Hsp Wsp Ht Hx); reflexivity ]
    end;
    rewrite He, fold_upd_sp, RHS by exact Hs; reflexivity.
Qed.

(* ---------- Bag ---------- *)
Lemma range_of_str (r : brange) : range_of (range_str r) = Some r.
Proof.
  destruct r as [| |n]; try reflexivity. unfold range_str.
  destruct (digits_z_str (Z.of_nat n) (Zle_0_nat n)) as (c & s & E & D). rewrite E.
  unfold range_of. cbn [String.eqb Ascii.eqb Bool.eqb]. 
  replace (String.eqb (String c s) "") with false by (destruct s; reflexivity).
  cbn [andb]. rewrite D, Nat2Z.id. reflexivity.
Qed.

Lemma range_str_not_S r : String.eqb (range_str r) "S" = match r with RS => true | _ => false end.
Proof. destruct r; reflexivity. Qed.

Lemma range_str_not_N r : String.eqb (range_str r) "N" = match r with RN => true | _ => false end.
Proof.
  destruct r as [| |n]; try reflexivity. unfold range_str.
  destruct (digits_z_str (Z.of_nat n) (Zle_0_nat n)) as (c & s & E & D). rewrite E. reflexivity.
Qed.

Lemma comps_round (l : list (option xq)) : Forall comp_ok l ->
  fold_right (fun (c : xjson) acc => match @jnum Xq c, acc with
                            | Some x, Some l => Some ((if @nisnan Xq x then None else Some x) :: l)
                            | _, _ => None
                            end) (Some [])
             (map (fun c => match c with Some x => @fnum Xq x | None => JStr "nan" end) l) = Some l.
Proof.
  induction 1 as [|c l Hc _ IH]; [reflexivity|]. cbn [map fold_right]. rewrite IH.
  destruct c as [x|]; [rewrite jnum_fnum; cbn in Hc; xproj; rewrite Hc; reflexivity | reflexivity].
Qed.

Lemma bag_key_round r k : bagkey_for r k -> bag_key_of (range_str r) (tok_bag r k) = Some k.
Proof.
  intro H. unfold bag_key_of. rewrite range_str_not_S, range_str_not_N, range_of_str.
  destruct r as [| |n], k as [x| |s|l]; cbn in H; try contradiction; cbn [tok_bag].
  - reflexivity.
  - rewrite jnum_fnum. xproj. rewrite H. reflexivity.
  - reflexivity.
  - destruct H as [HL HF]. rewrite map_length. change (T Xq) with xq in *. rewrite HL, Nat.eqb_refl.
    change xq with (T Xq). rewrite comps_round by exact HF. reflexivity.
Qed.

Lemma fold_upd_bag (l : list (bagkey Xq * xq)) : sorted (@bag_cmp Xq) l ->
  fold_left (fun acc (kw : bagkey Xq * xq) => sl_upd (@bag_cmp Xq) (fst kw) (fun _ => snd kw) acc) l [] = l.
Proof. intro S. rewrite (fold_upd_sorted (@bag_cmp Xq) bag_cmp_antisym _ []); [reflexivity | exact S]. Qed.

Lemma rt_leaf k q s : RT (Leaf k q s).
Proof.
  intros fuel sup parent Hh (He & Hk). destruct fuel as [|fuel]; [cbn in Hh; lia|].
  destruct k as [tr| | | | | |r];
    try (cbn [type_name]; rewrite leaf_from_to by (auto; reflexivity); reflexivity).
  destruct Hk as [Hs Hkeys]. unfold entries_fine in He.
  cbn [type_name leaf_name to_frag].
  rewrite Forall_forall in Hkeys.
  destruct sup; cbn [qname_of]; destruct (qname q) as [nm|]; rt_cbn;
    rewrite jnum_fnum;
    (rewrite (all_ok_map _ _ (fun kc : bagkey Xq * xq => kc));
     [| intros [bk w] Hx; cbn [fst snd]; rt_cbn;
        rewrite jnum_fnum, (bag_key_round r bk (Hkeys _ Hx)); reflexivity ]);
    rewrite map_id, range_of_str, fold_upd_bag, Nat.eqb_refl, He by exact Hs; reflexivity.
Qed.

(* ================= the round trip of a whole tree ================= *)
Theorem round_trip (a : xagg) : RT a.
Proof.
  induction a as [k q s | k q e fx sp tm ct IHfx IHsp _] using agg_ind'.
  - apply rt_leaf.
  - destruct k.
    + apply rt_bin; assumption.
    + apply rt_sparse; assumption.
    + apply rt_central; assumption.
    + apply rt_irr; assumption.
    + apply rt_stack; assumption.
    + apply rt_fraction; assumption.
    + apply rt_select; assumption.
    + apply rt_cat; assumption.
    + apply rt_label; assumption.
    + apply rt_ulabel; assumption.
    + apply rt_index; assumption.
    + apply rt_branch; assumption.
Qed.

(* ================= the reloaded tree writes the identical document ================= *)
Definition RS (a : xagg) : Prop := jwf a -> forall nm sup,
  (sup = false -> named a = true -> nm = qname_of a) -> to_frag (reload a nm) sup = to_frag a sup.

Lemma rs_inh (l : list xagg) pn : Forall RS l -> allP jwf l ->
  map (fun c => to_frag c true) (map (fun c => reload c pn) l) = map (fun c => to_frag c true) l.
Proof.
  intros HR HW. rewrite map_map. apply map_ext_in. intros c Hc. rewrite Forall_forall in HR.
  apply allP_Forall in HW. rewrite Forall_forall in HW. apply (HR c Hc (HW c Hc)). discriminate.
Qed.

Lemma rs_own_one (c : xagg) sup : RS c -> jwf c -> to_frag (reload c (qname_of c)) sup = to_frag c sup.
Proof. intros HR HW. apply (HR HW). reflexivity. Qed.

Lemma rs_own (l : list xagg) sup : Forall RS l -> allP jwf l ->
  map (fun c => to_frag c sup) (map (fun c => reload c (qname_of c)) l) = map (fun c => to_frag c sup) l.
Proof.
  intros HR HW. rewrite map_map. apply map_ext_in. intros c Hc. rewrite Forall_forall in HR.
  apply allP_Forall in HW. rewrite Forall_forall in HW. apply rs_own_one; auto.
Qed.

Lemma types_reload (l : list xagg) (g : xagg -> option string) :
  map (@type_name Xq) (map (fun c => reload c (g c)) l) = map (@type_name Xq) l.
Proof. rewrite map_map. apply map_ext. intro c. apply reload_type. Qed.

Lemma name_sel (sup : bool) (q : quantity Xq) nm :
  (sup = false -> nm = qname q) -> (if sup then None else qname (@frozen_q Xq nm)) = (if sup then None else qname q).
Proof. destruct sup; [reflexivity|]. intro H. cbn. apply H. reflexivity. Qed.

Lemma rs_leaf k q s : RS (Leaf k q s).
Proof.
  intros (He & Hk) nm sup Hn.
  destruct k as [tr| | | | | |r]; cbn [reload to_frag reload_state reload_kind le l1 l2 lv]; try reflexivity;
    try (rewrite (name_sel sup q nm) by (intro E; apply (Hn E); reflexivity); reflexivity).
  assert (E2 : l2 (reload_state LDeviate s) = l2 s) by (rewrite deviate_reload_exact; auto).
  cbn [reload_state l2] in E2. rewrite E2.
  rewrite (name_sel sup q nm) by (intro E; apply (Hn E); reflexivity). reflexivity.
Qed.

Lemma first_type_map (l : list xagg) (g : xagg -> option string) :
  first_type (map (fun c => reload c (g c)) l) = first_type l.
Proof. destruct l; [reflexivity | apply reload_type]. Qed.

Ltac rs_name Hn sup q nm := rewrite (name_sel sup q nm) by (let E := fresh in intro E; apply (Hn E); reflexivity).

Lemma rs_select q e fx sp tm ct : Forall RS fx -> RS (Node KSelect q e fx sp tm ct).
Proof.
  intros IH (He & Wfx & _ & Hk) nm sup Hn. cbn [jwf] in Hk.
  destruct fx as [|c [|? ?]]; try discriminate. inversion IH as [|? ? Rc _]; subst. destruct Wfx as [Wc _].
  cbn [reload map first_type to_frag nth type_name]. rewrite reload_type, (rs_own_one c false) by assumption.
  rs_name Hn sup q nm. reflexivity.
Qed.

Lemma rs_fraction q e fx sp tm ct : Forall RS fx -> RS (Node KFraction q e fx sp tm ct).
Proof.
  intros IH (He & Wfx & _ & Hk) nm sup Hn. cbn [jwf] in Hk. destruct Hk as [Hl Ht].
  destruct fx as [|de [|nu [|? ?]]]; try discriminate.
  inversion IH as [|? ? Rde IH']; subst. inversion IH' as [|? ? Rnu _]; subst. destruct Wfx as (Wde & Wnu & _).
  cbn [reload map first_type to_frag nth type_name]. rewrite !reload_type, reload_own_name.
  rewrite (Rde Wde (qname_of nu) true), (Rnu Wnu (qname_of nu) true) by discriminate.
  rs_name Hn sup q nm. reflexivity.
Qed.

Lemma rs_label ks q e fx sp tm ct : Forall RS fx -> RS (Node (KLabel ks) q e fx sp tm ct).
Proof.
  intros IH (He & Wfx & _ & Hk) nm sup Hn.
  cbn [reload to_frag]. fold (first_type (map (fun c => reload c (qname_of c)) fx)). fold (first_type fx).
  rewrite first_type_map, rs_own by assumption. reflexivity.
Qed.

Lemma rs_index q e fx sp tm ct : Forall RS fx -> RS (Node KIndex q e fx sp tm ct).
Proof.
  intros IH (He & Wfx & _ & Hk) nm sup Hn.
  cbn [reload to_frag]. fold (first_type (map (fun c => reload c (qname_of c)) fx)). fold (first_type fx).
  rewrite first_type_map, rs_own by assumption. reflexivity.
Qed.

Lemma rs_typed (l : list xagg) : Forall RS l -> allP jwf l ->
  map (fun c : xagg => @JObj Xq [("type", JStr (type_name c)); ("data", to_frag c false)])
      (map (fun c => reload c (qname_of c)) l) =
  map (fun c : xagg => @JObj Xq [("type", JStr (type_name c)); ("data", to_frag c false)]) l.
Proof.
  intros HR HW. rewrite map_map. apply map_ext_in. intros c Hc. rewrite Forall_forall in HR.
  apply allP_Forall in HW. rewrite Forall_forall in HW. rewrite reload_type, rs_own_one; auto.
Qed.

Lemma rs_ulabel ks q e fx sp tm ct : Forall RS fx -> RS (Node (KULabel ks) q e fx sp tm ct).
Proof.
  intros IH (He & Wfx & _ & Hk) nm sup Hn. cbn [reload to_frag]. rewrite rs_typed by assumption. reflexivity.
Qed.

Lemma rs_branch q e fx sp tm ct : Forall RS fx -> RS (Node KBranch q e fx sp tm ct).
Proof.
  intros IH (He & Wfx & _ & Hk) nm sup Hn. cbn [reload to_frag]. rewrite rs_typed by assumption. reflexivity.
Qed.

Lemma first_name_inh (l : list xagg) : first_name (map (fun c => reload c (first_name l)) l) = first_name l.
Proof. destruct l as [|c l]; [reflexivity|]. cbn [map first_name]. apply reload_own_name. Qed.

Lemma len_app_sub {A} (vs r : list A) : (List.length (vs ++ r) - List.length r)%nat = List.length vs.
Proof. rewrite app_length. lia. Qed.

Lemma to_frag_bin lo hi q e vs u o n sp tm ct sup : vs <> [] ->
  to_frag (Node (KBin lo hi) q e (vs ++ [u; o; n]) sp tm ct) sup =
  JObj (maybe_add (maybe_add
          [("low", @fnum Xq lo); ("high", fnum hi); ("entries", fnum e);
           ("values:type", JStr (first_type vs)); ("values", JArr (map (fun c => to_frag c true) vs));
           ("underflow:type", JStr (type_name u)); ("underflow", to_frag u false);
           ("overflow:type", JStr (type_name o)); ("overflow", to_frag o false);
           ("nanflow:type", JStr (type_name n)); ("nanflow", to_frag n false)]
          "name" (if sup then None else qname q)) "values:name" (first_name vs)).
Proof.
  intro Hv. cbn [to_frag]. change 3%nat with (List.length [u; o; n]). rewrite len_app_sub.
  rewrite !firstn_map_app, !nth_map_app0, !nth_map_app1, !nth_map_app2.
  change (match vs ++ [u; o; n] with [] => "" | c :: _ => type_name c end) with (first_type (vs ++ [u; o; n])).
  change (match vs ++ [u; o; n] with [] => None | c :: _ => qname_of c end) with (first_name (vs ++ [u; o; n])).
  rewrite first_type_app, first_name_app by exact Hv. reflexivity.
Qed.

Lemma reload_bin lo hi q e vs u o n sp tm ct nm : vs <> [] ->
  reload (Node (KBin lo hi) q e (vs ++ [u; o; n]) sp tm ct) nm =
  Node (KBin lo hi) (frozen_q nm) e
       (map (fun c => reload c (first_name vs)) vs ++
        [reload u (qname_of u); reload o (qname_of o); reload n (qname_of n)]) [] None (first_type vs).
Proof.
  intro Hv. cbn [reload]. change 3%nat with (List.length [u; o; n]). rewrite len_app_sub.
  rewrite firstn_map_app, skipn_map_app, first_name_app, first_type_app by exact Hv. reflexivity.
Qed.

Lemma map_nonnil {A B} (f : A -> B) l : l <> [] -> map f l <> [].
Proof. destruct l; [congruence | discriminate]. Qed.

Lemma Forall_app_l {A} (P : A -> Prop) l r : Forall P (l ++ r) -> Forall P l.
Proof. intro H. apply Forall_app in H. tauto. Qed.
Lemma Forall_app_r {A} (P : A -> Prop) l r x : Forall P (l ++ r) -> In x r -> P x.
Proof. intros H Hx. apply Forall_app in H. destruct H as [_ H]. rewrite Forall_forall in H. auto. Qed.
Lemma allP_app_l {A} (P : A -> Prop) l r : allP P (l ++ r) -> allP P l.
Proof. intro H. apply allP_Forall. apply allP_Forall in H. eapply Forall_app_l. exact H. Qed.
Lemma allP_app_r {A} (P : A -> Prop) l r x : allP P (l ++ r) -> In x r -> P x.
Proof. intros H Hx. apply allP_Forall in H. eapply Forall_app_r; eauto. Qed.

Lemma rs_bin lo hi q e fx sp tm ct : Forall RS fx -> RS (Node (KBin lo hi) q e fx sp tm ct).
Proof.
  intros IH (He & Wfx & _ & Hk) nm sup Hn. cbn [jwf] in Hk. destruct Hk as (Hlh & Hlen & Ht).
  destruct (split_last_n 3 fx ltac:(lia)) as (vs & r & -> & Lvs & Lr).
  destruct r as [|u [|o [|n [|? ?]]]]; try discriminate.
  assert (Hv : vs <> []) by (rewrite app_length in Hlen; cbn in Hlen; destruct vs; [cbn in Hlen; lia | discriminate]).
  rewrite reload_bin, !to_frag_bin by (try apply map_nonnil; exact Hv).
  rewrite (first_type_map vs (fun _ => first_name vs)), first_name_inh, !reload_type.
  rewrite rs_inh by (eauto using Forall_app_l, allP_app_l).
  assert (HRo : forall x, In x [u; o; n] -> RS x /\ jwf x).
  { intros x Hx; split; [eapply (Forall_app_r RS) | eapply (allP_app_r jwf)]; eauto. }
  destruct (HRo u ltac:(cbn; tauto)) as [? ?]. destruct (HRo o ltac:(cbn; tauto)) as [? ?].
  destruct (HRo n ltac:(cbn; tauto)) as [? ?].
  rewrite !rs_own_one by assumption.
  rs_name Hn sup q nm. reflexivity.
Qed.

Lemma to_frag_central (cs : list (T Xq)) q e vs nf sp tm ct sup : vs <> [] -> List.length cs = List.length vs ->
  to_frag (Node (@KCentral Xq cs) q e (vs ++ [nf]) sp tm ct) sup =
  JObj (maybe_add (maybe_add
          [("entries", @fnum Xq e); ("bins:type", JStr (first_type vs));
           ("bins", JArr (map (fun cd : T Xq * xjson => @JObj Xq [("center", @fnum Xq (fst cd)); ("data", snd cd)])
                              (combine cs (map (fun c => to_frag c true) vs))));
           ("nanflow:type", JStr (type_name nf)); ("nanflow", to_frag nf false)]
          "name" (if sup then None else qname q)) "bins:name" (first_name vs)).
Proof.
  intros Hv Lc. cbn [to_frag]. rewrite Lc.
  rewrite !firstn_map_app, !nth_map_app0.
  change (match vs ++ [nf] with [] => "" | c :: _ => type_name c end) with (first_type (vs ++ [nf])).
  change (match vs ++ [nf] with [] => None | c :: _ => qname_of c end) with (first_name (vs ++ [nf])).
  rewrite first_type_app, first_name_app by exact Hv. reflexivity.
Qed.

Lemma reload_central (cs : list (T Xq)) q e vs nf sp tm ct nm : vs <> [] -> List.length cs = List.length vs ->
  reload (Node (@KCentral Xq cs) q e (vs ++ [nf]) sp tm ct) nm =
  Node (KCentral cs) (frozen_q nm) e
       (map (fun c => reload c (first_name vs)) vs ++ [reload nf (qname_of nf)]) [] None (first_type vs).
Proof.
  intros Hv Lc. cbn [reload]. rewrite Lc, firstn_map_app, skipn_map_app, first_name_app, first_type_app by exact Hv.
  reflexivity.
Qed.

Lemma rs_central cs q e fx sp tm ct : Forall RS fx -> RS (Node (KCentral cs) q e fx sp tm ct).
Proof.
  intros IH (He & Wfx & _ & Hk) nm sup Hn. cbn [jwf] in Hk. destruct Hk as (Hcs & Hl & Ht).
  destruct (split_last_n 1 fx ltac:(lia)) as (vs & r & -> & Lvs & Lr).
  destruct r as [|nf [|? ?]]; try discriminate.
  assert (Lc : List.length cs = List.length vs).
  { rewrite app_length in Hl. cbn [List.length] in Hl. rewrite Nat.add_1_r in Hl. injection Hl as Hl. symmetry. exact Hl. }
  rewrite Lc in Hcs.
  assert (Hv : vs <> []) by (intro E; subst vs; cbn in Hcs; lia).
  rewrite reload_central, !to_frag_central by (try apply map_nonnil; try rewrite map_length; assumption).
  rewrite (first_type_map vs (fun _ => first_name vs)), first_name_inh, !reload_type.
  rewrite rs_inh by (eauto using Forall_app_l, allP_app_l).
  assert (Rnf : RS nf) by (eapply (Forall_app_r RS); eauto; left; reflexivity).
  assert (Wnf : jwf nf) by (eapply (allP_app_r jwf); eauto; left; reflexivity).
  rewrite !rs_own_one by assumption.
  rs_name Hn sup q nm. reflexivity.
Qed.

Lemma to_frag_irr (cs : list (T Xq)) q e vs nf sp tm ct sup : vs <> [] -> List.length cs = List.length vs ->
  to_frag (Node (@KIrr Xq cs) q e (vs ++ [nf]) sp tm ct) sup =
  JObj (maybe_add (maybe_add
          [("entries", @fnum Xq e); ("bins:type", JStr (first_type vs));
           ("bins", JArr (map (fun cd : T Xq * xjson => @JObj Xq [("atleast", @fnum Xq (fst cd)); ("data", snd cd)])
                              (combine cs (map (fun c => to_frag c true) vs))));
           ("nanflow:type", JStr (type_name nf)); ("nanflow", to_frag nf false)]
          "name" (if sup then None else qname q)) "bins:name" (first_name vs)).
Proof.
  intros Hv Lc. cbn [to_frag]. rewrite Lc.
  rewrite !firstn_map_app, !nth_map_app0.
  change (match vs ++ [nf] with [] => "" | c :: _ => type_name c end) with (first_type (vs ++ [nf])).
  change (match vs ++ [nf] with [] => None | c :: _ => qname_of c end) with (first_name (vs ++ [nf])).
  rewrite first_type_app, first_name_app by exact Hv. reflexivity.
Qed.

Lemma reload_irr (cs : list (T Xq)) q e vs nf sp tm ct nm : vs <> [] -> List.length cs = List.length vs ->
  reload (Node (@KIrr Xq cs) q e (vs ++ [nf]) sp tm ct) nm =
  Node (KIrr cs) (frozen_q nm) e
       (map (fun c => reload c (first_name vs)) vs ++ [reload nf (qname_of nf)]) [] None (first_type vs).
Proof.
  intros Hv Lc. cbn [reload]. rewrite Lc, firstn_map_app, skipn_map_app, first_name_app, first_type_app by exact Hv.
  reflexivity.
Qed.

Lemma rs_irr cs q e fx sp tm ct : Forall RS fx -> RS (Node (KIrr cs) q e fx sp tm ct).
Proof.
  intros IH (He & Wfx & _ & Hk) nm sup Hn. cbn [jwf] in Hk. destruct Hk as (Hcs & Hl & Ht).
  destruct (split_last_n 1 fx ltac:(lia)) as (vs & r & -> & Lvs & Lr).
  destruct r as [|nf [|? ?]]; try discriminate.
  assert (Lc : List.length cs = List.length vs).
  { rewrite app_length in Hl. cbn [List.length] in Hl. rewrite Nat.add_1_r in Hl. injection Hl as Hl. symmetry. exact Hl. }
  rewrite Lc in Hcs.
  assert (Hv : vs <> []) by (intro E; subst vs; cbn in Hcs; lia).
  rewrite reload_irr, !to_frag_irr by (try apply map_nonnil; try rewrite map_length; assumption).
  rewrite (first_type_map vs (fun _ => first_name vs)), first_name_inh, !reload_type.
  rewrite rs_inh by (eauto using Forall_app_l, allP_app_l).
  assert (Rnf : RS nf) by (eapply (Forall_app_r RS); eauto; left; reflexivity).
  assert (Wnf : jwf nf) by (eapply (allP_app_r jwf); eauto; left; reflexivity).
  rewrite !rs_own_one by assumption.
  rs_name Hn sup q nm. reflexivity.
Qed.

Lemma to_frag_stack (cs : list (T Xq)) q e vs nf sp tm ct sup : vs <> [] -> List.length cs = List.length vs ->
  to_frag (Node (@KStack Xq cs) q e (vs ++ [nf]) sp tm ct) sup =
  JObj (maybe_add (maybe_add
          [("entries", @fnum Xq e); ("bins:type", JStr (first_type vs));
           ("bins", JArr (map (fun cd : T Xq * xjson => @JObj Xq [("atleast", @fnum Xq (fst cd)); ("data", snd cd)])
                              (combine cs (map (fun c => to_frag c true) vs))));
           ("nanflow:type", JStr (type_name nf)); ("nanflow", to_frag nf false)]
          "name" (if sup then None else qname q)) "bins:name" (first_name vs)).
Proof.
  intros Hv Lc. cbn [to_frag]. rewrite Lc.
  rewrite !firstn_map_app, !nth_map_app0.
  change (match vs ++ [nf] with [] => "" | c :: _ => type_name c end) with (first_type (vs ++ [nf])).
  change (match vs ++ [nf] with [] => None | c :: _ => qname_of c end) with (first_name (vs ++ [nf])).
  rewrite first_type_app, first_name_app by exact Hv. reflexivity.
Qed.

Lemma reload_stack (cs : list (T Xq)) q e vs nf sp tm ct nm : vs <> [] -> List.length cs = List.length vs ->
  reload (Node (@KStack Xq cs) q e (vs ++ [nf]) sp tm ct) nm =
  Node (KStack cs) (frozen_q nm) e
       (map (fun c => reload c (first_name vs)) vs ++ [reload nf (qname_of nf)]) [] None (first_type vs).
Proof.
  intros Hv Lc. cbn [reload]. rewrite Lc, firstn_map_app, skipn_map_app, first_name_app, first_type_app by exact Hv.
  reflexivity.
Qed.

Lemma rs_stack cs q e fx sp tm ct : Forall RS fx -> RS (Node (KStack cs) q e fx sp tm ct).
Proof.
  intros IH (He & Wfx & _ & Hk) nm sup Hn. cbn [jwf] in Hk. destruct Hk as (Hcs & Hl & Ht).
  destruct (split_last_n 1 fx ltac:(lia)) as (vs & r & -> & Lvs & Lr).
  destruct r as [|nf [|? ?]]; try discriminate.
  assert (Lc : List.length cs = List.length vs).
  { rewrite app_length in Hl. cbn [List.length] in Hl. rewrite Nat.add_1_r in Hl. injection Hl as Hl. symmetry. exact Hl. }
  rewrite Lc in Hcs.
  assert (Hv : vs <> []) by (intro E; subst vs; cbn in Hcs; lia).
  rewrite reload_stack, !to_frag_stack by (try apply map_nonnil; try rewrite map_length; assumption).
  rewrite (first_type_map vs (fun _ => first_name vs)), first_name_inh, !reload_type.
  rewrite rs_inh by (eauto using Forall_app_l, allP_app_l).
  assert (Rnf : RS nf) by (eapply (Forall_app_r RS); eauto; left; reflexivity).
  assert (Wnf : jwf nf) by (eapply (allP_app_r jwf); eauto; left; reflexivity).
  rewrite !rs_own_one by assumption.
  rs_name Hn sup q nm. reflexivity.
Qed.

Lemma rs_sp (sp : list (key * xagg)) pn : Forall (fun kc => RS (snd kc)) sp -> allP (fun kc => jwf (snd kc)) sp ->
  map (fun kc : key * xagg => (key_str (fst kc), to_frag (snd kc) true))
      (map (fun kc => (fst kc, reload (snd kc) pn)) sp) =
  map (fun kc : key * xagg => (key_str (fst kc), to_frag (snd kc) true)) sp.
Proof.
  intros HR HW. rewrite map_map. apply map_ext_in. intros kc Hc. cbn [fst snd]. rewrite Forall_forall in HR.
  apply allP_Forall in HW. rewrite Forall_forall in HW. rewrite (HR kc Hc (HW kc Hc)) by discriminate. reflexivity.
Qed.

(* names and types of the sparse children after the reload *)
Lemma sp_name_reload (sp : list (key * xagg)) tm ct :
  same_type (sp_type sp tm ct) (map snd sp) -> (forall t, tm = Some t -> type_name t = sp_type sp tm ct) ->
  (sp = [] -> sp_name sp tm = None) ->
  sp_name (map (fun kc => (fst kc, reload (snd kc) (sp_name sp tm))) sp) None = sp_name sp tm.
Proof.
  intros Ht Htm He. destruct sp as [|[k c] sp]; [symmetry; apply He; reflexivity|].
  cbn [map sp_name fst snd]. rewrite reload_qname.
  destruct tm as [t|]; cbn [sp_name].
  - destruct (named c) eqn:E; [reflexivity|]. symmetry. apply qname_of_unnamed.
    rewrite (named_type t c); [exact E|]. rewrite (Htm t eq_refl). reflexivity.
  - destruct (named c) eqn:E; [reflexivity|]. symmetry. apply qname_of_unnamed. exact E.
Qed.

Lemma sp_type_reload (sp : list (key * xagg)) tm ct pn :
  sp_type (map (fun kc => (fst kc, reload (snd kc) pn)) sp) None (sp_type sp tm ct) = sp_type sp tm ct.
Proof. destruct sp as [|[k c] sp]; [reflexivity|]. cbn [map sp_type fst snd]. apply reload_type. Qed.

Lemma rs_sparse bw org q e fx sp tm ct :
  Forall RS fx -> Forall (fun kc => RS (snd kc)) sp -> RS (Node (KSparse bw org) q e fx sp tm ct).
Proof.
  intros IH IHsp (He & Wfx & Wsp & Hk) nm sup Hn. cbn [jwf] in Hk.
  destruct Hk as (Hbw & Hnan & Hl & Hs & Hkeys & Ht & Hempty & Htm & Hreg).
  destruct fx as [|nf [|? ?]]; try discriminate. inversion IH as [|? ? Rnf _]; subst. destruct Wfx as [Wnf _].
  cbn [reload map to_frag nth type_name].
  fold (sp_name sp tm). fold (sp_type sp tm ct).
  fold (sp_name (map (fun kc => (fst kc, reload (snd kc) (sp_name sp tm))) sp) None).
  fold (sp_type (map (fun kc => (fst kc, reload (snd kc) (sp_name sp tm))) sp) None (sp_type sp tm ct)).
  rewrite (sp_name_reload sp tm ct), sp_type_reload, rs_sp, reload_type, rs_own_one by assumption.
  rs_name Hn sup q nm. reflexivity.
Qed.

Lemma rs_cat q e fx sp tm ct : Forall (fun kc => RS (snd kc)) sp -> RS (Node KCat q e fx sp tm ct).
Proof.
  intros IHsp (He & Wfx & Wsp & Hk) nm sup Hn. cbn [jwf] in Hk.
  destruct Hk as (Hs & Hkeys & Ht & Hempty & Htm & Hreg).
  cbn [reload map to_frag nth type_name].
  fold (sp_name sp tm). fold (sp_type sp tm ct).
  fold (sp_name (map (fun kc => (fst kc, reload (snd kc) (sp_name sp tm))) sp) None).
  fold (sp_type (map (fun kc => (fst kc, reload (snd kc) (sp_name sp tm))) sp) None (sp_type sp tm ct)).
  rewrite (sp_name_reload sp tm ct), sp_type_reload, rs_sp by assumption.
  rs_name Hn sup q nm. reflexivity.
Qed.

Theorem reserialise (a : xagg) : RS a.
Proof.
  induction a as [k q s | k q e fx sp tm ct IHfx IHsp _] using agg_ind'.
  - apply rs_leaf.
  - destruct k.
    + apply rs_bin; assumption.
    + apply rs_sparse; assumption.
    + apply rs_central; assumption.
    + apply rs_irr; assumption.
    + apply rs_stack; assumption.
    + apply rs_fraction; assumption.
    + apply rs_select; assumption.
    + apply rs_cat; assumption.
    + apply rs_label; assumption.
    + apply rs_ulabel; assumption.
    + apply rs_index; assumption.
    + apply rs_branch; assumption.
Qed.

(* ================= documents ================= *)
(* Factory.fromJson(h.toJson()) succeeds, yields [reload h], and that tree writes the identical
   document *)
Theorem json_round_trip (a : xagg) fuel : jwf a -> (height a <= fuel)%nat ->
  from_json fuel (to_json a) = Ok (reload a (qname_of a)) /\
  to_json (reload a (qname_of a)) = to_json a.
Proof.
  intros W H. split.
  - unfold to_json, from_json. cbn [has_keys forallb map fst mem_str String.eqb Ascii.eqb Bool.eqb orb andb negb jget].
    change (version_ok spec_version) with (Some true). cbv iota beta. rewrite registered_type.
    rewrite (round_trip a fuel false None H W), pick_none_r. reflexivity.
  - unfold to_json. rewrite reload_type, (reserialise a W (qname_of a) false) by reflexivity. reflexivity.
Qed.
