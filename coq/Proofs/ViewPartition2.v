(* C13: CentrallyBin and IrregularlyBin - the bin a value is filled into is the one whose edges
   (midpoints between neighbouring centres / consecutive thresholds) contain it.  Every instance. *)
From Coq Require Import ZArith List Bool Lia.
From Hgm Require Import NumOps Agg Ops Views ViewFacts.
Import ListNotations.
Local Open Scope num_scope.

Section VP2.
  Context {N : num_ops}.
  Notation T := (T N).

  Definition mid (cs : list T) (j : nat) : T := (nth j cs nnan + nth (S j) cs nnan) / ntwo.

  (* central_index cs x i = i + k where k is the first position (not the last) whose upper midpoint
     exceeds x; all earlier midpoints do not *)
  Lemma central_index_spec (cs : list T) (x : T) : forall i,
    let k := (central_index cs x i - i)%nat in
    (i <= central_index cs x i)%nat /\ (k < Nat.max 1 (List.length cs))%nat /\
    (forall j, (j < k)%nat -> (x <? mid cs j) = false) /\
    ((S k < List.length cs)%nat -> (x <? mid cs k) = true).
  Proof.
    induction cs as [|c1 cs IH]; intro i; cbn zeta.
    - cbn [central_index List.length]. rewrite Nat.sub_diag. repeat split; try lia.
    - destruct cs as [|c2 rest].
      + cbn [central_index List.length]. rewrite Nat.sub_diag. repeat split; try lia.
      + rewrite central_index_cons2. destruct (x <? (c1 + c2) / ntwo) eqn:C.
        * rewrite Nat.sub_diag. split; [lia|]. split; [cbn [List.length]; lia|]. split; [intros j Hj; lia|].
          intros _. exact C.
        * specialize (IH (S i)). cbn zeta in IH. destruct IH as (L & B & Hbefore & Hat).
          set (r := central_index (c2 :: rest) x (S i)) in *.
          assert (E : (r - i = S (r - S i))%nat) by lia.
          split; [lia|]. split; [|split].
          -- rewrite E. cbn [List.length] in *. lia.
          -- intros j Hj. rewrite E in Hj. destruct j as [|j]; [exact C|].
             unfold mid. cbn [nth]. apply (Hbefore j). lia.
          -- intro Hlen. rewrite E. unfold mid. cbn [nth]. apply Hat. cbn [List.length] in *. lia.
  Qed.

  (* IrregularlyBin: irr_index ts x i = Some (i + k): threshold k is at or below x and the next one
     (NaN after the last, so never) is not *)
  Lemma irr_index_spec (ts : list T) (x : T) : forall i r,
    irr_index ts x i = Some r ->
    (i <= r)%nat /\ (r - i < List.length ts)%nat /\
    (nth (r - i) ts nnan <=? x) = true /\
    (match nth_error ts (S (r - i)) with Some t2 => t2 | None => nnan end <=? x) = false.
  Proof.
    induction ts as [|t1 ts IH]; intros i r H; cbn [irr_index] in H; [discriminate|].
    destruct ((t1 <=? x) && negb (match ts with t2 :: _ => t2 | [] => nnan end <=? x)) eqn:C.
    - injection H as <-. rewrite Nat.sub_diag. apply andb_true_iff in C. destruct C as [C1 C2].
      apply negb_true_iff in C2. split; [lia|]. split; [cbn [List.length]; lia|]. split; [exact C1|].
      cbn [nth_error]. destruct ts; exact C2.
    - destruct (IH (S i) r H) as (L & B & H1 & H2).
      assert (E : (r - i = S (r - S i))%nat) by lia. rewrite E.
      split; [lia|]. split; [cbn [List.length]; lia|]. split; [exact H1 | exact H2].
  Qed.
End VP2.
