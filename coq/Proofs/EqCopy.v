(* C09: copy() compares equal to its original (copy = + zero, Algebra.add_zero_r). *)
From Coq Require Import List String Bool.
From Hgm Require Import NumOps Xq Agg Ops Eq Algebra EqFacts.

Corollary eqb_copy (a : agg Xq) : wf a -> all_centers_ok a -> eqb numeq a (copy a) = true.
Proof. intros W C. unfold copy. rewrite (add_zero_r a W). apply eqb_refl. exact C. Qed.
