(* Scaling (exact instance): h * f for a finite positive factor. *)
From Coq Require Import ZArith List String Bool QArith Qcanon Lia Lqa Psatz Sorted.
From Hgm Require Import NumOps Xq Agg Ops XqFacts SL KeyFacts AggInd LeafAlg Algebra.
Import ListNotations.
Local Open Scope Qc_scope.

(* ---- leaves ---- *)
Lemma bag_scale_sorted (f : xq) (l : list (bagkey Xq * xq)) :
  bsorted l -> bsorted (map (fun kc => (fst kc, xmul f (snd kc))) l).
Proof. apply sorted_map. Qed.

Lemma leaf_mul_wf k s f : finpos f -> leaf_wf k s -> leaf_wf k (@leaf_mul Xq k s f).
Proof.
  intros (fq & -> & Hf). destruct s as [e m v vals].
  destruct k; unfold leaf_wf, leaf_mul; xproj; intro H; try tauto.
  - wf_avg H; repeat split; auto; xnorm;
      try (left; split; [first [reflexivity | f_equal; ring] | reflexivity]);
      right; eexists _, _; repeat split; try reflexivity; solve_pos.
  - wf_dev H; repeat split; auto; xnorm;
      try (left; repeat split; first [reflexivity | f_equal; ring]);
      right; eexists _, _, _; repeat split; try reflexivity; solve_pos.
  - destruct H as (-> & -> & S & F). repeat split; auto.
    + apply bag_scale_sorted. exact S.
    + clear S. induction F; simpl; constructor; auto.
Qed.

Lemma leaf_mul_zero k f : finpos f -> @leaf_mul Xq k (leaf_zero k) f = leaf_zero k.
Proof.
  intros (fq & -> & Hf). destruct k; unfold leaf_mul, leaf_zero; xproj; apply lstate_eq; xproj;
    try reflexivity; xnorm; f_equal; ring.
Qed.

Lemma leaf_mul_one k s : @leaf_mul Xq k s (XF 1) = s.
Proof.
  destruct s as [e m v vals]. destruct k; unfold leaf_mul; xproj; apply lstate_eq; xproj;
    try reflexivity; try apply xmul_1_l.
  induction vals as [|[bk c] l IH]; cbn [map fst snd]; auto. f_equal; [|exact IH]. f_equal. apply xmul_1_l.
Qed.

Lemma leaf_mul_mul k s f g : finpos f -> finpos g ->
  @leaf_mul Xq k (@leaf_mul Xq k s f) g = @leaf_mul Xq k s (xmul g f).
Proof.
  intros Hf Hg. destruct s as [e m v vals]. destruct k; unfold leaf_mul; xproj;
    apply lstate_eq; xproj; try reflexivity; try (apply xmul_assoc_fin; assumption).
  rewrite map_map. apply map_ext. intros [bk c]. simpl. f_equal. apply xmul_assoc_fin; assumption.
Qed.

Notation bscale f l := (map (fun kc : bagkey Xq * xq => (fst kc, xmul f (snd kc))) l).

Lemma bscale_lookup f l k : blookup k (bscale f l) = option_map (xmul f) (blookup k l).
Proof. apply (lookup_map (@bag_cmp Xq) (xmul f)). Qed.

Lemma bag_merge_scale f a b : finpos f -> bsorted a -> bsorted b ->
  bscale f (@bag_merge Xq a b) = @bag_merge Xq (bscale f a) (bscale f b).
Proof.
  intros Hf Sa Sb. apply bs_ext.
  - apply bag_scale_sorted. apply bag_merge_sorted; assumption.
  - apply bag_merge_sorted; apply bag_scale_sorted; assumption.
  - intro k. rewrite bscale_lookup. rewrite !bag_merge_lookup; try assumption;
      try (apply bag_scale_sorted; assumption).
    rewrite !bscale_lookup. destruct (blookup k a), (blookup k b); cbn [omerge option_map]; try reflexivity.
    f_equal. apply xmul_add_distr_l. exact Hf.
Qed.

Lemma leaf_mul_add k a b f : finpos f -> leaf_wf k a -> leaf_wf k b ->
  @leaf_mul Xq k (@leaf_add Xq k a b) f = @leaf_add Xq k (@leaf_mul Xq k a f) (@leaf_mul Xq k b f).
Proof.
  intros Hf. pose proof Hf as (fq & -> & Hfq).
  destruct a as [e1 m1 v1 vals1], b as [e2 m2 v2 vals2].
  destruct k; unfold leaf_wf, leaf_mul, leaf_add; xproj; intros Ha Hb.
  - apply lstate_eq; xproj; try reflexivity. apply xmul_add_distr_l; assumption.
  - apply lstate_eq; xproj; try reflexivity; apply xmul_add_distr_l; assumption.
  - wf_avg Ha; wf_avg Hb; apply lstate_eq; xproj; xnorm; xfin.
  - wf_dev Ha; wf_dev Hb; apply lstate_eq; xproj; xnorm; xfin.
  - apply lstate_eq; xproj; try reflexivity. apply xmul_add_distr_l; assumption.
  - apply lstate_eq; xproj; try reflexivity. apply xmul_add_distr_l; assumption.
  - destruct Ha as (-> & -> & Sa & _), Hb as (-> & -> & Sb & _).
    apply lstate_eq; xproj; try reflexivity. apply xmul_add_distr_l; assumption.
    apply bag_merge_scale; assumption.
Qed.

Lemma xmul_2 x : xmul (XF (1 + 1)) x = xadd x x.
Proof.
  destruct x; simpl; try reflexivity.
  f_equal; ring.
Qed.

Lemma minplus_idem x : @minplus Xq x x = x.
Proof.
  unfold minplus; xproj. destruct x; cbn [xisnan andb orb]; try reflexivity.
  rewrite xltb_irrefl. reflexivity.
Qed.
Lemma maxplus_idem x : @maxplus Xq x x = x.
Proof.
  unfold maxplus; xproj. destruct x; cbn [xisnan andb orb]; try reflexivity.
  rewrite xltb_irrefl. reflexivity.
Qed.

Lemma bag_merge_self l : bsorted l -> @bag_merge Xq l l = bscale (XF (1 + 1)) l.
Proof.
  intro S. apply bs_ext.
  - apply bag_merge_sorted; assumption.
  - apply bag_scale_sorted; assumption.
  - intro k. rewrite bag_merge_lookup by assumption. rewrite bscale_lookup.
    destruct (blookup k l); cbn [omerge option_map]; auto. rewrite xmul_2. reflexivity.
Qed.

(* h * 2 = h + h *)
Lemma leaf_mul_two k s : leaf_wf k s ->
  @leaf_mul Xq k s (XF (1 + 1)) = @leaf_add Xq k s s.
Proof.
  destruct s as [e m v vals]. destruct k; unfold leaf_wf, leaf_mul, leaf_add; xproj; intro H.
  - apply lstate_eq; xproj; try reflexivity. apply xmul_2.
  - apply lstate_eq; xproj; try reflexivity; apply xmul_2.
  - wf_avg H; apply lstate_eq; xproj; xnorm; xfin.
  - wf_dev H; apply lstate_eq; xproj; xnorm; xfin.
  - apply lstate_eq; xproj; try reflexivity. apply xmul_2. symmetry; apply minplus_idem.
  - apply lstate_eq; xproj; try reflexivity. apply xmul_2. symmetry; apply maxplus_idem.
  - destruct H as (-> & -> & S & _). apply lstate_eq; xproj; try reflexivity. apply xmul_2.
    symmetry. apply bag_merge_self. exact S.
Qed.

(* ---- fill with a scaled weight ---- *)
Lemma xmul_swap_fin f q w : finpos f -> okw w -> xmul q (xmul f w) = xmul f (xmul q w).
Proof.
  intros (fq & -> & Hf) (wq & -> & Hw). destruct q as [a| | |]; cbn [xmul].
  - f_equal; ring.
  - assert (H : 0 < fq * wq) by (apply Qc_mul_pos; assumption).
    rewrite (qsgn_pos _ H), (qsgn_pos _ Hw). cbn [xinf_signed xmul]. rewrite (qsgn_pos _ Hf).
    reflexivity.
  - assert (H : 0 < fq * wq) by (apply Qc_mul_pos; assumption).
    rewrite (qsgn_pos _ H), (qsgn_pos _ Hw). cbn [xinf_signed xmul]. rewrite (qsgn_pos _ Hf).
    reflexivity.
  - reflexivity.
Qed.

Lemma okw_scale f w : finpos f -> okw w -> okw (xmul f w).
Proof.
  intros (fq & -> & Hf) (wq & -> & Hw). exists (fq * wq). split; [reflexivity|].
  apply Qc_mul_pos; assumption.
Qed.

Lemma bupd_scale f bk w l : finpos f -> bsorted l ->
  bupd bk (fun o => match o with Some c => xadd c (xmul f w) | None => xmul f w end) (bscale f l) =
  bscale f (bupd bk (fun o => match o with Some c => xadd c w | None => w end) l).
Proof.
  intros Hf S. apply bs_ext.
  - apply bs_upd. apply bag_scale_sorted. exact S.
  - apply bag_scale_sorted. apply bs_upd. exact S.
  - intro k. rewrite bscale_lookup. rewrite !bs_lookup_upd; [| exact S | apply bag_scale_sorted; exact S].
    rewrite !bscale_lookup. destruct (bag_cmp k bk); try reflexivity.
    destruct (blookup bk l); cbn [option_map]; try reflexivity.
    rewrite xmul_add_distr_l by assumption. reflexivity.
Qed.

Definition leaf_scalable (k : leafkind) : bool :=
  match k with LCount TSq => false | _ => true end.

Lemma leaf_fill_mul k s v w f s' :
  finpos f -> okw w -> leaf_scalable k = true -> leaf_wf k s -> okv k v ->
  @leaf_fill Xq k s v w = Some s' ->
  @leaf_fill Xq k (@leaf_mul Xq k s f) v (xmul f w) = Some (@leaf_mul Xq k s' f).
Proof.
  intros Hf Hw Hk Hs Hv. pose proof Hf as (fq & Ef & Hfq). pose proof Hw as (wq & Ew & Hwq).
  destruct s as [e m vt vals].
  destruct k; unfold leaf_wf, leaf_fill, leaf_mul, okv in *; xproj.
  - destruct tr; [|discriminate]. cbn [apply_trans]. intro E; inversion E; subst; clear E; xproj.
    f_equal. apply lstate_eq; xproj; try reflexivity.
    rewrite xmul_add_distr_l by assumption. reflexivity.
  - destruct (@as_real Xq v) as [q|]; [|discriminate]. intro E; inversion E; subst; clear E; xproj.
    f_equal. apply lstate_eq; xproj; try reflexivity.
    + rewrite xmul_add_distr_l by assumption. reflexivity.
    + rewrite xmul_add_distr_l by assumption. rewrite xmul_swap_fin by assumption. reflexivity.
  - destruct (@as_real Xq v) as [[q| | |]|]; try contradiction; try discriminate. subst f w.
    wf_avg Hs; xnorm;
      rewrite ?mean_step_empty, ?mean_step_pos by solve_pos;
      intro E; inversion E; subst; clear E; xproj; xnorm;
      rewrite ?mean_step_empty, ?mean_step_pos by solve_pos;
      f_equal; apply lstate_eq; xproj; xnorm; xfin.
  - destruct (@as_real Xq v) as [[q| | |]|]; try contradiction; try discriminate. subst f w.
    wf_dev Hs; xnorm;
      rewrite ?mean_step_empty, ?mean_step_pos by solve_pos;
      intro E; inversion E; subst; clear E; xproj; xnorm;
      rewrite ?mean_step_empty, ?mean_step_pos by solve_pos;
      f_equal; apply lstate_eq; xproj; xnorm; xfin.
  - destruct (@as_real Xq v) as [q|]; [|discriminate]. intro E; inversion E; subst; clear E; xproj.
    f_equal. apply lstate_eq; xproj; try reflexivity.
    rewrite xmul_add_distr_l by assumption. reflexivity.
  - destruct (@as_real Xq v) as [q|]; [|discriminate]. intro E; inversion E; subst; clear E; xproj.
    f_equal. apply lstate_eq; xproj; try reflexivity.
    rewrite xmul_add_distr_l by assumption. reflexivity.
  - destruct Hs as (-> & -> & S & _).
    destruct r.
    + destruct v; try discriminate. intro E; inversion E; subst; clear E; xproj.
      f_equal. apply lstate_eq; xproj; try reflexivity.
      * rewrite xmul_add_distr_l by assumption. reflexivity.
      * apply bupd_scale; assumption.
    + destruct (@as_real Xq v) as [q|]; [|discriminate].
      intro E; inversion E; subst; clear E; xproj.
      f_equal. apply lstate_eq; xproj; try reflexivity.
      * rewrite xmul_add_distr_l by assumption. reflexivity.
      * apply bupd_scale; assumption.
    + destruct v; try discriminate. destruct (Nat.eqb _ _); [|discriminate].
      intro E; inversion E; subst; clear E; xproj.
      f_equal. apply lstate_eq; xproj; try reflexivity.
      * rewrite xmul_add_distr_l by assumption. reflexivity.
      * apply bupd_scale; assumption.
Qed.

(* ================= trees ================= *)
Notation kscale f l := (map (fun kc : key * xagg => (fst kc, mul_t (snd kc) f)) l).

Lemma same_mul (a : xagg) f : zero (mul_t a f) = zero a.
Proof.
  induction a as [k q s | k q e fx sp tm ct IHfx _ _] using agg_ind'; simpl; auto.
  f_equal. rewrite map_map. apply map_ext_in. intros c Hc. rewrite Forall_forall in IHfx.
  apply IHfx. exact Hc.
Qed.

Lemma mul_zero (a : xagg) f : finpos f -> mul_t (zero a) f = zero a.
Proof.
  intro Hf. induction a as [k q s | k q e fx sp tm ct IHfx _ _] using agg_ind'; simpl.
  - f_equal. apply leaf_mul_zero. exact Hf.
  - f_equal.
    + destruct Hf as (fq & -> & _). simpl. f_equal. ring.
    + rewrite map_map. apply map_ext_in. intros c Hc. rewrite Forall_forall in IHfx.
      apply IHfx. exact Hc.
Qed.

Lemma wf_mul (a : xagg) f : finpos f -> wf a -> wf (mul_t a f).
Proof.
  intro Hf. induction a as [k q s | k q e fx sp tm ct IHfx IHsp _] using agg_ind'; simpl.
  - apply leaf_mul_wf. exact Hf.
  - intros (Wfx & Wsp & Ssp & Tsp). repeat split.
    + apply allP_Forall. apply allP_Forall in Wfx. rewrite Forall_forall in *.
      intros c Hc. apply in_map_iff in Hc. destruct Hc as (c0 & <- & Hc0). apply IHfx; auto.
    + apply allP_Forall. apply allP_Forall in Wsp. rewrite Forall_forall in *.
      intros kc Hc. apply in_map_iff in Hc. destruct Hc as (kc0 & <- & Hc0). simpl.
      apply IHsp; auto.
    + apply (sorted_map key_cmp (fun c : xagg => @mul_t Xq c f)). exact Ssp.
    + destruct tm as [t|].
      * apply allP_Forall. apply allP_Forall in Tsp. rewrite Forall_forall in *.
        intros kc Hc. apply in_map_iff in Hc. destruct Hc as (kc0 & <- & Hc0). simpl.
        rewrite same_mul. apply Tsp. exact Hc0.
      * subst. reflexivity.
Qed.

Lemma mul_one (a : xagg) : mul_t a (XF 1) = a.
Proof.
  induction a as [k q s | k q e fx sp tm ct IHfx IHsp _] using agg_ind'; simpl.
  - f_equal. apply leaf_mul_one.
  - f_equal.
    + apply xmul_1_l.
    + rewrite <- (map_id' fx) at 2. apply map_ext_in. intros c Hc. rewrite Forall_forall in IHfx.
      apply IHfx. exact Hc.
    + rewrite <- (map_id' sp) at 2. apply map_ext_in. intros [k0 c] Hc.
      rewrite Forall_forall in IHsp. simpl. f_equal. apply (IHsp (k0, c) Hc).
Qed.

Lemma mul_mul (a : xagg) f g : finpos f -> finpos g ->
  mul_t (mul_t a f) g = mul_t a (xmul g f).
Proof.
  intros Hf Hg. induction a as [k q s | k q e fx sp tm ct IHfx IHsp _] using agg_ind'; simpl.
  - f_equal. apply leaf_mul_mul; assumption.
  - f_equal.
    + apply xmul_assoc_fin; assumption.
    + rewrite map_map. apply map_ext_in. intros c Hc. rewrite Forall_forall in IHfx.
      apply IHfx. exact Hc.
    + rewrite map_map. apply map_ext_in. intros [k0 c] Hc. rewrite Forall_forall in IHsp.
      simpl. f_equal. apply (IHsp (k0, c) Hc).
Qed.

Definition ks_lookup_map (g : xagg -> xagg) l k :=
  lookup_map (V:=xagg) key_cmp g l k.
Definition ks_sorted_map (g : xagg -> xagg) l := sorted_map (V:=xagg) key_cmp g l.

Lemma mul_add (a : xagg) f : finpos f -> forall b, same a b -> wf a -> wf b ->
  mul_t (add_t a b) f = add_t (mul_t a f) (mul_t b f).
Proof.
  intro Hf. induction a as [k q s | k q e fx sp tm ct IHfx IHsp _] using agg_ind';
    intros b S Wa Wb.
  - apply same_leaf_inv in S. destruct S as [s' ->]. simpl in *. f_equal.
    apply leaf_mul_add; assumption.
  - apply same_node_inv' in S. destruct S as (e' & fx' & sp' & -> & Efx). simpl in *.
    destruct Wa as (Wfx & Wsp & Ssp & Tsp), Wb as (Wfx' & Wsp' & Ssp' & Tsp').
    pose proof (sparse_common _ _ _ Wsp Wsp' Tsp Tsp') as Hcommon.
    f_equal.
    + apply xmul_add_distr_l. exact Hf.
    + clear -IHfx Wfx Wfx' Efx. revert fx' Wfx' Efx.
      induction fx as [|x fx IH]; intros [|y fx'] Wfx' E; simpl in *; try discriminate; auto.
      inversion IHfx; subst. inversion E. destruct Wfx, Wfx'. f_equal; auto.
    + apply ks_ext.
      * apply (ks_sorted_map (fun c => @mul_t Xq c f)). apply ks_sorted_merge; assumption.
      * apply ks_sorted_merge; apply (ks_sorted_map (fun c => @mul_t Xq c f)); assumption.
      * intro k0. rewrite (ks_lookup_map (fun c => @mul_t Xq c f)).
        rewrite !ks_lookup_merge; try assumption;
          try (apply (ks_sorted_map (fun c => @mul_t Xq c f)); assumption).
        rewrite !(ks_lookup_map (fun c => @mul_t Xq c f)).
        destruct (klookup k0 sp) as [x|] eqn:Lx, (klookup k0 sp') as [y|] eqn:Ly;
          cbn [omerge option_map]; try reflexivity.
        f_equal. apply lookup_in in Lx; [|exact key_cmp_eq]. apply lookup_in in Ly; [|exact key_cmp_eq].
        destruct (Hcommon k0 x y Lx Ly) as (Sxy & Wx & Wy).
        rewrite Forall_forall in IHsp. apply (IHsp (k0, x) Lx); assumption.
Qed.

Lemma mul_two (a : xagg) : wf a -> mul_t a (XF (1 + 1)) = add_t a a.
Proof.
  induction a as [k q s | k q e fx sp tm ct IHfx IHsp _] using agg_ind'; simpl.
  - intro W. f_equal. apply leaf_mul_two. exact W.
  - intros (Wfx & Wsp & Ssp & Tsp). f_equal.
    + apply xmul_2.
    + clear -IHfx Wfx. induction fx as [|x fx IH]; simpl in *; auto.
      inversion IHfx; subst. destruct Wfx. f_equal; auto.
    + apply ks_ext.
      * apply (ks_sorted_map (fun c => @mul_t Xq c (XF (1 + 1)))). assumption.
      * apply ks_sorted_merge; assumption.
      * intro k0. rewrite (ks_lookup_map (fun c => @mul_t Xq c (XF (1 + 1)))).
        rewrite ks_lookup_merge by assumption.
        destruct (klookup k0 sp) as [x|] eqn:Lx; cbn [omerge option_map]; try reflexivity.
        f_equal. apply lookup_in in Lx; [|exact key_cmp_eq].
        apply allP_Forall in Wsp. rewrite Forall_forall in IHsp, Wsp.
        apply (IHsp (k0, x) Lx). apply (Wsp (k0, x) Lx).
Qed.

(* ---- fill with every weight multiplied by f ---- *)
Lemma pos_scale f y : finpos f -> @pos Xq (xmul f y) = @pos Xq y.
Proof.
  intros (fq & -> & Hf). unfold pos; xproj. destruct y as [r| | |]; cbn [xmul]; try reflexivity.
  - unfold xltb. destruct (0 ?= r) eqn:E; cmp_hyps.
    + subst. replace (fq * 0) with 0 by ring. rewrite Qc_cmp_refl. reflexivity.
    + assert (H : 0 < fq * r) by (apply Qc_mul_pos; assumption). apply Qc_cmp_lt in H.
      rewrite H. reflexivity.
    + assert (H : fq * r < 0) by (qc2q; nra). apply Qc_cmp_gt in H. rewrite H. reflexivity.
  - rewrite (qsgn_pos _ Hf). reflexivity.
  - rewrite (qsgn_pos _ Hf). reflexivity.
Qed.

Definition wscale (f : T Xq) (o : option (T Xq)) : option (T Xq) := option_map (xmul f) o.
Definition rscale (f : T Xq) (r : @routed Xq) : @routed Xq :=
  match r with
  | RErr => @RErr Xq
  | RTo ws sk =>
      @RTo Xq (map (wscale f) ws)
           (match sk with Some (k, w') => Some (k, xmul f w') | None => None end)
  end.

Lemma only_scale f n i w : @only Xq n i (xmul f w) = map (wscale f) (@only Xq n i w).
Proof.
  unfold only. rewrite map_map. apply map_ext. intro j. destruct (Nat.eqb j i); reflexivity.
Qed.

Lemma route_scale (k : nodekind Xq) n v w f : finpos f -> okw w ->
  route k n v (xmul f w) = rscale f (route k n v w).
Proof.
  intros Hf Hw. destruct k; cbn [route].
  - destruct (@as_real Xq v) as [x|]; [|reflexivity].
    destruct (nisnan x); [cbn [rscale]; rewrite only_scale; reflexivity|].
    destruct (nltb x low); [cbn [rscale]; rewrite only_scale; reflexivity|].
    destruct (nleb high x); [cbn [rscale]; rewrite only_scale; reflexivity|].
    destruct (nfloor _) as [i|]; [|reflexivity].
    match goal with |- context [if ?c then _ else _] => destruct c end; [|reflexivity].
    cbn [rscale]; rewrite only_scale; reflexivity.
  - destruct (@as_real Xq v) as [x|]; [|reflexivity].
    destruct (nisnan x); [reflexivity|].
    destruct (nleb _ _); [reflexivity|]. destruct (nleb _ _); [reflexivity|].
    destruct (nfloor _); reflexivity.
  - destruct (@as_real Xq v) as [x|]; [|reflexivity].
    destruct (nisnan x); cbn [rscale]; rewrite only_scale; reflexivity.
  - destruct (@as_real Xq v) as [x|]; [|reflexivity].
    destruct (nisnan x); [cbn [rscale]; rewrite only_scale; reflexivity|].
    destruct (irr_index ths x 0); cbn [rscale].
    + rewrite only_scale; reflexivity.
    + rewrite map_map. reflexivity.
  - destruct (@as_real Xq v) as [x|]; [|reflexivity].
    destruct (nisnan x); [cbn [rscale]; rewrite only_scale; reflexivity|].
    cbn [rscale]. rewrite map_app, map_map. f_equal. f_equal.
    apply map_ext. intro t. destruct (nleb t x); reflexivity.
  - destruct (@as_real Xq v) as [x|]; [|reflexivity].
    cbv zeta. cbn [rscale map wscale option_map]. xproj.
    rewrite (xmul_swap_fin f x w Hf Hw).
    pose proof (pos_scale f (xmul x w) Hf) as P. unfold pos in P. cbn [Xq nltb nzero] in P.
    rewrite P. destruct (xltb (XF 0) (xmul x w)); reflexivity.
  - destruct (@as_real Xq v) as [x|]; [|reflexivity].
    cbv zeta. cbn [rscale map wscale option_map]. xproj.
    rewrite (xmul_swap_fin f x w Hf Hw).
    pose proof (pos_scale f (xmul x w) Hf) as P. unfold pos in P. cbn [Xq nltb nzero] in P.
    rewrite P. destruct (xltb (XF 0) (xmul x w)); reflexivity.
  - destruct v as [x|s|b| |l]; try reflexivity. destruct (nisnan x); reflexivity.
  - cbn [rscale]. rewrite map_map. reflexivity.
  - cbn [rscale]. rewrite map_map. reflexivity.
  - cbn [rscale]. rewrite map_map. reflexivity.
  - cbn [rscale]. rewrite map_map. reflexivity.
Qed.

(* no Count with a non-identity transform anywhere (Count refuses to be scaled there) *)
Fixpoint sc (a : xagg) : Prop :=
  match a with
  | Leaf k _ _ => leaf_scalable k = true
  | Node _ _ _ fx sp tm _ =>
      allP sc fx /\ allP (fun kc => sc (snd kc)) sp /\
      match tm with Some t => sc t | None => True end
  end.

Lemma sc_zero (a : xagg) : sc a -> sc (zero a).
Proof.
  induction a as [k q s | k q e fx sp tm ct IHfx _ _] using agg_ind'; simpl; auto.
  intros (Hfx & _ & Ht). repeat split; auto.
  apply allP_Forall. apply allP_Forall in Hfx. rewrite Forall_forall in *.
  intros c Hc. apply in_map_iff in Hc. destruct Hc as (c0 & <- & Hc0). apply IHfx; auto.
Qed.

Lemma flist_mul (g : xagg -> xq -> xagg * outcome) f d (spec : list xagg) :
  finpos f ->
  Forall (fun c => forall a w a', same a c -> wf a -> okw w -> okd a d -> sc a ->
                                  g a w = (a', Done) ->
                                  g (mul_t a f) (xmul f w) = (mul_t a' f, Done)) spec ->
  forall l ws l',
  Forall2 same l spec -> allP wf l -> allP (fun c => okd c d) l -> allP sc l -> Forall okwo ws ->
  flist g (fun c => c) ws l = (l', Done) ->
  flist g (fun c => c) (map (wscale f) ws) (map (fun c : xagg => @mul_t Xq c f) l) =
  (map (fun c : xagg => @mul_t Xq c f) l', Done).
Proof.
  intros Hf IH. induction IH as [|c spec Hc IHspec IHl]; intros l ws l' F W O S Fw E.
  - inversion F; subst. rewrite (flist_nil g (fun c => c) ws) in E. inversion E; subst.
    cbn [map]. apply flist_nil.
  - inversion F as [|x ? l0 ? Sx F']; subst. destruct W as [Wx W], O as [Ox O], S as [Sc S].
    cbn [map]. destruct ws as [|[w|] ws]; cbn [map wscale option_map].
    + rewrite flist_nows_id in E. inversion E; subst. cbn [map]. apply flist_nows_id.
    + inversion Fw as [|? ? Hw Fw']; subst. rewrite flist_some in *.
      destruct (g x w) as [x' o] eqn:Ex. destruct o; [|discriminate].
      rewrite (Hc x w x' Sx Wx Hw Ox Sc Ex).
      destruct (flist g (fun c => c) ws l0) as [l'' o'] eqn:El. inversion E; subst.
      rewrite (IHl l0 ws l'' F' W O S Fw' El). reflexivity.
    + inversion Fw as [|? ? Hw Fw']; subst. rewrite flist_none in *.
      destruct (flist g (fun c => c) ws l0) as [l'' o'] eqn:El. inversion E; subst.
      rewrite (IHl l0 ws l'' F' W O S Fw' El). reflexivity.
Qed.

Lemma kupd_scale f (k1 : key) (c : xagg) (sp : list (key * xagg)) : ksorted sp ->
  kupd k1 (fun _ => mul_t c f) (kscale f sp) = kscale f (kupd k1 (fun _ => c) sp).
Proof.
  intro S. apply ks_ext.
  - apply ks_upd. apply (ks_sorted_map (fun c => @mul_t Xq c f)). exact S.
  - apply (ks_sorted_map (fun c => @mul_t Xq c f)). apply ks_upd. exact S.
  - intro k0. rewrite (ks_lookup_map (fun c => @mul_t Xq c f)).
    rewrite !ks_lookup_upd; [| exact S | apply (ks_sorted_map (fun c => @mul_t Xq c f)); exact S].
    rewrite (ks_lookup_map (fun c => @mul_t Xq c f)).
    destruct (key_cmp k0 k1); reflexivity.
Qed.

Lemma sc_node_inv k q e fx sp tm ct :
  sc (Node k q e fx sp tm ct) ->
  allP sc fx /\ allP (fun kc => sc (snd kc)) sp /\ match tm with Some t => sc t | None => True end.
Proof. simpl. tauto. Qed.

Lemma fill_mul_gen f (spec : xagg) : finpos f -> forall a d w a',
  same a spec -> wf a -> okw w -> okd a d -> sc a ->
  fill a d w = (a', Done) -> fill (mul_t a f) d (xmul f w) = (mul_t a' f, Done).
Proof.
  intro Hf. induction spec as [k q s | k q e fx sp tm ct IHfx _ IHtm] using agg_ind';
    intros a d w a' Sa Wa Hw Oa Ca E.
  - apply same_sym in Sa. apply same_leaf_inv in Sa. destruct Sa as [sa ->].
    unfold fill in *. cbn [fillz mul_t] in *.
    rewrite (okw_pos _ (okw_scale f w Hf Hw)). rewrite (okw_pos w Hw) in E. cbn [negb] in *.
    simpl in Oa, Wa, Ca.
    destruct k.
    + destruct (leaf_fill (LCount tr) sa VNone w) as [sa'|] eqn:El; [|discriminate].
      inversion E; subst.
      rewrite (leaf_fill_mul (LCount tr) sa VNone w f sa' Hf Hw Ca Wa I El). reflexivity.
    + destruct (qfn q d) as [v|]; [|discriminate].
      destruct (leaf_fill LSum sa v w) as [sa'|] eqn:El; [|discriminate]. inversion E; subst.
      rewrite (leaf_fill_mul LSum sa v w f sa' Hf Hw Ca Wa I El). reflexivity.
    + destruct (qfn q d) as [v|]; [|discriminate].
      destruct (leaf_fill LAverage sa v w) as [sa'|] eqn:El; [|discriminate]. inversion E; subst.
      rewrite (leaf_fill_mul LAverage sa v w f sa' Hf Hw Ca Wa Oa El). reflexivity.
    + destruct (qfn q d) as [v|]; [|discriminate].
      destruct (leaf_fill LDeviate sa v w) as [sa'|] eqn:El; [|discriminate]. inversion E; subst.
      rewrite (leaf_fill_mul LDeviate sa v w f sa' Hf Hw Ca Wa Oa El). reflexivity.
    + destruct (qfn q d) as [v|]; [|discriminate].
      destruct (leaf_fill LMin sa v w) as [sa'|] eqn:El; [|discriminate]. inversion E; subst.
      rewrite (leaf_fill_mul LMin sa v w f sa' Hf Hw Ca Wa I El). reflexivity.
    + destruct (qfn q d) as [v|]; [|discriminate].
      destruct (leaf_fill LMax sa v w) as [sa'|] eqn:El; [|discriminate]. inversion E; subst.
      rewrite (leaf_fill_mul LMax sa v w f sa' Hf Hw Ca Wa I El). reflexivity.
    + destruct (qfn q d) as [v|]; [|discriminate].
      destruct (leaf_fill (LBag r) sa v w) as [sa'|] eqn:El; [|discriminate]. inversion E; subst.
      rewrite (leaf_fill_mul (LBag r) sa v w f sa' Hf Hw Ca Wa I El). reflexivity.
  - apply same_sym in Sa. apply same_node_inv' in Sa.
    destruct Sa as (ea & fxa & spa & -> & Efa).
    apply map_zero_Forall2 in Efa. apply Forall2_same_sym in Efa.
    apply okd_node_inv in Oa. destruct Oa as (Ok & Ofx & Osp & Otm).
    apply sc_node_inv in Ca. destruct Ca as (Cfx & Csp & Ctm).
    cbn [wf] in Wa. destruct Wa as (Wfa & Wspa & Sspa & Tspa).
    cbn [mul_t]. rewrite fill_Node in *.
    rewrite (okw_pos _ (okw_scale f w Hf Hw)). rewrite (okw_pos w Hw) in E. cbn [negb] in *.
    rewrite map_length.
    destruct (if has_quantity k then qfn q d else QV VNone) as [v|] eqn:Eq; [|discriminate].
    rewrite (route_scale k _ v w f Hf Hw).
    destruct (route k (List.length fxa) v w) as [|ws sk] eqn:Er; [discriminate|].
    destruct (route_okw k _ v w ws sk Hw (hasq_route_cond _ _ _ _ Eq Ok) Er) as [Fws Hsk].
    cbn [rscale].
    destruct (fill_list (fun c w' => fill c d w') (fun c => c) ws fxa) as [fxa' o1] eqn:Efl.
    destruct o1; [|discriminate].
    assert (Efl' : fill_list (fun c w' => fill c d w') (fun c => c) (map (wscale f) ws)
                             (map (fun c : xagg => @mul_t Xq c f) fxa) =
                   (map (fun c : xagg => @mul_t Xq c f) fxa', Done)).
    { apply (flist_mul _ f d fx); auto.
      rewrite Forall_forall in *. intros c Hc a0 w0 a0' Sa0 Wa0 Hw0 Oa0 Ca0 E0.
      apply (IHfx c Hc a0 d w0 a0'); assumption. }
    rewrite Efl'.
    destruct sk as [[key w']|].
    2:{ inversion E; subst. cbn [mul_t]. rewrite xmul_add_distr_l by assumption. reflexivity. }
    rewrite (ks_lookup_map (fun c => @mul_t Xq c f)).
    apply allP_Forall in Wspa, Osp, Csp.
    destruct (klookup key spa) as [y|] eqn:Ly; cbn [option_map].
    + pose proof Ly as Iy. apply lookup_in in Iy; [|exact key_cmp_eq].
      destruct tm as [t|]; [|subst spa; destruct Iy].
      apply allP_Forall in Tspa.
      pose proof (in_snd_Forall (fun c => zero c = zero t) _ _ _ Tspa Iy) as Zy.
      pose proof (in_snd_Forall wf _ _ _ Wspa Iy) as Wy.
      pose proof (in_snd_Forall (fun c => okd c d) _ _ _ Osp Iy) as Oy.
      pose proof (in_snd_Forall sc _ _ _ Csp Iy) as Cy.
      destruct (fill y d w') as [y' o] eqn:Ey. destruct o; [|discriminate].
      rewrite (IHtm t eq_refl y d w' y' Zy Wy Hsk Oy Cy Ey).
      inversion E; subst. cbn [mul_t]. rewrite kupd_scale by assumption.
      rewrite xmul_add_distr_l by assumption. reflexivity.
    + destruct tm as [t|]; [|discriminate].
      destruct (fill (zero t) d w') as [c' o] eqn:Ec. destruct o; [|discriminate].
      pose proof (IHtm t eq_refl (zero t) d w' c' (same_zero t) (wf_zero t) Hsk
                       (okd_zero t d Otm) (sc_zero t Ctm) Ec) as Hc.
      rewrite (mul_zero t f Hf) in Hc. rewrite Hc.
      inversion E; subst. cbn [mul_t]. rewrite kupd_scale by assumption.
      rewrite xmul_add_distr_l by assumption. reflexivity.
Qed.

Lemma sc_of_spec (spec : xagg) : forall a, same a spec -> wf a -> sc (zero spec) -> sc a.
Proof.
  induction spec as [k q s | k q e fx sp tm ct IHfx _ IHtm] using agg_ind'; intros a S W C.
  - apply same_sym in S. apply same_leaf_inv in S. destruct S as [s' ->]. exact C.
  - apply same_sym in S. apply same_node_inv' in S. destruct S as (e' & fx' & sp' & -> & Efx).
    apply map_zero_Forall2 in Efx. cbn [zero] in C. apply sc_node_inv in C.
    destruct C as (Cfx & _ & Ctm). cbn [wf] in W. destruct W as (Wfx & Wsp & _ & Tsp).
    cbn [sc]. repeat split; auto.
    + clear -IHfx Efx Wfx Cfx. revert Wfx Cfx. induction Efx as [|c x fx fx' Scx F IH]; intros W C.
      * exact I.
      * inversion IHfx; subst. destruct W as [Wx W]. cbn [map allP] in C. destruct C as [Cc C].
        split; auto. apply H1; auto. apply same_sym; auto.
    + destruct tm as [t|].
      * apply allP_Forall. apply allP_Forall in Wsp, Tsp. rewrite Forall_forall in *.
        intros [k0 c] Hc. simpl. apply (IHtm t eq_refl).
        -- apply (Tsp _ Hc).
        -- apply (Wsp _ Hc).
        -- apply sc_zero. exact Ctm.
      * subst. exact I.
Qed.

(* ---- the checked operation ---- *)
Lemma finpos_gate f : finpos f -> (@nisnan Xq f || @nleb Xq f (@nzero Xq)) = false.
Proof.
  intros (fq & -> & Hf). xproj. cbn [xisnan orb]. unfold xleb, xltb, xeqb.
  rewrite (Qc_cmp_antisym 0 fq). apply Qc_cmp_lt in Hf. rewrite Hf. reflexivity.
Qed.

Lemma mul_pos (a : xagg) f : finpos f -> scalable a = true -> mul a f = Ok (mul_t a f).
Proof. intros Hf Hs. unfold mul. rewrite (finpos_gate f Hf), Hs. reflexivity. Qed.

Lemma mul_refuses (a : xagg) f : finpos f -> scalable a = false -> mul a f = Err.
Proof. intros Hf Hs. unfold mul. rewrite (finpos_gate f Hf), Hs. reflexivity. Qed.

Definition is_tcount (a : xagg) : bool :=
  match a with Leaf (LCount TSq) _ _ => true | _ => false end.

Lemma mul_nonpos (a : xagg) f :
  (@nisnan Xq f || @nleb Xq f (@nzero Xq)) = true -> is_tcount a = false ->
  mul a f = Ok (zero a).
Proof.
  intros Hf Ha. unfold mul. rewrite Hf. destruct a as [k q s|]; [|reflexivity].
  destruct k as [[|]| | | | | |]; try reflexivity. discriminate.
Qed.
