(* C02, leaves (exact instance): what a stream of finite data with positive weights leaves in a
   Count, Sum, Average and Deviate - the sum of weights, the weighted sum, the weighted mean and the
   weighted sum of squared deviations from it. *)
From Coq Require Import ZArith List Bool Lia QArith Qcanon Lqa Psatz Field.
From Hgm Require Import NumOps Xq Agg Ops XqFacts LeafAlg.
Import ListNotations.
Local Open Scope Qc_scope.

(* a row: (quantity, weight), both finite; the weight positive *)
Definition rows := list (Qc * Qc).
Definition pos_rows (rs : rows) : Prop := Forall (fun qw => 0 < snd qw) rs.

Fixpoint sw (rs : rows) : Qc := match rs with [] => 0 | (_, w) :: r => w + sw r end.
Fixpoint swq (rs : rows) : Qc := match rs with [] => 0 | (q, w) :: r => w * q + swq r end.
Fixpoint swqq (rs : rows) : Qc := match rs with [] => 0 | (q, w) :: r => w * q * q + swqq r end.

(* the leaf filled row by row *)
Definition lfills (k : leafkind) (s : leafstate Xq) (rs : rows) : leafstate Xq :=
  fold_left (fun st (qw : Qc * Qc) => match @leaf_fill Xq k st (@VNum Xq (XF (fst qw))) (XF (snd qw)) with
                          | Some st' => st' | None => st end) rs s.

Definition mkst (e m v : xq) : leafstate Xq := @Build_leafstate Xq e m v [].

Lemma lfills_cons k s (q w : Qc) rs :
  lfills k s ((q, w) :: rs) =
  lfills k (match @leaf_fill Xq k s (@VNum Xq (XF q)) (XF w) with Some st' => st' | None => s end) rs.
Proof. reflexivity. Qed.

Lemma sw_pos rs : pos_rows rs -> rs <> [] -> 0 < sw rs.
Proof.
  induction 1 as [|[q w] rs Hw _ IH]; [congruence|]. intros _. cbn [sw snd] in *.
  destruct rs as [|x rs]; [cbn; qc2q; simpl in *; lra|].
  assert (0 < sw (x :: rs)) by (apply IH; discriminate). qc2q. simpl in *. lra.
Qed.

(* ---- Count, Sum ---- *)
Theorem count_denote (rs : rows) : forall s,
  le (lfills (LCount TId) s rs) = xadd (le s) (XF (sw rs)).
Proof.
  induction rs as [|[q w] rs IH]; intro s.
  - cbn [lfills fold_left sw]. destruct (le s); cbn; try reflexivity. f_equal. ring.
  - rewrite lfills_cons, IH. cbn [leaf_fill apply_trans le sw].
    destruct (le s); cbn; try reflexivity. f_equal. ring.
Qed.

Theorem sum_denote (rs : rows) : forall e0 s0,
  let s := lfills LSum (mkst (XF e0) (XF s0) (XF 0)) rs in
  le s = XF (e0 + sw rs) /\ l1 s = XF (s0 + swq rs).
Proof.
  unfold mkst. induction rs as [|[q w] rs IH]; intros e0 s0.
  - cbn [lfills fold_left sw swq le l1]. split; apply f_equal; ring.
  - rewrite lfills_cons. cbn [sw swq leaf_fill as_real le l1 l2 lv].
    change (@nadd Xq (XF e0) (XF w)) with (XF (e0 + w)).
    change (@nadd Xq (XF s0) (@nmul Xq (XF q) (XF w))) with (XF (s0 + q * w)).
    destruct (IH (e0 + w) (s0 + q * w)) as [H1 H2]. cbn zeta in H1, H2. rewrite H1, H2.
    split; apply f_equal; ring.
Qed.

(* ---- Average: entries * mean = sum of weight * quantity ---- *)
Lemma avg_step e m q w : 0 < e -> 0 < w ->
  (e + w) * (m + (q - m) * w / (e + w)) = e * m + w * q.
Proof. intros He Hw. field. apply Qc_pos_neq0. qc2q. simpl in *. lra. Qed.

Lemma avg_run (rs : rows) : forall e m, 0 < e -> pos_rows rs ->
  exists m',
    lfills LAverage (mkst (XF e) (XF m) (XF 0)) rs =
    (mkst (XF (e + sw rs)) (XF m') (XF 0)) /\
    (e + sw rs) * m' = e * m + swq rs.
Proof.
  unfold mkst. induction rs as [|[q w] rs IH]; intros e m He Hp.
  - exists m. cbn [lfills fold_left sw swq]. split; [|ring].
    replace (e + 0) with e by ring. reflexivity.
  - inversion Hp as [|? ? Hw Hp']; subst. cbn [snd] in Hw.
    rewrite lfills_cons.
    cbn [leaf_fill as_real le l1 l2 lv]. rewrite (mean_step_pos e m q w He Hw).
    assert (He' : 0 < e + w) by (qc2q; simpl in *; lra).
    destruct (IH (e + w) (m + (q - m) * w / (e + w)) He' Hp') as (m' & E & Hm).
    exists m'. rewrite E. cbn [sw swq]. split; [replace (e + w + sw rs) with (e + (w + sw rs)) by ring; reflexivity|].
    rewrite (avg_step e m q w He Hw) in Hm.
    replace (e + (w + sw rs)) with (e + w + sw rs) by ring. rewrite Hm. ring.
Qed.

Theorem average_denote (rs : rows) :
  pos_rows rs -> rs <> [] ->
  exists m,
    lfills LAverage (leaf_zero LAverage) rs = (mkst (XF (sw rs)) (XF m) (XF 0)) /\
    sw rs * m = swq rs.
Proof.
  unfold mkst. intros Hp Hne. destruct rs as [|[q w] rs]; [congruence|].
  inversion Hp as [|? ? Hw Hp']; subst. cbn [snd] in Hw.
  rewrite lfills_cons.
  cbn [leaf_zero leaf_fill as_real le l1 l2 lv].
  change (@nzero Xq) with (XF 0). change (@nnan Xq) with XNaN.
  rewrite (mean_step_empty q w Hw).
  assert (Em : q + (q - q) * w / (0 + w) = q).
  { field. apply Qc_pos_neq0. qc2q. simpl in *. lra. }
  rewrite Em. replace (0 + w) with w by ring.
  destruct (avg_run rs w q Hw Hp') as (m' & E & Hm). unfold mkst in E.
  exists m'. rewrite E. cbn [sw swq]. split; [reflexivity|]. rewrite Hm. ring.
Qed.

(* ---- Deviate: varianceTimesEntries + entries * mean^2 = sum of weight * quantity^2, i.e.
        varianceTimesEntries = sum of weight * (quantity - mean)^2 ---- *)
Lemma dev_step e m v q w : 0 < e -> 0 < w ->
  let m' := m + (q - m) * w / (e + w) in
  (v + w * (q - m) * (q - m')) + (e + w) * m' * m' = (v + e * m * m) + w * q * q.
Proof. intros He Hw. cbv zeta. field. apply Qc_pos_neq0. qc2q. simpl in *. lra. Qed.

Definition mkst3 (e m v : xq) : leafstate Xq := @Build_leafstate Xq e m v [].

Lemma dev_fill_pos e m v q w : 0 < e -> 0 < w ->
  @leaf_fill Xq LDeviate (mkst3 (XF e) (XF m) (XF v)) (@VNum Xq (XF q)) (XF w) =
  Some (mkst3 (XF (e + w)) (XF (m + (q - m) * w / (e + w)))
              (XF (v + w * (q - m) * (q - (m + (q - m) * w / (e + w)))))).
Proof.
  intros He Hw. unfold mkst3. cbn [leaf_fill as_real le l1 l2 lv].
  assert (Ez : @neqb Xq (XF e) (@nzero Xq) = false).
  { cbn. unfold xeqb. qc_cmp_cases e 0%Qc; try reflexivity. exfalso. subst. apply (Qclt_not_le _ _ He). apply Qcle_refl. }
  rewrite Ez. rewrite (mean_step_pos e m q w He Hw). cbn. reflexivity.
Qed.

Lemma dev_run (rs : rows) : forall e m v, 0 < e -> pos_rows rs ->
  exists m' v',
    lfills LDeviate (mkst3 (XF e) (XF m) (XF v)) rs = mkst3 (XF (e + sw rs)) (XF m') (XF v') /\
    (e + sw rs) * m' = e * m + swq rs /\
    v' + (e + sw rs) * m' * m' = (v + e * m * m) + swqq rs.
Proof.
  induction rs as [|[q w] rs IH]; intros e m v He Hp.
  - exists m, v. cbn [lfills fold_left sw swq swqq]. replace (e + 0) with e by ring.
    repeat split; ring.
  - inversion Hp as [|? ? Hw Hp']; subst. cbn [snd] in Hw.
    rewrite lfills_cons, (dev_fill_pos e m v q w He Hw).
    assert (He' : 0 < e + w) by (qc2q; simpl in *; lra).
    destruct (IH (e + w) (m + (q - m) * w / (e + w)) (v + w * (q - m) * (q - (m + (q - m) * w / (e + w)))) He' Hp')
      as (m' & v' & E & Hm & Hv).
    exists m', v'. rewrite E. cbn [sw swq swqq].
    replace (e + (w + sw rs)) with (e + w + sw rs) by ring. repeat split.
    + rewrite Hm. rewrite (avg_step e m q w He Hw). ring.
    + rewrite Hv. pose proof (dev_step e m v q w He Hw) as D. cbv zeta in D. rewrite D. ring.
Qed.

Theorem deviate_denote (rs : rows) :
  pos_rows rs -> rs <> [] ->
  exists m v,
    lfills LDeviate (leaf_zero LDeviate) rs = mkst3 (XF (sw rs)) (XF m) (XF v) /\
    sw rs * m = swq rs /\ v + sw rs * m * m = swqq rs.
Proof.
  intros Hp Hne. destruct rs as [|[q w] rs]; [congruence|].
  inversion Hp as [|? ? Hw Hp']; subst. cbn [snd] in Hw.
  rewrite lfills_cons.
  assert (E0 : @leaf_fill Xq LDeviate (leaf_zero LDeviate) (@VNum Xq (XF q)) (XF w) =
               Some (mkst3 (XF w) (XF q) (XF 0))).
  { unfold mkst3. cbn [leaf_zero leaf_fill as_real le l1 l2 lv].
    change (@neqb Xq (@nzero Xq) (@nzero Xq)) with true. cbn iota.
    change (@nzero Xq) with (XF 0). change (@nnan Xq) with XNaN.
    rewrite (mean_step_empty q w Hw).
    assert (Em : q + (q - q) * w / (0 + w) = q) by (field; apply Qc_pos_neq0; qc2q; simpl in *; lra).
    rewrite Em. replace (0 + w) with w by ring. cbn.
    replace (Q2Qc 0 + w * (q + - q) * (q + - q)) with (Q2Qc 0) by ring. reflexivity. }
  rewrite E0.
  destruct (dev_run rs w q 0 Hw Hp') as (m' & v' & E & Hm & Hv).
  exists m', v'. rewrite E. cbn [sw swq swqq]. repeat split.
  - rewrite Hm. ring.
  - rewrite Hv. ring.
Qed.

(* ================= the batch formulas of the vectorised kernels (average.py / deviate.py _numpy)
   give what the row-by-row recurrences give ================= *)

(* numpy.average(q, weights = w) and the merge with the accumulator (ca, ma) *)
Definition np_mean (rs : rows) : Qc := swq rs / sw rs.
Definition np_merge_mean (ca ma : Qc) (rs : rows) : Qc := (ca * ma + sw rs * np_mean rs) / (ca + sw rs).

Lemma sw_neq0 rs : pos_rows rs -> rs <> [] -> sw rs <> 0.
Proof. intros Hp Hne. apply Qc_pos_neq0. apply sw_pos; assumption. Qed.

Theorem np_average_kernel (rs : rows) e m :
  0 < e -> pos_rows rs -> rs <> [] ->
  lfills LAverage (mkst (XF e) (XF m) (XF 0)) rs =
  mkst (XF (e + sw rs)) (XF (np_merge_mean e m rs)) (XF 0).
Proof.
  intros He Hp Hne. destruct (avg_run rs e m He Hp) as (m' & E & Hm). rewrite E. unfold mkst.
  do 2 f_equal. unfold np_merge_mean, np_mean.
  pose proof (sw_pos rs Hp Hne) as Hs.
  assert (H1 : sw rs <> 0) by (apply Qc_pos_neq0; exact Hs).
  assert (H2 : e + sw rs <> 0) by (apply Qc_pos_neq0; qc2q; simpl in *; lra).
  assert (Em : m' = (e * m + swq rs) / (e + sw rs)).
  { rewrite <- Hm. field. exact H2. }
  rewrite Em. field. split; assumption.
Qed.

(* an empty accumulator: the batch mean itself *)
Theorem np_average_kernel_empty (rs : rows) :
  pos_rows rs -> rs <> [] ->
  lfills LAverage (leaf_zero LAverage) rs = mkst (XF (sw rs)) (XF (np_mean rs)) (XF 0).
Proof.
  intros Hp Hne. destruct (average_denote rs Hp Hne) as (m & E & Hm). rewrite E. unfold mkst.
  do 2 f_equal. unfold np_mean. pose proof (sw_neq0 rs Hp Hne) as H1.
  rewrite <- Hm. field. exact H1.
Qed.

(* cb * numpy.average((q - mb)^2, weights = w) *)
Definition np_sb (rs : rows) : Qc :=
  swqq rs - (1 + 1) * np_mean rs * swq rs + np_mean rs * np_mean rs * sw rs.

Definition np_merge_vte (ca ma sa : Qc) (rs : rows) : Qc :=
  let cb := sw rs in
  let mb := np_mean rs in
  let mean := np_merge_mean ca ma rs in
  sa + np_sb rs + ca * ma * ma + cb * mb * mb - (1 + 1) * mean * (ca * ma + cb * mb) + mean * mean * (ca + cb).

Theorem np_deviate_kernel (rs : rows) e m v :
  0 < e -> pos_rows rs -> rs <> [] ->
  lfills LDeviate (mkst3 (XF e) (XF m) (XF v)) rs =
  mkst3 (XF (e + sw rs)) (XF (np_merge_mean e m rs)) (XF (np_merge_vte e m v rs)).
Proof.
  intros He Hp Hne. destruct (dev_run rs e m v He Hp) as (m' & v' & E & Hm & Hv). rewrite E. unfold mkst3.
  pose proof (sw_pos rs Hp Hne) as Hs.
  assert (H1 : sw rs <> 0) by (apply Qc_pos_neq0; exact Hs).
  assert (H2 : e + sw rs <> 0) by (apply Qc_pos_neq0; qc2q; simpl in *; lra).
  assert (Em : m' = np_merge_mean e m rs).
  { unfold np_merge_mean, np_mean. assert (Em0 : m' = (e * m + swq rs) / (e + sw rs)) by (rewrite <- Hm; field; exact H2).
    rewrite Em0. field. split; assumption. }
  assert (Ev : v' = np_merge_vte e m v rs).
  { assert (Ev0 : v' = v + e * m * m + swqq rs - (e + sw rs) * m' * m') by (rewrite <- Hv; ring).
    rewrite Ev0, Em. unfold np_merge_vte, np_sb, np_merge_mean, np_mean. cbv zeta. field. split; assumption. }
  rewrite Em, Ev. reflexivity.
Qed.

(* ================= extrema ignoring NaN (Minimize; Maximize is symmetric) ================= *)
Definition xrows := list (xq * Qc).      (* any quantity: finite, +-inf, NaN; weight > 0 *)

Definition lfillsx (k : leafkind) (s : leafstate Xq) (rs : xrows) : leafstate Xq :=
  fold_left (fun st (qw : xq * Qc) => match @leaf_fill Xq k st (@VNum Xq (fst qw)) (XF (snd qw)) with
                                      | Some st' => st' | None => st end) rs s.

Definition min_upd (m q : xq) : xq := if xisnan m || xltb q m then q else m.
Definition max_upd (m q : xq) : xq := if xisnan m || xltb m q then q else m.

Lemma lfillsx_min_l1 (rs : xrows) : forall s,
  l1 (lfillsx LMin s rs) = fold_left min_upd (map fst rs) (l1 s).
Proof.
  induction rs as [|[q w] rs IH]; intro s; [reflexivity|].
  cbn [lfillsx fold_left map fst snd]. fold (lfillsx LMin). cbn [leaf_fill as_real].
  change (fold_left _ rs ?x) with (lfillsx LMin x rs). rewrite IH. reflexivity.
Qed.

Lemma lfillsx_max_l1 (rs : xrows) : forall s,
  l1 (lfillsx LMax s rs) = fold_left max_upd (map fst rs) (l1 s).
Proof.
  induction rs as [|[q w] rs IH]; intro s; [reflexivity|].
  cbn [lfillsx fold_left map fst snd]. fold (lfillsx LMax). cbn [leaf_fill as_real].
  change (fold_left _ rs ?x) with (lfillsx LMax x rs). rewrite IH. reflexivity.
Qed.

(* m is the least of the non-NaN members of qs, NaN when there is none *)
Definition is_min (m : xq) (qs : list xq) : Prop :=
  (forall q, In q qs -> xisnan q = false -> xisnan m = false /\ xltb q m = false) /\
  (xisnan m = false -> In m qs).

Lemma xltb_nan_r q : xltb q XNaN = false.
Proof. destruct q; reflexivity. Qed.

Lemma xltb_false_trans a b c :
  xisnan a = false -> xisnan b = false -> xisnan c = false ->
  xltb b a = false -> xltb c b = false -> xltb c a = false.
Proof.
  intros Na Nb Nc H1 H2. destruct (xltb c a) eqn:E; [|reflexivity]. exfalso.
  (* c < a, not (b < a), not (c < b): then a <= b <= c < a *)
  destruct (xltb a b) eqn:Eab.
  - pose proof (xltb_trans c a b E Eab) as H. congruence.
  - assert (a = b) by (apply xltb_total; assumption). subst b. congruence.
Qed.

Lemma min_run (qs : list xq) : forall m0 seen,
  is_min m0 seen -> is_min (fold_left min_upd qs m0) (seen ++ qs).
Proof.
  induction qs as [|q qs IH]; intros m0 seen H.
  - rewrite app_nil_r. exact H.
  - cbn [fold_left]. replace (seen ++ q :: qs) with ((seen ++ [q]) ++ qs) by (rewrite <- app_assoc; reflexivity).
    apply IH. destruct H as [Hle Hin]. unfold min_upd.
    destruct (xisnan m0) eqn:Nm; cbn [orb].
    + (* nothing seen yet but NaNs: q becomes the candidate *)
      split.
      * intros x Hx Nx. apply in_app_or in Hx. destruct Hx as [Hx|[<-|[]]].
        -- destruct (Hle x Hx Nx) as [C _]. congruence.
        -- split; [exact Nx | apply xltb_irrefl].
      * intros _. apply in_or_app. right. left. reflexivity.
    + destruct (xltb q m0) eqn:C.
      * (* q is smaller *)
        assert (Nq : xisnan q = false) by (destruct q; try reflexivity; discriminate).
        split.
        -- intros x Hx Nx. apply in_app_or in Hx. destruct Hx as [Hx|[<-|[]]].
           ++ destruct (Hle x Hx Nx) as [_ Hxm]. split; [exact Nq|].
              destruct (xltb x q) eqn:E; [|reflexivity]. pose proof (xltb_trans x q m0 E C). congruence.
           ++ split; [exact Nq | apply xltb_irrefl].
        -- intros _. apply in_or_app. right. left. reflexivity.
      * (* m0 stays *)
        split.
        -- intros x Hx Nx. apply in_app_or in Hx. destruct Hx as [Hx|[<-|[]]].
           ++ destruct (Hle x Hx Nx) as [_ H']. split; [exact Nm | exact H'].
           ++ split; [exact Nm | exact C].
        -- intros _. apply in_or_app. left. apply Hin. reflexivity.
Qed.

Theorem min_denote (rs : xrows) :
  is_min (l1 (lfillsx LMin (leaf_zero LMin) rs)) (map fst rs).
Proof.
  rewrite lfillsx_min_l1. change (map fst rs) with ([] ++ map fst rs). apply min_run.
  split; [intros q [] | cbn; discriminate].
Qed.

Definition is_max (m : xq) (qs : list xq) : Prop :=
  (forall q, In q qs -> xisnan q = false -> xisnan m = false /\ xltb m q = false) /\
  (xisnan m = false -> In m qs).

Lemma max_run (qs : list xq) : forall m0 seen,
  is_max m0 seen -> is_max (fold_left max_upd qs m0) (seen ++ qs).
Proof.
  induction qs as [|q qs IH]; intros m0 seen H.
  - rewrite app_nil_r. exact H.
  - cbn [fold_left]. replace (seen ++ q :: qs) with ((seen ++ [q]) ++ qs) by (rewrite <- app_assoc; reflexivity).
    apply IH. destruct H as [Hle Hin]. unfold max_upd.
    destruct (xisnan m0) eqn:Nm; cbn [orb].
    + split.
      * intros x Hx Nx. apply in_app_or in Hx. destruct Hx as [Hx|[<-|[]]].
        -- destruct (Hle x Hx Nx) as [C _]. congruence.
        -- split; [exact Nx | apply xltb_irrefl].
      * intros _. apply in_or_app. right. left. reflexivity.
    + destruct (xltb m0 q) eqn:C.
      * assert (Nq : xisnan q = false) by (destruct q; try reflexivity; destruct m0; discriminate).
        split.
        -- intros x Hx Nx. apply in_app_or in Hx. destruct Hx as [Hx|[<-|[]]].
           ++ destruct (Hle x Hx Nx) as [_ Hxm]. split; [exact Nq|].
              destruct (xltb q x) eqn:E; [|reflexivity]. pose proof (xltb_trans m0 q x C E). congruence.
           ++ split; [exact Nq | apply xltb_irrefl].
        -- intros _. apply in_or_app. right. left. reflexivity.
      * split.
        -- intros x Hx Nx. apply in_app_or in Hx. destruct Hx as [Hx|[<-|[]]].
           ++ destruct (Hle x Hx Nx) as [_ H']. split; [exact Nm | exact H'].
           ++ split; [exact Nm | exact C].
        -- intros _. apply in_or_app. left. apply Hin. reflexivity.
Qed.

Theorem max_denote (rs : xrows) :
  is_max (l1 (lfillsx LMax (leaf_zero LMax) rs)) (map fst rs).
Proof.
  rewrite lfillsx_max_l1. change (map fst rs) with ([] ++ map fst rs). apply max_run.
  split; [intros q [] | cbn; discriminate].
Qed.

(* ================= Bag of numbers: the value -> weight map ================= *)
Definition key_of (q : xq) : bagkey Xq := if xisnan q then @BNan Xq else @BNum Xq q.
Definition key_is (k : bagkey Xq) (q : xq) : bool :=
  match @bag_cmp Xq k (key_of q) with Eq => true | _ => false end.

Fixpoint wkey (k : bagkey Xq) (rs : xrows) : Qc :=
  match rs with
  | [] => 0
  | (q, w) :: r => if key_is k q then w + wkey k r else wkey k r
  end.

(* the map expected after the rows rs when it held [o] under k before *)
Fixpoint bag_spec (k : bagkey Xq) (o : option xq) (rs : xrows) : option xq :=
  match rs with
  | [] => o
  | (q, w) :: r =>
      bag_spec k (if key_is k q then Some (match o with Some c => xadd c (XF w) | None => XF w end) else o) r
  end.

Lemma bag_spec_none k rs :
  bag_spec k None rs = if existsb (fun qw => key_is k (fst qw)) rs then Some (XF (wkey k rs)) else None.
Proof.
  assert (G : forall rs c, bag_spec k (Some (XF c)) rs = Some (XF (c + wkey k rs))).
  { induction rs0 as [|[q w] r IH]; intro c; cbn [bag_spec wkey].
    - f_equal. f_equal. ring.
    - destruct (key_is k q); cbn [xadd]; rewrite IH; f_equal; f_equal; ring. }
  induction rs as [|[q w] r IH]; cbn [bag_spec wkey existsb fst]; [reflexivity|].
  destruct (key_is k q); cbn [orb]; [|exact IH]. rewrite G. reflexivity.
Qed.

Lemma lfillsx_bag (rs : xrows) : forall s k, bsorted (lv s) ->
  bsorted (lv (lfillsx (LBag RN) s rs)) /\
  blookup k (lv (lfillsx (LBag RN) s rs)) = bag_spec k (blookup k (lv s)) rs.
Proof.
  induction rs as [|[q w] r IH]; intros s k S; [split; [exact S | reflexivity]|].
  cbn [lfillsx fold_left fst snd]. fold (lfillsx (LBag RN)). cbn [leaf_fill as_real].
  match goal with |- context [fold_left _ r ?x] => change (fold_left _ r x) with (lfillsx (LBag RN) x r) end.
  match goal with |- context [lfillsx (LBag RN) ?x r] => set (s' := x) end.
  assert (S' : bsorted (lv s')) by (subst s'; cbn [lv]; apply bs_upd; exact S).
  destruct (IH s' k S') as [A B]. split; [exact A|]. rewrite B. cbn [bag_spec]. f_equal.
  subst s'. cbn [lv]. rewrite bs_lookup_upd by exact S. unfold key_is, key_of. xproj.
  destruct (@bag_cmp Xq k (if xisnan q then @BNan Xq else @BNum Xq q)) eqn:C; try reflexivity.
  apply bag_cmp_eq in C. subst k. reflexivity.
Qed.

(* filled from empty: under every key (a number, or "nan" for NaN quantities) the map holds the
   sum of the weights of the rows with that value, and nothing under other keys *)
Theorem bag_denote (rs : xrows) k :
  blookup k (lv (lfillsx (LBag RN) (leaf_zero (LBag RN)) rs)) =
  if existsb (fun qw => key_is k (fst qw)) rs then Some (XF (wkey k rs)) else None.
Proof.
  destruct (lfillsx_bag rs (leaf_zero (LBag RN)) k) as [_ H]; [constructor|].
  rewrite H. cbn [leaf_zero lv sl_lookup]. apply bag_spec_none.
Qed.

(* ================= Bag of any range (strings, numbers, vectors): the value -> weight map ================= *)
Definition bag_key (r : brange) (v : value Xq) : option (bagkey Xq) :=
  match r, v with
  | RS, VStr x => Some (@BStr Xq x)
  | RS, _ => None
  | RV n, VVec l =>
      if Nat.eqb (List.length l) n
      then Some (@BVec Xq (map (fun x => if xisnan x then None else Some x) l)) else None
  | RV _, _ => None
  | RN, _ => match @as_real Xq v with Some q => Some (key_of q) | None => None end
  end.

Lemma leaf_fill_bag r s v w :
  @leaf_fill Xq (LBag r) s v w =
  match bag_key r v with
  | Some bk => Some (@Build_leafstate Xq (xadd (le s) w) (l1 s) (l2 s)
                       (bupd bk (fun o => match o with Some c => xadd c w | None => w end) (lv s)))
  | None => None
  end.
Proof.
  unfold bag_key, key_of. destruct r as [| |n], v as [x|x|b| |l]; cbn [leaf_fill as_real]; try reflexivity.
  - destruct b; reflexivity.
  - destruct (Nat.eqb (List.length l) n); reflexivity.
Qed.

Definition vrows := list (value Xq * Qc).        (* any values the Bag accepts; weight > 0 *)
Definition lfillsv (k : leafkind) (s : leafstate Xq) (rs : vrows) : leafstate Xq :=
  fold_left (fun st (vw : value Xq * Qc) => match @leaf_fill Xq k st (fst vw) (XF (snd vw)) with
                                            | Some st' => st' | None => st end) rs s.

Definition vkey_is (r : brange) (k : bagkey Xq) (v : value Xq) : bool :=
  match bag_key r v with
  | Some bk => match @bag_cmp Xq k bk with Eq => true | _ => false end
  | None => false
  end.

Fixpoint wvkey (r : brange) (k : bagkey Xq) (rs : vrows) : Qc :=
  match rs with
  | [] => 0
  | (v, w) :: rest => if vkey_is r k v then w + wvkey r k rest else wvkey r k rest
  end.

Fixpoint vbag_spec (r : brange) (k : bagkey Xq) (o : option xq) (rs : vrows) : option xq :=
  match rs with
  | [] => o
  | (v, w) :: rest =>
      vbag_spec r k (if vkey_is r k v then Some (match o with Some c => xadd c (XF w) | None => XF w end) else o) rest
  end.

Lemma vbag_spec_none r k rs :
  vbag_spec r k None rs = if existsb (fun vw => vkey_is r k (fst vw)) rs then Some (XF (wvkey r k rs)) else None.
Proof.
  assert (G : forall rs c, vbag_spec r k (Some (XF c)) rs = Some (XF (c + wvkey r k rs))).
  { induction rs0 as [|[v w] rest IH]; intro c; cbn [vbag_spec wvkey].
    - f_equal. f_equal. ring.
    - destruct (vkey_is r k v); cbn [xadd]; rewrite IH; f_equal; f_equal; ring. }
  induction rs as [|[v w] rest IH]; cbn [vbag_spec wvkey existsb fst]; [reflexivity|].
  destruct (vkey_is r k v); cbn [orb]; [|exact IH]. rewrite G. reflexivity.
Qed.

Lemma lfillsv_bag r (rs : vrows) : forall s k, bsorted (lv s) ->
  bsorted (lv (lfillsv (LBag r) s rs)) /\
  blookup k (lv (lfillsv (LBag r) s rs)) = vbag_spec r k (blookup k (lv s)) rs.
Proof.
  induction rs as [|[v w] rest IH]; intros s k S; [split; [exact S | reflexivity]|].
  cbn [lfillsv fold_left fst snd]. fold (lfillsv (LBag r)). rewrite leaf_fill_bag.
  cbn [vbag_spec]. unfold vkey_is.
  destruct (bag_key r v) as [bk|] eqn:E.
  - match goal with |- context [fold_left _ rest ?x] => change (fold_left _ rest x) with (lfillsv (LBag r) x rest) end.
    match goal with |- context [lfillsv (LBag r) ?x rest] => set (s' := x) end.
    assert (S' : bsorted (lv s')) by (subst s'; cbn [lv]; apply bs_upd; exact S).
    destruct (IH s' k S') as [A B]. split; [exact A|]. rewrite B. f_equal.
    subst s'. cbn [lv]. rewrite bs_lookup_upd by exact S.
    destruct (@bag_cmp Xq k bk) eqn:C; try reflexivity. apply bag_cmp_eq in C. subst k. reflexivity.
  - change (fold_left _ rest s) with (lfillsv (LBag r) s rest). apply IH. exact S.
Qed.

(* a Bag of any range filled from empty: under every key the sum of the weights of the accepted rows
   with that value (strings; numbers with NaN under "nan"; vectors with NaN components marked),
   nothing under other keys; rows of the wrong type raise and leave the Bag as it was *)
Theorem bag_denote_any r (rs : vrows) k :
  blookup k (lv (lfillsv (LBag r) (leaf_zero (LBag r)) rs)) =
  if existsb (fun vw => vkey_is r k (fst vw)) rs then Some (XF (wvkey r k rs)) else None.
Proof.
  destruct (lfillsv_bag r rs (leaf_zero (LBag r)) k) as [_ H]; [constructor|].
  rewrite H. cbn [leaf_zero lv sl_lookup]. apply vbag_spec_none.
Qed.
