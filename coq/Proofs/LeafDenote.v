(* C02, leaves (exact instance): what a stream of finite data with positive weights leaves in a
   Count, Sum, Average and Deviate - the sum of weights, the weighted sum, the weighted mean and the
   weighted sum of squared deviations from it. *)
From Coq Require Import ZArith List Bool Lia QArith Qcanon Lqa Psatz Field.
From Hgm Require Import NumOps Xq Agg Ops XqFacts LeafAlg.
Import ListNotations.
Local Open Scope Qc_scope.

(* a row: (quantity, weight), both finite; the weight positive *)
Definition rows := list (Qc * Qc).
Definition pos_rows (rs : rows) : Prop := Forall (fun qw => 0 < snd qw) rs.

Fixpoint sw (rs : rows) : Qc := match rs with [] => 0 | (_, w) :: r => w + sw r end.
Fixpoint swq (rs : rows) : Qc := match rs with [] => 0 | (q, w) :: r => w * q + swq r end.
Fixpoint swqq (rs : rows) : Qc := match rs with [] => 0 | (q, w) :: r => w * q * q + swqq r end.

(* the leaf filled row by row *)
Definition lfills (k : leafkind) (s : leafstate Xq) (rs : rows) : leafstate Xq :=
  fold_left (fun st (qw : Qc * Qc) => match @leaf_fill Xq k st (@VNum Xq (XF (fst qw))) (XF (snd qw)) with
                          | Some st' => st' | None => st end) rs s.

Definition mkst (e m v : xq) : leafstate Xq := @Build_leafstate Xq e m v [].

Lemma lfills_cons k s (q w : Qc) rs :
  lfills k s ((q, w) :: rs) =
  lfills k (match @leaf_fill Xq k s (@VNum Xq (XF q)) (XF w) with Some st' => st' | None => s end) rs.
Proof. reflexivity. Qed.

Lemma sw_pos rs : pos_rows rs -> rs <> [] -> 0 < sw rs.
Proof.
  induction 1 as [|[q w] rs Hw _ IH]; [congruence|]. intros _. cbn [sw snd] in *.
  destruct rs as [|x rs]; [cbn; qc2q; simpl in *; lra|].
  assert (0 < sw (x :: rs)) by (apply IH; discriminate). qc2q. simpl in *. lra.
Qed.

(* ---- Count, Sum ---- *)
Theorem count_denote (rs : rows) : forall s,
  le (lfills (LCount TId) s rs) = xadd (le s) (XF (sw rs)).
Proof.
  induction rs as [|[q w] rs IH]; intro s.
  - cbn [lfills fold_left sw]. destruct (le s); cbn; try reflexivity. f_equal. ring.
  - rewrite lfills_cons, IH. cbn [leaf_fill apply_trans le sw].
    destruct (le s); cbn; try reflexivity. f_equal. ring.
Qed.

Theorem sum_denote (rs : rows) : forall e0 s0,
  let s := lfills LSum (mkst (XF e0) (XF s0) (XF 0)) rs in
  le s = XF (e0 + sw rs) /\ l1 s = XF (s0 + swq rs).
Proof.
  unfold mkst. induction rs as [|[q w] rs IH]; intros e0 s0.
  - cbn [lfills fold_left sw swq le l1]. split; apply f_equal; ring.
  - rewrite lfills_cons. cbn [sw swq leaf_fill as_real le l1 l2 lv].
    change (@nadd Xq (XF e0) (XF w)) with (XF (e0 + w)).
    change (@nadd Xq (XF s0) (@nmul Xq (XF q) (XF w))) with (XF (s0 + q * w)).
    destruct (IH (e0 + w) (s0 + q * w)) as [H1 H2]. cbn zeta in H1, H2. rewrite H1, H2.
    split; apply f_equal; ring.
Qed.

(* ---- Average: entries * mean = sum of weight * quantity ---- *)
Lemma avg_step e m q w : 0 < e -> 0 < w ->
  (e + w) * (m + (q - m) * w / (e + w)) = e * m + w * q.
Proof. intros He Hw. field. apply Qc_pos_neq0. qc2q. simpl in *. lra. Qed.

Lemma avg_run (rs : rows) : forall e m, 0 < e -> pos_rows rs ->
  exists m',
    lfills LAverage (mkst (XF e) (XF m) (XF 0)) rs =
    (mkst (XF (e + sw rs)) (XF m') (XF 0)) /\
    (e + sw rs) * m' = e * m + swq rs.
Proof.
  unfold mkst. induction rs as [|[q w] rs IH]; intros e m He Hp.
  - exists m. cbn [lfills fold_left sw swq]. split; [|ring].
    replace (e + 0) with e by ring. reflexivity.
  - inversion Hp as [|? ? Hw Hp']; subst. cbn [snd] in Hw.
    rewrite lfills_cons.
    cbn [leaf_fill as_real le l1 l2 lv]. rewrite (mean_step_pos e m q w He Hw).
    assert (He' : 0 < e + w) by (qc2q; simpl in *; lra).
    destruct (IH (e + w) (m + (q - m) * w / (e + w)) He' Hp') as (m' & E & Hm).
    exists m'. rewrite E. cbn [sw swq]. split; [replace (e + w + sw rs) with (e + (w + sw rs)) by ring; reflexivity|].
    rewrite (avg_step e m q w He Hw) in Hm.
    replace (e + (w + sw rs)) with (e + w + sw rs) by ring. rewrite Hm. ring.
Qed.

Theorem average_denote (rs : rows) :
  pos_rows rs -> rs <> [] ->
  exists m,
    lfills LAverage (leaf_zero LAverage) rs = (mkst (XF (sw rs)) (XF m) (XF 0)) /\
    sw rs * m = swq rs.
Proof.
  unfold mkst. intros Hp Hne. destruct rs as [|[q w] rs]; [congruence|].
  inversion Hp as [|? ? Hw Hp']; subst. cbn [snd] in Hw.
  rewrite lfills_cons.
  cbn [leaf_zero leaf_fill as_real le l1 l2 lv].
  change (@nzero Xq) with (XF 0). change (@nnan Xq) with XNaN.
  rewrite (mean_step_empty q w Hw).
  assert (Em : q + (q - q) * w / (0 + w) = q).
  { field. apply Qc_pos_neq0. qc2q. simpl in *. lra. }
  rewrite Em. replace (0 + w) with w by ring.
  destruct (avg_run rs w q Hw Hp') as (m' & E & Hm). unfold mkst in E.
  exists m'. rewrite E. cbn [sw swq]. split; [reflexivity|]. rewrite Hm. ring.
Qed.

(* ---- Deviate: varianceTimesEntries + entries * mean^2 = sum of weight * quantity^2, i.e.
        varianceTimesEntries = sum of weight * (quantity - mean)^2 ---- *)
Lemma dev_step e m v q w : 0 < e -> 0 < w ->
  let m' := m + (q - m) * w / (e + w) in
  (v + w * (q - m) * (q - m')) + (e + w) * m' * m' = (v + e * m * m) + w * q * q.
Proof. intros He Hw. cbv zeta. field. apply Qc_pos_neq0. qc2q. simpl in *. lra. Qed.

Definition mkst3 (e m v : xq) : leafstate Xq := @Build_leafstate Xq e m v [].

Lemma dev_fill_pos e m v q w : 0 < e -> 0 < w ->
  @leaf_fill Xq LDeviate (mkst3 (XF e) (XF m) (XF v)) (@VNum Xq (XF q)) (XF w) =
  Some (mkst3 (XF (e + w)) (XF (m + (q - m) * w / (e + w)))
              (XF (v + w * (q - m) * (q - (m + (q - m) * w / (e + w)))))).
Proof.
  intros He Hw. unfold mkst3. cbn [leaf_fill as_real le l1 l2 lv].
  assert (Ez : @neqb Xq (XF e) (@nzero Xq) = false).
  { cbn. unfold xeqb. qc_cmp_cases e 0%Qc; try reflexivity. exfalso. subst. apply (Qclt_not_le _ _ He). apply Qcle_refl. }
  rewrite Ez. rewrite (mean_step_pos e m q w He Hw). cbn. reflexivity.
Qed.

Lemma dev_run (rs : rows) : forall e m v, 0 < e -> pos_rows rs ->
  exists m' v',
    lfills LDeviate (mkst3 (XF e) (XF m) (XF v)) rs = mkst3 (XF (e + sw rs)) (XF m') (XF v') /\
    (e + sw rs) * m' = e * m + swq rs /\
    v' + (e + sw rs) * m' * m' = (v + e * m * m) + swqq rs.
Proof.
  induction rs as [|[q w] rs IH]; intros e m v He Hp.
  - exists m, v. cbn [lfills fold_left sw swq swqq]. replace (e + 0) with e by ring.
    repeat split; ring.
  - inversion Hp as [|? ? Hw Hp']; subst. cbn [snd] in Hw.
    rewrite lfills_cons, (dev_fill_pos e m v q w He Hw).
    assert (He' : 0 < e + w) by (qc2q; simpl in *; lra).
    destruct (IH (e + w) (m + (q - m) * w / (e + w)) (v + w * (q - m) * (q - (m + (q - m) * w / (e + w)))) He' Hp')
      as (m' & v' & E & Hm & Hv).
    exists m', v'. rewrite E. cbn [sw swq swqq].
    replace (e + (w + sw rs)) with (e + w + sw rs) by ring. repeat split.
    + rewrite Hm. rewrite (avg_step e m q w He Hw). ring.
    + rewrite Hv. pose proof (dev_step e m v q w He Hw) as D. cbv zeta in D. rewrite D. ring.
Qed.

Theorem deviate_denote (rs : rows) :
  pos_rows rs -> rs <> [] ->
  exists m v,
    lfills LDeviate (leaf_zero LDeviate) rs = mkst3 (XF (sw rs)) (XF m) (XF v) /\
    sw rs * m = swq rs /\ v + sw rs * m * m = swqq rs.
Proof.
  intros Hp Hne. destruct rs as [|[q w] rs]; [congruence|].
  inversion Hp as [|? ? Hw Hp']; subst. cbn [snd] in Hw.
  rewrite lfills_cons.
  assert (E0 : @leaf_fill Xq LDeviate (leaf_zero LDeviate) (@VNum Xq (XF q)) (XF w) =
               Some (mkst3 (XF w) (XF q) (XF 0))).
  { unfold mkst3. cbn [leaf_zero leaf_fill as_real le l1 l2 lv].
    change (@neqb Xq (@nzero Xq) (@nzero Xq)) with true. cbn iota.
    change (@nzero Xq) with (XF 0). change (@nnan Xq) with XNaN.
    rewrite (mean_step_empty q w Hw).
    assert (Em : q + (q - q) * w / (0 + w) = q) by (field; apply Qc_pos_neq0; qc2q; simpl in *; lra).
    rewrite Em. replace (0 + w) with w by ring. cbn.
    replace (Q2Qc 0 + w * (q + - q) * (q + - q)) with (Q2Qc 0) by ring. reflexivity. }
  rewrite E0.
  destruct (dev_run rs w q 0 Hw Hp') as (m' & v' & E & Hm & Hv).
  exists m', v'. rewrite E. cbn [sw swq swqq]. repeat split.
  - rewrite Hm. ring.
  - rewrite Hv. ring.
Qed.
