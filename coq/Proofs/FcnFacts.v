(* C17: wrappers commute, a second name raises, calls return what the function returns. *)
From Coq Require Import ZArith List String Bool Lia Arith Permutation.
From Hgm Require Import NumOps Xq Agg Ops Expr Fcn RunFcn XqFacts.
Import ListNotations.

Section Wrap.
  Context {N : num_ops}.
  Notation src := (@src N).
  Notation ufcn := (@ufcn N).
  Notation fobj := (@fobj N).

  Definition is_cachedop (w : wop) : bool := match w with WCached => true | _ => false end.
  Fixpoint names (ws : list wop) : list string :=
    match ws with
    | [] => []
    | WNamed n :: ws' => n :: names ws'
    | _ :: ws' => names ws'
    end.

  Lemma mk_default (s : src) c : mk s (default_name s) c = mk s None c.
  Proof. unfold mk. destruct (default_name s); reflexivity. Qed.

  Lemma cached_mk (s : src) nm c : cached (Wrapped (mk s nm c)) = Wrapped (mk s nm true).
  Proof.
    unfold cached. cbn [mk ucached usrc uname]. destruct c; [reflexivity|].
    destruct nm as [n|]; [reflexivity|]. rewrite mk_default. reflexivity.
  Qed.

  Lemma named_mk_none (s : src) c n : named n (Wrapped (mk s None c)) = Ok (Wrapped (mk s (Some n) c)).
  Proof.
    unfold named, is_default. cbn [mk ucached usrc uname].
    destruct (default_name s) as [d|]; [rewrite String.eqb_refl|]; reflexivity.
  Qed.

  (* applying a second name raises (unless the first one merely repeated the default name) *)
  Lemma named_mk_some (s : src) c n m :
    default_name s <> Some n -> named m (Wrapped (mk s (Some n) c)) = Err.
  Proof.
    intro H. unfold named, is_default. cbn [mk ucached usrc uname].
    destruct (default_name s) as [d|]; [|reflexivity].
    destruct (String.eqb n d) eqn:E; [|reflexivity]. apply String.eqb_eq in E. congruence.
  Qed.

  (* wrappers after the first one *)
  Lemma wops_wrapped (s : src) : forall ws nm c,
    (nm = None \/ names ws = []) -> (List.length (names ws) <= 1)%nat ->
    apply_wops ws (Wrapped (mk s nm c)) =
    Ok (Wrapped (mk s (match nm with Some n => Some n | None => hd_error (names ws) end)
                    (c || existsb is_cachedop ws))).
  Proof.
    induction ws as [|w ws IH]; intros nm c Hn Hl; cbn [apply_wops].
    - cbn. rewrite orb_false_r. destruct nm; reflexivity.
    - destruct w as [| |n]; cbn [apply_wop names existsb is_cachedop] in *.
      + cbn [serializable]. rewrite (IH nm c Hn Hl). reflexivity.
      + rewrite cached_mk. rewrite (IH nm true Hn Hl). rewrite orb_true_r. reflexivity.
      + destruct Hn as [-> | Hn]; [|discriminate].
        rewrite named_mk_none. cbn [List.length] in Hl.
        assert (Hz : names ws = []) by (destruct (names ws); [reflexivity | cbn in Hl; lia]).
        rewrite (IH (Some n) c (or_intror Hz)); [|rewrite Hz; cbn; lia]. reflexivity.
  Qed.

  (* the first wrapper applied to a bare function / string *)
  Lemma first_wop (s : src) w :
    apply_wop w (Raw s) =
    Ok (Wrapped (mk s (match w with WNamed n => Some n | _ => None end) (is_cachedop w))).
  Proof. destruct w; reflexivity. Qed.

  (* any sequence of serializable / cached / named (at most one name) yields the wrapper that
     depends only on WHICH wrappers were applied, not on their order or multiplicity *)
  Theorem wops_canonical (s : src) (ws : list wop) :
    ws <> [] -> (List.length (names ws) <= 1)%nat ->
    apply_wops ws (Raw s) = Ok (Wrapped (mk s (hd_error (names ws)) (existsb is_cachedop ws))).
  Proof.
    destruct ws as [|w ws]; [congruence|]. intros _ Hl. cbn [apply_wops]. rewrite first_wop.
    destruct w as [| |n]; cbn [names existsb is_cachedop List.length] in *.
    - rewrite (wops_wrapped s ws None false (or_introl eq_refl) Hl). reflexivity.
    - rewrite (wops_wrapped s ws None true (or_introl eq_refl) Hl). reflexivity.
    - assert (Hz : names ws = []) by (destruct (names ws); [reflexivity | cbn in Hl; lia]).
      rewrite (wops_wrapped s ws (Some n) false (or_intror Hz)); [|rewrite Hz; cbn; lia].
      reflexivity.
  Qed.

  Lemma names_perm (l1 l2 : list wop) : Permutation l1 l2 -> Permutation (names l1) (names l2).
  Proof.
    induction 1 as [|w l1 l2 _ IH|a b l|l1 l2 l3 _ IH1 _ IH2]; cbn [names].
    - constructor.
    - destruct w; auto.
    - destruct a, b; try apply Permutation_refl. apply perm_swap.
    - eapply Permutation_trans; eassumption.
  Qed.

  Lemma existsb_perm {A} (f : A -> bool) (l1 l2 : list A) :
    Permutation l1 l2 -> existsb f l1 = existsb f l2.
  Proof.
    induction 1 as [|w l1 l2 _ IH|a b l|l1 l2 l3 _ IH1 _ IH2]; cbn [existsb]; try congruence.
    destruct (f a), (f b); reflexivity.
  Qed.

  Theorem wops_commute (s : src) (ws ws' : list wop) :
    Permutation ws ws' -> (List.length (names ws) <= 1)%nat ->
    apply_wops ws (Raw s) = apply_wops ws' (Raw s).
  Proof.
    intros P Hl. destruct ws as [|w ws].
    - apply Permutation_nil in P. subst. reflexivity.
    - assert (Hne : ws' <> []).
      { intro E. subst. apply Permutation_sym, Permutation_nil in P. discriminate. }
      pose proof (names_perm _ _ P) as Pn.
      assert (Hl' : (List.length (names ws') <= 1)%nat) by (rewrite <- (Permutation_length Pn); exact Hl).
      rewrite (wops_canonical s (w :: ws)); [|discriminate|exact Hl].
      rewrite (wops_canonical s ws' Hne Hl').
      rewrite (existsb_perm _ _ _ P).
      assert (hd_error (names (w :: ws)) = hd_error (names ws')) as ->; [|reflexivity].
      destruct (names (w :: ws)) as [|a [|b l]].
      + apply Permutation_nil in Pn. rewrite Pn. reflexivity.
      + apply Permutation_length_1_inv in Pn. rewrite Pn. reflexivity.
      + cbn in Hl. lia.
  Qed.

  (* a second name raises *)
  Theorem second_name_raises (s : src) (ws : list wop) n m :
    names ws = [n] -> default_name s <> Some n ->
    apply_wops (ws ++ [WNamed m]) (Raw s) = Err.
  Proof.
    intros Hn Hd.
    assert (Hne : ws <> []) by (intro E; subst; discriminate).
    assert (A : forall l (o : fobj), apply_wops (l ++ [WNamed m]) o =
                            match apply_wops l o with Ok o' => named m o' | Err => Err end).
    { induction l as [|w l IH]; intro o; cbn [apply_wops app].
      - cbn [apply_wop]. destruct (named m o); reflexivity.
      - destruct (apply_wop w o); [apply IH | reflexivity]. }
    rewrite A. rewrite (wops_canonical s ws Hne); [|rewrite Hn; cbn; lia].
    rewrite Hn. cbn [hd_error]. apply named_mk_some. exact Hd.
  Qed.

  (* ---- calls ---- *)
  Section Calls.
    Variable hit : datum N -> datum N -> bool.

    Definition cache_ok (u : ufcn) : Prop :=
      match ulast u with
      | Some (a, r) => r = eval (src_expr (usrc u)) a
      | None => True
      end.

    (* the comparison of arguments is sound for this function: arguments it accepts as equal give
       equal results (the function is pure and [hit] implies equal values) *)
    Definition hit_sound (u : ufcn) : Prop :=
      forall a d, hit a d = true -> eval (src_expr (usrc u)) a = eval (src_expr (usrc u)) d.

    Lemma call_correct (u : ufcn) (d : datum N) :
      cache_ok u -> hit_sound u ->
      snd (call hit u d) = eval (src_expr (usrc u)) d /\
      cache_ok (fst (call hit u d)) /\ usrc (fst (call hit u d)) = usrc u /\
      ucached (fst (call hit u d)) = ucached u /\ uname (fst (call hit u d)) = uname u.
    Proof.
      intros Hc Hs. unfold call. destruct (ucached u) eqn:Ec.
      - unfold cache_ok in Hc. destruct (ulast u) as [[a r]|] eqn:El.
        + destruct (hit a d) eqn:Eh.
          * cbn [fst snd]. rewrite Hc. split; [apply Hs; exact Eh|].
            unfold cache_ok. rewrite El. auto.
          * destruct (eval (src_expr (usrc u)) d) eqn:Ev; cbn [fst snd usrc ucached uname];
              unfold cache_ok; cbn [ulast usrc]; rewrite ?El; auto.
        + destruct (eval (src_expr (usrc u)) d) eqn:Ev; cbn [fst snd usrc ucached uname];
            unfold cache_ok; cbn [ulast usrc]; rewrite ?El; auto.
      - cbn [fst snd]. auto.
    Qed.

    (* however calls with equal and different arguments are interleaved, every call returns what
       the underlying function returns for its argument *)
    Theorem calls_correct (ds : list (datum N)) : forall u,
      cache_ok u -> hit_sound u -> calls hit u ds = map (eval (src_expr (usrc u))) ds.
    Proof.
      induction ds as [|d ds IH]; intros u Hc Hs; cbn [calls map]; [reflexivity|].
      destruct (call_correct u d Hc Hs) as (Hr & Hc' & Hsrc & _ & _).
      destruct (call hit u d) as [u' r]. cbn [fst snd] in *. subst r. f_equal.
      rewrite (IH u' Hc'); [rewrite Hsrc; reflexivity|].
      unfold hit_sound in *. rewrite Hsrc. exact Hs.
    Qed.

    Lemma mk_cache_ok s nm c : cache_ok (mk s nm c).
    Proof. exact I. Qed.
  End Calls.
End Wrap.

(* the concrete comparison of the model: equal values (exact instance) *)
Lemma xeqb_list (l1 : list xq) : forall l2, forall2b (@neqb Xq) l1 l2 = true -> l1 = l2.
Proof.
  induction l1 as [|x l1 IH]; intros [|y l2] H; cbn [forall2b] in H; try discriminate; [reflexivity|].
  apply andb_true_iff in H. destruct H as [Hx H]. apply xeqb_eq in Hx. destruct Hx as [Hx _].
  subst y. rewrite (IH l2 H). reflexivity.
Qed.

Lemma value_eqb_eq (a b : value Xq) : value_eqb a b = true -> a = b.
Proof.
  destruct a, b; cbn; try discriminate; intro H; try reflexivity;
    match type of H with
    | forall2b _ _ _ = true => apply xeqb_list in H; congruence
    | xeqb _ _ = true => apply xeqb_eq in H; destruct H as [-> _]; reflexivity
    | Bool.eqb _ _ = true => apply Bool.eqb_prop in H; congruence
    | String.eqb _ _ = true => apply String.eqb_eq in H; congruence
    end.
Qed.

Lemma datum_eqb_eq (a : datum Xq) : forall b, datum_eqb a b = true -> a = b.
Proof.
  unfold datum_eqb. induction a as [|x a IH]; intros [|y b] H; cbn [forall2b] in H; try discriminate.
  - reflexivity.
  - apply andb_true_iff in H. destruct H as [Hx H]. apply value_eqb_eq in Hx. f_equal; auto.
Qed.

Theorem calls_cached_exact (u : @ufcn Xq) (ds : list (datum Xq)) :
  cache_ok u -> calls datum_eqb u ds = map (eval (src_expr (usrc u))) ds.
Proof.
  intro Hc. apply calls_correct; [exact Hc|]. intros a d H. apply datum_eqb_eq in H. subst. reflexivity.
Qed.
