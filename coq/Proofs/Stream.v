(* Streams, chunks and reduction trees (exact instance). *)
From Coq Require Import ZArith List String Bool QArith Qcanon Lia Sorted Permutation.
From Hgm Require Import NumOps Xq Agg Ops XqFacts SL KeyFacts AggInd LeafAlg Algebra.
Import ListNotations.

Notation xdatum := (datum Xq).
Notation stream := (list (xdatum * T Xq)).
Notation xfills := (@fills Xq).
Notation xfill := (@fill Xq).

(* a weight is admissible if it is finite and positive, or the gate rejects it (0, <0, NaN) *)
Definition okweight (w : T Xq) : Prop := okw w \/ @pos Xq w = false.

(* a stream admissible for the exact laws on the specification t *)
Definition okstream (t : xagg) (s : stream) : Prop :=
  Forall (fun dw => okd (zero t) (fst dw) /\ okweight (snd dw)) s.

(* no xfill of the stream raises *)
Fixpoint fills_ok (a : xagg) (s : stream) : Prop :=
  match s with
  | [] => True
  | (d, w) :: s' => snd (xfill a d w) = Done /\ fills_ok (fst (xfill a d w)) s'
  end.

Lemma fills_cons a d w s : xfills a ((d, w) :: s) = xfills (fst (xfill a d w)) s.
Proof. reflexivity. Qed.

Lemma fills_app a s1 s2 : xfills a (s1 ++ s2) = xfills (xfills a s1) s2.
Proof. unfold fills. apply fold_left_app. Qed.

Lemma fill_gated (a : xagg) d w : @pos Xq w = false -> xfill a d w = (a, Done).
Proof.
  intro H. unfold fill. destruct a; cbn [fillz]; rewrite H; reflexivity.
Qed.

(* okd only depends on the specification *)
Lemma okd_of_spec (spec : xagg) : forall a d, same a spec -> wf a -> okd (zero spec) d -> okd a d.
Proof.
  induction spec as [k q s | k q e fx sp tm ct IHfx _ IHtm] using agg_ind'; intros a d S W O.
  - apply same_sym in S. apply same_leaf_inv in S. destruct S as [s' ->]. exact O.
  - apply same_sym in S. apply same_node_inv' in S. destruct S as (e' & fx' & sp' & -> & Efx).
    apply map_zero_Forall2 in Efx. cbn [zero] in O. apply okd_node_inv in O.
    destruct O as (Ok & Ofx & _ & Otm). cbn [wf] in W. destruct W as (Wfx & Wsp & _ & Tsp).
    cbn [okd]. repeat split; auto.
    + clear -IHfx Efx Wfx Ofx. revert Wfx Ofx. induction Efx as [|c x fx fx' Scx F IH]; intros W O.
      * exact I.
      * inversion IHfx; subst. destruct W as [Wx W]. cbn [map allP] in O. destruct O as [Oc O].
        split; auto. apply H1; auto. apply same_sym; auto.
    + destruct tm as [t|].
      * apply allP_Forall. apply allP_Forall in Wsp, Tsp. rewrite Forall_forall in *.
        intros [k0 c] Hc. simpl. apply (IHtm t eq_refl).
        -- apply (Tsp _ Hc).
        -- apply (Wsp _ Hc).
        -- apply okd_zero. exact Otm.
      * subst. exact I.
Qed.

Lemma same_fills a s : same (xfills a s) a.
Proof.
  revert a. induction s as [|[d w] s IH]; intro a; [apply same_refl|].
  rewrite fills_cons. eapply same_trans; [apply IH|]. apply fill_same'.
Qed.

Lemma wf_fills t a s : same a t -> wf a -> okstream t s -> wf (xfills a s).
Proof.
  revert a. induction s as [|[d w] s IH]; intros a S W O; [exact W|].
  inversion O as [|? ? [Od Ow] O']; subst. simpl in Od, Ow. rewrite fills_cons. apply IH; auto.
  - eapply same_trans; [apply fill_same'|exact S].
  - destruct Ow as [Ow|Ow].
    + apply wf_fill; auto. apply (okd_of_spec t); auto.
    + rewrite fill_gated by assumption. exact W.
Qed.

(* xfill after + equals + after xfill, along a whole stream *)
Theorem fills_add t : forall s a b,
  same a t -> same b t -> wf a -> wf b -> okstream t s -> fills_ok b s ->
  xfills (add_t a b) s = add_t a (xfills b s) /\ fills_ok (add_t a b) s.
Proof.
  induction s as [|[d w] s IH]; intros a b Sa Sb Wa Wb O Fk; [split; [reflexivity|exact I]|].
  inversion O as [|? ? [Od Ow] O']; subst. simpl in Od, Ow.
  destruct Fk as [Fd Fk]. rewrite !fills_cons. cbn [fills_ok].
  destruct (xfill b d w) as [b' o] eqn:Eb. simpl in Fd, Fk. subst o.
  assert (E : xfill (add_t a b) d w = (add_t a b', Done)).
  { destruct Ow as [Ow|Ow].
    - apply (fill_add_gen t); auto. apply (okd_of_spec t); auto.
    - rewrite fill_gated in Eb by assumption. inversion Eb; subst.
      apply fill_gated. assumption. }
  rewrite E. cbn [fst snd].
  assert (Sb' : same b' t).
  { change b' with (fst (b', Done)). rewrite <- Eb. eapply same_trans; [apply fill_same'|exact Sb]. }
  assert (Wb' : wf b').
  { change b' with (fst (b', Done)). rewrite <- Eb. destruct Ow as [Ow|Ow].
    - apply wf_fill; auto. apply (okd_of_spec t); auto.
    - rewrite fill_gated by assumption. exact Wb. }
  destruct (IH a b' Sa Sb' Wa Wb' O' Fk) as [E1 E2]. split; auto.
Qed.

(* C01: filling the concatenation of two chunks = + of the two partial results *)
Theorem fills_chunks t s1 s2 :
  okstream t s1 -> okstream t s2 -> fills_ok (zero t) s2 ->
  xfills (zero t) (s1 ++ s2) = add_t (xfills (zero t) s1) (xfills (zero t) s2).
Proof.
  intros O1 O2 F2. rewrite fills_app.
  set (A := xfills (zero t) s1).
  assert (SA : same A t). { eapply same_trans; [apply same_fills | apply same_zero]. }
  assert (WA : wf A). { apply (wf_fills t); auto. apply same_zero. apply wf_zero. }
  assert (EA : add_t A (zero t) = A).
  { unfold same in SA. rewrite <- SA. apply add_zero_r. exact WA. }
  rewrite <- EA at 1.
  apply (fills_add t); auto. apply same_zero. apply wf_zero.
Qed.

Lemma fills_ok_app a s1 s2 : fills_ok a (s1 ++ s2) <-> fills_ok a s1 /\ fills_ok (xfills a s1) s2.
Proof.
  revert a. induction s1 as [|[d w] s1 IH]; intro a.
  - cbn [app fills_ok]. change (xfills a []) with a. tauto.
  - cbn [app fills_ok]. rewrite IH. rewrite fills_cons. tauto.
Qed.

Lemma okstream_app t s1 s2 : okstream t (s1 ++ s2) <-> okstream t s1 /\ okstream t s2.
Proof. unfold okstream. apply Forall_app. Qed.

(* a chunk that can be filled into a fresh empty copy of the tree *)
Definition okchunk (t : xagg) (c : stream) : Prop := okstream t c /\ fills_ok (zero t) c.

Lemma okchunk_app t c1 c2 : okchunk t c1 -> okchunk t c2 -> okchunk t (c1 ++ c2).
Proof.
  intros [O1 F1] [O2 F2]. split; [apply okstream_app; auto|].
  apply fills_ok_app. split; auto.
  set (A := xfills (zero t) c1).
  assert (SA : same A t). { eapply same_trans; [apply same_fills | apply same_zero]. }
  assert (WA : wf A). { apply (wf_fills t); auto. apply same_zero. apply wf_zero. }
  assert (EA : add_t A (zero t) = A).
  { unfold same in SA. rewrite <- SA. apply add_zero_r. exact WA. }
  rewrite <- EA. apply (fills_add t); auto. apply same_zero. apply wf_zero.
Qed.

Lemma okchunk_concat t cs : Forall (okchunk t) cs -> okchunk t (List.concat cs).
Proof.
  induction 1 as [|c cs Hc _ IH]; cbn [List.concat].
  - split; [constructor | exact I].
  - apply okchunk_app; assumption.
Qed.

Lemma chunk_state t c : okchunk t c -> same (xfills (zero t) c) t /\ wf (xfills (zero t) c).
Proof.
  intros [O F]. split.
  - eapply same_trans; [apply same_fills | apply same_zero].
  - apply (wf_fills t); auto. apply same_zero. apply wf_zero.
Qed.

(* reduction schedules: any parenthesisation of + over the partial results *)
Inductive rtree := RLeaf (c : stream) | RNode (l r : rtree).

Fixpoint chunks_of (r : rtree) : list stream :=
  match r with RLeaf c => [c] | RNode l r => chunks_of l ++ chunks_of r end.

Fixpoint reduce (t : xagg) (r : rtree) : xagg :=
  match r with
  | RLeaf c => xfills (zero t) c
  | RNode l r => add_t (reduce t l) (reduce t r)
  end.

Theorem reduce_tree t r :
  Forall (okchunk t) (chunks_of r) -> reduce t r = xfills (zero t) (List.concat (chunks_of r)).
Proof.
  induction r as [c | l IHl r IHr]; cbn [chunks_of reduce]; intro F.
  - cbn [List.concat]. rewrite app_nil_r. reflexivity.
  - apply Forall_app in F. destruct F as [Fl Fr]. rewrite concat_app.
    destruct (okchunk_concat t _ Fl) as [Ol _]. destruct (okchunk_concat t _ Fr) as [Or Kr].
    rewrite fills_chunks by assumption. rewrite IHl, IHr by assumption. reflexivity.
Qed.

(* the order in which the chunks are combined does not matter *)
Theorem fills_concat_perm t cs cs' :
  Permutation cs cs' -> Forall (okchunk t) cs ->
  xfills (zero t) (List.concat cs) = xfills (zero t) (List.concat cs').
Proof.
  induction 1 as [| c cs cs' P IH | c1 c2 cs | cs1 cs2 cs3 P1 IH1 P2 IH2]; intro F.
  - reflexivity.
  - inversion F as [|? ? Hc F']; subst. cbn [List.concat].
    assert (F'' : Forall (okchunk t) cs') by (eapply Permutation_Forall; eauto).
    destruct Hc as [Oc Kc].
    destruct (okchunk_concat t _ F') as [O1 K1]. destruct (okchunk_concat t _ F'') as [O2 K2].
    rewrite !fills_chunks by assumption. rewrite IH by assumption. reflexivity.
  - inversion F as [|? ? H2 F']; subst. inversion F' as [|? ? H1 F'']; subst. cbn [List.concat].
    pose proof (okchunk_concat t _ F'') as Hr.
    pose proof (okchunk_app t _ _ H1 Hr) as H1r. pose proof (okchunk_app t _ _ H2 Hr) as H2r.
    destruct H1 as [O1 K1], H2 as [O2 K2], Hr as [Or Kr], H1r as [O1r K1r], H2r as [O2r K2r].
    rewrite !fills_chunks by assumption.
    destruct (chunk_state t c1 (conj O1 K1)) as [S1 W1].
    destruct (chunk_state t c2 (conj O2 K2)) as [S2 W2].
    destruct (chunk_state t _ (conj Or Kr)) as [Sr Wr].
    rewrite <- !add_assoc; auto; try (eapply same_trans; [eassumption | apply same_sym; assumption]).
    f_equal. apply add_comm; auto. eapply same_trans; [eassumption | apply same_sym; assumption].
  - rewrite IH1 by assumption. apply IH2. eapply Permutation_Forall; eauto.
Qed.

Theorem reduce_any t r1 r2 :
  Permutation (chunks_of r1) (chunks_of r2) -> Forall (okchunk t) (chunks_of r1) ->
  reduce t r1 = reduce t r2.
Proof.
  intros P F. rewrite !reduce_tree; auto.
  - apply fills_concat_perm; assumption.
  - eapply Permutation_Forall; eauto.
Qed.

(* every reduction schedule over every partition equals filling the whole dataset: cs is the
   partition in dataset order (empty chunks allowed), r any parenthesisation whose leaves are
   those chunks in any order *)
Corollary partition_invariant t r cs :
  Forall (okchunk t) (chunks_of r) -> Permutation (chunks_of r) cs ->
  reduce t r = xfills (zero t) (List.concat cs).
Proof. intros F P. rewrite reduce_tree by assumption. apply fills_concat_perm; assumption. Qed.

(* order independence of the stream itself *)
Lemma concat_singletons {A} (s : list A) : List.concat (map (fun x => [x]) s) = s.
Proof. induction s; simpl; congruence. Qed.

Theorem fills_perm t s s' :
  Permutation s s' -> okstream t s -> Forall (fun dw => fills_ok (zero t) [dw]) s ->
  xfills (zero t) s = xfills (zero t) s'.
Proof.
  intros P O K. rewrite <- (concat_singletons s), <- (concat_singletons s').
  apply fills_concat_perm.
  - apply Permutation_map. exact P.
  - apply Forall_forall. intros c Hc. apply in_map_iff in Hc. destruct Hc as (dw & <- & Hd).
    unfold okstream in O. rewrite Forall_forall in O, K. split.
    + constructor; [apply O; exact Hd | constructor].
    + apply K. exact Hd.
Qed.

(* ================= C08: scaling = refilling with scaled weights ================= *)
From Hgm Require Import MulAlg.

Definition scale (f : T Xq) (s : stream) : stream := map (fun dw => (fst dw, xmul f (snd dw))) s.

Theorem mul_fills_gen t f : finpos f -> sc (zero t) -> forall s a,
  same a t -> wf a -> okstream t s -> fills_ok a s ->
  mul_t (xfills a s) f = xfills (mul_t a f) (scale f s) /\ fills_ok (mul_t a f) (scale f s).
Proof.
  intros Hf Ct. induction s as [|[d w] s IH]; intros a Sa Wa O K; [split; [reflexivity|exact I]|].
  inversion O as [|? ? [Od Ow] O']; subst. simpl in Od, Ow. destruct K as [Kd K].
  cbn [scale map fst snd]. rewrite !fills_cons. cbn [fills_ok].
  destruct (xfill a d w) as [a' o] eqn:Ea. simpl in Kd, K. subst o.
  assert (E : xfill (mul_t a f) d (xmul f w) = (mul_t a' f, Done)).
  { destruct Ow as [Ow|Ow].
    - apply (fill_mul_gen f t); auto. apply (okd_of_spec t); auto. apply (sc_of_spec t); auto.
    - rewrite fill_gated in Ea by assumption. inversion Ea; subst.
      apply fill_gated. rewrite pos_scale; assumption. }
  rewrite E. cbn [fst snd].
  assert (Sa' : same a' t).
  { change a' with (fst (a', Done)). rewrite <- Ea. eapply same_trans; [apply fill_same'|exact Sa]. }
  assert (Wa' : wf a').
  { change a' with (fst (a', Done)). rewrite <- Ea. destruct Ow as [Ow|Ow].
    - apply wf_fill; auto. apply (okd_of_spec t); auto.
    - rewrite fill_gated by assumption. exact Wa. }
  destruct (IH a' Sa' Wa' O' K) as [E1 E2]. split; auto.
Qed.

Theorem mul_fills t f s : finpos f -> sc (zero t) -> okstream t s -> fills_ok (zero t) s ->
  mul_t (xfills (zero t) s) f = xfills (zero t) (scale f s).
Proof.
  intros Hf Ct O K.
  destruct (mul_fills_gen t f Hf Ct s (zero t) (same_zero t) (wf_zero t) O K) as [E _].
  rewrite (mul_zero t f Hf) in E. exact E.
Qed.
