(* key_cmp is a decidable strict total order with Leibniz equality. *)
From Coq Require Import ZArith NArith List String Ascii Bool Lia.
From Hgm Require Import NumOps Agg.
Import ListNotations.

Lemma N_of_ascii_inj a b : N_of_ascii a = N_of_ascii b -> a = b.
Proof. intro H. rewrite <- (ascii_N_embedding a), <- (ascii_N_embedding b), H. reflexivity. Qed.

Lemma str_cmp_eq a : forall b, str_cmp a b = Eq <-> a = b.
Proof.
  induction a as [|x a IH]; destruct b as [|y b]; simpl; split; try discriminate; auto.
  - destruct (N.compare_spec (N_of_ascii x) (N_of_ascii y)) as [E|E|E]; try discriminate.
    intro H. apply IH in H. apply N_of_ascii_inj in E. subst. reflexivity.
  - intro H. inversion H; subst. rewrite N.compare_refl. apply IH. reflexivity.
Qed.

Lemma str_cmp_antisym a : forall b, str_cmp b a = CompOpp (str_cmp a b).
Proof.
  induction a as [|x a IH]; destruct b as [|y b]; simpl; auto.
  rewrite (N.compare_antisym (N_of_ascii x) (N_of_ascii y)).
  destruct (N.compare (N_of_ascii x) (N_of_ascii y)); simpl; auto.
Qed.

Lemma str_cmp_trans a : forall b c, str_cmp a b = Lt -> str_cmp b c = Lt -> str_cmp a c = Lt.
Proof.
  induction a as [|x a IH]; destruct b as [|y b]; destruct c as [|z c]; simpl;
    try discriminate; auto.
  destruct (N.compare_spec (N_of_ascii x) (N_of_ascii y)) as [E1|E1|E1]; try discriminate;
  destruct (N.compare_spec (N_of_ascii y) (N_of_ascii z)) as [E2|E2|E2]; try discriminate;
  intros H1 H2.
  - rewrite E1, E2, N.compare_refl. eapply IH; eauto.
  - rewrite E1. apply N.compare_lt_iff in E2. rewrite E2. reflexivity.
  - rewrite <- E2. apply N.compare_lt_iff in E1. rewrite E1. reflexivity.
  - assert (N_of_ascii x < N_of_ascii z)%N by lia. apply N.compare_lt_iff in H. rewrite H.
    reflexivity.
Qed.

Lemma key_cmp_eq a b : key_cmp a b = Eq <-> a = b.
Proof.
  destruct a as [x|x|x], b as [y|y|y]; simpl; split; try discriminate; auto.
  - intro H. apply Z.compare_eq in H. subst; reflexivity.
  - intro H. inversion H; subst. apply Z.compare_refl.
  - destruct x, y; try discriminate; reflexivity.
  - intro H. inversion H; subst. destruct y; reflexivity.
  - intro H. apply str_cmp_eq in H. subst; reflexivity.
  - intro H. inversion H; subst. apply str_cmp_eq. reflexivity.
Qed.

Lemma key_cmp_antisym a b : key_cmp b a = CompOpp (key_cmp a b).
Proof.
  destruct a as [x|x|x], b as [y|y|y]; simpl; auto.
  - apply Z.compare_antisym.
  - destruct x, y; reflexivity.
  - apply str_cmp_antisym.
Qed.

Lemma key_cmp_trans a b c : key_cmp a b = Lt -> key_cmp b c = Lt -> key_cmp a c = Lt.
Proof.
  destruct a as [x|x|x], b as [y|y|y], c as [z|z|z]; simpl; try discriminate; auto.
  - rewrite !Z.compare_lt_iff. lia.
  - destruct x, y, z; try discriminate; auto.
  - apply str_cmp_trans.
Qed.
