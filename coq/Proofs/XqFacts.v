(* Facts about the exact instance. *)
From Coq Require Import ZArith List Bool QArith Qcanon Lia Lra Psatz.
From Hgm Require Import NumOps Xq.
Import ListNotations.

Local Open Scope Qc_scope.

Lemma Qc_cmp_eq (a b : Qc) : (a ?= b) = Eq <-> a = b.
Proof. split; intro H; [apply Qceq_alt in H | apply Qceq_alt]; exact H. Qed.

Lemma Qc_cmp_refl (a : Qc) : (a ?= a) = Eq.
Proof. apply Qc_cmp_eq; reflexivity. Qed.

Lemma Qc_cmp_lt (a b : Qc) : (a ?= b) = Lt <-> a < b.
Proof. split; intro H; [apply Qclt_alt in H | apply Qclt_alt]; exact H. Qed.

Lemma Qc_cmp_gt (a b : Qc) : (a ?= b) = Gt <-> b < a.
Proof. split; intro H; [apply Qcgt_alt in H | apply Qcgt_alt]; exact H. Qed.

Lemma Qc_cmp_antisym (a b : Qc) : (b ?= a) = CompOpp (a ?= b).
Proof. unfold Qccompare. symmetry. apply Qcompare_antisym. Qed.

(* order goals on Qc, decided over Q by lra/nra *)
Ltac qc2q :=
  unfold Qclt, Qcle, Qcplus, Qcmult, Qcminus, Qcopp, Qcdiv in *;
  cbn [this Q2Qc] in *; repeat rewrite Qred_correct in *;
  repeat match goal with
         | x : Qc |- _ => let c := fresh "c" in destruct x as [x c]; try clear c
         end;
  cbn [this] in *;
  repeat match goal with c : Qred _ = _ |- _ => clear c end.

Lemma Qc_mul_pos (p q : Qc) : 0 < p -> 0 < q -> 0 < p * q.
Proof. intros. qc2q. nra. Qed.

Lemma Qc_add_nonneg_pos (p q : Qc) : 0 <= p -> 0 < q -> 0 < p + q.
Proof. intros. qc2q. lra. Qed.

Lemma Qc_pos_neq0 (p : Qc) : 0 < p -> p <> 0.
Proof. intros H E. rewrite E in H. revert H. qc2q. lra. Qed.

Ltac qc_cmp_cases a b :=
  let H := fresh "Hc" in
  destruct (a ?= b) eqn:H;
  [ apply (proj1 (Qc_cmp_eq _ _)) in H | apply (proj1 (Qc_cmp_lt _ _)) in H
  | apply (proj1 (Qc_cmp_gt _ _)) in H ].

Ltac cmp_hyps := repeat match goal with
  | H : Qccompare _ _ = Eq |- _ => apply (proj1 (Qc_cmp_eq _ _)) in H
  | H : Qccompare _ _ = Lt |- _ => apply (proj1 (Qc_cmp_lt _ _)) in H
  | H : Qccompare _ _ = Gt |- _ => apply (proj1 (Qc_cmp_gt _ _)) in H end.

Ltac qc_order := try discriminate; cmp_hyps; subst; try reflexivity; try congruence;
  try (exfalso; qc2q; lra); try (f_equal; apply Qcle_antisym; qc2q; lra).

(* ---- addition ---- *)
Lemma xadd_comm x y : xadd x y = xadd y x.
Proof. destruct x, y; simpl; try reflexivity. f_equal; ring. Qed.

Lemma xadd_assoc x y z : xadd (xadd x y) z = xadd x (xadd y z).
Proof. destruct x, y, z; simpl; try reflexivity. f_equal; ring. Qed.

Lemma xadd_0_r x : xadd x (XF 0) = x.
Proof. destruct x; simpl; try reflexivity. f_equal; ring. Qed.

Lemma xadd_0_l x : xadd (XF 0) x = x.
Proof. rewrite xadd_comm. apply xadd_0_r. Qed.

(* ---- order ---- *)
Lemma xltb_irrefl x : xltb x x = false.
Proof. destruct x; simpl; try reflexivity. rewrite Qc_cmp_refl. reflexivity. Qed.

Lemma xltb_asym x y : xltb x y = true -> xltb y x = false.
Proof.
  destruct x, y; simpl; try reflexivity; try discriminate.
  rewrite (Qc_cmp_antisym q q0). destruct (q ?= q0); simpl; congruence.
Qed.

Lemma xltb_trans x y z : xltb x y = true -> xltb y z = true -> xltb x z = true.
Proof.
  destruct x, y, z; simpl; try reflexivity; try discriminate.
  qc_cmp_cases q q0; try discriminate. qc_cmp_cases q0 q1; try discriminate.
  intros _ _. assert (q < q1) by (eapply Qclt_trans; eauto).
  apply Qc_cmp_lt in H. rewrite H. reflexivity.
Qed.

(* totality on non-NaN values *)
Lemma xltb_total x y :
  xisnan x = false -> xisnan y = false -> xltb x y = false -> xltb y x = false -> x = y.
Proof.
  destruct x, y; simpl; try reflexivity; try discriminate.
  rewrite (Qc_cmp_antisym q q0). qc_cmp_cases q q0; simpl; try discriminate.
  intros; subst; reflexivity.
Qed.

Lemma xeqb_eq x y : xeqb x y = true <-> (x = y /\ xisnan x = false).
Proof.
  destruct x, y; simpl; split; try discriminate; try (intros [? ?]; discriminate); auto.
  - qc_cmp_cases q q0; try discriminate. subst; auto.
  - intros [H _]. inversion H; subst. rewrite Qc_cmp_refl. reflexivity.
Qed.

Lemma xeqb_refl x : xisnan x = false -> xeqb x x = true.
Proof. intro H. apply xeqb_eq. auto. Qed.

(* ---- multiplication by a finite positive factor ---- *)
Definition finpos (f : xq) : Prop := exists q, f = XF q /\ 0 < q.
Definition fin (x : xq) : Prop := exists q, x = XF q.

Lemma qsgn_pos q : 0 < q -> qsgn q = Gt.
Proof. intro H. unfold qsgn. apply Qc_cmp_gt. exact H. Qed.

Lemma qsgn_mul_pos f q : 0 < f -> qsgn (f * q) = qsgn q.
Proof.
  intro Hf. unfold qsgn. qc_cmp_cases q 0.
  - subst. apply Qc_cmp_eq. ring.
  - apply Qc_cmp_lt. replace 0 with (f * 0) by ring.
    rewrite (Qcmult_comm f q), (Qcmult_comm f 0). apply Qcmult_lt_compat_r; assumption.
  - apply Qc_cmp_gt. replace 0 with (f * 0) by ring.
    rewrite (Qcmult_comm f q), (Qcmult_comm f 0). apply Qcmult_lt_compat_r; assumption.
Qed.

Lemma xmul_1_l x : xmul (XF 1) x = x.
Proof.
  destruct x; simpl; try reflexivity.
  - f_equal; ring.
Qed.

Lemma xmul_add_distr_l f x y : finpos f -> xmul f (xadd x y) = xadd (xmul f x) (xmul f y).
Proof.
  intros [q [-> Hq]]. destruct x, y; simpl; rewrite ?(qsgn_pos q Hq); simpl; try reflexivity.
  f_equal; ring.
Qed.

Lemma xmul_assoc_fin f g x : finpos f -> finpos g -> xmul f (xmul g x) = xmul (xmul f g) x.
Proof.
  intros [p [-> Hp]] [q [-> Hq]]. destruct x; simpl.
  - f_equal; ring.
  - rewrite (qsgn_pos q Hq). simpl. rewrite (qsgn_pos p Hp).
    assert (0 < p * q) by (apply Qc_mul_pos; assumption).
    rewrite (qsgn_pos _ H). reflexivity.
  - rewrite (qsgn_pos q Hq). simpl. rewrite (qsgn_pos p Hp).
    assert (0 < p * q) by (apply Qc_mul_pos; assumption).
    rewrite (qsgn_pos _ H). reflexivity.
  - reflexivity.
Qed.

Lemma xmul_0_r_fin f : fin f -> xmul f (XF 0) = XF 0.
Proof. intros [q ->]. simpl. f_equal; ring. Qed.

Lemma xmul_comm x y : xmul x y = xmul y x.
Proof. destruct x, y; simpl; try reflexivity. f_equal; ring. Qed.
