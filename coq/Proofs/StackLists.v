(* Lists of entries of the levels of a Stack: non-increasing, preserved by pointwise addition,
   scaling, and by adding a weight to the levels whose threshold the datum reaches (a prefix when
   the thresholds are ascending). *)
From Coq Require Import ZArith List Bool Lia QArith Qcanon Lqa Psatz.
From Hgm Require Import NumOps Xq XqFacts.
Import ListNotations.
Local Open Scope Qc_scope.

Definition nonneg (x : xq) : Prop := exists q, x = XF q /\ 0 <= q.
Definition xge (x y : xq) : Prop := xleb y x = true.

Fixpoint nonincreasing (l : list xq) : Prop :=
  match l with
  | x :: ((y :: _) as l') => xge x y /\ nonincreasing l'
  | _ => True
  end.

Fixpoint ascending (l : list xq) : Prop :=
  match l with
  | x :: ((y :: _) as l') => xleb x y = true /\ ascending l'
  | _ => True
  end.

Lemma xleb_fin a b : xleb (XF a) (XF b) = true <-> a <= b.
Proof.
  unfold xleb, xltb, xeqb. qc_cmp_cases a b; cbn; split; intro H; try reflexivity; try discriminate;
    try (subst; apply Qcle_refl); try (apply Qclt_le_weak; exact Hc);
    try (exfalso; apply (Qclt_not_le _ _ Hc); exact H).
Qed.

Lemma xleb_trans a b c : xleb a b = true -> xleb b c = true -> xleb a c = true.
Proof.
  intros H1 H2.
  destruct a as [p| | |], b as [q| | |], c as [r| | |];
    try (cbn in H1; discriminate); try (cbn in H2; discriminate); try reflexivity.
  all: try (apply xleb_fin; apply xleb_fin in H1; apply xleb_fin in H2; eapply Qcle_trans; eassumption).
  all: unfold xleb, xltb, xeqb in *;
    repeat match goal with H : context [?x ?= ?y] |- _ => destruct (x ?= y) end; try discriminate; try reflexivity.
Qed.

Lemma xge_fin a b : xge (XF a) (XF b) <-> b <= a.
Proof. unfold xge. apply xleb_fin. Qed.

Definition addw (e : xq) (o : option xq) : xq := match o with Some w => xadd e w | None => e end.

Fixpoint zipw (es : list xq) (ws : list (option xq)) : list xq :=
  match es, ws with
  | e :: es', o :: ws' => addw e o :: zipw es' ws'
  | es, [] => es
  | [], _ => []
  end.

Lemma nonincr_cons x l : nonincreasing (x :: l) <-> (match l with y :: _ => xge x y | [] => True end) /\ nonincreasing l.
Proof. destruct l; cbn; tauto. Qed.

(* pointwise sum *)
Fixpoint zadd (l1 l2 : list xq) : list xq :=
  match l1, l2 with
  | x :: l1', y :: l2' => xadd x y :: zadd l1' l2'
  | _, _ => []
  end.

Lemma nonincr_zadd (l1 : list xq) : forall l2,
  Forall nonneg l1 -> Forall nonneg l2 -> List.length l1 = List.length l2 ->
  nonincreasing l1 -> nonincreasing l2 -> nonincreasing (zadd l1 l2).
Proof.
  induction l1 as [|x l1 IH]; intros [|y l2] F1 F2 L N1 N2; cbn [zadd]; try exact I; try discriminate.
  apply nonincr_cons in N1, N2. destruct N1 as [H1 N1], N2 as [H2 N2].
  inversion F1 as [|? ? Fx F1']; subst. inversion F2 as [|? ? Fy F2']; subst.
  apply nonincr_cons. split; [|apply IH; auto].
  destruct l1 as [|x' l1], l2 as [|y' l2]; cbn [zadd]; try exact I; try discriminate.
  inversion F1' as [|? ? Fx' _]; subst. inversion F2' as [|? ? Fy' _]; subst.
  destruct Fx as (a & -> & _), Fy as (b & -> & _), Fx' as (a' & -> & _), Fy' as (b' & -> & _).
  apply xge_fin in H1, H2. cbn [xadd]. apply xge_fin. qc2q. simpl in *. lra.
Qed.

Lemma nonincr_scale f (l : list xq) :
  (exists p, f = XF p /\ 0 < p) -> Forall nonneg l -> nonincreasing l -> nonincreasing (map (xmul f) l).
Proof.
  intros (p & -> & Hp). induction l as [|x l IH]; intros F Hn; cbn [map]; [exact I|].
  apply nonincr_cons in Hn. destruct Hn as [H1 Hn]. inversion F as [|? ? Fx F']; subst.
  apply nonincr_cons. split; [|apply IH; auto].
  destruct l as [|y l]; cbn [map]; [exact I|]. inversion F' as [|? ? Fy _]; subst.
  destruct Fx as (a & -> & _), Fy as (b & -> & _). apply xge_fin in H1. cbn [xmul]. apply xge_fin.
  qc2q. simpl in *. nra.
Qed.

(* the weight goes to the levels whose threshold the datum reaches *)
Definition reach (x w : xq) (t : xq) : option xq := if xleb t x then Some w else None.

Lemma nonincr_reach (ts : list xq) : forall es x w,
  ascending ts -> (exists q, w = XF q /\ 0 < q) -> Forall nonneg es ->
  List.length es = List.length ts -> nonincreasing es ->
  nonincreasing (zipw es (map (reach x w) ts)).
Proof.
  induction ts as [|t ts IH]; intros [|e es] x w A Hw F L Hn; cbn [map zipw]; try exact I; try discriminate.
  apply nonincr_cons in Hn. destruct Hn as [H1 Hn]. inversion F as [|? ? Fe F']; subst.
  assert (A' : ascending ts) by (destruct ts; [exact I | destruct A; assumption]).
  apply nonincr_cons. split; [|apply IH; auto].
  destruct ts as [|t2 ts], es as [|e2 es]; cbn [map zipw]; try exact I; try discriminate.
  inversion F' as [|? ? Fe2 _]; subst. destruct A as [A12 _].
  destruct Fe as (a & -> & Ha), Fe2 as (b & -> & Hb), Hw as (q & -> & Hq).
  apply xge_fin in H1. unfold reach, addw.
  destruct (xleb t x) eqn:C1; destruct (xleb t2 x) eqn:C2; cbn [xadd]; apply xge_fin.
  - qc2q. simpl in *. lra.
  - qc2q. simpl in *. lra.
  - rewrite (xleb_trans t t2 x A12 C2) in C1. discriminate.
  - exact H1.
Qed.

Lemma zipw_length es ws : List.length (zipw es ws) = List.length es.
Proof.
  revert ws. induction es as [|e es IH]; intros [|o ws]; cbn [zipw List.length]; auto.
Qed.

Lemma hd_zipw d e es o ws : hd d (zipw (e :: es) (o :: ws)) = addw e o.
Proof. reflexivity. Qed.

Lemma zipw_app (es : list xq) : forall ws e o,
  List.length es = List.length ws -> zipw (es ++ [e]) (ws ++ [o]) = zipw es ws ++ [addw e o].
Proof.
  induction es as [|x es IH]; intros [|y ws] e o L; try discriminate; [reflexivity|].
  cbn [app zipw]. cbn [List.length] in L. apply eq_add_S in L. rewrite (IH ws e o L). reflexivity.
Qed.

Lemma removelast_zipw_app (es : list xq) ws e o :
  List.length es = List.length ws -> removelast (zipw (es ++ [e]) (ws ++ [o])) = zipw es ws.
Proof. intro L. rewrite zipw_app by exact L. apply removelast_last. Qed.

Lemma last_zipw_app (es : list xq) ws e o d :
  List.length es = List.length ws -> last (zipw (es ++ [e]) (ws ++ [o])) d = addw e o.
Proof. intro L. rewrite zipw_app by exact L. apply last_last. Qed.

Lemma zadd_length l1 : forall l2, List.length l1 = List.length l2 -> List.length (zadd l1 l2) = List.length l1.
Proof. induction l1 as [|x l1 IH]; intros [|y l2] L; cbn in *; try discriminate; auto. Qed.

Lemma removelast_zadd l1 : forall l2, List.length l1 = List.length l2 ->
  removelast (zadd l1 l2) = zadd (removelast l1) (removelast l2).
Proof.
  induction l1 as [|x l1 IH]; intros [|y l2] L; try discriminate; [reflexivity|].
  cbn [List.length] in L. apply eq_add_S in L.
  destruct l1 as [|x' l1], l2 as [|y' l2]; try discriminate; [reflexivity|].
  specialize (IH (y' :: l2) L). cbn [zadd removelast] in *. f_equal. exact IH.
Qed.

Lemma hd_zadd d x l1 y l2 : hd d (zadd (x :: l1) (y :: l2)) = xadd x y.
Proof. reflexivity. Qed.

Lemma last_zadd l1 : forall l2 d1 d2 d, l1 <> [] -> List.length l1 = List.length l2 ->
  last (zadd l1 l2) d = xadd (last l1 d1) (last l2 d2).
Proof.
  induction l1 as [|x l1 IH]; intros [|y l2] d1 d2 d Hne L; try discriminate; [congruence|].
  cbn [List.length] in L. apply eq_add_S in L.
  destruct l1 as [|x' l1], l2 as [|y' l2]; try discriminate; [reflexivity|].
  specialize (IH (y' :: l2) d1 d2 d ltac:(discriminate) L). cbn [zadd last] in *. exact IH.
Qed.

Lemma removelast_map' {A B} (f : A -> B) l : removelast (map f l) = map f (removelast l).
Proof. induction l as [|x l IH]; simpl; auto. destruct l; simpl in *; auto. f_equal. exact IH. Qed.

Lemma last_map' {A B} (f : A -> B) l d : last (map f l) (f d) = f (last l d).
Proof. induction l as [|x l IH]; simpl; auto. destruct l; simpl in *; auto. Qed.

Lemma hd_map' {A B} (f : A -> B) l d : hd (f d) (map f l) = f (hd d l).
Proof. destruct l; reflexivity. Qed.

Lemma Forall_removelast {A} (P : A -> Prop) l : Forall P l -> Forall P (removelast l).
Proof.
  induction 1 as [|x l Hx _ IH]; [constructor|]. destruct l; [constructor|]. cbn [removelast].
  constructor; assumption.
Qed.

Lemma removelast_length {A} (l : list A) : List.length (removelast l) = pred (List.length l).
Proof.
  induction l as [|x l IH]; [reflexivity|]. destruct l as [|y l]; [reflexivity|].
  cbn [removelast List.length] in *. rewrite IH. reflexivity.
Qed.

Lemma zipw_nones {A} (es : list xq) (l : list A) : zipw es (map (fun _ => None) l) = es.
Proof.
  revert l. induction es as [|e es IH]; intros [|a l]; cbn [map zipw]; auto. cbn [addw]. f_equal. apply IH.
Qed.

Lemma xleb_ninf x : xisnan x = false -> xleb XNInf x = true.
Proof. destruct x; cbn; intro H; try reflexivity; discriminate. Qed.
