(* C07 / C10: += agrees with +; no silent merge of incompatible aggregators.
   Instance-independent (no arithmetic). *)
From Coq Require Import ZArith List String Bool Lia Arith.
From Hgm Require Import NumOps Agg Ops SL AggInd KeyFacts.
Import ListNotations.

Section Merge.
  Context {N : num_ops}.
  Notation agg := (agg N).
  Notation T := (T N).

  Lemma forall2b_length {A} (f : A -> A -> bool) l1 l2 :
    forall2b f l1 l2 = true -> List.length l1 = List.length l2.
  Proof.
    revert l2. induction l1 as [|a l1 IH]; destruct l2 as [|b l2]; simpl; try discriminate; auto.
    intro H. apply andb_true_iff in H. destruct H as [_ H]. f_equal. apply IH. exact H.
  Qed.

  Lemma iadd_list_add (l1 : list agg) : forall l2,
    Forall (fun a => forall b, addable a b = true -> iadd a b = (add_t a b, Done)) l1 ->
    forall2b (@addable N) l1 l2 = true ->
    iadd_list (@iadd N) l1 l2 = (map2 (@add_t N) l1 l2, Done).
  Proof.
    induction l1 as [|a l1 IH]; intros [|b l2] F H; simpl in *; try discriminate; auto.
    apply andb_true_iff in H. destruct H as [Hab H]. inversion F as [|? ? Ha Fl]; subst.
    rewrite (Ha b Hab). rewrite (IH l2 Fl H). reflexivity.
  Qed.

  (* C07: on operands that + accepts, += produces exactly the content of + and does not raise *)
  Theorem iadd_add (a : agg) : forall b, addable a b = true -> iadd a b = (add_t a b, Done).
  Proof.
    induction a as [k q s | k q e fx sp tm ct IHfx _ _] using agg_ind'; intros b H.
    - destruct b as [k2 q2 s2|]; simpl in *; [|discriminate]. rewrite H. reflexivity.
    - destruct b as [|k2 q2 e2 fx2 sp2 tm2 ct2]; [discriminate|]. cbn [addable] in H.
      apply andb_true_iff in H. destruct H as [H Hsp].
      apply andb_true_iff in H. destruct H as [H Hfx].
      apply andb_true_iff in H. destruct H as [Hk Hct].
      cbn [iadd add_t]. rewrite Hk, Hct. rewrite (forall2b_length _ _ _ Hfx), Nat.eqb_refl.
      cbn [andb]. rewrite Hsp. rewrite (iadd_list_add fx fx2 IHfx Hfx). reflexivity.
  Qed.

  (* C10: a merge that the top-level tests reject leaves the left operand untouched *)
  Definition top_compatible (a b : agg) : bool :=
    match a, b with
    | Leaf k1 _ _, Leaf k2 _ _ => leafkind_compat k1 k2
    | Node k1 _ _ fx1 _ _ ct1, Node k2 _ _ fx2 _ _ ct2 =>
        kind_compat k1 k2 && ct_compat k1 ct1 ct2 && Nat.eqb (List.length fx1) (List.length fx2)
    | _, _ => false
    end.

  Theorem iadd_rejects_top (a b : agg) : top_compatible a b = false -> iadd a b = (a, Raise).
  Proof.
    destruct a as [k1 q1 s1 | k1 q1 e1 fx1 sp1 tm1 ct1], b as [k2 q2 s2 | k2 q2 e2 fx2 sp2 tm2 ct2];
      simpl; intro H; try reflexivity; rewrite H; reflexivity.
  Qed.

  (* the specification of compatibility (property text): same primitive, equal structural
     parameters, equal declared bin type of sparse containers, compatible children at every
     position that both operands have *)
  Fixpoint compatible (a b : agg) {struct a} : bool :=
    match a, b with
    | Leaf k1 _ _, Leaf k2 _ _ => leafkind_compat k1 k2
    | Node k1 _ _ fx1 sp1 _ ct1, Node k2 _ _ fx2 sp2 _ ct2 =>
        kind_compat k1 k2 && ct_compat k1 ct1 ct2 && forall2b compatible fx1 fx2
        && sl_common key_cmp compatible sp1 sp2
    | _, _ => false
    end.

  Lemma forall2b_impl {A} (f g : A -> A -> bool) (l1 : list A) : forall l2,
    Forall (fun x => forall y, f x y = true -> g x y = true) l1 ->
    forall2b f l1 l2 = true -> forall2b g l1 l2 = true.
  Proof.
    induction l1 as [|x l1 IH]; intros [|y l2] F H; cbn [forall2b] in *; try discriminate; auto.
    apply andb_true_iff in H. destruct H as [Hxy H]. inversion F as [|? ? Hx Fl]; subst.
    apply andb_true_iff. split; [apply Hx; exact Hxy | apply IH; assumption].
  Qed.

  Lemma sl_common_impl {A} (f g : A -> A -> bool) (l1 : list (key * A)) : forall l2,
    Forall (fun kx => forall y, f (snd kx) y = true -> g (snd kx) y = true) l1 ->
    sl_common key_cmp f l1 l2 = true -> sl_common key_cmp g l1 l2 = true.
  Proof.
    induction l1 as [|[k1 x] l1 IH]; intros l2 F H.
    - destruct l2; reflexivity.
    - inversion F as [|? ? Hx Fl]; subst. induction l2 as [|[k2 y] l2 IH2]; [reflexivity|].
      cbn [sl_common] in *. destruct (key_cmp k1 k2).
      + apply andb_true_iff in H. destruct H as [Hxy H].
        apply andb_true_iff. split; [apply Hx; exact Hxy | apply IH; assumption].
      + apply IH; assumption.
      + apply IH2; assumption.
  Qed.

  Lemma addable_compatible (a : agg) : forall b, addable a b = true -> compatible a b = true.
  Proof.
    induction a as [k q s | k q e fx sp tm ct IHfx IHsp _] using agg_ind'; intros b H.
    - destruct b; simpl in *; auto.
    - destruct b as [|k2 q2 e2 fx2 sp2 tm2 ct2]; [discriminate|]. cbn [addable compatible] in *.
      apply andb_true_iff in H. destruct H as [H Hsp].
      apply andb_true_iff in H. destruct H as [H Hfx]. rewrite H. cbn [andb].
      apply andb_true_iff. split.
      + apply (forall2b_impl (@addable N)); assumption.
      + apply (sl_common_impl (@addable N)); assumption.
  Qed.

  (* + returns a result only on compatible operands: never a silent merge *)
  Theorem add_only_compatible (a b : agg) c : add a b = Ok c -> compatible a b = true.
  Proof.
    unfold add. destruct (addable a b) eqn:H; [|discriminate]. intros _.
    apply addable_compatible. exact H.
  Qed.

  (* ... and conversely a compatible pair is accepted *)
  Theorem compatible_addable (a : agg) : forall b, compatible a b = true -> addable a b = true.
  Proof.
    induction a as [k q s | k q e fx sp tm ct IHfx IHsp _] using agg_ind'; intros b H.
    - destruct b; simpl in *; auto.
    - destruct b as [|k2 q2 e2 fx2 sp2 tm2 ct2]; [discriminate|]. cbn [addable compatible] in *.
      apply andb_true_iff in H. destruct H as [H Hsp].
      apply andb_true_iff in H. destruct H as [H Hfx]. rewrite H. cbn [andb].
      apply andb_true_iff. split.
      + apply (forall2b_impl (@compatible)); assumption.
      + apply (sl_common_impl (@compatible)); assumption.
  Qed.

  Theorem add_rejects (a b : agg) : compatible a b = false -> add a b = Err.
  Proof.
    intro H. unfold add. destruct (addable a b) eqn:E; [|reflexivity].
    apply addable_compatible in E. congruence.
  Qed.

  Lemma iadd_list_raises (l1 : list agg) : forall l2,
    Forall (fun a => forall b, addable a b = false -> snd (iadd a b) = Raise) l1 ->
    List.length l1 = List.length l2 ->
    forall2b (@addable N) l1 l2 = false ->
    snd (iadd_list (@iadd N) l1 l2) = Raise.
  Proof.
    induction l1 as [|a l1 IH]; intros [|b l2] F L H; simpl in *; try discriminate.
    inversion F as [|? ? Ha Fl]; subst.
    destruct (addable a b) eqn:Eab.
    - rewrite (iadd_add a b Eab). simpl in H.
      specialize (IH l2 Fl (eq_add_S _ _ L) H).
      destruct (iadd_list (@iadd N) l1 l2) as [l'' o']. simpl in *. exact IH.
    - specialize (Ha b Eab). destruct (iadd a b) as [a' o]. simpl in Ha. subst o. reflexivity.
  Qed.

  (* += raises whenever + does *)
  Theorem iadd_raises (a : agg) : forall b, addable a b = false -> snd (iadd a b) = Raise.
  Proof.
    induction a as [k q s | k q e fx sp tm ct IHfx _ _] using agg_ind'; intros b H.
    - destruct b as [k2 q2 s2|]; simpl in *; [|reflexivity]. rewrite H. reflexivity.
    - destruct b as [|k2 q2 e2 fx2 sp2 tm2 ct2]; [reflexivity|]. cbn [addable iadd] in *.
      destruct (kind_compat k k2 && ct_compat k ct ct2) eqn:Ek; cbn [andb] in *; [|reflexivity].
      destruct (Nat.eqb (List.length fx) (List.length fx2)) eqn:El; [|reflexivity].
      apply Nat.eqb_eq in El.
      destruct (sl_common key_cmp (@addable N) sp sp2) eqn:Es; [|reflexivity].
      rewrite andb_true_r in H.
      pose proof (iadd_list_raises fx fx2 IHfx El H) as R.
      destruct (iadd_list (@iadd N) fx fx2) as [fx' o2]. simpl in *. exact R.
  Qed.
End Merge.
