(* Induction principle for the nested inductive [agg], and instance-independent facts. *)
From Coq Require Import ZArith List String Bool.
From Hgm Require Import NumOps Agg Ops SL.
Import ListNotations.

Section Ind.
  Context {N : num_ops}.
  Notation agg := (agg N).

  Definition allP {A} (P : A -> Prop) :=
    fix go (l : list A) : Prop :=
      match l with [] => True | x :: l' => P x /\ go l' end.

  Lemma allP_Forall {A} (P : A -> Prop) l : allP P l <-> Forall P l.
  Proof.
    induction l as [|x l IH]; simpl; split; intro H; auto.
    - destruct H. constructor; tauto.
    - inversion H; subst. tauto.
  Qed.

  Section Principle.
    Variable P : agg -> Prop.
    Hypothesis Hleaf : forall k q s, P (Leaf k q s).
    Hypothesis Hnode : forall k q e fx sp tm ct,
        Forall P fx -> Forall (fun kc => P (snd kc)) sp ->
        (forall t, tm = Some t -> P t) -> P (Node k q e fx sp tm ct).

    Fixpoint agg_ind' (a : agg) : P a :=
      match a with
      | Leaf k q s => Hleaf k q s
      | Node k q e fx sp tm ct =>
          Hnode k q e fx sp tm ct
            ((fix go (l : list agg) : Forall P l :=
                match l with
                | [] => Forall_nil P
                | x :: l' => Forall_cons x (agg_ind' x) (go l')
                end) fx)
            ((fix go (l : list (key * agg)) : Forall (fun kc => P (snd kc)) l :=
                match l with
                | [] => Forall_nil _
                | kc :: l' => Forall_cons kc (agg_ind' (snd kc)) (go l')
                end) sp)
            (match tm as o return (forall t, o = Some t -> P t) with
             | Some t0 => fun t E => match E in (_ = y) return
                                          (match y with Some t' => P t' | None => True end)
                                    with eq_refl => agg_ind' t0 end
             | None => fun t E => match E in (_ = y) return
                                        (match y with Some t' => P t' | None => True end)
                                  with eq_refl => I end
             end)
      end.
  End Principle.

  (* ---- zero ---- *)
  Lemma leaf_zero_idem (k : leafkind) : leaf_zero (N:=N) k = leaf_zero k.
  Proof. reflexivity. Qed.

  Lemma zero_idem (a : agg) : zero (zero a) = zero a.
  Proof.
    induction a as [k q s | k q e fx sp tm ct IHfx _ _] using agg_ind'; simpl; auto.
    f_equal. rewrite map_map. apply map_ext_in. intros c Hc.
    rewrite Forall_forall in IHfx. apply IHfx. exact Hc.
  Qed.

  Lemma length_map2 {A} (f : A -> A -> A) l1 l2 :
    List.length l1 = List.length l2 -> List.length (map2 f l1 l2) = List.length l1.
  Proof.
    revert l2. induction l1 as [|x l1 IH]; destruct l2 as [|y l2]; simpl; intro H;
      try discriminate; auto.
  Qed.
End Ind.

Section FillZ.
  Context {N : num_ops}.
  Notation agg := (agg N).

  Lemma map_id' {A} (l : list A) : map (fun c => c) l = l.
  Proof. induction l; simpl; congruence. Qed.

  Lemma fill_list_zero (f f' : agg -> T N -> agg * outcome) ws (l : list agg) :
    Forall (fun c => forall w, f c w = f' (zero c) w) l ->
    fill_list f zero ws l = fill_list f' (fun c => c) ws (map zero l).
  Proof.
    revert ws. induction l as [|a l IH]; intros ws F; simpl; auto.
    inversion F as [|? ? Ha Fl]; subst.
    destruct ws as [|[w|] ws].
    - rewrite (IH [] Fl). reflexivity.
    - rewrite Ha. destruct (f' (zero a) w) as [a' o]. destruct o.
      + rewrite (IH ws Fl). reflexivity.
      + rewrite map_id'. reflexivity.
    - rewrite (IH ws Fl). reflexivity.
  Qed.

  Lemma fillz_zero (a : agg) : forall d w, fillz true a d w = fillz false (zero a) d w.
  Proof.
    induction a as [k q s | k q e fx sp tm ct IHfx _ _] using agg_ind'; intros d w.
    - simpl. destruct (pos w); reflexivity.
    - cbn [fillz zero]. rewrite map_length.
      destruct (negb (pos w)); [reflexivity|].
      destruct (if has_quantity k then qfn q d else QV VNone) as [v|]; [|reflexivity].
      destruct (route k (List.length fx) v w) as [|ws sk]; [reflexivity|].
      rewrite (fill_list_zero (fun c w' => fillz true c d w') (fun c w' => fillz false c d w')).
      2:{ rewrite Forall_forall in *. intros c Hc w'. apply IHfx. exact Hc. }
      destruct (fill_list (fun c w' => fillz false c d w') (fun c => c) ws (map zero fx))
        as [fx' o1].
      destruct o1; [|reflexivity].
      destruct sk as [[key w']|]; [|reflexivity].
      destruct tm as [t|]; simpl; reflexivity.
  Qed.
End FillZ.

Section FillEq.
  Context {N : num_ops}.
  Notation agg := (agg N).
  Local Open Scope num_scope.

  (* one unfolding of fill on a node, with "create the child from the template" spelled out as
     fill (zero t) and the sparse update expressed by lookup / upd *)
  Lemma fill_Node k q e fx sp tm ct d w :
    fill (Node k q e fx sp tm ct) d w =
    if negb (pos w) then (Node k q e fx sp tm ct, Done) else
    match (if has_quantity k then qfn q d else @QV N (@VNone N)) with
    | QRaise => (Node k q e fx sp tm ct, Raise)
    | QV v =>
        match route k (List.length fx) v w with
        | RErr => (Node k q e fx sp tm ct, Raise)
        | RTo ws sk =>
            let '(fx', o1) := fill_list (fun c w' => fill c d w') (fun c => c) ws fx in
            match o1 with
            | Raise => (Node k q e fx' sp tm ct, Raise)
            | Done =>
                match sk with
                | None => (Node k q (e + w) fx' sp tm ct, Done)
                | Some (key, w') =>
                    match sl_lookup key_cmp key sp with
                    | Some c =>
                        let '(c', o) := fill c d w' in
                        let sp' := sl_upd key_cmp key (fun _ => c') sp in
                        match o with
                        | Done => (Node k q (e + w) fx' sp' tm ct, Done)
                        | Raise => (Node k q e fx' sp' tm ct, Raise)
                        end
                    | None =>
                        match tm with
                        | None => (Node k q e fx' sp tm ct, Raise)
                        | Some t =>
                            let '(c', o) := fill (zero t) d w' in
                            match o with
                            | Done =>
                                (Node k q (e + w) fx' (sl_upd key_cmp key (fun _ => c') sp) tm ct,
                                 Done)
                            | Raise => (Node k q e fx' sp tm ct, Raise)
                            end
                        end
                    end
                end
            end
        end
    end.
  Proof.
    unfold fill. cbn [fillz].
    destruct (negb (pos w)); [reflexivity|].
    destruct (if has_quantity k then qfn q d else @QV N (@VNone N)) as [v|]; [|reflexivity].
    destruct (route k (List.length fx) v w) as [|ws sk]; [reflexivity|].
    destruct (fill_list (fun c w' => fillz false c d w') (fun c => c) ws fx) as [fx' o1].
    destruct o1; [|reflexivity].
    destruct sk as [[key w']|]; [|reflexivity].
    destruct tm as [t|].
    - rewrite sp_fill_spec. rewrite fillz_zero.
      destruct (sl_lookup key_cmp key sp) as [c|].
      + destruct (fillz false c d w') as [c' o]. destruct o; reflexivity.
      + destruct (fillz false (zero t) d w') as [c' o]. destruct o; reflexivity.
    - destruct (sl_lookup key_cmp key sp) as [c|] eqn:L; [|reflexivity].
      rewrite sp_fill_spec. rewrite L.
      destruct (fillz false c d w') as [c' o]. destruct o; reflexivity.
  Qed.
End FillEq.
