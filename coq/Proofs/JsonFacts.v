(* C15: what the reader rejects, for every document.  C04: strictness, leaf round trips. *)
From Coq Require Import ZArith List String Ascii Bool.
From Hgm Require Import NumOps Agg Ops Build Snap Json.
Import ListNotations.
Local Open Scope string_scope.

Section Reject.
  Context {N : num_ops}.
  Notation json := (json N).

  Definition is_obj (j : json) : bool := match j with JObj _ => true | _ => false end.

  (* required / optional keys of the fragment of each primitive *)
  Definition req_keys (ty : string) : list string :=
    if String.eqb ty "Sum" then ["entries"; "sum"]
    else if String.eqb ty "Average" then ["entries"; "mean"]
    else if String.eqb ty "Minimize" then ["entries"; "min"]
    else if String.eqb ty "Maximize" then ["entries"; "max"]
    else if String.eqb ty "Deviate" then ["entries"; "mean"; "variance"]
    else if String.eqb ty "Bag" then ["entries"; "values"; "range"]
    else if String.eqb ty "Bin" then
      ["low"; "high"; "entries"; "values:type"; "values"; "underflow:type"; "underflow";
       "overflow:type"; "overflow"; "nanflow:type"; "nanflow"]
    else if String.eqb ty "SparselyBin" then
      ["binWidth"; "entries"; "bins:type"; "bins"; "nanflow:type"; "nanflow"; "origin"]
    else if String.eqb ty "CentrallyBin" || String.eqb ty "IrregularlyBin" || String.eqb ty "Stack" then
      ["entries"; "bins:type"; "bins"; "nanflow:type"; "nanflow"]
    else if String.eqb ty "Fraction" then ["entries"; "sub:type"; "numerator"; "denominator"]
    else if String.eqb ty "Select" then ["entries"; "sub:type"; "data"]
    else if String.eqb ty "Categorize" then ["entries"; "bins:type"; "bins"]
    else if String.eqb ty "Label" || String.eqb ty "Index" then ["entries"; "sub:type"; "data"]
    else ["entries"; "data"].

  Definition opt_keys (ty : string) : list string :=
    if String.eqb ty "Sum" || String.eqb ty "Average" || String.eqb ty "Minimize"
       || String.eqb ty "Maximize" || String.eqb ty "Deviate" || String.eqb ty "Bag"
       || String.eqb ty "Select" then ["name"]
    else if String.eqb ty "Bin" then ["name"; "values:name"]
    else if String.eqb ty "SparselyBin" || String.eqb ty "CentrallyBin" || String.eqb ty "IrregularlyBin"
            || String.eqb ty "Stack" || String.eqb ty "Categorize" then ["name"; "bins:name"]
    else if String.eqb ty "Fraction" then ["name"; "sub:name"]
    else [].

  Ltac case_ty ty :=
    repeat match goal with
           | |- context [String.eqb ty ?s] =>
               let H := fresh "Hty" in
               destruct (String.eqb ty s) eqn:H;
               [ apply String.eqb_eq in H; subst ty; cbn [String.eqb Ascii.eqb Bool.eqb orb andb]
               | cbn [orb andb] ]
           end.

  (* anything but a Count must be a JSON object *)
  Theorem rejects_non_object fuel ty (j : json) p :
    String.eqb ty "Count" = false -> is_obj j = false -> from_frag fuel ty j p = Err.
  Proof.
    intros Hc Ho. destruct fuel as [|fuel]; [reflexivity|]. cbn [from_frag]. rewrite Hc.
    destruct j; try discriminate; revert Hc; case_ty ty; intros; try reflexivity; discriminate.
  Qed.

  (* a fragment with a missing required key or an unknown key is rejected *)
  Theorem rejects_wrong_keys fuel ty (o : list (string * json)) p a :
    String.eqb ty "Count" = false ->
    from_frag fuel ty (JObj o) p = Ok a -> has_keys o (req_keys ty) (opt_keys ty) = true.
  Proof.
    intros Hc. destruct fuel as [|fuel]; [discriminate|]. cbn [from_frag]. rewrite Hc.
    unfold req_keys, opt_keys. revert Hc. case_ty ty; intros Hc; try discriminate Hc;
      match goal with
      | |- context [has_keys o ?r ?op] =>
          destruct (has_keys o r op); [intros; reflexivity | intros; discriminate]
      | |- _ => intros; discriminate
      end.
  Qed.

  (* an unknown primitive name, at the top or in any ...:type field, is rejected *)
  Theorem rejects_unknown_type fuel ty (j : json) p : registered ty = false -> from_frag fuel ty j p = Err.
  Proof.
    intro H. destruct fuel as [|fuel]; [reflexivity|]. cbn [from_frag].
    unfold registered, names in H. cbn [mem_str] in H.
    repeat match type of H with
           | (String.eqb ty ?s || _) = false =>
               apply orb_false_iff in H; let H1 := fresh "H" in destruct H as [H1 H]; rewrite H1
           end.
    cbn [orb]. reflexivity.
  Qed.

  (* the header: exactly type, data, version; a compatible version string; a registered type *)
  Theorem rejects_bad_header fuel (o : list (string * json)) a :
    from_json fuel (JObj o) = Ok a ->
    has_keys o ["type"; "data"; "version"] [] = true /\
    (exists v, jget "version" o = Some (JStr v) /\ version_ok v = Some true) /\
    (exists t, jget "type" o = Some (JStr t) /\ registered t = true).
  Proof.
    unfold from_json. destruct (has_keys o ["type"; "data"; "version"] []); cbn [negb]; [|discriminate].
    destruct (jget "type" o) as [jt|]; [|discriminate].
    destruct (jget "data" o) as [jd|]; [|discriminate].
    destruct (jget "version" o) as [jv|]; [|discriminate].
    destruct jv as [| | |v| |]; try discriminate.
    destruct (version_ok v) as [[|]|] eqn:Ev; try discriminate.
    destruct jt as [| | |t| |]; try discriminate.
    destruct (registered t) eqn:Er; [|discriminate].
    intros _. repeat split; eauto.
  Qed.

  Theorem rejects_non_document fuel (j : json) : is_obj j = false -> from_json fuel j = Err.
  Proof. destruct j; try discriminate; reflexivity. Qed.

  (* version.compatible: reader 1.1 accepts exactly the documents of version <= 1.1 *)
  Theorem version_examples :
    version_ok "1.1" = Some true /\ version_ok "1.0" = Some true /\ version_ok "0.9" = Some true /\
    version_ok "1.2" = Some false /\ version_ok "2.0" = Some false /\ version_ok "3.0.1" = Some false /\
    version_ok "abc" = None /\ version_ok "1" = None.
  Proof. repeat split; reflexivity. Qed.
End Reject.

(* ================= C04: strictness ================= *)
From Hgm Require Import SL AggInd.

Section Strict.
  Context {N : num_ops}.
  Notation json := (json N).
  Notation agg := (agg N).

  Definition finite (x : T N) : Prop := nisnan x = false /\ nisinf x = false.

  (* no number of the document is NaN or +-Infinity: json.dumps(allow_nan=False) accepts it *)
  Fixpoint strict (j : json) : Prop :=
    match j with
    | JNum x => finite x
    | JArr l => allP strict l
    | JObj kvs => allP (fun kv => strict (snd kv)) kvs
    | _ => True
    end.

  Lemma fnum_strict (x : T N) : strict (fnum x).
  Proof.
    unfold fnum. destruct (nisnan x) eqn:E1; [exact I|]. destruct (nisinf x) eqn:E2.
    - destruct (nltb nzero x); exact I.
    - split; assumption.
  Qed.

  Lemma maybe_add_strict (o : list (string * json)) k v :
    allP (fun kv => strict (snd kv)) o -> allP (fun kv => strict (snd kv)) (maybe_add o k v).
  Proof.
    intro H. destruct v as [s|]; [|exact H]. unfold maybe_add. apply allP_Forall.
    apply allP_Forall in H. apply Forall_app. split; [exact H|]. constructor; [exact I|constructor].
  Qed.

  (* the only raw number a fragment contains is a SparselyBin origin *)
  Fixpoint origins_finite (a : agg) : Prop :=
    match a with
    | Leaf _ _ _ => True
    | Node k _ _ fx sp tm _ =>
        (match k with KSparse _ origin => finite origin | _ => True end) /\
        allP origins_finite fx /\ allP (fun kc => origins_finite (snd kc)) sp
    end.

  Lemma allP_map {A B} (P : B -> Prop) (f : A -> B) (l : list A) :
    Forall (fun x => P (f x)) l -> allP P (map f l).
  Proof. intro H. apply allP_Forall. apply Forall_map. exact H. Qed.

  Lemma firstn_In {A} n (l : list A) x : In x (firstn n l) -> In x l.
  Proof.
    revert l. induction n as [|n IH]; intros [|y l] H; simpl in *; try contradiction.
    destruct H as [H|H]; [left; exact H | right; apply IH; exact H].
  Qed.

  Lemma allP_firstn {A} (P : A -> Prop) n (l : list A) : allP P l -> allP P (firstn n l).
  Proof.
    intro H. apply allP_Forall. apply allP_Forall in H. rewrite Forall_forall in *.
    intros x Hx. apply H. eapply firstn_In. exact Hx.
  Qed.

  Lemma strict_nth (l : list json) i : allP strict l -> strict (nth i l JNull).
  Proof.
    intro H. apply allP_Forall in H. rewrite Forall_forall in H.
    destruct (nth_in_or_default i l JNull) as [Hi|Hd]; [apply H; exact Hi | rewrite Hd; exact I].
  Qed.

  Lemma allP_combine_snd {A} (P : json -> Prop) (ks : list A) (l : list json) :
    allP P l -> allP (fun kv : A * json => P (snd kv)) (combine ks l).
  Proof.
    revert l. induction ks as [|k ks IH]; intros [|x l] H; simpl; auto.
    destruct H as [Hx H]. split; auto.
  Qed.

  Theorem to_frag_strict (a : agg) : forall sup, origins_finite a -> strict (to_frag a sup).
  Proof.
    induction a as [k q s | k q e fx sp tm ct IHfx IHsp _] using agg_ind'; intros sup O.
    - destruct k; cbn [to_frag]; try apply fnum_strict;
        try (cbn [strict]; apply maybe_add_strict; cbn [allP snd strict]; repeat split;
             try apply fnum_strict; exact I).
      (* Bag *)
      cbn [strict]. apply maybe_add_strict. cbn [allP snd strict]. repeat split; try apply fnum_strict.
      apply allP_map. apply Forall_forall. intros [bk c] _. cbn [strict allP snd fst].
      repeat split; try apply fnum_strict. destruct bk; cbn [tok_bag]; try exact I; try apply fnum_strict.
      cbn [strict]. apply allP_map. apply Forall_forall. intros [x|] _; [apply fnum_strict | exact I].
    - cbn [origins_finite] in O. destruct O as (Hko & Ofx & Osp).
      assert (KT : allP strict (map (fun c => to_frag c true) fx)).
      { apply allP_map. apply allP_Forall in Ofx. rewrite Forall_forall in *. intros c Hc.
        apply IHfx; auto. }
      assert (KF : allP strict (map (fun c => to_frag c false) fx)).
      { apply allP_map. apply allP_Forall in Ofx. rewrite Forall_forall in *. intros c Hc.
        apply IHfx; auto. }
      assert (SP : allP (fun kv : string * json => strict (snd kv))
                        (map (fun kc => (key_str (fst kc), to_frag (snd kc) true)) sp)).
      { apply allP_map. apply allP_Forall in Osp. rewrite Forall_forall in *. intros kc Hc. cbn [snd].
        apply IHsp; auto. }
      assert (CB : forall (cs : list (T N)) (fld : string),
                 allP strict (map (fun cd : T N * json => JObj [(fld, fnum (fst cd)); ("data", snd cd)])
                                  (combine cs (firstn (List.length cs) (map (fun c => to_frag c true) fx))))).
      { intros cs fld. apply allP_map. apply Forall_forall. intros [c d] Hc. cbn [strict allP snd fst].
        repeat split; try apply fnum_strict.
        apply in_combine_r in Hc. apply allP_Forall in KT. rewrite Forall_forall in KT.
        apply KT. eapply firstn_In. exact Hc. }
      assert (TD : allP strict (map (fun c : agg => JObj [("type", JStr (type_name c)); ("data", to_frag c false)]) fx)).
      { apply allP_map. apply allP_Forall in Ofx. rewrite Forall_forall in *.
        intros c Hc. cbn [strict allP snd]. repeat split; auto. }
      destruct k; cbn [to_frag strict]; repeat apply maybe_add_strict; cbn [allP snd strict];
        repeat split;
        try first [ apply fnum_strict | exact I | exact Hko | exact SP | exact KF | exact TD
              | apply strict_nth; first [exact KF | exact KT]
              | apply allP_firstn; exact KT
              | apply CB
              | apply allP_combine_snd; first [exact KF | exact TD] ];
        try (destruct Hko; assumption).
  Qed.

  Theorem to_json_strict (a : agg) : origins_finite a -> strict (to_json a).
  Proof.
    intro O. unfold to_json. cbn [strict allP snd]. repeat split; auto. apply to_frag_strict. exact O.
  Qed.
End Strict.

(* ================= C04: leaves round-trip exactly (exact instance) ================= *)
From Coq Require Import QArith Qcanon.
From Hgm Require Import Xq XqFacts LeafAlg.

Section LeafRT.
  Notation xjson := (json Xq).

  Lemma jnum_fnum (x : xq) : @jnum Xq (@fnum Xq x) = Some x.
  Proof. destruct x; reflexivity. Qed.

  Definition entries_fine (s : leafstate Xq) : Prop := @entries_ok Xq (le s) = true.

  (* the state of the reloaded leaf: Deviate goes through variance = vte/entries *)
  Definition reload_state (k : leafkind) (s : leafstate Xq) : leafstate Xq :=
    match k with
    | LDeviate =>
        {| le := le s; l1 := l1 s;
           l2 := xmul (if xeqb (le s) (XF 0) then l2 s else xdiv (l2 s) (le s)) (le s);
           lv := [] |}
    | LCount _ => {| le := le s; l1 := XF 0; l2 := XF 0; lv := [] |}
    | LBag _ => {| le := le s; l1 := XF 0; l2 := XF 0; lv := lv s |}
    | _ => {| le := le s; l1 := l1 s; l2 := XF 0; lv := [] |}
    end.

  Definition simple_leaf (k : leafkind) : bool :=
    match k with LBag _ => false | _ => true end.

  Definition reload_kind (k : leafkind) : leafkind :=
    match k with LCount _ => LCount TId | _ => k end.

  Theorem leaf_from_to k q s fuel sup parent :
    simple_leaf k = true -> entries_fine s ->
    @from_frag Xq (Datatypes.S fuel) (leaf_name k) (to_frag (Leaf k q s) sup) parent =
    Ok (Leaf (reload_kind k)
             (match k with
              | LCount _ => frozen_q None
              | _ => frozen_q (pick_name (if sup then None else qname q) parent)
              end)
             (reload_state k s)).
  Proof.
    intros Hk He. unfold entries_fine in He.
    destruct k; try discriminate; cbn [leaf_name to_frag from_frag String.eqb Ascii.eqb Bool.eqb];
      destruct sup; cbn [qname]; try destruct (qname q) as [nm|];
      cbn [maybe_add app has_keys forallb map fst mem_str String.eqb Ascii.eqb Bool.eqb orb andb
           jget jname pick_name];
      rewrite ?jnum_fnum, ?He; reflexivity.
  Qed.

  (* for a well-formed Deviate the reloaded state is the state itself *)
  Lemma deviate_reload_exact s : leaf_wf LDeviate s -> reload_state LDeviate s = s.
  Proof.
    destruct s as [e m v vals]. unfold leaf_wf, reload_state; xproj. intro H.
    wf_dev H; apply lstate_eq; xproj; try reflexivity; xnorm; try reflexivity.
    f_equal. field. apply Qc_pos_neq0. assumption.
  Qed.
End LeafRT.
