(* C15: a negative "entries" anywhere is rejected, for every primitive, every document. *)
From Coq Require Import ZArith List String Ascii Bool Lia FinFun.
From Hgm Require Import NumOps Agg Ops Build Snap Json JsonFacts SL KeyFacts.
Import ListNotations.
Local Open Scope string_scope.

Section Neg.
  Context {N : num_ops}.
  Notation json := (json N).

  Ltac case_ty ty :=
    repeat match goal with
           | |- context [String.eqb ty ?s] =>
               let H := fresh "Hty" in
               destruct (String.eqb ty s) eqn:H;
               [ apply String.eqb_eq in H; subst ty; cbn [String.eqb Ascii.eqb Bool.eqb orb andb]
               | cbn [orb andb] ]
           end.

  Ltac walk :=
    repeat (match goal with
            | |- Err = Err => reflexivity
            | |- (match ?x with _ => _ end) = Err => destruct x eqn:?; try reflexivity
            | |- (if ?x then _ else _) = Err => destruct x eqn:?; try reflexivity
            end).

  Theorem rejects_negative_entries fuel ty (o : list (string * json)) p je e :
    String.eqb ty "Count" = false ->
    jget "entries" o = Some je -> jnum je = Some e -> entries_ok e = false ->
    from_frag fuel ty (JObj o) p = Err.
  Proof.
    intros Hc Hj Hn He. destruct fuel as [|fuel]; [reflexivity|]. cbn [from_frag]. rewrite Hc.
    revert Hc. case_ty ty; intros Hc; try discriminate Hc; try reflexivity; rewrite ?Hj.
    all: walk.
    all: match goal with H : Some ?t = Some ?u |- _ => injection H as H; subst t end.
    all: repeat match goal with H : (_ || _) = false |- _ => apply orb_false_iff in H; destruct H end.
    all: repeat match goal with H : negb _ = false |- _ => apply negb_false_iff in H end.
    all: repeat match goal with H : (_ && _) = true |- _ => apply andb_true_iff in H; destruct H end.
    all: congruence.
  Qed.

  Theorem rejects_negative_count fuel (j : json) p e :
    jnum j = Some e -> entries_ok e = false -> from_frag fuel "Count" j p = Err.
  Proof.
    intros Hn He. destruct fuel as [|fuel]; [reflexivity|]. cbn [from_frag String.eqb Ascii.eqb Bool.eqb].
    rewrite Hn, He. reflexivity.
  Qed.

  (* "entries" that is not a number ("nan"/"inf"/"-inf" count as numbers) *)
  Theorem rejects_bad_entries_type fuel ty (o : list (string * json)) p je :
    String.eqb ty "Count" = false ->
    jget "entries" o = Some je -> jnum je = None -> from_frag fuel ty (JObj o) p = Err.
  Proof.
    intros Hc Hj Hn. destruct fuel as [|fuel]; [reflexivity|]. cbn [from_frag]. rewrite Hc.
    revert Hc. case_ty ty; intros Hc; try discriminate Hc; try reflexivity; rewrite ?Hj.
    all: walk.
    all: congruence.
  Qed.

  (* ---------- nothing is dropped, duplicated or defaulted ---------- *)
  Lemma all_ok_Forall2 {A B} (f : A -> res B) (l : list A) : forall xs,
    all_ok (map f l) = Ok xs -> Forall2 (fun x y => f x = Ok y) l xs.
  Proof.
    induction l as [|x l IH]; intros xs H; cbn [map all_ok] in H.
    - injection H as <-. constructor.
    - destruct (f x) as [y|] eqn:E; [|discriminate]. destruct (all_ok (map f l)) as [ys|] eqn:E2; [|discriminate].
      injection H as <-. constructor; [exact E | apply IH; reflexivity].
  Qed.

  Lemma Forall2_len {A B} (R : A -> B -> Prop) l1 l2 : Forall2 R l1 l2 -> List.length l1 = List.length l2.
  Proof. induction 1; cbn; congruence. Qed.

  (* the list-valued field of a fragment and the children read from it (Categorize: the keys of a
     Python dict are distinct and the reader inserts them one by one; not stated here) *)
  Definition elements (ty : string) (o : list (string * json)) : option (list json) :=
    if String.eqb ty "Bin" then match jget "values" o with Some (JArr l) => Some l | _ => None end
    else if String.eqb ty "CentrallyBin" || String.eqb ty "IrregularlyBin" || String.eqb ty "Stack"
    then match jget "bins" o with Some (JArr l) => Some l | _ => None end
    else if String.eqb ty "SparselyBin"
    then match jget "bins" o with Some (JObj kvs) => Some (map snd kvs) | _ => None end
    else if String.eqb ty "Label" || String.eqb ty "UntypedLabel"
    then match jget "data" o with Some (JObj kvs) => Some (map snd kvs) | _ => None end
    else if String.eqb ty "Index" || String.eqb ty "Branch"
    then match jget "data" o with Some (JArr l) => Some l | _ => None end
    else None.

  Definition n_children (a : agg N) : nat :=
    match a with
    | Node (KBin _ _) _ _ fx _ _ _ => (List.length fx - 3)%nat
    | Node (KCentral _) _ _ fx _ _ _ | Node (KIrr _) _ _ fx _ _ _ | Node (KStack _) _ _ fx _ _ _ =>
        (List.length fx - 1)%nat
    | Node (KSparse _ _) _ _ _ sp _ _ | Node KCat _ _ _ sp _ _ => List.length sp
    | Node _ _ _ fx _ _ _ => List.length fx
    | Leaf _ _ _ => 0%nat
    end.

  Ltac walkH H :=
    repeat (match type of H with
            | (match ?x with _ => _ end) = Ok _ => destruct x eqn:?; try discriminate H
            | (if ?x then _ else _) = Ok _ => destruct x eqn:?; try discriminate H
            end).

  Theorem keeps_every_element fuel ty (o : list (string * json)) p a xs :
    from_frag fuel ty (JObj o) p = Ok a -> elements ty o = Some xs ->
    n_children a = List.length xs.
  Proof.
    intros H E. destruct fuel as [|fuel]; [discriminate|]. cbn [from_frag] in H. unfold elements in E.
    revert H E. case_ty ty; intros H E; try discriminate E; try discriminate H.
    all: walkH H.
    all: injection H as <-; injection E as <-; cbn [n_children].
    all: repeat match goal with
                | Hr : all_ok (map _ _) = Ok _ |- _ => apply all_ok_Forall2 in Hr; apply Forall2_len in Hr
                end.
    all: repeat match goal with H : (_ || _) = false |- _ => apply orb_false_iff in H; destruct H end.
    all: repeat match goal with H : negb _ = false |- _ => apply negb_false_iff in H end.
    all: repeat match goal with H : (_ =? _)%nat = true |- _ => apply Nat.eqb_eq in H end.
    all: rewrite ?app_length, ?map_length in *; cbn [List.length] in *; lia.
  Qed.

  (* ---------- Categorize: one bin per key of the "bins" object (a Python dict: distinct keys) ---------- *)
  Lemma upd_len_new {V} k (f : option V -> V) (acc : list (key * V)) :
    sl_lookup key_cmp k acc = None -> List.length (sl_upd key_cmp k f acc) = S (List.length acc).
  Proof.
    induction acc as [|[k' v] acc IH]; intro H; [reflexivity|]. cbn [sl_lookup] in H. cbn [sl_upd].
    destruct (key_cmp k k'); [discriminate | reflexivity |]. cbn [List.length]. rewrite IH by exact H. reflexivity.
  Qed.

  Lemma fold_upd_len {V} (kcs : list (key * V)) : forall acc,
    NoDup (map fst kcs) -> (forall kc, In kc kcs -> sl_lookup key_cmp (fst kc) acc = None) ->
    sorted key_cmp acc ->
    List.length (fold_left (fun a (kc : key * V) => sl_upd key_cmp (fst kc) (fun _ => snd kc) a) kcs acc) =
    (List.length acc + List.length kcs)%nat.
  Proof.
    induction kcs as [|[k c] kcs IH]; intros acc ND HN S; cbn [fold_left List.length fst snd]; [lia|].
    cbn [map fst] in ND. inversion ND as [|? ? Hnotin ND']; subst.
    rewrite IH.
    - rewrite upd_len_new by (apply (HN (k, c)); left; reflexivity). lia.
    - exact ND'.
    - intros kc Hkc. rewrite (lookup_upd key_cmp key_cmp_eq key_cmp_antisym key_cmp_trans) by exact S.
      destruct (key_cmp (fst kc) k) eqn:C.
      + apply key_cmp_eq in C. exfalso. apply Hnotin. rewrite <- C. apply in_map. exact Hkc.
      + apply HN. right. exact Hkc.
      + apply HN. right. exact Hkc.
    - apply (sorted_upd key_cmp key_cmp_antisym key_cmp_trans). exact S.
  Qed.

  Theorem categorize_keeps_every_bin fuel (o : list (string * json)) p a kvs :
    from_frag fuel "Categorize" (JObj o) p = Ok a -> jget "bins" o = Some (JObj kvs) ->
    NoDup (map fst kvs) -> n_children a = List.length kvs.
  Proof.
    intros H E ND. destruct fuel as [|fuel]; [discriminate|].
    cbn [from_frag String.eqb Ascii.eqb Bool.eqb orb andb] in H. rewrite E in H.
    walkH H. injection H as <-. cbn [n_children].
    match goal with Hr : all_ok (map ?f kvs) = Ok ?x |- _ =>
      pose proof (all_ok_Forall2 f kvs x Hr) as F2 end.
    assert (Hk : map fst x = map (fun kv => KStr (fst kv)) kvs).
    { clear -F2. induction F2 as [|kv kc l l' Hh _ IH]; [reflexivity|]. cbn [map]. f_equal; [|exact IH].
      destruct (from_frag fuel _ (snd kv) _); [injection Hh as <-; reflexivity | discriminate]. }
    rewrite fold_upd_len.
    - cbn [List.length]. apply Forall2_len in F2. lia.
    - rewrite Hk. rewrite <- map_map. apply FinFun.Injective_map_NoDup; [|exact ND].
      intros s1 s2 E12. injection E12 as ->. reflexivity.
    - intros kc _. reflexivity.
    - constructor.
  Qed.
End Neg.
