(* C12: a raising fill leaves a single-path tree untouched.  Instance-independent. *)
From Coq Require Import ZArith List String Bool Lia Arith.
From Hgm Require Import NumOps Agg Ops SL AggInd KeyFacts.
Import ListNotations.

Section Rollback.
  Context {N : num_ops}.
  Notation agg := (agg N).
  Notation T := (T N).

  Definition single_kind (k : nodekind N) : bool :=
    match k with
    | KBin _ _ | KSparse _ _ | KCentral _ | KIrr _ | KCat | KSelect => true
    | _ => false
    end.

  (* Bin, SparselyBin, CentrallyBin, IrregularlyBin, Categorize, Select nested arbitrarily over
     any leaf (templates included: new bins are created from them) *)
  Fixpoint single_path (a : agg) : Prop :=
    match a with
    | Leaf _ _ _ => True
    | Node k _ _ fx sp tm _ =>
        single_kind k = true /\ allP single_path fx /\ allP (fun kc => single_path (snd kc)) sp /\
        match tm with Some t => single_path t | None => True end
    end.

  (* number of fixed children that receive a weight *)
  Fixpoint count_some (ws : list (option T)) : nat :=
    match ws with
    | [] => 0
    | Some _ :: ws' => S (count_some ws')
    | None :: ws' => count_some ws'
    end.

  Lemma count_only_seq i w n : forall s,
    count_some (map (fun j => if Nat.eqb j i then Some w else None) (seq s n)) =
    if (Nat.leb s i && Nat.ltb i (s + n))%bool then 1 else 0.
  Proof.
    induction n as [|n IH]; intro s.
    - cbn [seq map count_some].
      destruct (Nat.leb_spec s i), (Nat.ltb_spec i (s + 0)); simpl; auto; lia.
    - cbn [seq map count_some]. rewrite IH.
      destruct (Nat.eqb_spec s i) as [E|E].
      + subst s.
        destruct (Nat.leb_spec (S i) i), (Nat.ltb_spec i (S i + n)),
                 (Nat.leb_spec i i), (Nat.ltb_spec i (i + S n)); simpl; auto; lia.
      + destruct (Nat.leb_spec (S s) i), (Nat.ltb_spec i (S s + n)),
                 (Nat.leb_spec s i), (Nat.ltb_spec i (s + S n)); simpl; auto; lia.
  Qed.

  Lemma count_only n i w : count_some (@only N n i w) <= 1.
  Proof.
    unfold only. rewrite count_only_seq. destruct (_ && _)%bool; lia.
  Qed.

  Lemma count_none {A} (l : list A) : count_some (map (fun _ => None) l) = 0.
  Proof. induction l; simpl; auto. Qed.

  Lemma fill_list_done_count0 (f : agg -> T -> agg * outcome) (ws : list (option T)) (l : list agg) :
    count_some ws = 0 -> fill_list f (fun c => c) ws l = (l, Done).
  Proof.
    revert ws. induction l as [|a l IH]; intros ws C.
    - destruct ws; reflexivity.
    - destruct ws as [|[w|] ws]; simpl in *; try discriminate.
      + rewrite (IH [] eq_refl). reflexivity.
      + rewrite (IH ws C). reflexivity.
  Qed.
  (* a list fill with at most one target that raises leaves the list unchanged, provided each
     child fill has the rollback property *)
  Lemma fill_list_rollback (f : agg -> T -> agg * outcome) (ws : list (option T)) (l l' : list agg) :
    Forall (fun c => forall w c', f c w = (c', Raise) -> c' = c) l ->
    count_some ws <= 1 ->
    fill_list f (fun c => c) ws l = (l', Raise) -> l' = l.
  Proof.
    revert ws l'. induction l as [|a l IH]; intros ws l' F C E.
    - destruct ws; simpl in E; inversion E.
    - inversion F as [|? ? Ha Fl]; subst. destruct ws as [|[w|] ws]; simpl in E.
      + destruct (fill_list f (fun c => c) [] l) as [l'' o'] eqn:El. inversion E; subst.
        f_equal. apply (IH [] l''); auto.
      + destruct (f a w) as [a' o] eqn:Ea. destruct o.
        * simpl in C. assert (C0 : count_some ws = 0) by lia.
          rewrite (fill_list_done_count0 f ws l C0) in E. discriminate.
        * inversion E; subst. rewrite (Ha w a' Ea). f_equal. apply map_id'.
      + destruct (fill_list f (fun c => c) ws l) as [l'' o'] eqn:El. inversion E; subst.
        simpl in C. f_equal. apply (IH ws l''); auto.
  Qed.


  (* routing of a single-path kind hands a weight to at most one fixed child *)
  Lemma route_single k n v w ws sk :
    single_kind k = true -> route k n v w = RTo ws sk ->
    count_some ws <= 1 /\ (sk <> None -> count_some ws = 0).
  Proof.
    intro Hk. destruct k; try discriminate; cbn [route].
    - destruct (as_real v) as [x|]; [|discriminate].
      destruct (nisnan x). { intro E; inversion E; subst. split; [apply count_only | congruence]. }
      destruct (nltb x low). { intro E; inversion E; subst. split; [apply count_only | congruence]. }
      destruct (nleb high x). { intro E; inversion E; subst. split; [apply count_only | congruence]. }
      destruct (nfloor _) as [i|]; [|discriminate].
      match goal with |- context [if ?c then _ else _] => destruct c end; [|discriminate].
      intro E; inversion E; subst. split; [apply count_only | congruence].
    - destruct (as_real v) as [x|]; [|discriminate].
      destruct (nisnan x). { intro E; inversion E; subst. split; [simpl; lia | congruence]. }
      destruct (nleb _ _). { intro E; inversion E; subst. split; [simpl; lia | reflexivity]. }
      destruct (nleb _ _). { intro E; inversion E; subst. split; [simpl; lia | reflexivity]. }
      destruct (nfloor _); [|discriminate]. intro E; inversion E; subst.
      split; [simpl; lia | reflexivity].
    - destruct (as_real v) as [x|]; [|discriminate].
      destruct (nisnan x); intro E; inversion E; subst; (split; [apply count_only | congruence]).
    - destruct (as_real v) as [x|]; [|discriminate].
      destruct (nisnan x). { intro E; inversion E; subst. split; [apply count_only | congruence]. }
      destruct (irr_index ths x 0); intro E; inversion E; subst.
      + split; [apply count_only | congruence].
      + rewrite count_none. split; [lia | congruence].
    - destruct (as_real v) as [x|]; [|discriminate]. cbv zeta.
      destruct (pos _); intro E; inversion E; subst; (split; [simpl; lia | congruence]).
    - destruct v as [x|s|b| |l]; try discriminate; try (intro E; inversion E; subst; split; [simpl; lia | reflexivity]).
      destruct (nisnan x); [|discriminate]. intro E; inversion E; subst.
      split; [simpl; lia | reflexivity].
  Qed.

  Lemma upd_same {V} (cmp : key -> key -> comparison) (k1 : key) (v : V) (l : list (key * V)) :
    (forall a b, cmp a b = Eq -> a = b) ->
    sl_lookup cmp k1 l = Some v -> sl_upd cmp k1 (fun _ => v) l = l.
  Proof.
    intro Hc. induction l as [|[k0 v0] l IH]; simpl; [discriminate|].
    destruct (cmp k1 k0) eqn:C.
    - intro E; inversion E; subst. reflexivity.
    - discriminate.
    - intro E. rewrite (IH E). reflexivity.
  Qed.

  Theorem fill_rollback (a : agg) : forall d w a',
    single_path a -> fill a d w = (a', Raise) -> a' = a.
  Proof.
    induction a as [k q s | k q e fx sp tm ct IHfx IHsp IHtm] using agg_ind'; intros d w a' S E.
    - unfold fill in E. cbn [fillz] in E. destruct (negb (pos w)); [discriminate|].
      destruct k;
        repeat match type of E with
               | context [qfn q d] => destruct (qfn q d)
               | context [leaf_fill ?k ?s ?v ?w] => destruct (leaf_fill k s v w)
               end; inversion E; reflexivity.
    - rewrite fill_Node in E. cbn [single_path] in S. destruct S as (Hk & Sfx & Ssp & Stm).
      destruct (negb (pos w)); [discriminate|].
      destruct (if has_quantity k then qfn q d else QV VNone) as [v|]; [|inversion E; reflexivity].
      destruct (route k (List.length fx) v w) as [|ws sk] eqn:Er; [inversion E; reflexivity|].
      destruct (route_single k _ v w ws sk Hk Er) as [C1 C0].
      destruct (fill_list (fun c w' => fill c d w') (fun c => c) ws fx) as [fx' o1] eqn:Efl.
      destruct o1.
      + (* the fixed children were filled without raising; since a sparse target excludes a
           fixed one, nothing was filled there *)
        destruct sk as [[key w']|]; [|discriminate].
        assert (C : count_some ws = 0) by (apply C0; congruence).
        rewrite (fill_list_done_count0 _ ws fx C) in Efl. inversion Efl; subst fx'.
        destruct (sl_lookup key_cmp key sp) as [c|] eqn:L.
        * destruct (fill c d w') as [c' o] eqn:Ec. destruct o; [discriminate|].
          inversion E; subst. f_equal.
          assert (Hc : c' = c).
          { apply lookup_in in L; [|apply KeyFacts.key_cmp_eq].
            rewrite Forall_forall in IHsp. apply allP_Forall in Ssp. rewrite Forall_forall in Ssp.
            apply (IHsp (key, c) L d w' c'); [apply (Ssp (key, c) L) | exact Ec]. }
          subst c'. apply upd_same; auto. intros x y Hxy. apply KeyFacts.key_cmp_eq. exact Hxy.
        * destruct tm as [t|]; [|inversion E; reflexivity].
          destruct (fill (zero t) d w') as [c' o]. destruct o; [discriminate|].
          inversion E; reflexivity.
      + inversion E; subst. f_equal.
        apply (fill_list_rollback (fun c w' => fill c d w') ws fx fx'); auto.
        rewrite Forall_forall in *. apply allP_Forall in Sfx. rewrite Forall_forall in Sfx.
        intros c Hc w0 c' Ec. apply (IHfx c Hc d w0 c'); auto.
  Qed.

  (* fill keeps a tree single-path (its shape does not change) *)
  Lemma single_path_zero (a : agg) : single_path a -> single_path (zero a).
  Proof.
    induction a as [k q s | k q e fx sp tm ct IHfx _ _] using agg_ind'; simpl; auto.
    intros (Hk & Sfx & _ & Stm). repeat split; auto.
    apply allP_Forall. apply allP_Forall in Sfx. rewrite Forall_forall in *.
    intros c Hc. apply in_map_iff in Hc. destruct Hc as (c0 & <- & Hc0). apply IHfx; auto.
  Qed.

  Lemma fill_list_single (f : agg -> T -> agg * outcome) (g : agg -> agg) ws (l : list agg) :
    Forall (fun c => single_path c -> (forall w, single_path (fst (f c w))) /\ single_path (g c)) l ->
    allP single_path l -> allP single_path (fst (fill_list f g ws l)).
  Proof.
    revert ws. induction l as [|a l IH]; intros ws F S; [destruct ws; exact I|].
    inversion F as [|? ? Ha Fl]; subst. destruct S as [Sa Sl]. destruct (Ha Sa) as [Hf Hg].
    destruct ws as [|[w|] ws]; simpl.
    - specialize (IH [] Fl Sl). destruct (fill_list f g [] l). simpl in *. auto.
    - specialize (Hf w). destruct (f a w) as [a' o]. simpl in Hf. destruct o.
      + specialize (IH ws Fl Sl). destruct (fill_list f g ws l). simpl in *. auto.
      + simpl. split; auto. clear -Fl Sl. induction l as [|x l IHl]; simpl; auto.
        inversion Fl; subst. destruct Sl as [Sx Sl]. split; [apply H1; auto | apply IHl; auto].
    - specialize (IH ws Fl Sl). destruct (fill_list f g ws l). simpl in *. auto.
  Qed.

  Lemma upd_allP (P : agg -> Prop) (k1 : key) (f : option agg -> agg) (l : list (key * agg)) :
    allP (fun kc => P (snd kc)) l -> P (f (sl_lookup key_cmp k1 l)) ->
    allP (fun kc => P (snd kc)) (sl_upd key_cmp k1 f l).
  Proof.
    induction l as [|[k0 v0] l IH]; simpl; intros F Hp; auto.
    destruct F as [F0 F]. destruct (key_cmp k1 k0); simpl; auto.
  Qed.

  Lemma single_path_fillz (a : agg) : forall z d w,
    single_path a -> single_path (fst (fillz z a d w)).
  Proof.
    induction a as [k q s | k q e fx sp tm ct IHfx IHsp IHtm] using agg_ind'; intros z d w S.
    - cbn [fillz]. destruct (negb (pos w)); [destruct z; exact I|].
      destruct k;
        repeat match goal with
               | |- context [qfn q d] => destruct (qfn q d)
               | |- context [leaf_fill ?k ?s ?v ?w] => destruct (leaf_fill k s v w)
               end; destruct z; exact I.
    - pose proof S as S0. cbn [single_path] in S. destruct S as (Hk & Sfx & Ssp & Stm).
      assert (Sz : single_path (if z then zero (Node k q e fx sp tm ct) else Node k q e fx sp tm ct)).
      { destruct z; [apply single_path_zero|]; exact S0. }
      cbn [fillz]. destruct (negb (pos w)); [exact Sz|].
      destruct (if has_quantity k then qfn q d else QV VNone) as [v|]; [|exact Sz].
      destruct (route k (List.length fx) v w) as [|ws sk]; [exact Sz|].
      assert (Sfx' : allP single_path
                (fst (fill_list (fun c w' => fillz z c d w') (fun c => if z then zero c else c) ws fx))).
      { apply fill_list_single; auto. rewrite Forall_forall in *. intros c Hc Sc. split.
        - intro w0. apply IHfx; auto.
        - destruct z; [apply single_path_zero|]; auto. }
      destruct (fill_list (fun c w' => fillz z c d w') (fun c => if z then zero c else c) ws fx)
        as [fx' o1]. cbn [fst] in Sfx'.
      assert (Ssp0 : allP (fun kc => single_path (snd kc)) (if z then [] else sp)).
      { destruct z; [exact I | exact Ssp]. }
      destruct o1; [|cbn [fst single_path]; auto].
      destruct sk as [[key w']|]; [|cbn [fst single_path]; auto].
      destruct tm as [t|].
      + assert (G : allP (fun kc => single_path (snd kc))
                      (fst (if z
                            then (let '(c, o) := fillz true t d w' in
                                  match o with Done => ([(key, c)], Done) | Raise => ([], Raise) end)
                            else sp_fill key_cmp (fun c => fillz false c d w')
                                         (fun _ => fillz true t d w') key sp))).
        { pose proof (IHtm t eq_refl true d w' Stm) as Ht.
          destruct z.
          - destruct (fillz true t d w') as [c o]. destruct o; simpl in *; auto.
          - rewrite sp_fill_spec. destruct (sl_lookup key_cmp key sp) as [c|] eqn:L.
            + apply lookup_in in L; [|apply key_cmp_eq].
              rewrite Forall_forall in IHsp. apply allP_Forall in Ssp. rewrite Forall_forall in Ssp.
              pose proof (IHsp (key, c) L false d w' (Ssp (key, c) L)) as Hc.
              destruct (fillz false c d w') as [c' o] eqn:Ef. cbn [fst snd].
              assert (Hc' : single_path c') by (change c' with (fst (c', o)); rewrite <- Ef; exact Hc).
              apply (upd_allP single_path); [|exact Hc'].
              apply allP_Forall. apply Forall_forall. exact Ssp.
            + destruct (fillz true t d w') as [c o]. destruct o; cbn [fst] in *.
              * apply (upd_allP single_path); [exact Ssp0 | exact Ht].
              * exact Ssp0. }
        destruct (if z
                  then (let '(c, o) := fillz true t d w' in
                        match o with Done => ([(key, c)], Done) | Raise => ([], Raise) end)
                  else sp_fill key_cmp (fun c => fillz false c d w') (fun _ => fillz true t d w') key sp)
          as [sp' o2]. cbn [fst] in G.
        destruct o2; cbn [fst single_path]; auto.
      + destruct z; [cbn [fst single_path]; auto|].
        destruct (sl_lookup key_cmp key sp) as [c|] eqn:L; [|cbn [fst single_path]; auto].
        assert (G : allP (fun kc => single_path (snd kc))
                      (fst (sp_fill key_cmp (fun c => fillz false c d w')
                                    (fun _ => (Leaf LSum q (leaf_zero LSum), Raise)) key sp))).
        { rewrite sp_fill_spec. rewrite L.
          pose proof L as L'. apply lookup_in in L'; [|apply key_cmp_eq].
          rewrite Forall_forall in IHsp. apply allP_Forall in Ssp. rewrite Forall_forall in Ssp.
          pose proof (IHsp (key, c) L' false d w' (Ssp (key, c) L')) as Hc.
          destruct (fillz false c d w') as [c' o] eqn:Ef. cbn [fst snd].
          assert (Hc' : single_path c') by (change c' with (fst (c', o)); rewrite <- Ef; exact Hc).
          apply (upd_allP single_path); [|exact Hc'].
          apply allP_Forall. apply Forall_forall. exact Ssp. }
        destruct (sp_fill key_cmp (fun c => fillz false c d w')
                          (fun _ => (Leaf LSum q (leaf_zero LSum), Raise)) key sp) as [sp' o2].
        cbn [fst] in G. destruct o2; cbn [fst single_path]; auto.
  Qed.

  (* a stream processed with "try: fill except: continue": the survivors are the data whose fill
     did not raise; the aggregate is exactly the aggregate of the survivors, none of which raises *)
  Fixpoint survivors (a : agg) (s : list (datum N * T)) : list (datum N * T) :=
    match s with
    | [] => []
    | (d, w) :: s' =>
        match fill a d w with
        | (a', Done) => (d, w) :: survivors a' s'
        | (a', Raise) => survivors a' s'
        end
    end.

  Theorem skip_failures (s : list (datum N * T)) : forall a,
    single_path a -> fills a s = fills a (survivors a s).
  Proof.
    induction s as [|[d w] s IH]; intros a S; [reflexivity|].
    unfold fills in *. cbn [fold_left survivors fst snd].
    destruct (fill a d w) as [a' o] eqn:E. destruct o.
    - cbn [fold_left fst snd]. rewrite E. cbn [fst]. apply IH; auto.
      change a' with (fst (a', Done)). rewrite <- E. apply single_path_fillz. exact S.
    - cbn [fst]. rewrite (fill_rollback a d w a' S E). apply IH; auto.
  Qed.

  (* no survivor raises *)
  Theorem survivors_ok (s : list (datum N * T)) : forall a,
    single_path a ->
    Forall (fun o => o = Done)
           (snd (fold_left (fun acc dw => let '(st, os) := acc in
                                        let '(st', o) := fill st (fst dw) (snd dw) in
                                        (st', os ++ [o])) (survivors a s) (a, []))).
  Proof.
    assert (G : forall s a os, single_path a -> Forall (fun o => o = Done) os ->
              Forall (fun o => o = Done)
                     (snd (fold_left (fun acc dw => let '(st, os) := acc in
                                                  let '(st', o) := fill st (fst dw) (snd dw) in
                                                  (st', os ++ [o])) (survivors a s) (a, os)))).
    { induction s0 as [|[d w] s0 IH]; intros a os S F; [exact F|].
      cbn [survivors]. destruct (fill a d w) as [a' o] eqn:E. destruct o.
      - cbn [fold_left fst snd]. rewrite E. apply IH.
        + change a' with (fst (a', Done)). rewrite <- E. apply single_path_fillz. exact S.
        + apply Forall_app. split; auto.
      - rewrite (fill_rollback a d w a' S E). apply IH; auto. }
    intros a S. apply G; auto.
  Qed.
End Rollback.
