(* The seven leaves as commutative monoids (exact instance), and fill as "add a singleton". *)
From Coq Require Import ZArith List String Bool QArith Qcanon Lia Lqa Psatz Sorted.
From Hgm Require Import NumOps Xq Agg Ops XqFacts SL KeyFacts.
Import ListNotations.
Local Open Scope Qc_scope.

Notation lstate := (leafstate Xq).

Ltac xsimp :=
  cbn [Xq T nadd nsub nmul ndiv nneg nabs nltb nleb neqb nisnan nisinf nzero none nnan npinf
       nninf pos ntwo ngtb ngeb xadd xsub xmul xdiv xneg xabs xltb xleb xeqb xisnan xisinf
       le l1 l2 lv orb andb negb] in *.

Lemma xeqb_F0_pos e : 0 < e -> xeqb (XF e) (XF 0) = false.
Proof. intro H. simpl. apply Qc_cmp_gt in H. rewrite H. reflexivity. Qed.

Lemma xeqb_F0_0 : xeqb (XF 0) (XF 0) = true.
Proof. reflexivity. Qed.

Lemma xdiv_F a b : b <> 0 -> xdiv (XF a) (XF b) = XF (a / b).
Proof.
  intro H. simpl. unfold qsgn. destruct (b ?= 0) eqn:E; auto.
  apply Qc_cmp_eq in E. contradiction.
Qed.

Lemma xltb_F0_pos e : 0 < e -> xltb (XF 0) (XF e) = true.
Proof. intro H. simpl. apply Qc_cmp_lt in H. rewrite H. reflexivity. Qed.

(* a finite, strictly positive weight *)
Definition okw (w : xq) : Prop := exists q, w = XF q /\ 0 < q.

(* ---- well-formed leaf states ---- *)
Definition bagkey_ok (k : bagkey Xq) : Prop :=
  match k with BNum x => xisnan x = false | _ => True end.

Definition leaf_wf (k : leafkind) (s : lstate) : Prop :=
  match k with
  | LCount _ => l1 s = XF 0 /\ l2 s = XF 0 /\ lv s = []
  | LSum | LMin | LMax => l2 s = XF 0 /\ lv s = []
  | LAverage =>
      l2 s = XF 0 /\ lv s = [] /\
      ((le s = XF 0 /\ l1 s = XNaN) \/ (exists e m, le s = XF e /\ 0 < e /\ l1 s = XF m))
  | LDeviate =>
      lv s = [] /\
      ((le s = XF 0 /\ l1 s = XNaN /\ l2 s = XNaN) \/
       (exists e m v, le s = XF e /\ 0 < e /\ l1 s = XF m /\ l2 s = XF v))
  | LBag _ =>
      l1 s = XF 0 /\ l2 s = XF 0 /\ sorted bag_cmp (lv s) /\
      Forall (fun kc => bagkey_ok (fst kc)) (lv s)
  end.

Lemma leaf_wf_zero k : leaf_wf k (leaf_zero k).
Proof.
  destruct k; simpl; repeat split; auto; try (left; repeat split; reflexivity);
    try apply sorted_nil; constructor.
Qed.

Lemma lstate_eq (a b : lstate) :
  le a = le b -> l1 a = l1 b -> l2 a = l2 b -> lv a = lv b -> a = b.
Proof. destruct a, b; simpl; intros; subst; reflexivity. Qed.

(* ---- minplus / maxplus ---- *)
Lemma minplus_comm (x y : xq) : @minplus Xq x y = @minplus Xq y x.
Proof.
  unfold minplus. xsimp. destruct x, y; simpl; try reflexivity.
  rewrite (Qc_cmp_antisym q q0). qc_cmp_cases q q0; simpl; subst; reflexivity.
Qed.

Lemma maxplus_comm (x y : xq) : @maxplus Xq x y = @maxplus Xq y x.
Proof.
  unfold maxplus. xsimp. destruct x, y; simpl; try reflexivity.
  rewrite (Qc_cmp_antisym q q0). qc_cmp_cases q q0; simpl; subst; reflexivity.
Qed.

Lemma Qc_lt_cases (a b : Qc) : (a ?= b) = Lt \/ (a ?= b) <> Lt.
Proof. destruct (a ?= b); auto; right; discriminate. Qed.

Lemma minplus_assoc (x y z : xq) :
  @minplus Xq (@minplus Xq x y) z = @minplus Xq x (@minplus Xq y z).
Proof.
  unfold minplus. xsimp. destruct x as [a| | |], y as [b| | |], z as [c| | |]; xsimp;
    try reflexivity;
    repeat match goal with
           | |- context [(?p ?= ?q)] => let H := fresh "H" in destruct (p ?= q) eqn:H; xsimp
           end; qc_order.
Qed.

Lemma maxplus_assoc (x y z : xq) :
  @maxplus Xq (@maxplus Xq x y) z = @maxplus Xq x (@maxplus Xq y z).
Proof.
  unfold maxplus. xsimp. destruct x as [a| | |], y as [b| | |], z as [c| | |]; xsimp;
    try reflexivity;
    repeat match goal with
           | |- context [(?p ?= ?q)] => let H := fresh "H" in destruct (p ?= q) eqn:H; xsimp
           end; qc_order.
Qed.

Lemma minplus_nan_r x : @minplus Xq x XNaN = x.
Proof. destruct x; reflexivity. Qed.
Lemma minplus_nan_l x : @minplus Xq XNaN x = x.
Proof. destruct x; reflexivity. Qed.
Lemma maxplus_nan_r x : @maxplus Xq x XNaN = x.
Proof. destruct x; reflexivity. Qed.
Lemma maxplus_nan_l x : @maxplus Xq XNaN x = x.
Proof. destruct x; reflexivity. Qed.

(* ---- bag keys: a strict total order ---- *)
Lemma comp_cmp_eq a b : comp_cmp (N:=Xq) a b = Eq <-> a = b.
Proof.
  destruct a as [x|], b as [y|]; simpl; split; try discriminate; auto.
  - destruct x as [p| | |], y as [q| | |]; simpl; try discriminate; auto.
    qc_cmp_cases p q; simpl; try discriminate. subst; reflexivity.
  - intro H. inversion H; subst. destruct y; simpl; auto. rewrite Qc_cmp_refl. reflexivity.
Qed.

Lemma comp_cmp_antisym a b : comp_cmp (N:=Xq) b a = CompOpp (comp_cmp a b).
Proof.
  destruct a as [x|], b as [y|]; simpl; auto.
  destruct x as [p| | |], y as [q| | |]; simpl; auto.
  rewrite (Qc_cmp_antisym p q). destruct (p ?= q); reflexivity.
Qed.

Lemma comp_cmp_trans a b c :
  comp_cmp (N:=Xq) a b = Lt -> comp_cmp b c = Lt -> comp_cmp a c = Lt.
Proof.
  destruct a as [x|], b as [y|], c as [z|]; cbn [comp_cmp]; try discriminate; auto.
  destruct x as [p| | |], y as [q| | |], z as [r| | |]; xsimp; try discriminate; auto.
  destruct (p ?= q) eqn:H1; try discriminate.
  destruct (q ?= r) eqn:H2; try discriminate. intros _ _.
  cmp_hyps. assert (H : p < r) by (eapply Qclt_trans; eauto). apply Qc_cmp_lt in H. rewrite H. reflexivity.
Qed.

Lemma vec_cmp_eq a : forall b, vec_cmp (N:=Xq) a b = Eq <-> a = b.
Proof.
  induction a as [|x a IH]; intros [|y b]; cbn [vec_cmp]; split; try discriminate; auto.
  - destruct (comp_cmp x y) eqn:C; try discriminate. apply comp_cmp_eq in C. subst.
    intro H. apply IH in H. subst. reflexivity.
  - intro H. inversion H; subst. rewrite (proj2 (comp_cmp_eq y y) eq_refl). apply IH. reflexivity.
Qed.

Lemma vec_cmp_antisym a : forall b, vec_cmp (N:=Xq) b a = CompOpp (vec_cmp a b).
Proof.
  induction a as [|x a IH]; intros [|y b]; cbn [vec_cmp]; auto.
  rewrite (comp_cmp_antisym x y). destruct (comp_cmp x y); cbn [CompOpp]; auto.
Qed.

Lemma vec_cmp_trans a : forall b c,
  vec_cmp (N:=Xq) a b = Lt -> vec_cmp b c = Lt -> vec_cmp a c = Lt.
Proof.
  induction a as [|x a IH]; intros [|y b] [|z c]; cbn [vec_cmp]; try discriminate; auto.
  destruct (comp_cmp x y) eqn:C1; try discriminate.
  - apply comp_cmp_eq in C1. subst y. destruct (comp_cmp x z) eqn:C2; try discriminate; auto.
    apply IH.
  - intros _. destruct (comp_cmp y z) eqn:C2; try discriminate.
    + apply comp_cmp_eq in C2. subst z. rewrite C1. reflexivity.
    + rewrite (comp_cmp_trans x y z C1 C2). reflexivity.
Qed.

Lemma bag_cmp_eq a b : bag_cmp (N:=Xq) a b = Eq <-> a = b.
Proof.
  destruct a as [x| |s|u], b as [y| |t|v]; simpl; split; try discriminate; auto.
  - destruct x as [p| | |], y as [q| | |]; simpl; try discriminate; auto.
    qc_cmp_cases p q; simpl; try discriminate. subst; reflexivity.
  - intro H. inversion H; subst. destruct y; simpl; auto. rewrite Qc_cmp_refl. reflexivity.
  - intro H. apply str_cmp_eq in H. subst; reflexivity.
  - intro H. inversion H; subst. apply str_cmp_eq. reflexivity.
  - intro H. apply vec_cmp_eq in H. subst; reflexivity.
  - intro H. inversion H; subst. apply vec_cmp_eq. reflexivity.
Qed.

Lemma bag_cmp_antisym a b : bag_cmp (N:=Xq) b a = CompOpp (bag_cmp a b).
Proof.
  destruct a as [x| |s|u], b as [y| |t|v]; simpl; auto.
  - destruct x as [p| | |], y as [q| | |]; simpl; auto.
    rewrite (Qc_cmp_antisym p q). destruct (p ?= q); reflexivity.
  - apply str_cmp_antisym.
  - apply vec_cmp_antisym.
Qed.

Lemma bag_cmp_trans a b c :
  bag_cmp (N:=Xq) a b = Lt -> bag_cmp b c = Lt -> bag_cmp a c = Lt.
Proof.
  destruct a as [x| |s|u], b as [y| |t|v], c as [z| |r|o]; cbn [bag_cmp]; try discriminate; auto.
  - destruct x as [p| | |], y as [q| | |], z as [r| | |]; xsimp; try discriminate; auto.
    destruct (p ?= q) eqn:H1; try discriminate.
    destruct (q ?= r) eqn:H2; try discriminate. intros _ _.
    cmp_hyps. assert (H : p < r) by (eapply Qclt_trans; eauto). apply Qc_cmp_lt in H. rewrite H. reflexivity.
  - apply str_cmp_trans.
  - apply vec_cmp_trans.
Qed.

(* ---- bags ---- *)
Notation bsorted := (sorted (V:=xq) (@bag_cmp Xq)).
Notation blookup := (sl_lookup (V:=xq) (@bag_cmp Xq)).
Notation bupd := (sl_upd (V:=xq) (@bag_cmp Xq)).

Definition badd (c : xq) (o : option xq) : xq := match o with Some x => xadd x c | None => c end.

Definition bs_upd k f l := sorted_upd (V:=xq) _ bag_cmp_antisym bag_cmp_trans k f l.
Definition bs_ext l1 l2 := sorted_ext (V:=xq) _ bag_cmp_eq bag_cmp_antisym bag_cmp_trans l1 l2.
Definition bs_lookup_upd k f l k' :=
  lookup_upd (V:=xq) _ bag_cmp_eq bag_cmp_antisym bag_cmp_trans k f l k'.

Lemma bag_merge_unfold a k c b :
  @bag_merge Xq a ((k, c) :: b) = @bag_merge Xq (bupd k (badd c) a) b.
Proof. reflexivity. Qed.

Lemma bag_merge_sorted b : forall a, bsorted a -> bsorted (@bag_merge Xq a b).
Proof.
  induction b as [|[k c] b IH]; intros a Sa; simpl; auto.
  apply IH. apply bs_upd. exact Sa.
Qed.

Lemma bag_merge_lookup b : forall a k, bsorted a -> bsorted b ->
  blookup k (@bag_merge Xq a b) = omerge xadd (blookup k a) (blookup k b).
Proof.
  induction b as [|[k0 c] b IH]; intros a k Sa Sb.
  - simpl. destruct (blookup k a); reflexivity.
  - rewrite bag_merge_unfold. apply sorted_inv in Sb. destruct Sb as [Sb Fb].
    rewrite IH; [| apply bs_upd; exact Sa | exact Sb].
    rewrite bs_lookup_upd by assumption.
    cbn [sl_lookup]. destruct (bag_cmp k k0) eqn:C.
    + apply bag_cmp_eq in C. subst k0.
      rewrite (lookup_notin _ _ _ Fb). destruct (blookup k a); reflexivity.
    + rewrite (lookup_notin (@bag_cmp Xq) k b).
      * destruct (blookup k a); reflexivity.
      * eapply Forall_lt_trans; [exact bag_cmp_trans | exact C | exact Fb].
    + reflexivity.
Qed.

Lemma omerge_comm (f : xq -> xq -> xq) a b :
  (forall x y, f x y = f y x) -> omerge f a b = omerge f b a.
Proof. intro H. destruct a, b; simpl; auto. rewrite H. reflexivity. Qed.

Lemma omerge_assoc (f : xq -> xq -> xq) a b c :
  (forall x y z, f (f x y) z = f x (f y z)) ->
  omerge f (omerge f a b) c = omerge f a (omerge f b c).
Proof. intro H. destruct a, b, c; simpl; auto. rewrite H. reflexivity. Qed.

Lemma bag_merge_comm a b : bsorted a -> bsorted b -> @bag_merge Xq a b = @bag_merge Xq b a.
Proof.
  intros Sa Sb. apply bs_ext; try (apply bag_merge_sorted; assumption).
  intro k. rewrite !bag_merge_lookup by assumption. apply omerge_comm. apply xadd_comm.
Qed.

Lemma bag_merge_assoc a b c : bsorted a -> bsorted b -> bsorted c ->
  @bag_merge Xq (@bag_merge Xq a b) c = @bag_merge Xq a (@bag_merge Xq b c).
Proof.
  intros Sa Sb Sc.
  apply bs_ext; try (repeat apply bag_merge_sorted; assumption).
  intro k. rewrite !bag_merge_lookup; try assumption; try (apply bag_merge_sorted; assumption).
  apply omerge_assoc. apply xadd_assoc.
Qed.

Lemma bag_merge_nil_l b : bsorted b -> @bag_merge Xq [] b = b.
Proof.
  intro Sb. apply bs_ext; auto.
  - apply bag_merge_sorted. apply sorted_nil.
  - intro k. rewrite bag_merge_lookup; [| apply sorted_nil | exact Sb]. simpl.
    destruct (blookup k b); reflexivity.
Qed.

(* ---- normalisation of exact arithmetic on finite values ---- *)
Arguments xeqb : simpl never.
Arguments xdiv : simpl never.
Arguments xltb : simpl never.
Ltac solve_pos := first [assumption | (qc2q; lra) | (qc2q; nra)].

Ltac xproj :=
  cbn [Xq T nadd nsub nmul ndiv nneg nabs nltb nleb neqb nisnan nisinf nzero none nnan npinf
       nninf pos ntwo le l1 l2 lv] in *.

Ltac xnorm :=
  repeat (progress cbn [xadd xmul xsub xneg xisnan xisinf orb andb negb] ||
          match goal with
          | |- context [?a * 0] => rewrite (Qcmult_0_r a)
          | |- context [0 * ?a] => rewrite (Qcmult_0_l a)
          | |- context [xeqb (XF 0) (XF 0)] => change (xeqb (XF 0) (XF 0)) with true
          | |- context [xeqb (XF ?e) (XF 0)] => rewrite (xeqb_F0_pos e) by solve_pos
          | |- context [xdiv (XF ?a) (XF ?b)] =>
              rewrite (xdiv_F a b) by (apply Qc_pos_neq0; solve_pos)
          end); cbn iota.

Ltac qfield := field; repeat split; apply Qc_pos_neq0; solve_pos.
Ltac xfin := try reflexivity; f_equal; first [ring | qfield].

Lemma Qc_0_plus (a : Qc) : 0 + a = a.  Proof. ring. Qed.
Lemma Qc_plus_0 (a : Qc) : a + 0 = a.  Proof. ring. Qed.

Ltac wf_avg H :=
  destruct H as (? & ? & [[? ?] | (? & ? & ? & ? & ?)]); subst.
Ltac wf_dev H :=
  destruct H as (? & [(? & ? & ?) | (? & ? & ? & ? & ? & ? & ?)]); subst.

Lemma leaf_add_zero_r k s : leaf_wf k s -> @leaf_add Xq k s (leaf_zero k) = s.
Proof.
  destruct s as [e m v vals]. destruct k; unfold leaf_wf, leaf_add, leaf_zero; xproj; intro H.
  - apply lstate_eq; xproj; try reflexivity. apply xadd_0_r.
  - apply lstate_eq; xproj; try reflexivity; apply xadd_0_r.
  - wf_avg H; apply lstate_eq; xproj; xnorm; try reflexivity. f_equal; ring.
  - wf_dev H; apply lstate_eq; xproj; xnorm; try reflexivity; f_equal; ring.
  - apply lstate_eq; xproj; try reflexivity. apply xadd_0_r. apply minplus_nan_r.
  - apply lstate_eq; xproj; try reflexivity. apply xadd_0_r. apply maxplus_nan_r.
  - apply lstate_eq; xproj; try reflexivity. apply xadd_0_r.
Qed.

Lemma leaf_add_zero_l k s : leaf_wf k s -> @leaf_add Xq k (leaf_zero k) s = s.
Proof.
  destruct s as [e m v vals]. destruct k; unfold leaf_wf, leaf_add, leaf_zero; xproj; intro H.
  - destruct H as (-> & -> & ->). apply lstate_eq; xproj; try reflexivity. apply xadd_0_l.
  - destruct H as (-> & ->). apply lstate_eq; xproj; try reflexivity; apply xadd_0_l.
  - wf_avg H; apply lstate_eq; xproj; xnorm; try reflexivity. f_equal; ring.
  - wf_dev H; apply lstate_eq; xproj; xnorm; try reflexivity; f_equal; ring.
  - destruct H as (-> & ->). apply lstate_eq; xproj; try reflexivity. apply xadd_0_l.
    apply minplus_nan_l.
  - destruct H as (-> & ->). apply lstate_eq; xproj; try reflexivity. apply xadd_0_l.
    apply maxplus_nan_l.
  - destruct H as (-> & -> & S & _). apply lstate_eq; xproj; try reflexivity. apply xadd_0_l.
    apply bag_merge_nil_l. exact S.
Qed.

Lemma leaf_add_comm k a b :
  leaf_wf k a -> leaf_wf k b -> @leaf_add Xq k a b = @leaf_add Xq k b a.
Proof.
  destruct a as [e1 m1 v1 vals1], b as [e2 m2 v2 vals2].
  destruct k; unfold leaf_wf, leaf_add; xproj; intros Ha Hb.
  - destruct Ha as (-> & -> & ->), Hb as (-> & -> & ->).
    apply lstate_eq; xproj; try reflexivity. apply xadd_comm.
  - destruct Ha as (-> & ->), Hb as (-> & ->).
    apply lstate_eq; xproj; try reflexivity; apply xadd_comm.
  - wf_avg Ha; wf_avg Hb; apply lstate_eq; xproj; xnorm; xfin.
  - wf_dev Ha; wf_dev Hb; apply lstate_eq; xproj; xnorm; xfin.
  - destruct Ha as (-> & ->), Hb as (-> & ->).
    apply lstate_eq; xproj; try reflexivity. apply xadd_comm. apply minplus_comm.
  - destruct Ha as (-> & ->), Hb as (-> & ->).
    apply lstate_eq; xproj; try reflexivity. apply xadd_comm. apply maxplus_comm.
  - destruct Ha as (-> & -> & Sa & _), Hb as (-> & -> & Sb & _).
    apply lstate_eq; xproj; try reflexivity. apply xadd_comm. apply bag_merge_comm; assumption.
Qed.

Lemma leaf_add_wf k a b : leaf_wf k a -> leaf_wf k b -> leaf_wf k (@leaf_add Xq k a b).
Proof.
  destruct a as [e1 m1 v1 vals1], b as [e2 m2 v2 vals2].
  destruct k; unfold leaf_wf, leaf_add; xproj; intros Ha Hb.
  - tauto.
  - tauto.
  - wf_avg Ha; wf_avg Hb; repeat split; auto; xnorm;
      try (left; split; [f_equal; ring | reflexivity]);
      right; eexists _, _; repeat split; try reflexivity; solve_pos.
  - wf_dev Ha; wf_dev Hb; repeat split; auto; xnorm;
      try (left; repeat split; [f_equal; ring]);
      right; eexists _, _, _; repeat split; try reflexivity; solve_pos.
  - tauto.
  - tauto.
  - destruct Ha as (-> & -> & Sa & Fa), Hb as (-> & -> & Sb & Fb). repeat split; auto.
    + apply bag_merge_sorted; assumption.
    + clear Sa Sb. revert vals1 Fa. induction vals2 as [|[k c] l IH]; intros vals1 Fa; simpl; auto.
      inversion Fb; subst. apply IH; auto.
      clear -Fa H1. induction vals1 as [|[k' c'] l' IH']; simpl.
      * constructor; auto.
      * inversion Fa; subst. destruct (bag_cmp k k'); constructor; auto.
Qed.

Lemma leaf_add_assoc k a b c :
  leaf_wf k a -> leaf_wf k b -> leaf_wf k c ->
  @leaf_add Xq k (@leaf_add Xq k a b) c = @leaf_add Xq k a (@leaf_add Xq k b c).
Proof.
  destruct a as [e1 m1 v1 vals1], b as [e2 m2 v2 vals2], c as [e3 m3 v3 vals3].
  destruct k; unfold leaf_wf, leaf_add; xproj; intros Ha Hb Hc.
  - apply lstate_eq; xproj; try reflexivity. apply xadd_assoc.
  - apply lstate_eq; xproj; try reflexivity; apply xadd_assoc.
  - wf_avg Ha; wf_avg Hb; wf_avg Hc; apply lstate_eq; xproj; xnorm; xfin.
  - wf_dev Ha; wf_dev Hb; wf_dev Hc; apply lstate_eq; xproj; xnorm; xfin.
  - apply lstate_eq; xproj; try reflexivity. apply xadd_assoc. apply minplus_assoc.
  - apply lstate_eq; xproj; try reflexivity. apply xadd_assoc. apply maxplus_assoc.
  - destruct Ha as (-> & -> & Sa & _), Hb as (-> & -> & Sb & _), Hc as (-> & -> & Sc & _).
    apply lstate_eq; xproj; try reflexivity. apply xadd_assoc.
    apply bag_merge_assoc; assumption.
Qed.

(* ---- fill ---- *)
Lemma mean_step_empty q w : 0 < w ->
  @mean_step Xq (XF 0) XNaN (XF q) (XF w) = (XF (0 + w), XF (q + (q - q) * w / (0 + w)), true).
Proof.
  intro Hw. unfold mean_step. xproj. xnorm. reflexivity.
Qed.

Lemma mean_step_pos e m q w : 0 < e -> 0 < w ->
  @mean_step Xq (XF e) (XF m) (XF q) (XF w) = (XF (e + w), XF (m + (q - m) * w / (e + w)), true).
Proof.
  intros He Hw. unfold mean_step. xproj. xnorm. reflexivity.
Qed.

(* the quantity value a leaf may receive for the exact laws: Average and Deviate need a finite
   number (non-finite data makes their special-value branches fire; see Properties/C01) *)
Definition okv (k : leafkind) (v : value Xq) : Prop :=
  match k with
  | LAverage | LDeviate => match @as_real Xq v with Some (XF _) | None => True | _ => False end
  | _ => True
  end.

Lemma leaf_fill_wf k s v w s' :
  leaf_wf k s -> okw w -> okv k v -> @leaf_fill Xq k s v w = Some s' -> leaf_wf k s'.
Proof.
  destruct s as [e m vt vals]. intros Hs (wq & -> & Hw) Hv.
  destruct k; unfold leaf_wf, leaf_fill, okv in *; xproj.
  - intro E; inversion E; subst; xproj. tauto.
  - destruct (@as_real Xq v); [|discriminate]. intro E; inversion E; subst; xproj. tauto.
  - destruct (@as_real Xq v) as [[q| | |]|]; try contradiction; try discriminate.
    wf_avg Hs.
    + rewrite mean_step_empty by assumption. intro E; inversion E; subst; clear E; xproj.
      repeat split; auto. right. eexists _, _. repeat split; try reflexivity. solve_pos.
    + rewrite mean_step_pos by assumption. intro E; inversion E; subst; clear E; xproj.
      repeat split; auto. right. eexists _, _. repeat split; try reflexivity. solve_pos.
  - destruct (@as_real Xq v) as [[q| | |]|]; try contradiction; try discriminate.
    wf_dev Hs.
    + rewrite mean_step_empty by assumption. intro E; inversion E; subst; clear E; xproj.
      repeat split; auto. right. xnorm. eexists _, _, _. repeat split; try reflexivity. solve_pos.
    + rewrite mean_step_pos by assumption. intro E; inversion E; subst; clear E; xproj.
      repeat split; auto. right. xnorm. eexists _, _, _. repeat split; try reflexivity. solve_pos.
  - destruct (@as_real Xq v); [|discriminate]. intro E; inversion E; subst; xproj. tauto.
  - destruct (@as_real Xq v); [|discriminate]. intro E; inversion E; subst; xproj. tauto.
  - destruct Hs as (-> & -> & S & F).
    assert (G : forall bk, bagkey_ok bk ->
              leaf_wf (LBag r)
                (@Build_leafstate Xq (xadd e (XF wq)) (XF 0) (XF 0)
                   (bupd bk (fun o => match o with Some c => xadd c (XF wq) | None => XF wq end)
                         vals))).
    { intros bk Hbk. unfold leaf_wf; xproj. repeat split; auto.
      - apply bs_upd. exact S.
      - clear S. induction vals as [|[k' c'] l IH]; simpl.
        + constructor; auto.
        + inversion F; subst. destruct (bag_cmp bk k'); constructor; auto. }
    destruct r.
    + destruct v; try discriminate. intro E; inversion E; subst. apply (G (BStr s)). exact I.
    + destruct (@as_real Xq v) as [q|]; [|discriminate]. intro E; inversion E; subst.
      apply G. destruct q; simpl; auto.
    + destruct v; try discriminate. destruct (Nat.eqb _ _); [|discriminate].
      intro E; inversion E; subst. apply G. exact I.
Qed.

Lemma min_update_minplus (m q : xq) :
  (if xisnan m || xltb q m then q else m) = @minplus Xq m q.
Proof.
  unfold minplus; xproj. destruct m as [a| | |], q as [b| | |]; cbn [xisnan orb andb]; auto;
    try reflexivity.
  unfold xltb. rewrite (Qc_cmp_antisym a b). destruct (a ?= b) eqn:E; simpl; auto.
  apply Qc_cmp_eq in E. subst; reflexivity.
Qed.

Lemma max_update_maxplus (m q : xq) :
  (if xisnan m || xltb m q then q else m) = @maxplus Xq m q.
Proof.
  unfold maxplus; xproj. destruct m as [a| | |], q as [b| | |]; cbn [xisnan orb andb]; auto;
    try reflexivity.
  unfold xltb. rewrite (Qc_cmp_antisym a b). destruct (a ?= b) eqn:E; simpl; auto.
  apply Qc_cmp_eq in E. subst; reflexivity.
Qed.

Lemma bag_merge_upd a b bk w : bsorted a -> bsorted b ->
  @bag_merge Xq a (bupd bk (fun o => match o with Some c => xadd c w | None => w end) b) =
  bupd bk (fun o => match o with Some c => xadd c w | None => w end) (@bag_merge Xq a b).
Proof.
  intros Sa Sb. apply bs_ext.
  - apply bag_merge_sorted; assumption.
  - apply bs_upd. apply bag_merge_sorted; assumption.
  - intro k. rewrite bag_merge_lookup; [| assumption | apply bs_upd; assumption].
    rewrite !bs_lookup_upd; [| apply bag_merge_sorted; assumption | assumption].
    destruct (bag_cmp k bk) eqn:C.
    + apply bag_cmp_eq in C. subst k.
      rewrite bag_merge_lookup by assumption.
      destruct (blookup bk a), (blookup bk b); simpl; try reflexivity.
      rewrite xadd_assoc. reflexivity.
    + rewrite bag_merge_lookup by assumption. reflexivity.
    + rewrite bag_merge_lookup by assumption. reflexivity.
Qed.

Lemma leaf_fill_add k a b v w b' :
  leaf_wf k a -> leaf_wf k b -> okw w -> okv k v ->
  @leaf_fill Xq k b v w = Some b' ->
  @leaf_fill Xq k (@leaf_add Xq k a b) v w = Some (@leaf_add Xq k a b').
Proof.
  destruct a as [e1 m1 v1 vals1], b as [e2 m2 v2 vals2]. intros Ha Hb (wq & -> & Hw) Hv.
  destruct k; unfold leaf_wf, leaf_fill, leaf_add, okv in *; xproj.
  - intro E; inversion E; subst; clear E; xproj. f_equal. apply lstate_eq; xproj; try reflexivity.
    apply xadd_assoc.
  - destruct (@as_real Xq v); [|discriminate]. intro E; inversion E; subst; clear E; xproj.
    f_equal. apply lstate_eq; xproj; try reflexivity; apply xadd_assoc.
  - destruct (@as_real Xq v) as [[q| | |]|]; try contradiction; try discriminate.
    wf_avg Ha; wf_avg Hb; xnorm;
      rewrite ?mean_step_empty, ?mean_step_pos by solve_pos;
      intro E; inversion E; subst; clear E; xproj; xnorm;
      rewrite ?mean_step_empty, ?mean_step_pos by solve_pos;
      f_equal; apply lstate_eq; xproj; xnorm; xfin.
  - destruct (@as_real Xq v) as [[q| | |]|]; try contradiction; try discriminate.
    wf_dev Ha; wf_dev Hb; xnorm;
      rewrite ?mean_step_empty, ?mean_step_pos by solve_pos;
      intro E; inversion E; subst; clear E; xproj; xnorm;
      rewrite ?mean_step_empty, ?mean_step_pos by solve_pos;
      f_equal; apply lstate_eq; xproj; xnorm; xfin.
  - destruct (@as_real Xq v) as [q|]; [|discriminate]. intro E; inversion E; subst; clear E; xproj.
    f_equal. apply lstate_eq; xproj; try reflexivity. apply xadd_assoc.
    rewrite !min_update_minplus. apply minplus_assoc.
  - destruct (@as_real Xq v) as [q|]; [|discriminate]. intro E; inversion E; subst; clear E; xproj.
    f_equal. apply lstate_eq; xproj; try reflexivity. apply xadd_assoc.
    rewrite !max_update_maxplus. apply maxplus_assoc.
  - destruct Ha as (-> & -> & Sa & _), Hb as (-> & -> & Sb & _).
    destruct r.
    + destruct v; try discriminate. intro E; inversion E; subst; clear E; xproj.
      f_equal. apply lstate_eq; xproj; try reflexivity. apply xadd_assoc.
      symmetry. apply bag_merge_upd; assumption.
    + destruct (@as_real Xq v) as [q|]; [|discriminate].
      intro E; inversion E; subst; clear E; xproj.
      f_equal. apply lstate_eq; xproj; try reflexivity. apply xadd_assoc.
      symmetry. apply bag_merge_upd; assumption.
    + destruct v; try discriminate. destruct (Nat.eqb _ _); [|discriminate].
      intro E; inversion E; subst; clear E; xproj.
      f_equal. apply lstate_eq; xproj; try reflexivity. apply xadd_assoc.
      symmetry. apply bag_merge_upd; assumption.
Qed.
