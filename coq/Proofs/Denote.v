(* C02: what a stream of fills leaves in a node - the total weight, and in every fixed child the
   aggregate of exactly the sub-stream routed to it (each row with the weight the node gives it).
   Every arithmetic instance; no arithmetic laws are used. *)
From Coq Require Import ZArith List String Bool Lia Arith.
From Hgm Require Import NumOps Agg Ops AggInd SL KeyFacts.
Import ListNotations.
Local Open Scope num_scope.

Section Denote.
  Context {N : num_ops}.
  Notation T := (T N).
  Notation agg := (agg N).
  Notation stream := (list (datum N * T)).

  (* no fill of the stream raises *)
  Fixpoint all_done (a : agg) (s : stream) : Prop :=
    match s with
    | [] => True
    | (d, w) :: s' => snd (fill a d w) = Done /\ all_done (fst (fill a d w)) s'
    end.

  (* the row as seen by fixed child i of a node (kind k, quantity q, n fixed children): the weight
     the routing assigns to position i, if any *)
  Definition row_for (k : nodekind N) (q : quantity N) (n i : nat) (dw : datum N * T) : stream :=
    let '(d, w) := dw in
    if pos w then
      match (if has_quantity k then qfn q d else QV VNone) with
      | QV v =>
          match route k n v w with
          | RTo ws _ => match nth i ws None with Some w' => [(d, w')] | None => [] end
          | RErr => []
          end
      | QRaise => []
      end
    else [].

  Definition sub_stream (k : nodekind N) (q : quantity N) (n i : nat) (s : stream) : stream :=
    flat_map (row_for k q n i) s.

  (* the rows that count at this node: positive weight *)
  Definition counted (s : stream) : list T := map snd (filter (fun dw => pos (snd dw)) s).

  Lemma fill_list_nth (f : agg -> T -> agg * outcome) (l : list agg) : forall ws l',
    fill_list f (fun c => c) ws l = (l', Done) ->
    List.length l' = List.length l /\
    forall i c, nth_error l i = Some c ->
      nth_error l' i = Some (match nth i ws None with Some w' => fst (f c w') | None => c end).
  Proof.
    induction l as [|a l IH]; intros ws l' E.
    - cbn [fill_list] in E. inversion E; subst. split; [reflexivity|]. intros [|i] c H; discriminate.
    - cbn [fill_list] in E. fold (fill_list f (fun c : agg => c)) in E.
      destruct ws as [|[w|] ws].
      + destruct (fill_list f (fun c => c) [] l) as [l'' o'] eqn:El. inversion E; subst.
        destruct (IH [] l'' El) as [Hl Hn]. split; [cbn; lia|].
        intros [|i] c H; cbn [nth_error nth] in *.
        * inversion H; subst. reflexivity.
        * rewrite (Hn i c H). destruct i; reflexivity.
      + destruct (f a w) as [a' o] eqn:Ef. destruct o; [|discriminate].
        destruct (fill_list f (fun c => c) ws l) as [l'' o'] eqn:El. inversion E; subst.
        destruct (IH ws l'' El) as [Hl Hn]. split; [cbn; lia|].
        intros [|i] c H; cbn [nth_error nth] in *.
        * inversion H; subst. rewrite Ef. reflexivity.
        * apply Hn. exact H.
      + destruct (fill_list f (fun c => c) ws l) as [l'' o'] eqn:El. inversion E; subst.
        destruct (IH ws l'' El) as [Hl Hn]. split; [cbn; lia|].
        intros [|i] c H; cbn [nth_error nth] in *.
        * inversion H; subst. reflexivity.
        * apply Hn. exact H.
  Qed.

  Definition fixed_of (a : agg) : list agg := match a with Node _ _ _ fx _ _ _ => fx | Leaf _ _ _ => [] end.

  (* one successful fill of a node: same kind and quantity, the same number of fixed children, the
     weight added to the entries, and child i filled with the weight routed to it *)
  Lemma fill_node_step k q e fx sp tm ct d w a' :
    fill (Node k q e fx sp tm ct) d w = (a', Done) ->
    exists e' fx' sp',
      a' = Node k q e' fx' sp' tm ct /\ List.length fx' = List.length fx /\
      e' = (if pos w then e + w else e) /\
      forall i c, nth_error fx i = Some c ->
        nth_error fx' i = Some (fills c (row_for k q (List.length fx) i (d, w))).
  Proof.
    rewrite fill_Node. unfold row_for. destruct (pos w) eqn:P; cbn [negb].
    2:{ intro E. inversion E; subst. exists e, fx, sp. repeat split; auto. }
    destruct (if has_quantity k then qfn q d else QV VNone) as [v|]; [|discriminate].
    destruct (route k (List.length fx) v w) as [|ws sk]; [discriminate|].
    destruct (fill_list (fun c w' => fill c d w') (fun c => c) ws fx) as [fx' o1] eqn:Ef.
    destruct o1; [|discriminate].
    destruct (fill_list_nth _ fx ws fx' Ef) as [Hl Hn].
    assert (Hc : forall i c, nth_error fx i = Some c ->
              nth_error fx' i = Some (fills c (match nth i ws None with Some w' => [(d, w')] | None => [] end))).
    { intros i c H. rewrite (Hn i c H). destruct (nth i ws None); reflexivity. }
    destruct sk as [[key w']|].
    - destruct (sl_lookup key_cmp key sp) as [c0|].
      + destruct (fill c0 d w') as [c' o]. destruct o; [|discriminate].
        intro E. inversion E; subst. do 3 eexists. repeat split; eauto.
      + destruct tm as [t|]; [|discriminate].
        destruct (fill (zero t) d w') as [c' o]. destruct o; [|discriminate].
        intro E. inversion E; subst. do 3 eexists. repeat split; eauto.
    - intro E. inversion E; subst. do 3 eexists. repeat split; eauto.
  Qed.

  Lemma fills_app' (a : agg) (s1 s2 : stream) : fills a (s1 ++ s2) = fills (fills a s1) s2.
  Proof. unfold fills. apply fold_left_app. Qed.

  (* after any stream none of whose fills raises, fixed child i holds the aggregate of the
     sub-stream the node routed to it - for Bin the data of that interval (or the under/over/NaN
     flow), for CentrallyBin the data nearest to that centre, for Stack the data above that
     threshold, for Fraction/Select the selected data with the weight w * selection, ... *)
  Theorem fills_children k q (s : stream) : forall e fx sp tm ct,
    all_done (Node k q e fx sp tm ct) s ->
    exists e' fx' sp',
      fills (Node k q e fx sp tm ct) s = Node k q e' fx' sp' tm ct /\
      List.length fx' = List.length fx /\
      e' = fold_left (fun acc w => acc + w) (counted s) e /\
      forall i c, nth_error fx i = Some c ->
        nth_error fx' i = Some (fills c (sub_stream k q (List.length fx) i s)).
  Proof.
    induction s as [|[d w] s IH]; intros e fx sp tm ct Hd.
    - exists e, fx, sp. repeat split; auto.
    - cbn [all_done] in Hd. destruct Hd as [H1 H2].
      destruct (fill (Node k q e fx sp tm ct) d w) as [a1 o] eqn:E1. cbn [fst snd] in H1, H2. subst o.
      destruct (fill_node_step k q e fx sp tm ct d w a1 E1) as (e1 & fx1 & sp1 & -> & L1 & He1 & C1).
      destruct (IH e1 fx1 sp1 tm ct H2) as (e' & fx' & sp' & Ef & L' & He' & C').
      exists e', fx', sp'. split.
      { change (fills (Node k q e fx sp tm ct) ((d, w) :: s))
          with (fills (fst (fill (Node k q e fx sp tm ct) d w)) s). rewrite E1. exact Ef. }
      split; [lia|]. split.
      + rewrite He', He1. unfold counted. cbn [filter snd].
        destruct (pos w); cbn [map fold_left]; reflexivity.
      + intros i c Hc. rewrite (C' i _ (C1 i c Hc)). f_equal.
        rewrite L1. unfold sub_stream. cbn [flat_map]. rewrite fills_app'. reflexivity.
  Qed.

  (* ---- sparse children (SparselyBin, Categorize): by key ---- *)
  Notation klookup := (sl_lookup (V:=agg) key_cmp).
  Notation ksorted := (sorted (V:=agg) key_cmp).

  (* the row as seen by the sparse child under key kk *)
  Definition row_key (k : nodekind N) (q : quantity N) (n : nat) (kk : key) (dw : datum N * T) : stream :=
    let '(d, w) := dw in
    if pos w then
      match (if has_quantity k then qfn q d else QV VNone) with
      | QV v =>
          match route k n v w with
          | RTo _ (Some (k1, w')) => match key_cmp kk k1 with Eq => [(d, w')] | _ => [] end
          | _ => []
          end
      | QRaise => []
      end
    else [].

  Definition sub_key (k : nodekind N) (q : quantity N) (n : nat) (kk : key) (s : stream) : stream :=
    flat_map (row_key k q n kk) s.

  (* a child is created from the template when its first row arrives *)
  Definition grown (tm : option agg) (c0 : option agg) (rows : stream) : option agg :=
    match c0, rows, tm with
    | Some c, _, _ => Some (fills c rows)
    | None, [], _ => None
    | None, _, Some t => Some (fills (zero t) rows)
    | None, _, None => None
    end.

  Lemma fill_node_step_sp k q e fx sp tm ct d w a' :
    ksorted sp ->
    fill (Node k q e fx sp tm ct) d w = (a', Done) ->
    exists e' fx' sp',
      a' = Node k q e' fx' sp' tm ct /\ List.length fx' = List.length fx /\ ksorted sp' /\
      forall kk, klookup kk sp' = grown tm (klookup kk sp) (row_key k q (List.length fx) kk (d, w)).
  Proof.
    intro S. rewrite fill_Node. unfold row_key. destruct (pos w) eqn:P; cbn [negb].
    2:{ intro E. inversion E; subst. exists e, fx, sp. repeat split; auto.
        intro kk. unfold grown. destruct (klookup kk sp); reflexivity. }
    destruct (if has_quantity k then qfn q d else QV VNone) as [v|]; [|discriminate].
    destruct (route k (List.length fx) v w) as [|ws sk]; [discriminate|].
    destruct (fill_list (fun c w' => fill c d w') (fun c => c) ws fx) as [fx' o1] eqn:Ef.
    destruct o1; [|discriminate].
    destruct (fill_list_nth _ fx ws fx' Ef) as [Hl _].
    destruct sk as [[key w']|].
    - destruct (klookup key sp) as [c0|] eqn:L0.
      + destruct (fill c0 d w') as [c' o] eqn:Ec. destruct o; [|discriminate].
        intro E. inversion E; subst. do 3 eexists. repeat split; eauto.
        * apply (sorted_upd key_cmp key_cmp_antisym key_cmp_trans). exact S.
        * intro kk. rewrite (lookup_upd key_cmp key_cmp_eq key_cmp_antisym key_cmp_trans) by exact S.
          destruct (key_cmp kk key) eqn:C.
          -- apply key_cmp_eq in C. subst kk. rewrite L0. unfold grown, fills. cbn [fold_left fst snd].
             rewrite Ec. reflexivity.
          -- unfold grown. destruct (klookup kk sp); reflexivity.
          -- unfold grown. destruct (klookup kk sp); reflexivity.
      + destruct tm as [t|]; [|discriminate].
        destruct (fill (zero t) d w') as [c' o] eqn:Ec. destruct o; [|discriminate].
        intro E. inversion E; subst. do 3 eexists. repeat split; eauto.
        * apply (sorted_upd key_cmp key_cmp_antisym key_cmp_trans). exact S.
        * intro kk. rewrite (lookup_upd key_cmp key_cmp_eq key_cmp_antisym key_cmp_trans) by exact S.
          destruct (key_cmp kk key) eqn:C.
          -- apply key_cmp_eq in C. subst kk. rewrite L0. unfold grown, fills. cbn [fold_left fst snd].
             rewrite Ec. reflexivity.
          -- unfold grown. destruct (klookup kk sp); reflexivity.
          -- unfold grown. destruct (klookup kk sp); reflexivity.
    - intro E. inversion E; subst. do 3 eexists. repeat split; eauto.
      intro kk. unfold grown. destruct (klookup kk sp); reflexivity.
  Qed.

  Lemma grown_app tm c0 r1 r2 : grown tm (grown tm c0 r1) r2 = grown tm c0 (r1 ++ r2).
  Proof.
    unfold grown. destruct c0 as [c|].
    - rewrite fills_app'. reflexivity.
    - destruct r1 as [|x r1]; cbn [app].
      + destruct r2; destruct tm; reflexivity.
      + destruct tm as [t|]; [|destruct r2; reflexivity].
        change (x :: r1 ++ r2) with ((x :: r1) ++ r2). rewrite fills_app'. reflexivity.
  Qed.

  (* after any stream none of whose fills raises, the sparse child under every key holds the
     aggregate of exactly the rows routed to that key (the rows of that bin index / category), grown
     from the template when the first such row arrives *)
  Theorem fills_sparse k q (s : stream) : forall e fx sp tm ct,
    ksorted sp -> all_done (Node k q e fx sp tm ct) s ->
    exists e' fx' sp',
      fills (Node k q e fx sp tm ct) s = Node k q e' fx' sp' tm ct /\
      List.length fx' = List.length fx /\ ksorted sp' /\
      forall kk, klookup kk sp' = grown tm (klookup kk sp) (sub_key k q (List.length fx) kk s).
  Proof.
    induction s as [|[d w] s IH]; intros e fx sp tm ct S Hd.
    - exists e, fx, sp. repeat split; auto. intro kk. unfold grown, sub_key. cbn [flat_map].
      destruct (klookup kk sp); reflexivity.
    - cbn [all_done] in Hd. destruct Hd as [H1 H2].
      destruct (fill (Node k q e fx sp tm ct) d w) as [a1 o] eqn:E1. cbn [fst snd] in H1, H2. subst o.
      destruct (fill_node_step_sp k q e fx sp tm ct d w a1 S E1) as (e1 & fx1 & sp1 & -> & L1 & S1 & C1).
      destruct (IH e1 fx1 sp1 tm ct S1 H2) as (e' & fx' & sp' & Ef & L' & S' & C').
      exists e', fx', sp'. split.
      { change (fills (Node k q e fx sp tm ct) ((d, w) :: s))
          with (fills (fst (fill (Node k q e fx sp tm ct) d w)) s). rewrite E1. exact Ef. }
      split; [lia|]. split; [exact S'|].
      intro kk. rewrite C', C1, L1. unfold sub_key. cbn [flat_map]. apply grown_app.
  Qed.
End Denote.
