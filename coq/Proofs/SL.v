(* Key-sorted association lists: lookup characterisation of sl_upd / sp_fill / sl_merge and
   extensionality.  Generic in the key order. *)
From Coq Require Import List Bool Sorted.
From Hgm Require Import NumOps Agg Ops.
Import ListNotations.

Section SLFacts.
  Context {K : Type} (cmp : K -> K -> comparison).
  Hypothesis cmp_eq : forall a b, cmp a b = Eq <-> a = b.
  Hypothesis cmp_antisym : forall a b, cmp b a = CompOpp (cmp a b).
  Hypothesis cmp_trans : forall a b c, cmp a b = Lt -> cmp b c = Lt -> cmp a c = Lt.

  Lemma cmp_refl a : cmp a a = Eq.
  Proof. apply cmp_eq; reflexivity. Qed.

  Lemma cmp_gt_lt a b : cmp a b = Gt -> cmp b a = Lt.
  Proof. intro H. rewrite cmp_antisym, H. reflexivity. Qed.

  Lemma cmp_lt_gt a b : cmp a b = Lt -> cmp b a = Gt.
  Proof. intro H. rewrite cmp_antisym, H. reflexivity. Qed.

  Section V.
    Context {V : Type}.
    Notation alist := (list (K * V)).

    Definition klt (a b : K * V) : Prop := cmp (fst a) (fst b) = Lt.
    Definition sorted (l : alist) : Prop := StronglySorted klt l.

    Lemma sorted_nil : sorted [].
    Proof. constructor. Qed.

    Lemma sorted_inv k v l : sorted ((k, v) :: l) ->
      sorted l /\ Forall (fun kv => cmp k (fst kv) = Lt) l.
    Proof. intro H. inversion H; subst. split; assumption. Qed.

    Lemma sorted_cons k v l : sorted l -> Forall (fun kv => cmp k (fst kv) = Lt) l ->
      sorted ((k, v) :: l).
    Proof. intros. constructor; assumption. Qed.

    Lemma lookup_lt_head k k' (v : V) l :
      sorted ((k', v) :: l) -> cmp k k' = Lt -> sl_lookup cmp k ((k', v) :: l) = None.
    Proof. intros _ H. simpl. rewrite H. reflexivity. Qed.

    Lemma lookup_notin k (l : alist) :
      Forall (fun kv => cmp k (fst kv) = Lt) l -> sl_lookup cmp k l = None.
    Proof.
      destruct l as [|[k' v] l]; simpl; auto. intro H. inversion H; subst. simpl in *.
      rewrite H2. reflexivity.
    Qed.

    Lemma Forall_lt_trans k k' (l : alist) :
      cmp k k' = Lt -> Forall (fun kv => cmp k' (fst kv) = Lt) l ->
      Forall (fun kv => cmp k (fst kv) = Lt) l.
    Proof.
      intros H F. induction F; constructor; auto. eapply cmp_trans; eauto.
    Qed.

    Lemma lookup_in k v (l : alist) : sl_lookup cmp k l = Some v -> In (k, v) l.
    Proof.
      induction l as [|[k' v'] l IH]; simpl; try discriminate.
      destruct (cmp k k') eqn:E; try discriminate.
      - intro H. inversion H; subst. apply cmp_eq in E. subst. left; reflexivity.
      - intro H. right. apply IH. exact H.
    Qed.

    (* ---- extensionality ---- *)
    Lemma sorted_ext (l1 l2 : alist) :
      sorted l1 -> sorted l2 -> (forall k, sl_lookup cmp k l1 = sl_lookup cmp k l2) -> l1 = l2.
    Proof.
      revert l2. induction l1 as [|[k1 v1] l1 IH]; intros l2 S1 S2 E.
      - destruct l2 as [|[k2 v2] l2]; auto. specialize (E k2). simpl in E.
        rewrite cmp_refl in E. discriminate.
      - destruct l2 as [|[k2 v2] l2].
        + specialize (E k1). simpl in E. rewrite cmp_refl in E. discriminate.
        + apply sorted_inv in S1. destruct S1 as [S1 F1].
          apply sorted_inv in S2. destruct S2 as [S2 F2].
          destruct (cmp k1 k2) eqn:C.
          * apply cmp_eq in C. subst k2.
            pose proof (E k1) as E1. simpl in E1. rewrite cmp_refl in E1. inversion E1; subst.
            f_equal. apply IH; auto. intro k. specialize (E k). simpl in E.
            destruct (cmp k k1) eqn:Ck; auto.
            -- apply cmp_eq in Ck. subst. rewrite (lookup_notin _ _ F1), (lookup_notin _ _ F2).
               reflexivity.
            -- rewrite (lookup_notin k l1), (lookup_notin k l2); auto;
                 eapply Forall_lt_trans; eauto.
          * pose proof (E k1) as E1. simpl in E1. rewrite cmp_refl, C in E1. discriminate.
          * pose proof (E k2) as E1. simpl in E1. rewrite cmp_refl in E1.
            rewrite (cmp_gt_lt _ _ C) in E1. discriminate.
    Qed.

    (* ---- sl_upd ---- *)
    Lemma lookup_upd k f (l : alist) k' :
      sorted l ->
      sl_lookup cmp k' (sl_upd cmp k f l) =
      match cmp k' k with Eq => Some (f (sl_lookup cmp k l)) | _ => sl_lookup cmp k' l end.
    Proof.
      induction l as [|[k0 v0] l IH]; intro S.
      - simpl. destruct (cmp k' k); reflexivity.
      - apply sorted_inv in S. destruct S as [S F].
        cbn [sl_upd sl_lookup]. destruct (cmp k k0) eqn:C.
        + apply cmp_eq in C. subst k0. cbn [sl_lookup]. destruct (cmp k' k); reflexivity.
        + cbn [sl_lookup]. destruct (cmp k' k) eqn:C'.
          * reflexivity.
          * assert (H : cmp k' k0 = Lt) by (eapply cmp_trans; eauto). rewrite H. reflexivity.
          * reflexivity.
        + cbn [sl_lookup]. destruct (cmp k' k0) eqn:C0.
          * apply cmp_eq in C0. subst k'. rewrite (cmp_gt_lt _ _ C). reflexivity.
          * destruct (cmp k' k) eqn:C''; auto. apply cmp_eq in C''. subst k'.
            rewrite C in C0. discriminate.
          * rewrite IH by assumption. reflexivity.
    Qed.

    Lemma upd_head_lt k f (l : alist) k0 :
      Forall (fun kv => cmp k0 (fst kv) = Lt) l -> cmp k0 k = Lt ->
      Forall (fun kv => cmp k0 (fst kv) = Lt) (sl_upd cmp k f l).
    Proof.
      induction l as [|[k1 v1] l IH]; intros F C; simpl.
      - constructor; auto.
      - inversion F; subst. simpl in *. destruct (cmp k k1) eqn:E.
        + constructor; auto.
        + constructor; auto.
        + constructor; auto.
    Qed.

    Lemma sorted_upd k f (l : alist) : sorted l -> sorted (sl_upd cmp k f l).
    Proof.
      induction l as [|[k0 v0] l IH]; intro S; simpl.
      - apply sorted_cons; [apply sorted_nil | constructor].
      - pose proof S as S'. apply sorted_inv in S. destruct S as [S F].
        destruct (cmp k k0) eqn:C.
        + apply sorted_cons; assumption.
        + apply sorted_cons; [assumption|]. constructor; [exact C|].
          eapply Forall_lt_trans; eauto.
        + apply sorted_cons; [apply IH; assumption|].
          apply upd_head_lt; [assumption|]. apply cmp_gt_lt; assumption.
    Qed.

    (* ---- sp_fill in terms of lookup / upd ---- *)
    Lemma sp_fill_spec (f : V -> V * outcome) (mk : unit -> V * outcome) k (l : alist) :
      sp_fill cmp f mk k l =
      match sl_lookup cmp k l with
      | Some v => let '(v', o) := f v in (sl_upd cmp k (fun _ => v') l, o)
      | None => let '(c, o) := mk tt in
                match o with
                | Done => (sl_upd cmp k (fun _ => c) l, Done)
                | Raise => (l, Raise)
                end
      end.
    Proof.
      induction l as [|[k0 v0] l IH]; simpl.
      - destruct (mk tt) as [c o]. destruct o; reflexivity.
      - destruct (cmp k k0) eqn:C.
        + destruct (f v0). reflexivity.
        + destruct (mk tt) as [c o]. destruct o; reflexivity.
        + rewrite IH. destruct (sl_lookup cmp k l).
          * destruct (f v). reflexivity.
          * destruct (mk tt) as [c o]. destruct o; reflexivity.
    Qed.

    (* ---- sl_merge ---- *)
    Definition omerge (f : V -> V -> V) (a b : option V) : option V :=
      match a, b with
      | Some x, Some y => Some (f x y)
      | Some x, None => Some x
      | None, Some y => Some y
      | None, None => None
      end.

    Lemma map_id_snd (l : alist) : map (fun kv => (fst kv, snd kv)) l = l.
    Proof. induction l as [|[k v] l IH]; simpl; congruence. Qed.

    Lemma merge_nil_r f (l : alist) :
      sl_merge cmp f (fun x => x) (fun x => x) l [] = l.
    Proof. destruct l as [|[k v] l]; simpl; auto. f_equal. apply map_id_snd. Qed.

    Lemma merge_nil_l f (l : alist) :
      sl_merge cmp f (fun x => x) (fun x => x) [] l = l.
    Proof. destruct l as [|[k v] l]; simpl; auto. f_equal. apply map_id_snd. Qed.

    Lemma merge_head_lt f k0 (l1 l2 : alist) :
      Forall (fun kv => cmp k0 (fst kv) = Lt) l1 ->
      Forall (fun kv => cmp k0 (fst kv) = Lt) l2 ->
      Forall (fun kv => cmp k0 (fst kv) = Lt)
             (sl_merge cmp f (fun x => x) (fun x => x) l1 l2).
    Proof.
      revert l2. induction l1 as [|[k1 v1] l1 IH1]; intros l2 F1 F2.
      - rewrite merge_nil_l. assumption.
      - induction l2 as [|[k2 v2] l2 IH2].
        + rewrite merge_nil_r. assumption.
        + inversion F1; subst. inversion F2; subst. simpl in *.
          destruct (cmp k1 k2) eqn:C.
          * constructor; auto.
          * constructor; auto.
          * constructor; auto.
    Qed.

    Lemma sorted_merge f (l1 l2 : alist) :
      sorted l1 -> sorted l2 -> sorted (sl_merge cmp f (fun x => x) (fun x => x) l1 l2).
    Proof.
      revert l2. induction l1 as [|[k1 v1] l1 IH1]; intros l2 S1 S2.
      - rewrite merge_nil_l. assumption.
      - induction l2 as [|[k2 v2] l2 IH2].
        + rewrite merge_nil_r. assumption.
        + pose proof S1 as S1'. pose proof S2 as S2'.
          apply sorted_inv in S1. destruct S1 as [S1 F1].
          apply sorted_inv in S2. destruct S2 as [S2 F2].
          simpl. destruct (cmp k1 k2) eqn:C.
          * apply cmp_eq in C. subst k2. apply sorted_cons.
            -- apply IH1; assumption.
            -- apply merge_head_lt; assumption.
          * apply sorted_cons.
            -- apply IH1; assumption.
            -- apply merge_head_lt; [assumption|]. constructor; [exact C|].
               eapply Forall_lt_trans; eauto.
          * change (sorted ((k2, v2) ::
                     sl_merge cmp f (fun x => x) (fun x => x) ((k1, v1) :: l1) l2)).
            apply sorted_cons.
            -- apply IH2; assumption.
            -- apply merge_head_lt; [|assumption]. constructor.
               ++ apply cmp_gt_lt; assumption.
               ++ eapply Forall_lt_trans; eauto. apply cmp_gt_lt; assumption.
    Qed.

    Lemma lookup_merge f (l1 l2 : alist) k :
      sorted l1 -> sorted l2 ->
      sl_lookup cmp k (sl_merge cmp f (fun x => x) (fun x => x) l1 l2) =
      omerge f (sl_lookup cmp k l1) (sl_lookup cmp k l2).
    Proof.
      revert l2. induction l1 as [|[k1 v1] l1 IH1]; intros l2 S1 S2.
      - rewrite merge_nil_l. simpl. destruct (sl_lookup cmp k l2); reflexivity.
      - induction l2 as [|[k2 v2] l2 IH2].
        + rewrite merge_nil_r. destruct (sl_lookup cmp k ((k1, v1) :: l1)); reflexivity.
        + pose proof S1 as S1'. pose proof S2 as S2'.
          apply sorted_inv in S1. destruct S1 as [S1 F1].
          apply sorted_inv in S2. destruct S2 as [S2 F2].
          simpl. destruct (cmp k1 k2) eqn:C.
          * apply cmp_eq in C. subst k2. simpl. destruct (cmp k k1) eqn:Ck.
            -- reflexivity.
            -- reflexivity.
            -- apply IH1; assumption.
          * simpl. destruct (cmp k k1) eqn:Ck.
            -- apply cmp_eq in Ck. subst k. rewrite C. reflexivity.
            -- assert (cmp k k2 = Lt) by (eapply cmp_trans; eauto). rewrite H. reflexivity.
            -- rewrite IH1 by assumption. reflexivity.
          * simpl. destruct (cmp k k2) eqn:Ck.
            -- apply cmp_eq in Ck. subst k. rewrite (cmp_gt_lt _ _ C). reflexivity.
            -- assert (cmp k k1 = Lt) by (eapply cmp_trans; eauto; apply cmp_gt_lt; auto).
               rewrite H. reflexivity.
            -- change (sl_lookup cmp k (sl_merge cmp f (fun x => x) (fun x => x) ((k1, v1) :: l1) l2)
                       = omerge f (match cmp k k1 with Eq => Some v1 | Lt => None
                                                | Gt => sl_lookup cmp k l1 end)
                                  (sl_lookup cmp k l2)).
               rewrite IH2 by assumption. reflexivity.
    Qed.

    Lemma lookup_map (g : V -> V) (l : alist) k :
      sl_lookup cmp k (map (fun kv => (fst kv, g (snd kv))) l) = option_map g (sl_lookup cmp k l).
    Proof.
      induction l as [|[k0 v0] l IH]; simpl; auto. destruct (cmp k k0); auto.
    Qed.

    Lemma sorted_map (g : V -> V) (l : alist) :
      sorted l -> sorted (map (fun kv => (fst kv, g (snd kv))) l).
    Proof.
      induction l as [|[k0 v0] l IH]; intro S; simpl.
      - apply sorted_nil.
      - apply sorted_inv in S. destruct S as [S F]. apply sorted_cons.
        + apply IH; assumption.
        + clear -F. induction F; simpl; constructor; auto.
    Qed.

    Lemma merge_Forall (P : V -> Prop) f (l1 l2 : alist) :
      Forall (fun kv => P (snd kv)) l1 -> Forall (fun kv => P (snd kv)) l2 ->
      (forall k x y, In (k, x) l1 -> In (k, y) l2 -> P (f x y)) ->
      Forall (fun kv => P (snd kv)) (sl_merge cmp f (fun x => x) (fun x => x) l1 l2).
    Proof.
      revert l2. induction l1 as [|[k1 v1] l1 IH1]; intros l2 F1 F2 Hc.
      - rewrite merge_nil_l. assumption.
      - induction l2 as [|[k2 v2] l2 IH2].
        + rewrite merge_nil_r. assumption.
        + inversion F1 as [|? ? P1 F1']; subst. inversion F2 as [|? ? P2 F2']; subst.
          simpl in *. destruct (cmp k1 k2) eqn:C.
          * apply cmp_eq in C. subst k2. constructor.
            -- simpl. apply (Hc k1); left; reflexivity.
            -- apply IH1; auto. intros k x y Hx Hy. apply (Hc k); right; assumption.
          * constructor; auto. apply IH1; auto.
            intros k x y Hx Hy. apply (Hc k); [right|]; assumption.
          * constructor; auto.
            change (Forall (fun kv => P (snd kv))
                           (sl_merge cmp f (fun x => x) (fun x => x) ((k1, v1) :: l1) l2)).
            apply IH2; auto. intros k x y Hx Hy. apply (Hc k); [|right]; assumption.
    Qed.
  End V.
End SLFacts.
