(* Tree-level algebra at the exact instance: + is a commutative monoid on well-formed states of
   one specification, zero is its unit, fill is a homomorphism. *)
From Coq Require Import ZArith List String Bool QArith Qcanon Lia Sorted.
From Hgm Require Import NumOps Xq Agg Ops XqFacts SL KeyFacts AggInd LeafAlg.
Import ListNotations.

Notation xagg := (agg Xq).
Notation ksorted := (sorted (V:=xagg) key_cmp).
Notation klookup := (sl_lookup (V:=xagg) key_cmp).
Notation kupd := (sl_upd (V:=xagg) key_cmp).
Notation kmerge := (sl_merge (A:=xagg) key_cmp (@add_t Xq) (fun x => x) (fun x => x)).

Definition ks_upd k f l := sorted_upd (V:=xagg) _ key_cmp_antisym key_cmp_trans k f l.
Definition ks_ext l1 l2 := sorted_ext (V:=xagg) _ key_cmp_eq key_cmp_antisym key_cmp_trans l1 l2.
Definition ks_lookup_upd k f l k' :=
  lookup_upd (V:=xagg) _ key_cmp_eq key_cmp_antisym key_cmp_trans k f l k'.
Definition ks_lookup_merge f l1 l2 k :=
  lookup_merge (V:=xagg) _ key_cmp_eq key_cmp_antisym key_cmp_trans f l1 l2 k.
Definition ks_sorted_merge f l1 l2 :=
  sorted_merge (V:=xagg) _ key_cmp_eq key_cmp_antisym key_cmp_trans f l1 l2.

(* two states of the same specification: same kinds, parameters, quantities, templates, shapes *)
Definition same (a b : xagg) : Prop := zero a = zero b.

Fixpoint wf (a : xagg) : Prop :=
  match a with
  | Leaf k q s => leaf_wf k s
  | Node k q e fx sp tm ct =>
      allP wf fx /\ allP (fun kc => wf (snd kc)) sp /\ ksorted sp /\
      match tm with
      | Some t => allP (fun kc => zero (snd kc) = zero t) sp
      | None => sp = []
      end
  end.

(* data on which the exact laws are claimed: Average/Deviate leaves receive finite numbers and
   Fraction/Select selections are finite (weights stay finite) *)
Fixpoint okd (a : xagg) (d : datum Xq) : Prop :=
  match a with
  | Leaf k q s =>
      match k with
      | LCount _ => True
      | _ => match qfn q d with QV v => okv k v | QRaise => True end
      end
  | Node k q e fx sp tm ct =>
      (match k with
       | KFraction | KSelect =>
           match qfn q d with
           | QV v => match @as_real Xq v with Some XPInf | Some XNInf => False | _ => True end
           | QRaise => True
           end
       | _ => True
       end) /\
      allP (fun c => okd c d) fx /\ allP (fun kc => okd (snd kc) d) sp /\
      match tm with Some t => okd t d | None => True end
  end.

Lemma same_refl a : same a a.  Proof. reflexivity. Qed.
Lemma same_sym a b : same a b -> same b a.  Proof. unfold same; congruence. Qed.
Lemma same_trans a b c : same a b -> same b c -> same a c.
Proof. unfold same; congruence. Qed.
Lemma same_zero a : same (zero a) a.  Proof. unfold same. apply zero_idem. Qed.

Lemma wf_zero (a : xagg) : wf (zero a).
Proof.
  induction a as [k q s | k q e fx sp tm ct IHfx _ _] using agg_ind'; simpl.
  - apply leaf_wf_zero.
  - repeat split.
    + apply allP_Forall. rewrite Forall_forall in *. intros c Hc. apply in_map_iff in Hc.
      destruct Hc as (c0 & <- & Hc0). apply IHfx. exact Hc0.
    + apply sorted_nil.
    + destruct tm; simpl; auto.
Qed.

Lemma okd_zero (a : xagg) d : okd a d -> okd (zero a) d.
Proof.
  induction a as [k q s | k q e fx sp tm ct IHfx _ _] using agg_ind'; simpl; auto.
  intros (Hk & Hfx & _ & Ht). repeat split; auto.
  apply allP_Forall. apply allP_Forall in Hfx. rewrite Forall_forall in *.
  intros c Hc. apply in_map_iff in Hc. destruct Hc as (c0 & <- & Hc0). apply IHfx; auto.
Qed.

(* ---- list helpers ---- *)
Lemma map2_zero_r (l : list xagg) :
  Forall (fun c => wf c -> add_t c (zero c) = c) l -> allP wf l ->
  map2 (@add_t Xq) l (map zero l) = l.
Proof.
  induction l as [|c l IH]; simpl; auto. intros F [Hc Hl]. inversion F; subst.
  f_equal; auto.
Qed.

Lemma map2_zero_l (l : list xagg) :
  Forall (fun c => wf c -> add_t (zero c) c = c) l -> allP wf l ->
  map2 (@add_t Xq) (map zero l) l = l.
Proof.
  induction l as [|c l IH]; simpl; auto. intros F [Hc Hl]. inversion F; subst.
  f_equal; auto.
Qed.

Lemma kmerge_nil_r (l : list (key * xagg)) : kmerge l [] = l.
Proof. apply merge_nil_r. Qed.
Lemma kmerge_nil_l (l : list (key * xagg)) : kmerge [] l = l.
Proof. apply merge_nil_l. Qed.

Lemma add_zero_r (a : xagg) : wf a -> add_t a (zero a) = a.
Proof.
  induction a as [k q s | k q e fx sp tm ct IHfx _ _] using agg_ind'; simpl.
  - intro H. f_equal. apply leaf_add_zero_r. exact H.
  - intros (Hfx & _ & _ & _). f_equal.
    + apply xadd_0_r.
    + apply map2_zero_r; assumption.
    + apply kmerge_nil_r.
Qed.

Lemma add_zero_l (a : xagg) : wf a -> add_t (zero a) a = a.
Proof.
  induction a as [k q s | k q e fx sp tm ct IHfx _ _] using agg_ind'; simpl.
  - intro H. f_equal. apply leaf_add_zero_l. exact H.
  - intros (Hfx & _ & _ & _). f_equal.
    + apply xadd_0_l.
    + apply map2_zero_l; assumption.
    + apply kmerge_nil_l.
Qed.

(* ---- + stays within the specification ---- *)
Lemma map_zero_map2 (l1 l2 : list xagg) :
  Forall (fun x => forall y, same x y -> zero (add_t x y) = zero x) l1 ->
  map zero l1 = map zero l2 ->
  map zero (map2 (@add_t Xq) l1 l2) = map zero l1.
Proof.
  revert l2. induction l1 as [|x l1 IH]; intros [|y l2] F E; simpl in *; try discriminate; auto.
  inversion F; subst. inversion E. f_equal; auto.
Qed.

Lemma same_add (a : xagg) : forall b, same a b -> zero (add_t a b) = zero a.
Proof.
  induction a as [k q s | k q e fx sp tm ct IHfx _ _] using agg_ind'; intros b S.
  - destruct b; inversion S; subst. reflexivity.
  - destruct b as [|k' q' e' fx' sp' tm' ct']; inversion S; subst. simpl. f_equal.
    apply map_zero_map2; assumption.
Qed.

Lemma same_add_r a b : same a b -> same (add_t a b) a.
Proof. intro S. unfold same. apply same_add. exact S. Qed.

Definition ks_merge_Forall P f l1 l2 :=
  merge_Forall (V:=xagg) key_cmp key_cmp_eq P f l1 l2.

Lemma in_snd_Forall {A B} (P : B -> Prop) (l : list (A * B)) k x :
  Forall (fun kv => P (snd kv)) l -> In (k, x) l -> P x.
Proof. intros F H. rewrite Forall_forall in F. apply (F (k, x) H). Qed.

Lemma same_node_inv k q e fx sp tm ct k' q' e' fx' sp' tm' ct' :
  same (Node k q e fx sp tm ct) (Node k' q' e' fx' sp' tm' ct') ->
  k = k' /\ q = q' /\ map zero fx = map zero fx' /\ tm = tm' /\ ct = ct'.
Proof. unfold same; simpl. intro H. injection H. intros; subst; auto. Qed.

Lemma same_leaf_inv k q s b : same (Leaf k q s) b -> exists s', b = Leaf k q s'.
Proof. unfold same. destruct b; simpl; intro H; inversion H; subst. eexists; reflexivity. Qed.

Lemma same_node_inv' k q e fx sp tm ct b :
  same (Node k q e fx sp tm ct) b ->
  exists e' fx' sp', b = Node k q e' fx' sp' tm ct /\ map zero fx = map zero fx'.
Proof.
  destruct b as [|k' q' e' fx' sp' tm' ct']; intro S.
  - unfold same in S. simpl in S. discriminate.
  - apply same_node_inv in S. destruct S as (-> & -> & E & -> & ->). eexists _, _, _. split; eauto.
Qed.

Lemma wf_add (a : xagg) : forall b, same a b -> wf a -> wf b -> wf (add_t a b).
Proof.
  induction a as [k q s | k q e fx sp tm ct IHfx IHsp _] using agg_ind'; intros b S Wa Wb.
  - apply same_leaf_inv in S. destruct S as [s' ->]. simpl in *. apply leaf_add_wf; assumption.
  - apply same_node_inv' in S. destruct S as (e' & fx' & sp' & -> & Efx). simpl in *.
    destruct Wa as (Wfx & Wsp & Ssp & Tsp), Wb as (Wfx' & Wsp' & Ssp' & Tsp').
    apply allP_Forall in Wsp, Wsp'.
    assert (Hcommon : forall k0 x y, In (k0, x) sp -> In (k0, y) sp' ->
                                      same x y /\ wf x /\ wf y /\
                                      match tm with Some t => zero x = zero t | None => False end).
    { intros k0 x y Hx Hy. destruct tm as [t|].
      - apply allP_Forall in Tsp, Tsp'.
        pose proof (in_snd_Forall (fun c => zero c = zero t) _ _ _ Tsp Hx) as Zx.
        pose proof (in_snd_Forall (fun c => zero c = zero t) _ _ _ Tsp' Hy) as Zy.
        repeat split; auto.
        + unfold same. congruence.
        + apply (in_snd_Forall wf _ _ _ Wsp Hx).
        + apply (in_snd_Forall wf _ _ _ Wsp' Hy).
      - subst. destruct Hx. }
    repeat split.
    + (* fixed children *)
      clear -IHfx Wfx Wfx' Efx. revert fx' Wfx' Efx.
      induction fx as [|x fx IH]; intros [|y fx'] Wfx' E; simpl in *; try discriminate; auto.
      inversion IHfx; subst. inversion E. destruct Wfx, Wfx'. split; auto.
    + apply allP_Forall. apply (ks_merge_Forall wf); auto.
      intros k0 x y Hx Hy. destruct (Hcommon k0 x y Hx Hy) as (Sxy & Wx & Wy & _).
      rewrite Forall_forall in IHsp. apply (IHsp (k0, x) Hx); assumption.
    + apply ks_sorted_merge; assumption.
    + destruct tm as [t|].
      * apply allP_Forall. apply allP_Forall in Tsp, Tsp'.
        apply (ks_merge_Forall (fun c => zero c = zero t)); auto.
        intros k0 x y Hx Hy. destruct (Hcommon k0 x y Hx Hy) as (Sxy & Wx & Wy & Zx).
        rewrite same_add; assumption.
      * subst. reflexivity.
Qed.

(* children stored under the same key of two states of one live sparse container *)
Lemma sparse_common (sp sp' : list (key * xagg)) (tm : option xagg) :
  allP (fun kc => wf (snd kc)) sp -> allP (fun kc => wf (snd kc)) sp' ->
  match tm with Some t => allP (fun kc => zero (snd kc) = zero t) sp | None => sp = [] end ->
  match tm with Some t => allP (fun kc => zero (snd kc) = zero t) sp' | None => sp' = [] end ->
  forall k0 x y, In (k0, x) sp -> In (k0, y) sp' -> same x y /\ wf x /\ wf y.
Proof.
  intros Wsp Wsp' Tsp Tsp' k0 x y Hx Hy. apply allP_Forall in Wsp, Wsp'. destruct tm as [t|].
  - apply allP_Forall in Tsp, Tsp'.
    pose proof (in_snd_Forall (fun c => zero c = zero t) _ _ _ Tsp Hx) as Zx.
    pose proof (in_snd_Forall (fun c => zero c = zero t) _ _ _ Tsp' Hy) as Zy.
    repeat split.
    + unfold same. congruence.
    + apply (in_snd_Forall wf _ _ _ Wsp Hx).
    + apply (in_snd_Forall wf _ _ _ Wsp' Hy).
  - subst. destruct Hx.
Qed.

Lemma omerge_ext (f g : xagg -> xagg -> xagg) a b :
  (forall x y, a = Some x -> b = Some y -> f x y = g x y) -> omerge f a b = omerge g a b.
Proof. intro H. destruct a, b; simpl; auto. rewrite H; auto. Qed.

Lemma omerge_flip (f : xagg -> xagg -> xagg) a b :
  omerge f a b = omerge (fun x y => f y x) b a.
Proof. destruct a, b; reflexivity. Qed.

Lemma add_comm (a : xagg) : forall b, same a b -> wf a -> wf b -> add_t a b = add_t b a.
Proof.
  induction a as [k q s | k q e fx sp tm ct IHfx IHsp _] using agg_ind'; intros b S Wa Wb.
  - apply same_leaf_inv in S. destruct S as [s' ->]. simpl in *. f_equal.
    apply leaf_add_comm; assumption.
  - apply same_node_inv' in S. destruct S as (e' & fx' & sp' & -> & Efx). simpl in *.
    destruct Wa as (Wfx & Wsp & Ssp & Tsp), Wb as (Wfx' & Wsp' & Ssp' & Tsp').
    pose proof (sparse_common _ _ _ Wsp Wsp' Tsp Tsp') as Hcommon.
    f_equal.
    + apply xadd_comm.
    + clear -IHfx Wfx Wfx' Efx. revert fx' Wfx' Efx.
      induction fx as [|x fx IH]; intros [|y fx'] Wfx' E; simpl in *; try discriminate; auto.
      inversion IHfx; subst. inversion E. destruct Wfx, Wfx'. f_equal; auto.
    + apply ks_ext; try (apply ks_sorted_merge; assumption).
      intro k0. rewrite !ks_lookup_merge by assumption.
      rewrite (omerge_flip _ (klookup k0 sp') (klookup k0 sp)).
      apply omerge_ext. intros x y Hx Hy.
      apply lookup_in in Hx; [|exact key_cmp_eq]. apply lookup_in in Hy; [|exact key_cmp_eq].
      destruct (Hcommon k0 x y Hx Hy) as (Sxy & Wx & Wy).
      rewrite Forall_forall in IHsp. apply (IHsp (k0, x) Hx); assumption.
Qed.

Lemma omerge_assoc_gen (f : xagg -> xagg -> xagg) a b c :
  (forall x y z, a = Some x -> b = Some y -> c = Some z -> f (f x y) z = f x (f y z)) ->
  omerge f (omerge f a b) c = omerge f a (omerge f b c).
Proof. intro H. destruct a, b, c; simpl; auto. rewrite H; auto. Qed.

Lemma add_assoc (a : xagg) : forall b c,
  same a b -> same b c -> wf a -> wf b -> wf c ->
  add_t (add_t a b) c = add_t a (add_t b c).
Proof.
  induction a as [k q s | k q e fx sp tm ct IHfx IHsp _] using agg_ind';
    intros b c Sab Sbc Wa Wb Wc.
  - apply same_leaf_inv in Sab. destruct Sab as [s2 ->].
    apply same_leaf_inv in Sbc. destruct Sbc as [s3 ->]. simpl in *. f_equal.
    apply leaf_add_assoc; assumption.
  - apply same_node_inv' in Sab. destruct Sab as (e2 & fx2 & sp2 & -> & E12).
    apply same_node_inv' in Sbc. destruct Sbc as (e3 & fx3 & sp3 & -> & E23). simpl in *.
    destruct Wa as (Wfx & Wsp & Ssp & Tsp), Wb as (Wfx2 & Wsp2 & Ssp2 & Tsp2),
             Wc as (Wfx3 & Wsp3 & Ssp3 & Tsp3).
    pose proof (sparse_common _ _ _ Wsp Wsp2 Tsp Tsp2) as C12.
    pose proof (sparse_common _ _ _ Wsp2 Wsp3 Tsp2 Tsp3) as C23.
    f_equal.
    + apply xadd_assoc.
    + clear -IHfx Wfx Wfx2 Wfx3 E12 E23. revert fx2 fx3 Wfx2 Wfx3 E12 E23.
      induction fx as [|x fx IH]; intros [|y fx2] [|z fx3] W2 W3 E12 E23; simpl in *;
        try discriminate; auto.
      inversion IHfx; subst. inversion E12. inversion E23.
      destruct Wfx, W2, W3. f_equal; auto.
    + apply ks_ext; try (repeat apply ks_sorted_merge; assumption).
      intro k0. rewrite !ks_lookup_merge; try assumption; try (apply ks_sorted_merge; assumption).
      apply omerge_assoc_gen. intros x y z Hx Hy Hz.
      apply lookup_in in Hx; [|exact key_cmp_eq]. apply lookup_in in Hy; [|exact key_cmp_eq].
      apply lookup_in in Hz; [|exact key_cmp_eq].
      destruct (C12 k0 x y Hx Hy) as (Sxy & Wx & Wy).
      destruct (C23 k0 y z Hy Hz) as (Syz & _ & Wz).
      rewrite Forall_forall in IHsp. apply (IHsp (k0, x) Hx); assumption.
Qed.

(* ================= fill ================= *)
Definition okwo (o : option xq) : Prop := match o with Some w => okw w | None => True end.

Lemma only_okw n i w : okw w -> Forall okwo (@only Xq n i w).
Proof.
  intro H. unfold only. apply Forall_forall. intros o Ho. apply in_map_iff in Ho.
  destruct Ho as (j & <- & _). destruct (Nat.eqb j i); simpl; auto.
Qed.

Lemma pos_okw (x : xq) : xisinf x = false -> @pos Xq x = true -> okw x.
Proof.
  unfold pos; xproj. destruct x as [r| | |]; simpl; try discriminate. intros _ H.
  unfold xltb in H. destruct (0 ?= r)%Qc eqn:E; try discriminate.
  exists r. split; [reflexivity | apply Qc_cmp_lt; exact E].
Qed.

Lemma xmul_fin_isinf (x w : xq) :
  match x with XPInf | XNInf => False | _ => True end -> okw w -> xisinf (xmul x w) = false.
Proof. intros Hx (r & -> & Hr). destruct x; simpl in *; auto; contradiction. Qed.

(* the weights a node hands down are again finite and positive *)
Lemma route_okw (k : nodekind Xq) n v w ws sk :
  okw w ->
  match k with
  | KFraction | KSelect =>
      match @as_real Xq v with Some XPInf | Some XNInf => False | _ => True end
  | _ => True
  end ->
  route k n v w = RTo ws sk ->
  Forall okwo ws /\ match sk with Some (_, w') => okw w' | None => True end.
Proof.
  intros Hw Hk. destruct k; cbn [route].
  - destruct (@as_real Xq v) as [x|]; [|discriminate].
    destruct (nisnan x). { intro E; inversion E; subst; split; auto; try (apply only_okw; auto). }
    destruct (nltb x low). { intro E; inversion E; subst; split; auto; try (apply only_okw; auto). }
    destruct (nleb high x). { intro E; inversion E; subst; split; auto; try (apply only_okw; auto). }
    destruct (nfloor _) as [i|]; [|discriminate].
    match goal with |- context [if ?c then _ else _] => destruct c end; [|discriminate].
    intro E; inversion E; subst; split; auto; try (apply only_okw; auto).
  - destruct (@as_real Xq v) as [x|]; [|discriminate].
    destruct (nisnan x). { intro E; inversion E; subst; split; auto; repeat constructor. }
    destruct (nleb _ _). { intro E; inversion E; subst; split; auto; repeat constructor. }
    destruct (nleb _ _). { intro E; inversion E; subst; split; auto; repeat constructor. }
    destruct (nfloor _); [|discriminate]. intro E; inversion E; subst; split; auto;
    repeat constructor.
  - destruct (@as_real Xq v) as [x|]; [|discriminate].
    destruct (nisnan x); intro E; inversion E; subst; split; auto; try (apply only_okw; auto).
  - destruct (@as_real Xq v) as [x|]; [|discriminate].
    destruct (nisnan x). { intro E; inversion E; subst; split; auto; try (apply only_okw; auto). }
    destruct (irr_index ths x 0); intro E; inversion E; subst; split; auto.
    + apply only_okw; auto.
    + apply Forall_forall. intros o Ho. apply in_map_iff in Ho. destruct Ho as (? & <- & _).
      exact I.
  - destruct (@as_real Xq v) as [x|]; [|discriminate].
    destruct (nisnan x). { intro E; inversion E; subst; split; auto; try (apply only_okw; auto). }
    intro E; inversion E; subst; split; auto.
    apply Forall_app. split; [|repeat constructor].
    apply Forall_forall. intros o Ho. apply in_map_iff in Ho. destruct Ho as (t & <- & _).
    destruct (xleb t x); simpl; auto.
  - destruct (@as_real Xq v) as [x|]; [|discriminate].
    cbv zeta. destruct (pos (nmul x w)) eqn:P; intro E; inversion E; subst; split; auto;
      repeat constructor; auto; simpl; apply pos_okw; auto; apply xmul_fin_isinf; auto.
  - destruct (@as_real Xq v) as [x|]; [|discriminate].
    cbv zeta. destruct (pos (nmul x w)) eqn:P; intro E; inversion E; subst; split; auto;
      repeat constructor; auto; simpl; apply pos_okw; auto; apply xmul_fin_isinf; auto.
  - destruct v as [x|s|b| |l]; try discriminate; try (intro E; inversion E; subst; split; auto; fail).
    destruct (nisnan x); [|discriminate]. intro E; inversion E; subst; split; auto.
  - intro E; inversion E; subst; split; auto.
    apply Forall_forall. intros o Ho. apply in_map_iff in Ho. destruct Ho as (? & <- & _). exact Hw.
  - intro E; inversion E; subst; split; auto.
    apply Forall_forall. intros o Ho. apply in_map_iff in Ho. destruct Ho as (? & <- & _). exact Hw.
  - intro E; inversion E; subst; split; auto.
    apply Forall_forall. intros o Ho. apply in_map_iff in Ho. destruct Ho as (? & <- & _). exact Hw.
  - intro E; inversion E; subst; split; auto.
    apply Forall_forall. intros o Ho. apply in_map_iff in Ho. destruct Ho as (? & <- & _). exact Hw.
Qed.

(* ---- fill stays within the specification ---- *)
Notation flist := (@fill_list Xq xagg).
Lemma flist_nil f g ws : flist f g ws [] = ([], Done).
Proof. destruct ws; reflexivity. Qed.
Lemma flist_some f g w ws a l :
  flist f g (Some w :: ws) (a :: l) =
  match f a w with
  | (a', Raise) => (a' :: map g l, Raise)
  | (a', Done) => match flist f g ws l with (l'', o') => (a' :: l'', o') end
  end.
Proof. simpl. destruct (f a w) as [a' o]. destruct o; reflexivity. Qed.
Lemma flist_none f g ws a l :
  flist f g (None :: ws) (a :: l) = match flist f g ws l with (l'', o') => (g a :: l'', o') end.
Proof. reflexivity. Qed.
Lemma flist_nows f g a l :
  flist f g [] (a :: l) = match flist f g [] l with (l'', o') => (g a :: l'', o') end.
Proof. reflexivity. Qed.

Lemma fill_list_same (f : xagg -> xq -> xagg * outcome) ws (l : list xagg) :
  Forall (fun c => forall w, zero (fst (f c w)) = zero c) l ->
  map zero (fst (flist f (fun c => c) ws l)) = map zero l.
Proof.
  revert ws. induction l as [|c l IH]; intros ws F.
  - rewrite flist_nil. reflexivity.
  - inversion F as [|? ? Hc Fl]; subst.
    destruct ws as [|[w|] ws].
    + rewrite flist_nows. specialize (IH [] Fl).
      destruct (flist f (fun c => c) [] l); simpl in *. congruence.
    + rewrite flist_some. specialize (Hc w). destruct (f c w) as [c' o]. simpl in Hc. destruct o.
      * specialize (IH ws Fl). destruct (flist f (fun c => c) ws l); simpl in *. congruence.
      * simpl. rewrite map_id'. congruence.
    + rewrite flist_none. specialize (IH ws Fl).
      destruct (flist f (fun c => c) ws l); simpl in *. congruence.
Qed.

Lemma fill_same (a : xagg) : forall d w, zero (fst (fill a d w)) = zero a.
Proof.
  induction a as [k q s | k q e fx sp tm ct IHfx IHsp IHtm] using agg_ind'; intros d w.
  - unfold fill. cbn [fillz]. destruct (negb (pos w)); [reflexivity|].
    destruct k;
      repeat match goal with
             | |- context [qfn q d] => destruct (qfn q d)
             | |- context [leaf_fill ?k ?s ?v ?w] => destruct (leaf_fill k s v w)
             end; reflexivity.
  - rewrite fill_Node.
    destruct (negb (pos w)); [reflexivity|].
    destruct (if has_quantity k then qfn q d else QV VNone) as [v|]; [|reflexivity].
    destruct (route k (List.length fx) v w) as [|ws sk]; [reflexivity|].
    destruct (fill_list (fun c w' => fill c d w') (fun c => c) ws fx) as [fx' o1] eqn:Efl.
    assert (E : map zero fx' = map zero fx).
    { change fx' with (fst (fx', o1)). rewrite <- Efl. apply fill_list_same.
      rewrite Forall_forall in *. intros c Hc w'. apply IHfx. exact Hc. }
    destruct o1; [|simpl; congruence].
    destruct sk as [[key w']|]; [|simpl; congruence].
    destruct (sl_lookup key_cmp key sp) as [c|].
    + destruct (fill c d w') as [c' o]. destruct o; simpl; congruence.
    + destruct tm as [t|]; [|simpl; congruence].
      destruct (fill (zero t) d w') as [c' o]. destruct o; simpl; congruence.
Qed.

Lemma fill_same' a d w : same (fst (fill a d w)) a.
Proof. apply fill_same. Qed.

(* ---- fill preserves well-formedness (proved by induction on the specification) ---- *)
Lemma map_zero_Forall2 (l l' : list xagg) :
  map zero l = map zero l' -> Forall2 same l l'.
Proof.
  revert l'. induction l as [|x l IH]; intros [|y l'] E; simpl in E; try discriminate.
  - constructor.
  - inversion E. constructor; auto.
Qed.

Ltac dfl_wf H :=
  match goal with
  | |- context [@fill_list ?N ?A ?f ?g ?ws ?l] =>
      change (allP wf (fst (@fill_list N A f g ws l))) in H; destruct (@fill_list N A f g ws l)
  end.

Lemma flist_wf (f : xagg -> xq -> xagg * outcome) d ws (l spec : list xagg) :
  Forall (fun c => forall a' w, same a' c -> wf a' -> okw w -> okd a' d ->
                                wf (fst (f a' w))) spec ->
  Forall2 same l spec -> allP wf l -> allP (fun c => okd c d) l -> Forall okwo ws ->
  allP wf (fst (flist f (fun c => c) ws l)).
Proof.
  intros IH F2. revert ws. induction F2 as [|x c l spec Sxc F2 IHl]; intros ws Wl Ol Fw.
  - rewrite flist_nil. exact I.
  - inversion IH as [|? ? Hc IHspec]; subst. destruct Wl as [Wx Wl], Ol as [Ox Ol].
    destruct ws as [|[w|] ws].
    + rewrite flist_nows. specialize (IHl IHspec [] Wl Ol Fw).
      dfl_wf IHl. cbn [fst allP] in *. split; assumption.
    + inversion Fw as [|? ? Hw Fw']; subst. rewrite flist_some.
      pose proof (Hc x w Sxc Wx Hw Ox) as Wx'.
      destruct (f x w) as [x' o]. cbn [fst] in Wx'. destruct o.
      * specialize (IHl IHspec ws Wl Ol Fw').
        dfl_wf IHl. cbn [fst allP] in *. split; assumption.
      * cbn [fst allP]. rewrite map_id'. split; assumption.
    + inversion Fw as [|? ? Hw Fw']; subst. rewrite flist_none.
      specialize (IHl IHspec ws Wl Ol Fw').
      dfl_wf IHl. cbn [fst allP] in *. split; assumption.
Qed.

Lemma upd_Forall (P : xagg -> Prop) (k1 : key) (f : option xagg -> xagg) (l : list (key * xagg)) :
  Forall (fun kc => P (snd kc)) l -> P (f (klookup k1 l)) ->
  Forall (fun kc => P (snd kc)) (kupd k1 f l).
Proof.
  induction l as [|[k0 v0] l IH]; simpl; intros F Hp.
  - constructor; auto.
  - inversion F; subst. destruct (key_cmp k1 k0); constructor; auto.
Qed.

Lemma okd_node_inv k q e fx sp tm ct d :
  okd (Node k q e fx sp tm ct) d ->
  (match k with
   | KFraction | KSelect =>
       match qfn q d with
       | QV v => match @as_real Xq v with Some XPInf | Some XNInf => False | _ => True end
       | QRaise => True
       end
   | _ => True
   end) /\
  allP (fun c => okd c d) fx /\ allP (fun kc => okd (snd kc) d) sp /\
  match tm with Some t => okd t d | None => True end.
Proof. simpl. tauto. Qed.

Lemma hasq_route_cond (k : nodekind Xq) q d v :
  (if has_quantity k then qfn q d else QV VNone) = QV v ->
  match k with
  | KFraction | KSelect =>
      match qfn q d with
      | QV v => match @as_real Xq v with Some XPInf | Some XNInf => False | _ => True end
      | QRaise => True
      end
  | _ => True
  end ->
  match k with
  | KFraction | KSelect =>
      match @as_real Xq v with Some XPInf | Some XNInf => False | _ => True end
  | _ => True
  end.
Proof. destruct k; simpl; auto; intros ->; auto. Qed.

Lemma wf_fill_gen (spec : xagg) : forall a d w,
  same a spec -> wf a -> okw w -> okd a d -> wf (fst (fill a d w)).
Proof.
  induction spec as [k q s | k q e fx sp tm ct IHfx _ IHtm] using agg_ind';
    intros a d w S Wa Hw Oa.
  - apply same_sym in S. apply same_leaf_inv in S. destruct S as [s' ->].
    unfold fill. cbn [fillz]. destruct (negb (@pos Xq w)); [exact Wa|].
    simpl in Oa, Wa.
    destruct k;
      repeat match goal with
             | |- context [qfn q d] => destruct (qfn q d) as [v|]
             | |- context [leaf_fill ?k ?s ?v ?w] => destruct (leaf_fill k s v w) eqn:E
             end; cbn [fst wf]; auto;
      eapply leaf_fill_wf; eauto; exact I.
  - apply same_sym in S. apply same_node_inv' in S.
    destruct S as (e' & fx' & sp' & -> & Efx). apply map_zero_Forall2 in Efx.
    apply okd_node_inv in Oa. destruct Oa as (Ok & Ofx & Osp & Otm).
    pose proof Wa as Wa'. cbn [wf] in Wa. destruct Wa as (Wfx & Wsp & Ssp & Tsp).
    rewrite fill_Node.
    destruct (negb (@pos Xq w)); [exact Wa'|].
    destruct (if has_quantity k then qfn q d else QV VNone) as [v|] eqn:Eq; [|exact Wa'].
    destruct (route k (List.length fx') v w) as [|ws sk] eqn:Er; [exact Wa'|].
    destruct (route_okw k _ v w ws sk Hw (hasq_route_cond _ _ _ _ Eq Ok) Er) as [Fws Hsk].
    assert (Wfx' : allP wf (fst (fill_list (fun c w' => fill c d w') (fun c => c) ws fx'))).
    { apply (flist_wf _ d ws fx' fx); auto.
      - rewrite Forall_forall in *. intros c Hc a' w0 Sa Wa0 Hw0 Oa0.
        apply (IHfx c Hc); assumption.
      - clear -Efx. induction Efx; constructor; auto. apply same_sym; auto. }
    destruct (fill_list (fun c w' => fill c d w') (fun c => c) ws fx') as [fx'' o1].
    cbn [fst] in Wfx'.
    destruct o1; [|cbn [fst wf]; tauto].
    destruct sk as [[key w']|]; [|cbn [fst wf]; tauto].
    apply allP_Forall in Wsp. apply allP_Forall in Osp.
    destruct (klookup key sp') as [c|] eqn:L.
    + (* the bin exists *)
      apply lookup_in in L; [|exact key_cmp_eq].
      destruct tm as [t|]; [|subst sp'; destruct L].
      apply allP_Forall in Tsp.
      pose proof (in_snd_Forall (fun c => zero c = zero t) _ _ _ Tsp L) as Zc.
      pose proof (in_snd_Forall wf _ _ _ Wsp L) as Wc.
      pose proof (in_snd_Forall (fun c => okd c d) _ _ _ Osp L) as Oc.
      pose proof (IHtm t eq_refl c d w' Zc Wc Hsk Oc) as Wc'.
      pose proof (fill_same c d w') as Zc'.
      destruct (fill c d w') as [c' o]. cbn [fst] in *.
      assert (G : forall e0, wf (Node k q e0 fx'' (kupd key (fun _ => c') sp') (Some t) ct)).
      { intro e0. cbn [wf]. repeat split; auto.
        - apply allP_Forall. apply upd_Forall; auto.
        - apply ks_upd; assumption.
        - apply allP_Forall. apply (upd_Forall (fun c => zero c = zero t)); auto. congruence. }
      destruct o; apply G.
    + destruct tm as [t|];
        [|subst sp'; cbn [fst wf allP]; repeat split; auto; apply sorted_nil].
      apply allP_Forall in Tsp.
      pose proof (IHtm t eq_refl (zero t) d w' (same_zero t) (wf_zero t) Hsk
                       (okd_zero t d Otm)) as Wc'.
      pose proof (fill_same (zero t) d w') as Zc'.
      destruct (fill (zero t) d w') as [c' o]. cbn [fst] in *.
      destruct o; [|cbn [wf]; repeat split; auto; apply allP_Forall; assumption].
      cbn [wf]. repeat split; auto.
      * apply allP_Forall. apply upd_Forall; auto.
      * apply ks_upd; assumption.
      * apply allP_Forall. apply (upd_Forall (fun c => zero c = zero t)); auto.
        rewrite Zc'. apply zero_idem.
Qed.

Lemma wf_fill a d w : wf a -> okw w -> okd a d -> wf (fst (fill a d w)).
Proof. apply (wf_fill_gen a). apply same_refl. Qed.

(* ================= fill is a homomorphism for + ================= *)
Lemma okw_pos w : okw w -> @pos Xq w = true.
Proof. intros (r & -> & Hr). unfold pos; xproj. apply xltb_F0_pos. exact Hr. Qed.

Lemma flist_nows_id (f : xagg -> xq -> xagg * outcome) l : flist f (fun c => c) [] l = (l, Done).
Proof.
  induction l as [|c l IH]; [reflexivity|]. rewrite flist_nows. rewrite IH. reflexivity.
Qed.

Lemma flist_add (f : xagg -> xq -> xagg * outcome) d (spec : list xagg) :
  Forall (fun c => forall a b w b', same a c -> same b c -> wf a -> wf b -> okw w -> okd b d ->
                                    f b w = (b', Done) -> f (add_t a b) w = (add_t a b', Done))
         spec ->
  forall la lb ws lb',
  Forall2 same la spec -> Forall2 same lb spec -> allP wf la -> allP wf lb ->
  allP (fun c => okd c d) lb -> Forall okwo ws ->
  flist f (fun c => c) ws lb = (lb', Done) ->
  flist f (fun c => c) ws (map2 (@add_t Xq) la lb) = (map2 (@add_t Xq) la lb', Done).
Proof.
  intro IH. induction IH as [|c spec Hc IHspec IHl]; intros la lb ws lb' Fa Fb Wa Wb Ob Fw E.
  - inversion Fa; subst. inversion Fb; subst. rewrite (flist_nil f (fun c => c) ws) in E.
    inversion E; subst. cbn [map2]. apply flist_nil.
  - inversion Fa as [|x ? la' ? Sx Fa']; subst. inversion Fb as [|y ? lb0 ? Sy Fb']; subst.
    destruct Wa as [Wx Wa], Wb as [Wy Wb], Ob as [Oy Ob].
    cbn [map2].
    destruct ws as [|[w|] ws].
    + rewrite flist_nows_id in E. inversion E; subst. cbn [map2]. apply flist_nows_id.
    + inversion Fw as [|? ? Hw Fw']; subst. rewrite flist_some in *.
      destruct (f y w) as [y' o] eqn:Ey. destruct o; [|discriminate].
      rewrite (Hc x y w y' Sx Sy Wx Wy Hw Oy Ey).
      destruct (flist f (fun c => c) ws lb0) as [lb'' o'] eqn:El. inversion E; subst.
      rewrite (IHl la' lb0 ws lb'' Fa' Fb' Wa Wb Ob Fw' El). reflexivity.
    + inversion Fw as [|? ? Hw Fw']; subst. rewrite flist_none in *.
      destruct (flist f (fun c => c) ws lb0) as [lb'' o'] eqn:El. inversion E; subst.
      rewrite (IHl la' lb0 ws lb'' Fa' Fb' Wa Wb Ob Fw' El). reflexivity.
Qed.

Lemma kmerge_upd_r (spa spb : list (key * xagg)) (k1 : key) (y' : xagg) :
  ksorted spa -> ksorted spb ->
  kmerge spa (kupd k1 (fun _ => y') spb) =
  kupd k1 (fun _ => match klookup k1 spa with Some x => add_t x y' | None => y' end)
       (kmerge spa spb).
Proof.
  intros Sa Sb. apply ks_ext.
  - apply ks_sorted_merge; [assumption | apply ks_upd; assumption].
  - apply ks_upd. apply ks_sorted_merge; assumption.
  - intro k0. rewrite ks_lookup_merge; [| assumption | apply ks_upd; assumption].
    rewrite !ks_lookup_upd; [| apply ks_sorted_merge; assumption | assumption].
    destruct (key_cmp k0 k1) eqn:C.
    + apply key_cmp_eq in C. subst k0. destruct (klookup k1 spa); reflexivity.
    + rewrite ks_lookup_merge by assumption. reflexivity.
    + rewrite ks_lookup_merge by assumption. reflexivity.
Qed.

Lemma Forall2_same_length (l l' : list xagg) : Forall2 same l l' -> List.length l = List.length l'.
Proof. induction 1; simpl; congruence. Qed.

Lemma Forall2_same_sym (l l' : list xagg) : Forall2 same l l' -> Forall2 same l' l.
Proof. induction 1; constructor; auto. apply same_sym; auto. Qed.

Lemma fill_add_gen (spec : xagg) : forall a b d w b',
  same a spec -> same b spec -> wf a -> wf b -> okw w -> okd b d ->
  fill b d w = (b', Done) -> fill (add_t a b) d w = (add_t a b', Done).
Proof.
  induction spec as [k q s | k q e fx sp tm ct IHfx _ IHtm] using agg_ind';
    intros a b d w b' Sa Sb Wa Wb Hw Ob E.
  - apply same_sym in Sa, Sb. apply same_leaf_inv in Sa, Sb.
    destruct Sa as [sa ->], Sb as [sb ->].
    unfold fill in *. cbn [fillz add_t] in *. rewrite (okw_pos w Hw) in *. cbn [negb] in *.
    simpl in Ob, Wa, Wb.
    destruct k.
    + destruct (leaf_fill (LCount tr) sb VNone w) as [sb'|] eqn:El; [|discriminate].
      inversion E; subst.
      rewrite (leaf_fill_add (LCount tr) sa sb VNone w sb' Wa Wb Hw I El). reflexivity.
    + destruct (qfn q d) as [v|]; [|discriminate].
      destruct (leaf_fill LSum sb v w) as [sb'|] eqn:El; [|discriminate]. inversion E; subst.
      rewrite (leaf_fill_add LSum sa sb v w sb' Wa Wb Hw I El). reflexivity.
    + destruct (qfn q d) as [v|]; [|discriminate].
      destruct (leaf_fill LAverage sb v w) as [sb'|] eqn:El; [|discriminate]. inversion E; subst.
      rewrite (leaf_fill_add LAverage sa sb v w sb' Wa Wb Hw Ob El). reflexivity.
    + destruct (qfn q d) as [v|]; [|discriminate].
      destruct (leaf_fill LDeviate sb v w) as [sb'|] eqn:El; [|discriminate]. inversion E; subst.
      rewrite (leaf_fill_add LDeviate sa sb v w sb' Wa Wb Hw Ob El). reflexivity.
    + destruct (qfn q d) as [v|]; [|discriminate].
      destruct (leaf_fill LMin sb v w) as [sb'|] eqn:El; [|discriminate]. inversion E; subst.
      rewrite (leaf_fill_add LMin sa sb v w sb' Wa Wb Hw I El). reflexivity.
    + destruct (qfn q d) as [v|]; [|discriminate].
      destruct (leaf_fill LMax sb v w) as [sb'|] eqn:El; [|discriminate]. inversion E; subst.
      rewrite (leaf_fill_add LMax sa sb v w sb' Wa Wb Hw I El). reflexivity.
    + destruct (qfn q d) as [v|]; [|discriminate].
      destruct (leaf_fill (LBag r) sb v w) as [sb'|] eqn:El; [|discriminate]. inversion E; subst.
      rewrite (leaf_fill_add (LBag r) sa sb v w sb' Wa Wb Hw I El). reflexivity.
  - apply same_sym in Sa, Sb. apply same_node_inv' in Sa, Sb.
    destruct Sa as (ea & fxa & spa & -> & Efa), Sb as (eb & fxb & spb & -> & Efb).
    apply map_zero_Forall2 in Efa, Efb. apply Forall2_same_sym in Efa, Efb.
    apply okd_node_inv in Ob. destruct Ob as (Ok & Ofx & Osp & Otm).
    cbn [wf] in Wa, Wb.
    destruct Wa as (Wfa & Wspa & Sspa & Tspa), Wb as (Wfb & Wspb & Sspb & Tspb).
    cbn [add_t]. rewrite fill_Node in *. rewrite (okw_pos w Hw) in *. cbn [negb] in *.
    rewrite length_map2 by (rewrite (Forall2_same_length _ _ Efa), (Forall2_same_length _ _ Efb);
                            reflexivity).
    rewrite (Forall2_same_length _ _ Efa), <- (Forall2_same_length _ _ Efb).
    destruct (if has_quantity k then qfn q d else QV VNone) as [v|] eqn:Eq; [|discriminate].
    destruct (route k (List.length fxb) v w) as [|ws sk] eqn:Er; [discriminate|].
    destruct (route_okw k _ v w ws sk Hw (hasq_route_cond _ _ _ _ Eq Ok) Er) as [Fws Hsk].
    destruct (fill_list (fun c w' => fill c d w') (fun c => c) ws fxb) as [fxb' o1] eqn:Efl.
    destruct o1; [|discriminate].
    assert (Efl' : fill_list (fun c w' => fill c d w') (fun c => c) ws
                             (map2 (@add_t Xq) fxa fxb) = (map2 (@add_t Xq) fxa fxb', Done)).
    { apply (flist_add _ d fx); auto.
      rewrite Forall_forall in *. intros c Hc a0 b0 w0 b0' Sa0 Sb0 Wa0 Wb0 Hw0 Ob0 E0.
      apply (IHfx c Hc a0 b0 d w0 b0'); assumption. }
    rewrite Efl'.
    destruct sk as [[key w']|].
    2:{ inversion E; subst. cbn [add_t]. rewrite xadd_assoc. reflexivity. }
    rewrite ks_lookup_merge by assumption.
    pose proof (sparse_common _ _ _ Wspa Wspb Tspa Tspb) as Hcommon.
    apply allP_Forall in Wspa, Wspb, Osp.
    destruct (klookup key spb) as [y|] eqn:Ly.
    + (* the bin exists on the right *)
      pose proof Ly as Iy. apply lookup_in in Iy; [|exact key_cmp_eq].
      destruct tm as [t|]; [|subst spb; destruct Iy].
      apply allP_Forall in Tspa, Tspb.
      pose proof (in_snd_Forall (fun c => zero c = zero t) _ _ _ Tspb Iy) as Zy.
      pose proof (in_snd_Forall wf _ _ _ Wspb Iy) as Wy.
      pose proof (in_snd_Forall (fun c => okd c d) _ _ _ Osp Iy) as Oy.
      destruct (fill y d w') as [y' o] eqn:Ey. destruct o; [|discriminate].
      inversion E; subst. cbn [add_t]. rewrite kmerge_upd_r by assumption.
      destruct (klookup key spa) as [x|] eqn:Lx; cbn [omerge].
      * pose proof Lx as Ix. apply lookup_in in Ix; [|exact key_cmp_eq].
        pose proof (in_snd_Forall (fun c => zero c = zero t) _ _ _ Tspa Ix) as Zx.
        pose proof (in_snd_Forall wf _ _ _ Wspa Ix) as Wx.
        rewrite (IHtm t eq_refl x y d w' y' Zx Zy Wx Wy Hsk Oy Ey).
        rewrite xadd_assoc. reflexivity.
      * try rewrite Ey. rewrite xadd_assoc. reflexivity.
    + destruct tm as [t|]; [|discriminate].
      apply allP_Forall in Tspa, Tspb.
      destruct (fill (zero t) d w') as [c' o] eqn:Ec. destruct o; [|discriminate].
      inversion E; subst. cbn [add_t]. rewrite kmerge_upd_r by assumption.
      destruct (klookup key spa) as [x|] eqn:Lx; cbn [omerge].
      * pose proof Lx as Ix. apply lookup_in in Ix; [|exact key_cmp_eq].
        pose proof (in_snd_Forall (fun c => zero c = zero t) _ _ _ Tspa Ix) as Zx.
        pose proof (in_snd_Forall wf _ _ _ Wspa Ix) as Wx.
        pose proof (IHtm t eq_refl x (zero t) d w' c' Zx (same_zero t) Wx (wf_zero t) Hsk
                         (okd_zero t d Otm) Ec) as Hx.
        assert (Ex : add_t x (zero t) = x).
        { rewrite <- (zero_idem t). unfold same in Zx. rewrite <- Zx. rewrite zero_idem.
          apply add_zero_r. exact Wx. }
        rewrite Ex in Hx. rewrite Hx. rewrite xadd_assoc. reflexivity.
      * try rewrite Ec. rewrite xadd_assoc. reflexivity.
Qed.
