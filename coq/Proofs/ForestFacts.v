(* C16: the cross-reference guard raises exactly when some object occurs twice among the
   fillable positions.  C06/C07: new objects are new. *)
From Coq Require Import ZArith List String Bool PArith Lia Permutation.
From Hgm Require Import NumOps Agg Ops Forest SL AggInd.
Import ListNotations.

Lemma mem_In i l : mem i l = true <-> In i l.
Proof.
  induction l as [|j l IH]; simpl; split; intro H; try discriminate; try contradiction.
  - apply orb_true_iff in H. destruct H as [H|H]; [left; apply Pos.eqb_eq in H; auto | right; apply IH; auto].
  - apply orb_true_iff. destruct H as [H|H]; [left; subst; apply Pos.eqb_refl | right; apply IH; auto].
Qed.

Lemma mem_false i l : mem i l = false <-> ~ In i l.
Proof.
  split; intro H.
  - intro HI. apply mem_In in HI. congruence.
  - destruct (mem i l) eqn:E; auto. apply mem_In in E. contradiction.
Qed.

(* induction principle for itree *)
Section ItInd.
  Variable P : itree -> Prop.
  Hypothesis H : forall i c ks ss tm,
      Forall P ks -> Forall (fun kt => P (snd kt)) ss -> (forall t, tm = Some t -> P t) ->
      P (IT i c ks ss tm).
  Fixpoint itree_ind' (t : itree) : P t :=
    match t with
    | IT i c ks ss tm =>
        H i c ks ss tm
          ((fix go (l : list itree) : Forall P l :=
              match l with [] => Forall_nil P | x :: l' => Forall_cons x (itree_ind' x) (go l') end) ks)
          ((fix go (l : list (key * itree)) : Forall (fun kt => P (snd kt)) l :=
              match l with
              | [] => Forall_nil _
              | kt :: l' => Forall_cons kt (itree_ind' (snd kt)) (go l')
              end) ss)
          (match tm as o return (forall t0, o = Some t0 -> P t0) with
           | Some t0 => fun t1 E => match E in (_ = y) return
                                          (match y with Some t' => P t' | None => True end)
                                    with eq_refl => itree_ind' t0 end
           | None => fun t1 E => match E in (_ = y) return
                                       (match y with Some t' => P t' | None => True end)
                                 with eq_refl => I end
           end)
    end.
End ItInd.

(* the walk over a list of children, as two named functions *)
Definition xwalk_list (l : list itree) (m : option (list positive)) : option (list positive) :=
  (fix go (l : list itree) (m : option (list positive)) : option (list positive) :=
     match l with
     | [] => m
     | c :: l' => match m with None => None | Some mm => go l' (xwalk c mm) end
     end) l m.

Definition xwalk_sp (l : list (key * itree)) (m : option (list positive)) : option (list positive) :=
  (fix go (l : list (key * itree)) (m : option (list positive)) : option (list positive) :=
     match l with
     | [] => m
     | (_, c) :: l' => match m with None => None | Some mm => go l' (xwalk c mm) end
     end) l m.

Lemma xwalk_unfold i c ks ss tm memo :
  xwalk (IT i c ks ss tm) memo =
  if mem i memo then None else xwalk_sp ss (xwalk_list ks (Some (i :: memo))).
Proof. reflexivity. Qed.

Lemma xwalk_list_none l : xwalk_list l None = None.
Proof. destruct l; reflexivity. Qed.
Lemma xwalk_sp_none l : xwalk_sp l None = None.
Proof. destruct l as [|[k c] l]; reflexivity. Qed.

(* specification of the walk: it succeeds iff the identities met are pairwise distinct and
   distinct from the memo; it then returns them (in some order) in front of the memo *)
Definition walk_spec (ids : list positive) (memo : list positive) (r : option (list positive)) : Prop :=
  match r with
  | Some m' => NoDup (ids ++ memo) /\ Permutation m' (ids ++ memo)
  | None => ~ NoDup (ids ++ memo)
  end.

Lemma NoDup_perm_iff {A} (l l' : list A) : Permutation l l' -> (NoDup l <-> NoDup l').
Proof. intro P. split; intro H; [eapply Permutation_NoDup; eauto | eapply Permutation_NoDup; [apply Permutation_sym|]; eauto]. Qed.

Lemma NoDup_app_l {A} (l l' : list A) : NoDup (l ++ l') -> NoDup l'.
Proof. induction l as [|x l IH]; simpl; auto. intro H. inversion H; subst. apply IH; auto. Qed.

Lemma perm_rot (A B C : list positive) : Permutation (B ++ A ++ C) (A ++ B ++ C).
Proof. rewrite !app_assoc. apply Permutation_app_tail. apply Permutation_app_comm. Qed.

Lemma xwalk_list_spec (l : list itree) :
  Forall (fun t => forall memo, NoDup memo -> walk_spec (obj_ids t) memo (xwalk t memo)) l ->
  forall memo, NoDup memo ->
  walk_spec (List.concat (map obj_ids l)) memo (xwalk_list l (Some memo)).
Proof.
  induction l as [|t l IH]; intros F memo Hm.
  - simpl. split; auto.
  - inversion F as [|? ? Ht Fl]; subst. cbn [map List.concat]. unfold xwalk_list. cbn.
    fold (xwalk_list l (xwalk t memo)). specialize (Ht memo Hm).
    unfold walk_spec in *.
    destruct (xwalk t memo) as [m1|].
    + destruct Ht as [N1 P1].
      assert (Nm1 : NoDup m1) by (eapply Permutation_NoDup; [apply Permutation_sym; exact P1 | exact N1]).
      specialize (IH Fl m1 Nm1).
      assert (PP : Permutation (List.concat (map obj_ids l) ++ m1)
                               ((obj_ids t ++ List.concat (map obj_ids l)) ++ memo)).
      { rewrite <- app_assoc. eapply Permutation_trans; [apply Permutation_app_head; exact P1|].
        apply perm_rot. }
      destruct (xwalk_list l (Some m1)) as [m2|].
      * destruct IH as [N2 P2]. split.
        -- eapply Permutation_NoDup; [exact PP | exact N2].
        -- eapply Permutation_trans; [exact P2 | exact PP].
      * intro Hn. apply IH. eapply Permutation_NoDup; [apply Permutation_sym; exact PP | exact Hn].
    + rewrite xwalk_list_none. intro Hn. apply Ht. rewrite <- app_assoc in Hn.
      apply (NoDup_app_l (List.concat (map obj_ids l))).
      eapply Permutation_NoDup; [|exact Hn]. apply Permutation_sym. apply perm_rot.
Qed.

Lemma xwalk_sp_spec (l : list (key * itree)) :
  Forall (fun kt => forall memo, NoDup memo -> walk_spec (obj_ids (snd kt)) memo (xwalk (snd kt) memo)) l ->
  forall memo, NoDup memo ->
  walk_spec (List.concat (map (fun kt => obj_ids (snd kt)) l)) memo (xwalk_sp l (Some memo)).
Proof.
  induction l as [|[k t] l IH]; intros F memo Hm.
  - simpl. split; auto.
  - inversion F as [|? ? Ht Fl]; subst. cbn [map List.concat snd] in *. unfold xwalk_sp. cbn.
    fold (xwalk_sp l (xwalk t memo)). specialize (Ht memo Hm).
    unfold walk_spec in *.
    destruct (xwalk t memo) as [m1|].
    + destruct Ht as [N1 P1].
      assert (Nm1 : NoDup m1) by (eapply Permutation_NoDup; [apply Permutation_sym; exact P1 | exact N1]).
      specialize (IH Fl m1 Nm1).
      assert (PP : Permutation (List.concat (map (fun kt => obj_ids (snd kt)) l) ++ m1)
                               ((obj_ids t ++ List.concat (map (fun kt => obj_ids (snd kt)) l)) ++ memo)).
      { rewrite <- app_assoc. eapply Permutation_trans; [apply Permutation_app_head; exact P1|].
        apply perm_rot. }
      destruct (xwalk_sp l (Some m1)) as [m2|].
      * destruct IH as [N2 P2]. split.
        -- eapply Permutation_NoDup; [exact PP | exact N2].
        -- eapply Permutation_trans; [exact P2 | exact PP].
      * intro Hn. apply IH. eapply Permutation_NoDup; [apply Permutation_sym; exact PP | exact Hn].
    + rewrite xwalk_sp_none. intro Hn. apply Ht. rewrite <- app_assoc in Hn.
      apply (NoDup_app_l (List.concat (map (fun kt => obj_ids (snd kt)) l))).
      eapply Permutation_NoDup; [|exact Hn]. apply Permutation_sym. apply perm_rot.
Qed.

Lemma perm_node (i : positive) (K S memo : list positive) :
  Permutation (S ++ K ++ i :: memo) ((i :: K ++ S) ++ memo).
Proof.
  eapply Permutation_trans; [apply perm_rot|].
  rewrite app_assoc. apply Permutation_sym. simpl. apply Permutation_middle.
Qed.

Lemma xwalk_spec (t : itree) : forall memo, NoDup memo -> walk_spec (obj_ids t) memo (xwalk t memo).
Proof.
  induction t as [i c ks ss tm IHk IHs _] using itree_ind'; intros memo Hm.
  rewrite xwalk_unfold. cbn [obj_ids].
  destruct (mem i memo) eqn:Em.
  - unfold walk_spec. intro Hn. apply mem_In in Em. simpl in Hn. inversion Hn; subst.
    apply H1. apply in_or_app. right. exact Em.
  - apply mem_false in Em.
    assert (Hm1 : NoDup (i :: memo)) by (constructor; assumption).
    pose proof (xwalk_list_spec ks IHk (i :: memo) Hm1) as Hk. unfold walk_spec in *.
    set (K := List.concat (map obj_ids ks)) in *.
    set (S := List.concat (map (fun kt => obj_ids (snd kt)) ss)) in *.
    destruct (xwalk_list ks (Some (i :: memo))) as [m1|].
    + destruct Hk as [N1 P1].
      assert (Nm1 : NoDup m1) by (eapply Permutation_NoDup; [apply Permutation_sym; exact P1 | exact N1]).
      pose proof (xwalk_sp_spec ss IHs m1 Nm1) as Hs. unfold walk_spec in Hs. fold S in Hs.
      assert (PP : Permutation (S ++ m1) ((i :: K ++ S) ++ memo)).
      { eapply Permutation_trans; [apply Permutation_app_head; exact P1|]. apply perm_node. }
      destruct (xwalk_sp ss (Some m1)) as [m2|].
      * destruct Hs as [N2 P2]. split.
        -- eapply Permutation_NoDup; [exact PP | exact N2].
        -- eapply Permutation_trans; [exact P2 | exact PP].
      * intro Hn. apply Hs. eapply Permutation_NoDup; [apply Permutation_sym; exact PP | exact Hn].
    + rewrite xwalk_sp_none. intro Hn. apply Hk.
      apply (NoDup_app_l S). eapply Permutation_NoDup; [apply Permutation_sym; apply perm_node | exact Hn].
Qed.

(* C16: fill raises "the same aggregator twice" exactly when some object occupies two fillable
   positions of the tree (siblings, cousins, or a node and one of its own descendants) *)
Theorem xcheck_iff (t : itree) : xcheck t = true <-> ~ NoDup (obj_ids t).
Proof.
  unfold xcheck. pose proof (xwalk_spec t [] (NoDup_nil _)) as H. unfold walk_spec in H.
  rewrite app_nil_r in H. destruct (xwalk t []) as [m|].
  - destruct H as [Hn _]. split; [discriminate | intro C; contradiction].
  - split; auto.
Qed.

(* ================= C06 / C07: new objects are new ================= *)
Section Fresh.
  Context {N : num_ops}.
  Notation agg := (agg N).

  (* all identities of t lie in [lo, hi) *)
  Definition within (lo hi : positive) (l : list positive) : Prop :=
    Forall (fun i => (lo <= i < hi)%positive) l.

  Lemma within_app lo hi l1 l2 : within lo hi (l1 ++ l2) <-> within lo hi l1 /\ within lo hi l2.
  Proof. unfold within. apply Forall_app. Qed.

  Lemma within_mono lo lo' hi hi' l :
    (lo' <= lo)%positive -> (hi <= hi')%positive -> within lo hi l -> within lo' hi' l.
  Proof. intros H1 H2 F. unfold within in *. rewrite Forall_forall in *. intros i Hi. specialize (F i Hi). lia. Qed.

  Lemma within_disjoint lo mid hi l1 l2 :
    within lo mid l1 -> within mid hi l2 -> forall i, In i l1 -> In i l2 -> False.
  Proof.
    unfold within. rewrite !Forall_forall. intros H1 H2 i I1 I2.
    specialize (H1 i I1). specialize (H2 i I2). lia.
  Qed.

  Lemma NoDup_app_intro {A} (l1 l2 : list A) :
    NoDup l1 -> NoDup l2 -> (forall x, In x l1 -> In x l2 -> False) -> NoDup (l1 ++ l2).
  Proof.
    induction l1 as [|a l1 IH]; simpl; intros N1 N2 D; auto.
    inversion N1; subst. constructor.
    - intro HI. apply in_app_or in HI. destruct HI as [HI|HI]; [contradiction | apply (D a); auto].
    - apply IH; auto. intros x H1' H2'. apply (D x); auto.
  Qed.

  (* fresh_like allocates a block of pairwise distinct identities starting at nx *)
  Lemma fresh_like_spec (a : agg) : forall nx t nx',
    fresh_like a nx = (t, nx') ->
    (nx < nx')%positive /\ within nx nx' (ids t) /\ NoDup (ids t).
  Proof.
    induction a as [k q s | k q e fx sp tm ct IHfx IHsp IHtm] using agg_ind'; intros nx t nx' E.
    - cbn [fresh_like] in E. inversion E; subst. cbn [ids map List.concat app]. repeat split.
      + lia.
      + repeat constructor; lia.
      + repeat constructor; simpl; intuition; lia.
    - cbn [fresh_like] in E.
      (* fixed children *)
      assert (Gf : forall (l : list agg), Forall (fun c => forall nx t nx', fresh_like c nx = (t, nx') ->
                       (nx < nx')%positive /\ within nx nx' (ids t) /\ NoDup (ids t)) l ->
                   forall n ks n1,
                     (fix go (l : list agg) (n : positive) : list itree * positive :=
                        match l with
                        | [] => ([], n)
                        | c :: l' => let '(t, n') := fresh_like c n in let '(ts, n'') := go l' n' in (t :: ts, n'')
                        end) l n = (ks, n1) ->
                     (n <= n1)%positive /\ within n n1 (List.concat (map ids ks)) /\
                     NoDup (List.concat (map ids ks))).
      { induction l as [|c l IHl]; intros F n ks n1 Eg.
        - inversion Eg; subst. repeat split; [lia | constructor | constructor].
        - inversion F as [|? ? Hc Fl]; subst.
          destruct (fresh_like c n) as [t0 n'] eqn:Ec.
          destruct ((fix go (l : list agg) (n : positive) : list itree * positive :=
                       match l with
                       | [] => ([], n)
                       | c :: l' => let '(t, n') := fresh_like c n in let '(ts, n'') := go l' n' in (t :: ts, n'')
                       end) l n') as [ts n''] eqn:El.
          inversion Eg; subst. destruct (Hc n t0 n' Ec) as (L1 & W1 & N1).
          destruct (IHl Fl n' ts n1 El) as (L2 & W2 & N2).
          cbn [map List.concat]. repeat split.
          + lia.
          + apply within_app. split; [eapply within_mono; [| |exact W1]; lia | eapply within_mono; [| |exact W2]; lia].
          + apply NoDup_app_intro; auto. apply (within_disjoint n n' n1); auto. }
      assert (Gs : forall (l : list (key * agg)),
                   Forall (fun kc => forall nx t nx', fresh_like (snd kc) nx = (t, nx') ->
                       (nx < nx')%positive /\ within nx nx' (ids t) /\ NoDup (ids t)) l ->
                   forall n ss n2,
                     (fix go (l : list (key * agg)) (n : positive) : list (key * itree) * positive :=
                        match l with
                        | [] => ([], n)
                        | (k, c) :: l' =>
                            let '(t, n') := fresh_like c n in let '(ts, n'') := go l' n' in ((k, t) :: ts, n'')
                        end) l n = (ss, n2) ->
                     (n <= n2)%positive /\ within n n2 (List.concat (map (fun kt => ids (snd kt)) ss)) /\
                     NoDup (List.concat (map (fun kt => ids (snd kt)) ss))).
      { induction l as [|[k0 c] l IHl]; intros F n ss n2 Eg.
        - inversion Eg; subst. repeat split; [lia | constructor | constructor].
        - inversion F as [|? ? Hc Fl]; subst. cbn [snd] in Hc.
          destruct (fresh_like c n) as [t0 n'] eqn:Ec.
          destruct ((fix go (l : list (key * agg)) (n : positive) : list (key * itree) * positive :=
                       match l with
                       | [] => ([], n)
                       | (k, c) :: l' =>
                           let '(t, n') := fresh_like c n in let '(ts, n'') := go l' n' in ((k, t) :: ts, n'')
                       end) l n') as [ts n''] eqn:El.
          inversion Eg; subst. destruct (Hc n t0 n' Ec) as (L1 & W1 & N1).
          destruct (IHl Fl n' ts n2 El) as (L2 & W2 & N2).
          cbn [map List.concat snd]. repeat split.
          + lia.
          + apply within_app. split; [eapply within_mono; [| |exact W1]; lia | eapply within_mono; [| |exact W2]; lia].
          + apply NoDup_app_intro; auto. apply (within_disjoint n n' n2); auto. }
      match type of E with
      | (let '(ks, n1) := ?F fx ?n0 in _) = _ => destruct (F fx n0) as [ks n1] eqn:Ek
      end.
      match type of E with
      | (let '(ss, n2) := ?F sp n1 in _) = _ => destruct (F sp n1) as [ss n2] eqn:Es
      end.
      destruct (Gf fx IHfx _ ks n1 Ek) as (L1 & W1 & N1).
      destruct (Gs sp IHsp _ ss n2 Es) as (L2 & W2 & N2).
      assert (L3 : exists tmi n3, (n2 <= n3)%positive /\ (t, nx') = (IT nx (Pos.succ nx) ks ss tmi, n3)).
      { destruct tm as [t0|].
        - destruct (fresh_like t0 n2) as [x n'] eqn:Et. destruct (IHtm t0 eq_refl n2 x n' Et) as (Lt & _ & _).
          exists (Some x), n'. split; [lia | symmetry; exact E].
        - exists None, n2. split; [lia | symmetry; exact E]. }
      destruct L3 as (tmi & n3 & L3 & E3). inversion E3; subst. cbn [ids].
      repeat split.
      + lia.
      + constructor; [lia|]. constructor; [lia|]. apply within_app. split.
        * eapply within_mono; [| |exact W1]; lia.
        * eapply within_mono; [| |exact W2]; lia.
      + assert (D : NoDup (List.concat (map ids ks) ++ List.concat (map (fun kt => ids (snd kt)) ss))).
        { apply NoDup_app_intro; auto. apply (within_disjoint (Pos.succ (Pos.succ nx)) n1 n2); auto. }
        assert (Wall : within (Pos.succ (Pos.succ nx)) n2
                          (List.concat (map ids ks) ++ List.concat (map (fun kt => ids (snd kt)) ss))).
        { apply within_app. split; [eapply within_mono; [| |exact W1]; lia | eapply within_mono; [| |exact W2]; lia]. }
        unfold within in Wall. rewrite Forall_forall in Wall.
        constructor.
        * simpl. intros [H|H]; [lia | specialize (Wall _ H); lia].
        * constructor; auto. intro H. specialize (Wall _ H). lia.
  Qed.
End Fresh.

(* ================= frame: what an operation of the history machine can change ================= *)
From Hgm Require Import Run RunId.

Section Frame.
  Context {N : num_ops}.

  Lemma nth_seti (p : list (agg N * itree)) i x j d : j <> i -> nth j (seti p i x) d = nth j p d.
  Proof.
    revert i j. induction p as [|y p IH]; intros i j H; simpl.
    - destruct i; reflexivity.
    - destruct i, j; simpl; auto; try congruence.
  Qed.

  Lemma nth_app_old {A} (p : list A) q j d : (j < List.length p)%nat -> nth j (p ++ q) d = nth j p d.
  Proof. intro H. apply app_nth1. exact H. Qed.

  (* the pool entry an operation is allowed to change *)
  Definition target (o : @iop N) : option nat :=
    match o with
    | IShare i _ _ => Some i
    | IBase (OFill i _ _) => Some i
    | IBase (OIAdd i _) => Some i
    | IBase (OFillNp i _) => Some i
    | _ => None
    end.

  (* every other entry of the pool (content and identities) is exactly what it was; pure
     operations (+, *, zero, copy, hash, constructor) only append their result *)
  Theorem step_frame (w : world) (o : @iop N) j :
    (j < List.length (pl w))%nat -> target o <> Some j ->
    nth j (pl (fst (stepi w o))) (Run.dummy, dummy_it) = nth j (pl w) (Run.dummy, dummy_it).
  Proof.
    intros Hj Ht. destruct o as [o|i p1 p2|i p md].
    - destruct o; cbn [stepi target] in *.
      + unfold push. destruct (fresh_like a (nxt w)). simpl. apply nth_app_old. exact Hj.
      + unfold geti. destruct (nth i (pl w) (Run.dummy, dummy_it)) as [a t].
        destruct (xcheck t); [reflexivity|].
        destruct (fill a d w0). destruct (extend t a0 (nxt w)). simpl.
        apply nth_seti. congruence.
      + destruct (add _ _); unfold push; destruct (fresh_like _ (nxt w)); simpl; apply nth_app_old; exact Hj.
      + unfold geti. destruct (nth i (pl w) (Run.dummy, dummy_it)) as [a t].
        destruct (iadd a _). destruct (extend t a0 (nxt w)). simpl. apply nth_seti. congruence.
      + destruct (mul _ _); unfold push; destruct (fresh_like _ (nxt w)); simpl; apply nth_app_old; exact Hj.
      + unfold push. destruct (fresh_like _ (nxt w)). simpl. apply nth_app_old. exact Hj.
      + unfold push. destruct (fresh_like _ (nxt w)). simpl. apply nth_app_old. exact Hj.
      + reflexivity.
      + reflexivity.
      + reflexivity.
      + reflexivity.
      + reflexivity.
      + unfold geti. destruct (nth i (pl w) (Run.dummy, dummy_it)) as [a t].
        destruct (xcheck t); [reflexivity|].
        destruct (Np.fillnp a rows). destruct (extend t a0 (nxt w)). simpl.
        apply nth_seti. congruence.
      + reflexivity.
      + unfold push. destruct (fresh_like _ (nxt w)). simpl. apply nth_app_old. exact Hj.
      + reflexivity.
      + reflexivity.
      + reflexivity.
    - cbn [stepi target] in *. unfold geti. destruct (nth i (pl w) (Run.dummy, dummy_it)) as [a t].
      destruct (sub_agg a p1), (sub_it t p1); try reflexivity. simpl. apply nth_seti. congruence.
    - cbn [stepi target] in *. unfold geti. destruct (nth i (pl w) (Run.dummy, dummy_it)) as [a t].
      destruct (sub_agg a p), (sub_it t p); try reflexivity. simpl. apply nth_app_old. exact Hj.
  Qed.

  (* += and fill keep the identity of the object they are applied to *)
  Lemma extend_root (old : itree) (a : agg N) nx : it_id (fst (extend old a nx)) = it_id old.
  Proof.
    destruct old as [i c ks ss tm], a as [|k q e fx sp tm' ct]; cbn [extend]; [reflexivity|].
    match goal with |- context [let '(ks', n1) := ?X in _] => destruct X as [ks' n1] end.
    match goal with |- context [let '(ss', n2) := ?X in _] => destruct X as [ss' n2] end.
    reflexivity.
  Qed.
End Frame.
