(* C08: scaling commutes with the JSON round trip (exact instance):
   reload (a * f) = (reload a) * f, hence fromJson(toJson(a * f)) = fromJson(toJson(a)) * f. *)
From Coq Require Import ZArith List String Bool Lia QArith Qcanon.
From Hgm Require Import NumOps Xq Agg Ops Build Snap Json SL KeyFacts AggInd XqFacts LeafAlg MulAlg JsonFacts JsonRT.
Import ListNotations.
Local Open Scope string_scope.
Local Open Scope list_scope.

Lemma mul_type (a : xagg) f : type_name (mul_t a f) = type_name a.
Proof. destruct a as [k q s|k q e fx sp tm ct]; reflexivity. Qed.

Lemma mul_qname (a : xagg) f : qname_of (mul_t a f) = qname_of a.
Proof. destruct a as [k q s|k q e fx sp tm ct]; [destruct k|]; reflexivity. Qed.

Lemma first_name_mul (fx : list xagg) f : first_name (map (fun c => mul_t c f) fx) = first_name fx.
Proof. destruct fx; [reflexivity | apply mul_qname]. Qed.

Lemma first_type_mul (fx : list xagg) f : first_type (map (fun c => mul_t c f) fx) = first_type fx.
Proof. destruct fx; [reflexivity | apply mul_type]. Qed.

Lemma sp_name_mul (sp : list (key * xagg)) tm f :
  sp_name (map (fun kc => (fst kc, mul_t (snd kc) f)) sp) tm = sp_name sp tm.
Proof. destruct tm; [reflexivity|]. destruct sp as [|[k c] sp]; [reflexivity | apply mul_qname]. Qed.

Lemma sp_type_mul (sp : list (key * xagg)) tm ct f :
  sp_type (map (fun kc => (fst kc, mul_t (snd kc) f)) sp) tm ct = sp_type sp tm ct.
Proof. destruct sp as [|[k c] sp]; [reflexivity | apply mul_type]. Qed.

Lemma reload_state_mul k s f : finpos f -> (k = LDeviate -> leaf_wf LDeviate s) ->
  reload_state k (@leaf_mul Xq k s f) = @leaf_mul Xq (reload_kind k) (reload_state k s) f.
Proof.
  intros (p & -> & Hp) Hd. destruct k; cbn [reload_state leaf_mul reload_kind le l1 l2 lv]; try reflexivity.
  specialize (Hd eq_refl). unfold leaf_wf in Hd. destruct Hd as [_ [(E & M & V)|(e & m & v & E & He & M & V)]].
  - rewrite E, V. apply lstate_eq; cbn [le l1 l2 lv]; xproj; try reflexivity.
    change (xmul (XF p) XNaN) with XNaN.
    destruct (xeqb (xmul (XF p) (XF (Q2Qc 0))) (XF (Q2Qc 0))); destruct (xeqb (XF (Q2Qc 0)) (XF (Q2Qc 0))); reflexivity.
  - rewrite E, V. apply lstate_eq; cbn [le l1 l2 lv]; xproj; try reflexivity.
    assert (Ne : e <> 0%Qc) by (apply Qc_pos_neq0; exact He).
    assert (Npe : (p * e)%Qc <> 0%Qc).
    { apply Qc_pos_neq0. apply Qc_mul_pos; assumption. }
    xnorm; try reflexivity. f_equal. field. split; [exact Ne | apply Qc_pos_neq0; exact Hp].
Qed.

Lemma map_reload_mul (l : list xagg) (g : xagg -> option string) f :
  Forall (fun c => forall nm, reload (mul_t c f) nm = mul_t (reload c nm) f) l ->
  map (fun c => reload c (g c)) (map (fun c => mul_t c f) l) =
  map (fun c => mul_t c f) (map (fun c => reload c (g (mul_t c f))) l).
Proof.
  intro H. rewrite !map_map. apply map_ext_in. intros c Hc. rewrite Forall_forall in H. apply H. exact Hc.
Qed.

Lemma map_reload_mul_const (l : list xagg) nm0 f :
  Forall (fun c => forall nm, reload (mul_t c f) nm = mul_t (reload c nm) f) l ->
  map (fun c => reload c nm0) (map (fun c => mul_t c f) l) =
  map (fun c => mul_t c f) (map (fun c => reload c nm0) l).
Proof. intro H. apply (map_reload_mul l (fun _ => nm0) f H). Qed.

Lemma map_reload_mul_own (l : list xagg) f :
  Forall (fun c => forall nm, reload (mul_t c f) nm = mul_t (reload c nm) f) l ->
  map (fun c => reload c (qname_of c)) (map (fun c => mul_t c f) l) =
  map (fun c => mul_t c f) (map (fun c => reload c (qname_of c)) l).
Proof.
  intro H. rewrite (map_reload_mul l (@qname_of Xq) f H). f_equal. apply map_ext. intro c. rewrite mul_qname. reflexivity.
Qed.

Lemma map_reload_mul_sp (sp : list (key * xagg)) nm0 f :
  Forall (fun kc => forall nm, reload (mul_t (snd kc) f) nm = mul_t (reload (snd kc) nm) f) sp ->
  map (fun kc => (fst kc, reload (snd kc) nm0)) (map (fun kc => (fst kc, mul_t (snd kc) f)) sp) =
  map (fun kc => (fst kc, mul_t (snd kc) f)) (map (fun kc => (fst kc, reload (snd kc) nm0)) sp).
Proof.
  intro H. rewrite !map_map. apply map_ext_in. intros kc Hc. cbn [fst snd]. rewrite Forall_forall in H.
  rewrite (H kc Hc). reflexivity.
Qed.

Lemma qnames_mul (fx : list xagg) f : map (@qname_of Xq) (map (fun c => mul_t c f) fx) = map (@qname_of Xq) fx.
Proof. rewrite map_map. apply map_ext. intro c. apply mul_qname. Qed.
Lemma types_mul (fx : list xagg) f : map (@type_name Xq) (map (fun c => mul_t c f) fx) = map (@type_name Xq) fx.
Proof. rewrite map_map. apply map_ext. intro c. apply mul_type. Qed.

(* which Deviate leaves must be consistent (jwf implies it) *)
Fixpoint dev_ok (a : xagg) : Prop :=
  match a with
  | Leaf LDeviate _ s => leaf_wf LDeviate s
  | Leaf _ _ _ => True
  | Node _ _ _ fx sp _ _ => allP dev_ok fx /\ allP (fun kc => dev_ok (snd kc)) sp
  end.

Lemma jwf_dev_ok (a : xagg) : jwf a -> dev_ok a.
Proof.
  induction a as [k q s | k q e fx sp tm ct IHfx IHsp _] using agg_ind'.
  - intros [_ H]. destruct k; try exact I. exact H.
  - intros (_ & Wfx & Wsp & _). cbn [dev_ok]. split; apply allP_Forall.
    + apply allP_Forall in Wfx. rewrite Forall_forall in *. intros c Hc. apply IHfx; auto.
    + apply allP_Forall in Wsp. rewrite Forall_forall in *. intros c Hc. apply IHsp; auto.
Qed.

Theorem reload_mul (a : xagg) f : finpos f -> dev_ok a ->
  forall nm, reload (mul_t a f) nm = mul_t (reload a nm) f.
Proof.
  intro Hf. induction a as [k q s | k q e fx sp tm ct IHfx IHsp _] using agg_ind'; intros D nm.
  - cbn [mul_t reload]. rewrite reload_state_mul; [destruct k; reflexivity | exact Hf |].
    intro E. subst k. exact D.
  - cbn [dev_ok] in D. destruct D as [Dfx Dsp].
    assert (Hfx : Forall (fun c : xagg => forall nm, reload (mul_t c f) nm = mul_t (reload c nm) f) fx).
    { apply allP_Forall in Dfx. rewrite Forall_forall in *. intros c Hc. apply IHfx; auto. }
    assert (Hsp : Forall (fun kc : key * xagg => forall nm, reload (mul_t (snd kc) f) nm = mul_t (reload (snd kc) nm) f) sp).
    { apply allP_Forall in Dsp. rewrite Forall_forall in *. intros c Hc. apply IHsp; auto. }
    cbn [mul_t]. destruct k; cbn [reload mul_t];
      rewrite ?map_length, ?first_name_mul, ?first_type_mul, ?sp_name_mul, ?sp_type_mul, ?qnames_mul, ?types_mul;
      rewrite ?map_reload_mul_const, ?map_reload_mul_own, ?map_reload_mul_sp by assumption;
      rewrite ?map_app, ?firstn_map, ?skipn_map; reflexivity.
Qed.

(* ---------- the scaled tree is still one the reader accepts ---------- *)
Lemma entries_ok_mul (e : xq) f : finpos f -> @entries_ok Xq e = true -> @entries_ok Xq (xmul f e) = true.
Proof.
  intros (p & -> & Hp) H. unfold entries_ok in *. xproj. destruct e as [q| | |]; cbn [xmul] in *; try reflexivity.
  - apply negb_true_iff in H. apply negb_true_iff. unfold xltb in *.
    destruct (q ?= 0)%Qc eqn:C; try discriminate; cmp_hyps.
    + subst q. replace (p * 0)%Qc with 0%Qc by ring. rewrite Qc_cmp_refl. reflexivity.
    + assert (0 < p * q)%Qc by (apply Qc_mul_pos; assumption).
      destruct (p * q ?= 0)%Qc eqn:C2; try reflexivity; cmp_hyps.
      exfalso. apply (Qclt_not_le _ _ H0). apply Qclt_le_weak. exact C2.
  - rewrite (qsgn_pos p Hp). reflexivity.
  - rewrite (qsgn_pos p Hp). cbn. exact H.
Qed.

Lemma same_type_mul t (l : list xagg) f : same_type t l -> same_type t (map (fun c => mul_t c f) l).
Proof.
  unfold same_type. intro H. rewrite Forall_forall in *. intros c Hc. apply in_map_iff in Hc.
  destruct Hc as (c0 & <- & H0). rewrite mul_type. apply H. exact H0.
Qed.

Lemma map_snd_mul (sp : list (key * xagg)) f :
  map snd (map (fun kc => (fst kc, mul_t (snd kc) f)) sp) = map (fun c => mul_t c f) (map snd sp).
Proof. rewrite !map_map. reflexivity. Qed.

Lemma keys_mul (P : key -> Prop) (sp : list (key * xagg)) f :
  Forall (fun kc => P (fst kc)) sp -> Forall (fun kc => P (fst kc)) (map (fun kc => (fst kc, mul_t (snd kc) f)) sp).
Proof.
  intro H. rewrite Forall_forall in *. intros kc Hc. apply in_map_iff in Hc. destruct Hc as (k0 & <- & H0).
  cbn [fst]. apply H. exact H0.
Qed.

Lemma jwf_mul (a : xagg) f : finpos f -> jwf a -> jwf (mul_t a f).
Proof.
  intro Hf. induction a as [k q s | k q e fx sp tm ct IHfx IHsp _] using agg_ind'.
  - intros [He Hk]. cbn [mul_t jwf]. split.
    + unfold entries_fine in *. destruct k; cbn [leaf_mul le]; apply entries_ok_mul; assumption.
    + destruct k; try exact I.
      * apply leaf_mul_wf; assumption.
      * destruct Hk as [S K]. cbn [leaf_mul lv]. split.
        -- apply (sorted_map_val (@bag_cmp Xq) (fun c => xmul f c)). exact S.
        -- rewrite Forall_forall in *. intros kc Hc. apply in_map_iff in Hc. destruct Hc as (k0 & <- & H0).
           cbn [fst]. apply K. exact H0.
  - intros (He & Wfx & Wsp & Hk). cbn [mul_t jwf].
    assert (Wfx' : allP jwf (map (fun c : xagg => mul_t c f) fx)).
    { apply allP_Forall. apply allP_Forall in Wfx. rewrite Forall_forall in *. intros c Hc.
      apply in_map_iff in Hc. destruct Hc as (c0 & <- & H0). apply IHfx; auto. }
    assert (Wsp' : allP (fun kc : key * xagg => jwf (snd kc)) (map (fun kc : key * xagg => (fst kc, mul_t (snd kc) f)) sp)).
    { apply allP_Forall. apply allP_Forall in Wsp. rewrite Forall_forall in *. intros kc Hc.
      apply in_map_iff in Hc. destruct Hc as (k0 & <- & H0). cbn [snd]. apply IHsp; auto. }
    split; [apply entries_ok_mul; assumption|]. split; [exact Wfx'|]. split; [exact Wsp'|].
    destruct k; cbn [jwf] in Hk |- *;
      rewrite ?map_length, ?first_type_mul, ?sp_name_mul, ?sp_type_mul, ?types_mul, ?map_snd_mul, <- ?firstn_map;
      repeat match goal with H : _ /\ _ |- _ => destruct H end;
      repeat split; try assumption; try (apply same_type_mul; assumption);
      try (apply (sorted_map_val key_cmp (fun c : xagg => mul_t c f)); assumption);
      try (apply (keys_mul (fun k => exists z, k = KInt z)); assumption);
      try (apply (keys_mul (fun k => exists s, k = KStr s)); assumption).
    all: try (intro E; apply map_eq_nil in E; auto).
    all: try (intros t Ht; auto).
    all: rewrite firstn_map; apply same_type_mul; assumption.
Qed.

Lemma height_mul (a : xagg) f : height (mul_t a f) = height a.
Proof.
  induction a as [k q s | k q e fx sp tm ct IHfx IHsp _] using agg_ind'; [reflexivity|].
  cbn [mul_t height]. f_equal. f_equal.
  - f_equal. rewrite map_map. apply map_ext_in. intros c Hc. rewrite Forall_forall in IHfx. apply IHfx. exact Hc.
  - f_equal. rewrite map_map. apply map_ext_in. intros c Hc. cbn [snd]. rewrite Forall_forall in IHsp. apply IHsp. exact Hc.
Qed.

(* fromJson(toJson(h * f)) = fromJson(toJson(h)) * f, and both write the document of h * f *)
Theorem json_mul_commute (a : xagg) f fuel : finpos f -> jwf a -> (height a <= fuel)%nat ->
  from_json fuel (to_json (mul_t a f)) = Ok (mul_t (reload a (qname_of a)) f) /\
  from_json fuel (to_json a) = Ok (reload a (qname_of a)) /\
  to_json (mul_t (reload a (qname_of a)) f) = to_json (mul_t a f).
Proof.
  intros Hf W H.
  pose proof (jwf_mul a f Hf W) as Wm.
  assert (Hm : (height (mul_t a f) <= fuel)%nat) by (rewrite height_mul; exact H).
  destruct (json_round_trip (mul_t a f) fuel Wm Hm) as [R1 R2].
  destruct (json_round_trip a fuel W H) as [R3 _].
  rewrite mul_qname in R1, R2. rewrite (reload_mul a f Hf (jwf_dev_ok a W)) in R1, R2.
  repeat split; assumption.
Qed.
