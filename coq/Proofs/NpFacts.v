(* C03: algebra of batches (the model of fill.numpy is the row-by-row aggregate of the batch). *)
From Coq Require Import ZArith List Bool.
From Hgm Require Import NumOps Xq Agg Ops Np AggInd LeafAlg Algebra Stream.
Import ListNotations.

Section Batches.
  Context {N : num_ops}.
  Notation agg := (agg N).
  Notation rows := (list (datum N * T N)).

  Definition stepnp (acc : agg * outcome) (dw : datum N * T N) : agg * outcome :=
    let '(a', r) := fill (fst acc) (fst dw) (snd dw) in (a', worse (snd acc) r).

  Lemma fillnp_fold (a : agg) (rs : rows) : fillnp a rs = fold_left stepnp rs (a, Done).
  Proof. reflexivity. Qed.

  Lemma fold_stepnp_fst (rs : rows) : forall acc, fst (fold_left stepnp rs acc) = fills (fst acc) rs.
  Proof.
    induction rs as [|[d w] rs IH]; intro acc; [reflexivity|].
    cbn [fold_left]. rewrite IH. unfold stepnp, fills. cbn [fst snd fold_left].
    destruct (fill (fst acc) d w); reflexivity.
  Qed.

  (* the content after a vectorised fill is the content after filling the rows one by one *)
  Theorem fillnp_content (a : agg) (rs : rows) : fst (fillnp a rs) = fills a rs.
  Proof. rewrite fillnp_fold. apply fold_stepnp_fst. Qed.

  Lemma worse_assoc a b c : worse (worse a b) c = worse a (worse b c).
  Proof. destruct a; reflexivity. Qed.

  Lemma fold_stepnp_outcome (rs : rows) : forall a o,
    fold_left stepnp rs (a, o) = (fst (fold_left stepnp rs (a, Done)), worse o (snd (fold_left stepnp rs (a, Done)))).
  Proof.
    induction rs as [|[d w] rs IH]; intros a o; cbn [fold_left].
    - destruct o; reflexivity.
    - unfold stepnp at 2 4 6. cbn [fst snd]. destruct (fill a d w) as [a' r].
      rewrite (IH a' (worse o r)). rewrite (IH a' (worse Done r)). cbn [fst snd].
      f_equal. rewrite worse_assoc. reflexivity.
  Qed.

  (* any split of a batch into successive fill.numpy calls gives the same aggregate (and raises
     iff one of the calls does) *)
  Theorem fillnp_split (a : agg) (r1 r2 : rows) :
    fillnp a (r1 ++ r2) =
    (fst (fillnp (fst (fillnp a r1)) r2), worse (snd (fillnp a r1)) (snd (fillnp (fst (fillnp a r1)) r2))).
  Proof.
    rewrite !fillnp_fold. rewrite fold_left_app.
    destruct (fold_left stepnp r1 (a, Done)) as [a1 o1] eqn:E1. cbn [fst snd].
    apply fold_stepnp_outcome.
  Qed.

  Lemma fill_gated_any (a : agg) d w : pos w = false -> fill a d w = (a, Done).
  Proof. intro H. unfold fill. destruct a; cbn [fillz]; rewrite H; reflexivity. Qed.

  (* rows with weight zero (or negative, or NaN) change nothing *)
  Theorem fillnp_zero_weight_rows (rs : rows) : forall a,
    fillnp a rs = fillnp a (filter (fun dw => pos (snd dw)) rs).
  Proof.
    intro a. rewrite !fillnp_fold. generalize (a, Done). induction rs as [|[d w] rs IH]; intro acc; [reflexivity|].
    cbn [filter snd]. destruct (pos w) eqn:Hw; cbn [fold_left].
    - apply IH.
    - rewrite <- IH. f_equal. unfold stepnp. cbn [fst snd]. rewrite (fill_gated_any _ d w Hw).
      destruct acc as [a0 o0]. cbn [fst snd]. destruct o0; reflexivity.
  Qed.
End Batches.

(* exact instance: a batch is the aggregate of the batch alone, merged into the accumulator *)
Theorem fillnp_merge (t a : agg Xq) (rs : list (datum Xq * xq)) :
  same a t -> wf a -> okstream t rs -> fills_ok (zero t) rs ->
  fst (fillnp a rs) = add_t a (fst (fillnp (zero t) rs)).
Proof.
  intros Sa Wa O F. rewrite !fillnp_content.
  assert (Sz : same (zero t) t) by apply same_zero.
  assert (Wz : wf (zero t)) by apply wf_zero.
  destruct (fills_add t rs a (zero t) Sa Sz Wa Wz O F) as [E _].
  rewrite <- E. f_equal.
  unfold same in Sa. rewrite <- Sa. symmetry. apply add_zero_r. exact Wa.
Qed.
