(* str(int) / int(str): the decimal printer of the model (Snap.z_str, the standard library's
   NilZero.string_of_int) is inverted by the reader's parse_int (Json.parse_int). *)
From Coq Require Import ZArith List String Ascii Bool Lia Decimal DecimalString DecimalPos DecimalZ.
From Hgm Require Import NumOps Agg Ops Build Snap Json.
Local Open Scope Z_scope.

Section Dec.
  Context {N : num_ops}.

  Fixpoint uval (u : uint) (acc : Z) : Z :=
    match u with
    | Nil => acc
    | D0 l => uval l (acc * 10 + 0) | D1 l => uval l (acc * 10 + 1) | D2 l => uval l (acc * 10 + 2)
    | D3 l => uval l (acc * 10 + 3) | D4 l => uval l (acc * 10 + 4) | D5 l => uval l (acc * 10 + 5)
    | D6 l => uval l (acc * 10 + 6) | D7 l => uval l (acc * 10 + 7) | D8 l => uval l (acc * 10 + 8)
    | D9 l => uval l (acc * 10 + 9)
    end.

  Lemma digits_uint (u : uint) : forall acc,
    digits (NilEmpty.string_of_uint u) acc = Some (uval u acc).
  Proof. induction u; intro acc; cbn [NilEmpty.string_of_uint digits uval]; auto; apply IHu. Qed.

  Lemma uval_pos (u : uint) : forall p, uval u (Zpos p) = Zpos (Pos.of_uint_acc u p).
  Proof.
    induction u; intro p; cbn [uval Pos.of_uint_acc]; auto;
      match goal with |- uval _ ?x = _ =>
        match goal with |- _ = Zpos (Pos.of_uint_acc _ ?q) => replace x with (Zpos q) by lia end end;
      apply IHu.
  Qed.

  Lemma uval_0 (u : uint) : uval u 0 = Z.of_N (Pos.of_uint u).
  Proof.
    induction u; cbn [uval Pos.of_uint]; auto; try (rewrite <- IHu; reflexivity);
      match goal with |- uval _ ?x = _ => let y := eval cbv in x in change x with y end;
      rewrite uval_pos; reflexivity.
  Qed.

  Lemma uint_nonempty (u : uint) : u <> Nil ->
    exists c s, NilEmpty.string_of_uint u = String c s /\ c <> "-"%char /\ c <> "+"%char.
  Proof. destruct u; intro H; try congruence; cbn; eexists _, _; repeat split; discriminate. Qed.

  Lemma parse_uint (u : uint) : u <> Nil ->
    parse_int (NilEmpty.string_of_uint u) = Some (Z.of_N (Pos.of_uint u)).
  Proof.
    intro H. rewrite <- uval_0, <- digits_uint.
    destruct u; try congruence; reflexivity.
  Qed.

  Theorem parse_int_z_str (z : Z) : parse_int (z_str z) = Some z.
  Proof.
    unfold z_str. destruct z as [|p|p]; [reflexivity| |].
    - cbn [Z.to_int NilZero.string_of_int]. unfold NilZero.string_of_uint.
      pose proof (DecimalPos.Unsigned.to_uint_nonnil p) as Hn.
      destruct (Pos.to_uint p) eqn:E; try congruence; rewrite <- E;
        (rewrite parse_uint by (rewrite E; discriminate));
        rewrite DecimalPos.Unsigned.of_to; reflexivity.
    - cbn [Z.to_int NilZero.string_of_int]. unfold NilZero.string_of_uint.
      pose proof (DecimalPos.Unsigned.to_uint_nonnil p) as Hn.
      assert (G : forall u, u <> Nil -> parse_int (String "-" (NilEmpty.string_of_uint u)) =
                                        option_map Z.opp (Some (Z.of_N (Pos.of_uint u)))).
      { intros u Hu. rewrite <- uval_0, <- digits_uint. destruct u; try congruence; reflexivity. }
      destruct (Pos.to_uint p) eqn:E; try congruence; rewrite <- E;
        (rewrite G by (rewrite E; discriminate));
        rewrite DecimalPos.Unsigned.of_to; reflexivity.
  Qed.

  (* a non-negative int prints as a non-empty run of digits *)
  Lemma digits_z_str (z : Z) : 0 <= z ->
    exists c s, z_str z = String c s /\ digits (String c s) 0 = Some z.
  Proof.
    intro Hz. unfold z_str. destruct z as [|p|p]; [eexists _, _; split; reflexivity| |lia].
    cbn [Z.to_int NilZero.string_of_int]. unfold NilZero.string_of_uint.
    pose proof (DecimalPos.Unsigned.to_uint_nonnil p) as Hn.
    assert (G : forall u, u <> Nil -> exists c s, NilEmpty.string_of_uint u = String c s /\
                                                 digits (String c s) 0 = Some (Z.of_N (Pos.of_uint u))).
    { intros u Hu. destruct (uint_nonempty u Hu) as (c & s & E & _). exists c, s. split; [exact E|].
      rewrite <- E, digits_uint, uval_0. reflexivity. }
    destruct (Pos.to_uint p) eqn:E; try congruence; rewrite <- E;
      (destruct (G (Pos.to_uint p)) as (c & s & E1 & E2); [rewrite E; discriminate|]);
      exists c, s; rewrite E2, DecimalPos.Unsigned.of_to; auto.
  Qed.
End Dec.
