(* C06: in-place operations (fill, fill.numpy, +=) never create sharing.
   [extend old a nx] keeps the identities of the positions that exist and allocates new ones from
   nx on; if the identities of [old] are pairwise distinct and below nx, so are those of the
   result, and every identity of the result is an old one or a new one. *)
From Coq Require Import ZArith List String Bool PArith Lia Permutation.
From Hgm Require Import NumOps Agg Ops Forest AggInd KeyFacts ForestFacts.
Import ListNotations.

Section Sep.
  Context {N : num_ops}.
  Notation agg := (agg N).

  Definition below (nx : positive) (l : list positive) : Prop := Forall (fun i => (i < nx)%positive) l.
  Definition disjoint (l1 l2 : list positive) : Prop := forall i, In i l1 -> In i l2 -> False.

  (* every identity of the new tree is one of the old tree or a new one in [nx, nx') *)
  Definition from (old : list positive) (nx nx' : positive) (l : list positive) : Prop :=
    Forall (fun i => In i old \/ (nx <= i < nx')%positive) l.

  Lemma from_mono old old' nx nx' mx mx' l :
    incl old old' -> (mx <= nx)%positive -> (nx' <= mx')%positive -> from old nx nx' l -> from old' mx mx' l.
  Proof.
    intros Hi H1 H2 F. unfold from in *. rewrite Forall_forall in *. intros i Hl.
    destruct (F i Hl) as [H|H]; [left; apply Hi; exact H | right; lia].
  Qed.

  Lemma from_app old nx nx' l1 l2 : from old nx nx' (l1 ++ l2) <-> from old nx nx' l1 /\ from old nx nx' l2.
  Proof. unfold from. apply Forall_app. Qed.

  Lemma within_from old nx nx' l : within nx nx' l -> from old nx nx' l.
  Proof. unfold within, from. apply Forall_impl. intros i H. right. exact H. Qed.

  Lemma NoDup_app_inv {A} (l1 l2 : list A) :
    NoDup (l1 ++ l2) -> NoDup l1 /\ NoDup l2 /\ (forall x, In x l1 -> In x l2 -> False).
  Proof.
    induction l1 as [|a l1 IH]; cbn [app]; intro H.
    - repeat split; [constructor | exact H | intros x []].
    - inversion H as [|? ? Ha Hn]; subst. destruct (IH Hn) as (N1 & N2 & D).
      repeat split; auto.
      + constructor; auto. intro Hi. apply Ha. apply in_or_app. left. exact Hi.
      + intros x [<-|H1] H2; [apply Ha; apply in_or_app; right; exact H2 | apply (D x); assumption].
  Qed.

  (* keys of every sparse list are pairwise distinct (sorted association lists) *)
  Fixpoint keys_distinct (a : agg) : Prop :=
    match a with
    | Leaf _ _ _ => True
    | Node _ _ _ fx sp _ _ =>
        NoDup (map fst sp) /\ allP keys_distinct fx /\ allP (fun kc => keys_distinct (snd kc)) sp
    end.

  (* ---- looking up old sparse children ---- *)
  Notation sids := (fun kt : key * itree => ids (snd kt)).

  Lemma lookup_incl k (ss : list (key * itree)) o :
    lookup_it k ss = Some o -> incl (ids o) (List.concat (map sids ss)).
  Proof.
    induction ss as [|[k' t] ss IH]; cbn [lookup_it]; [discriminate|].
    destruct (key_cmp k k').
    - intro E. inversion E; subst. cbn [map List.concat snd]. apply incl_appl. apply incl_refl.
    - intro E. cbn [map List.concat snd]. apply incl_appr. apply IH. exact E.
    - intro E. cbn [map List.concat snd]. apply incl_appr. apply IH. exact E.
  Qed.

  Lemma lookup_nodup k (ss : list (key * itree)) o :
    lookup_it k ss = Some o -> NoDup (List.concat (map sids ss)) -> NoDup (ids o).
  Proof.
    induction ss as [|[k' t] ss IH]; cbn [lookup_it]; [discriminate|].
    cbn [map List.concat snd]. intros E Hn. apply NoDup_app_inv in Hn. destruct Hn as (N1 & N2 & _).
    destruct (key_cmp k k'); [inversion E; subst; exact N1 | apply IH; assumption | apply IH; assumption].
  Qed.

  Lemma lookup_disjoint k1 k2 (ss : list (key * itree)) o1 o2 :
    k1 <> k2 -> lookup_it k1 ss = Some o1 -> lookup_it k2 ss = Some o2 ->
    NoDup (List.concat (map sids ss)) -> disjoint (ids o1) (ids o2).
  Proof.
    intro Hk. induction ss as [|[k' t] ss IH]; cbn [lookup_it]; [discriminate|].
    cbn [map List.concat snd]. intros E1 E2 Hn. apply NoDup_app_inv in Hn. destruct Hn as (_ & N2 & D).
    destruct (key_cmp k1 k') eqn:C1; destruct (key_cmp k2 k') eqn:C2;
      try (apply key_cmp_eq in C1); try (apply key_cmp_eq in C2); try congruence;
      try (apply IH; assumption).
    - inversion E1; subst. intros i H1 H2. apply (D i H1). eapply lookup_incl; eassumption.
    - inversion E1; subst. intros i H1 H2. apply (D i H1). eapply lookup_incl; eassumption.
    - inversion E2; subst. intros i H1 H2. apply (D i H2). eapply lookup_incl; eassumption.
    - inversion E2; subst. intros i H1 H2. apply (D i H2). eapply lookup_incl; eassumption.
  Qed.

  (* the property of [extend] proved by induction on the new value *)
  Definition ext_ok (a : agg) : Prop :=
    forall old nx t nx',
      keys_distinct a -> NoDup (ids old) -> below nx (ids old) ->
      extend old a nx = (t, nx') ->
      (nx <= nx')%positive /\ NoDup (ids t) /\ from (ids old) nx nx' (ids t).

  Lemma below_in nx l i : below nx l -> In i l -> (i < nx)%positive.
  Proof. unfold below. rewrite Forall_forall. auto. Qed.

  Lemma from_disjoint old1 old2 a b c l1 l2 :
    (a <= b)%positive -> (b <= c)%positive ->
    below a old1 -> below a old2 -> disjoint old1 old2 ->
    from old1 a b l1 -> from old2 b c l2 -> disjoint l1 l2.
  Proof.
    intros Hab Hbc B1 B2 D F1 F2 i H1 H2.
    unfold from in *. rewrite Forall_forall in *.
    destruct (F1 i H1) as [O1|R1]; destruct (F2 i H2) as [O2|R2].
    - apply (D i O1 O2).
    - pose proof (below_in _ _ _ B1 O1). lia.
    - pose proof (below_in _ _ _ B2 O2). lia.
    - lia.
  Qed.

  (* the fixed children: positions are matched one by one *)
  Definition go_fixed :=
    fix go (os : list itree) (l : list agg) (n : positive) {struct l} : list itree * positive :=
      match os, l with
      | o :: os', x :: l' =>
          let '(t, n') := extend o x n in let '(ts, n'') := go os' l' n' in (t :: ts, n'')
      | _, _ => ([], n)
      end.

  Lemma go_fixed_ok (l : list agg) : Forall ext_ok l -> allP keys_distinct l ->
    forall os n ts n',
      NoDup (List.concat (map ids os)) -> below n (List.concat (map ids os)) ->
      go_fixed os l n = (ts, n') ->
      (n <= n')%positive /\ NoDup (List.concat (map ids ts)) /\
      from (List.concat (map ids os)) n n' (List.concat (map ids ts)).
  Proof.
    induction l as [|x l IH]; intros F K os n ts n' Hn Hb E.
    - destruct os; cbn [go_fixed] in E; inversion E; subst; repeat split; try lia; constructor.
    - destruct os as [|o os].
      + cbn [go_fixed] in E. inversion E; subst. repeat split; try lia; constructor.
      + cbn [go_fixed] in E. fold go_fixed in E.
        inversion F as [|? ? Hx Fl]; subst. cbn [allP] in K. destruct K as [Kx Kl].
        cbn [map List.concat] in Hn, Hb.
        apply NoDup_app_inv in Hn. destruct Hn as (No & Nos & Dos).
        unfold below in Hb. apply Forall_app in Hb. destruct Hb as [Bo Bos].
        destruct (extend o x n) as [t n1] eqn:Et.
        destruct (go_fixed os l n1) as [ts' n2] eqn:Eg.
        inversion E; subst.
        destruct (Hx o n t n1 Kx No Bo Et) as (L1 & N1 & F1).
        assert (Bos' : below n1 (List.concat (map ids os))).
        { unfold below in *. rewrite Forall_forall in *. intros i Hi. specialize (Bos i Hi). lia. }
        destruct (IH Fl Kl os n1 ts' n' Nos Bos' Eg) as (L2 & N2 & F2).
        cbn [map List.concat]. repeat split.
        * lia.
        * apply NoDup_app_intro; auto.
          apply (from_disjoint (ids o) (List.concat (map ids os)) n n1 n'); auto.
        * apply from_app. split.
          -- eapply from_mono; [| | |exact F1]; [apply incl_appl, incl_refl | lia | lia].
          -- eapply from_mono; [| | |exact F2]; [apply incl_appr, incl_refl | lia | lia].
  Qed.

  (* the sparse children: looked up by key in the old list, new ones are allocated *)
  Definition go_sparse (ss : list (key * itree)) :=
    fix go (l : list (key * agg)) (n : positive) : list (key * itree) * positive :=
      match l with
      | [] => ([], n)
      | (k, x) :: l' =>
          let '(t, n') :=
            match lookup_it k ss with
            | Some o => extend o x n
            | None => fresh_like x n
            end in
          let '(ts, n'') := go l' n' in ((k, t) :: ts, n'')
      end.

  (* identities of the old sparse children that the keys of l select *)
  Fixpoint used (ss : list (key * itree)) (ks : list key) : list positive :=
    match ks with
    | [] => []
    | k :: ks' => (match lookup_it k ss with Some o => ids o | None => [] end) ++ used ss ks'
    end.

  Lemma used_incl ss ks : incl (used ss ks) (List.concat (map sids ss)).
  Proof.
    induction ks as [|k ks IH]; cbn [used]; [intros i []|].
    apply incl_app; [|exact IH]. destruct (lookup_it k ss) eqn:E; [eapply lookup_incl; exact E | intros i []].
  Qed.

  Lemma used_disjoint ss k ks o :
    ~ In k ks -> lookup_it k ss = Some o -> NoDup (List.concat (map sids ss)) ->
    disjoint (ids o) (used ss ks).
  Proof.
    intros Hk E Hn. induction ks as [|k2 ks IH]; cbn [used]; [intros i _ []|].
    intros i H1 H2. apply in_app_or in H2. destruct H2 as [H2|H2].
    - destruct (lookup_it k2 ss) as [o2|] eqn:E2; [|destruct H2].
      apply (lookup_disjoint k k2 ss o o2) with (i := i); auto. intro Heq. apply Hk. left. symmetry. exact Heq.
    - apply (IH (fun Hin => Hk (or_intror Hin)) i); assumption.
  Qed.

  Lemma go_sparse_ok (ss : list (key * itree)) (l : list (key * agg)) :
    Forall (fun kc => ext_ok (snd kc)) l -> allP (fun kc => keys_distinct (snd kc)) l ->
    NoDup (map fst l) -> NoDup (List.concat (map sids ss)) ->
    forall n ts n',
      below n (List.concat (map sids ss)) ->
      go_sparse ss l n = (ts, n') ->
      (n <= n')%positive /\ NoDup (List.concat (map sids ts)) /\
      from (used ss (map fst l)) n n' (List.concat (map sids ts)).
  Proof.
    induction l as [|[k x] l IH]; intros F K Hk Hn n ts n' Hb E.
    - cbn [go_sparse] in E. inversion E; subst. repeat split; try lia; constructor.
    - cbn [go_sparse] in E. fold (go_sparse ss) in E.
      inversion F as [|? ? Hx Fl]; subst. cbn [snd] in Hx. cbn [allP snd] in K. destruct K as [Kx Kl].
      cbn [map fst] in Hk. inversion Hk as [|? ? Hnotin Hk']; subst.
      destruct (match lookup_it k ss with Some o => extend o x n | None => fresh_like x n end) as [t n1] eqn:Et.
      destruct (go_sparse ss l n1) as [ts' n2] eqn:Eg.
      inversion E; subst.
      assert (Hb1 : below n1 (List.concat (map sids ss)) -> True) by auto.
      (* the first child *)
      assert (P1 : (n <= n1)%positive /\ NoDup (ids t) /\
                   from (match lookup_it k ss with Some o => ids o | None => [] end) n n1 (ids t)).
      { destruct (lookup_it k ss) as [o|] eqn:El.
        - apply (Hx o n t n1 Kx).
          + eapply lookup_nodup; eassumption.
          + unfold below in *. rewrite Forall_forall in *. intros i Hi. apply Hb. eapply lookup_incl; eassumption.
          + exact Et.
        - destruct (fresh_like_spec x n t n1 Et) as (L & W & Nd).
          repeat split; [lia | exact Nd | apply within_from; exact W]. }
      destruct P1 as (L1 & N1 & F1).
      assert (Hb' : below n1 (List.concat (map sids ss))).
      { unfold below in *. rewrite Forall_forall in *. intros i Hi. specialize (Hb i Hi). lia. }
      destruct (IH Fl Kl Hk' Hn n1 ts' n' Hb' Eg) as (L2 & N2 & F2).
      cbn [map List.concat snd fst used]. repeat split.
      + lia.
      + apply NoDup_app_intro; auto.
        apply (from_disjoint (match lookup_it k ss with Some o => ids o | None => [] end)
                             (used ss (map fst l)) n n1 n'); auto.
        * unfold below in *. rewrite Forall_forall in *. intros i Hi. apply Hb.
          destruct (lookup_it k ss) eqn:El; [eapply lookup_incl; eassumption | destruct Hi].
        * unfold below in *. rewrite Forall_forall in *. intros i Hi. apply Hb. eapply used_incl; exact Hi.
        * destruct (lookup_it k ss) as [o|] eqn:El; [|intros i []].
          apply (used_disjoint ss k (map fst l) o); assumption.
      + apply from_app. split.
        * eapply from_mono; [| | |exact F1]; [apply incl_appl, incl_refl | lia | lia].
        * eapply from_mono; [| | |exact F2]; [apply incl_appr, incl_refl | lia | lia].
  Qed.

  Lemma extend_unfold i c ks ss tm k q e fx sp tm' ct nx :
    extend (IT i c ks ss tm) (Node k q e fx sp tm' ct) nx =
    let '(ks', n1) := go_fixed ks fx nx in
    let '(ss', n2) := go_sparse ss sp n1 in
    (IT i c ks' ss' tm, n2).
  Proof. reflexivity. Qed.

  Theorem extend_ok (a : agg) : ext_ok a.
  Proof.
    induction a as [k q s | k q e fx sp tm ct IHfx IHsp _] using agg_ind'; intros old nx t nx' K Hn Hb E.
    - destruct old as [i c ks ss tmo]. cbn [extend] in E. inversion E; subst.
      repeat split; [lia | exact Hn |].
      unfold from. apply Forall_forall. intros j Hj. left. exact Hj.
    - destruct old as [i c ks ss tmo]. rewrite extend_unfold in E.
      cbn [keys_distinct] in K. destruct K as (Kk & Kfx & Ksp).
      cbn [ids] in Hn, Hb.
      inversion Hn as [|? ? Hi Hn1]; subst. inversion Hn1 as [|? ? Hc Hn2]; subst.
      apply NoDup_app_inv in Hn2. destruct Hn2 as (Nks & Nss & Dks).
      unfold below in Hb. inversion Hb as [|? ? Bi Hb1]; subst. inversion Hb1 as [|? ? Bc Hb2]; subst.
      apply Forall_app in Hb2. destruct Hb2 as [Bks Bss].
      destruct (go_fixed ks fx nx) as [ks' n1] eqn:Ef.
      destruct (go_sparse ss sp n1) as [ss' n2] eqn:Es.
      inversion E; subst.
      destruct (go_fixed_ok fx IHfx Kfx ks nx ks' n1 Nks Bks Ef) as (L1 & N1 & F1).
      assert (Bss' : below n1 (List.concat (map sids ss))).
      { unfold below in *. rewrite Forall_forall in *. intros j Hj. specialize (Bss j Hj). lia. }
      destruct (go_sparse_ok ss sp IHsp Ksp Kk Nss n1 ss' nx' Bss' Es) as (L2 & N2 & F2).
      assert (F2' : from (List.concat (map sids ss)) n1 nx' (List.concat (map sids ss'))).
      { eapply from_mono; [| | |exact F2]; [apply used_incl | lia | lia]. }
      assert (D12 : disjoint (List.concat (map ids ks')) (List.concat (map sids ss'))).
      { apply (from_disjoint (List.concat (map ids ks)) (List.concat (map sids ss)) nx n1 nx'); auto. }
      cbn [ids]. repeat split.
      + lia.
      + (* i and c are old identities: they are below nx, different from each other, and not
           among the old children; new identities are >= nx *)
        assert (Hall : from (List.concat (map ids ks) ++ List.concat (map sids ss)) nx nx'
                            (List.concat (map ids ks') ++ List.concat (map sids ss'))).
        { apply from_app. split.
          - eapply from_mono; [| | |exact F1]; [apply incl_appl, incl_refl | lia | lia].
          - eapply from_mono; [| | |exact F2']; [apply incl_appr, incl_refl | lia | lia]. }
        unfold from in Hall. rewrite Forall_forall in Hall.
        constructor.
        * intros [H|H]; [apply Hi; left; exact H|].
          destruct (Hall _ H) as [Ho|Hr]; [apply Hi; right; exact Ho | lia].
        * constructor.
          -- intro H. destruct (Hall _ H) as [Ho|Hr]; [apply Hc; exact Ho | lia].
          -- apply NoDup_app_intro; auto.
      + unfold from. constructor; [left; left; reflexivity|].
        constructor; [left; right; left; reflexivity|].
        apply Forall_app. split.
        * unfold from in F1. revert F1. apply Forall_impl. intros j [H|H]; [left; right; right; apply in_or_app; left; exact H | right; lia].
        * unfold from in F2'. revert F2'. apply Forall_impl. intros j [H|H]; [left; right; right; apply in_or_app; right; exact H | right; lia].
  Qed.
End Sep.

(* ================= the pool: no two positions of any two entries share an identity ================= *)
From Hgm Require Import Np Run RunId.

Section World.
  Context {N : num_ops}.
  Notation agg := (agg N).
  Notation pids_of := (fun ai : agg * itree => ids (snd ai)).

  Definition all_ids (p : list (agg * itree)) : list positive := List.concat (map pids_of p).

  (* every identity in use is below the allocation counter, and no identity occurs twice anywhere
     in the pool: no object and no container is reachable from two positions *)
  Definition sep (w : @world N) : Prop := NoDup (all_ids (pl w)) /\ below (nxt w) (all_ids (pl w)).

  Lemma below_mono n n' l : (n <= n')%positive -> below n l -> below n' l.
  Proof. intros H B. unfold below in *. rewrite Forall_forall in *. intros i Hi. specialize (B i Hi). lia. Qed.

  (* a new result (constructor, +, *, zero, copy, clone) is made of fresh identities *)
  Theorem push_sep (w : world) (a : agg) : sep w -> sep (fst (push w a)).
  Proof.
    intros [Hn Hb]. unfold push. destruct (fresh_like a (nxt w)) as [t n'] eqn:E. cbn [fst].
    destruct (fresh_like_spec a (nxt w) t n' E) as (L & W & Nd).
    unfold sep. cbn [nxt pl]. unfold all_ids in *. rewrite map_app, concat_app. cbn [map List.concat snd].
    rewrite app_nil_r. split.
    - apply NoDup_app_intro; auto. intros i H1 H2.
      pose proof (below_in _ _ _ Hb H1). unfold within in W. rewrite Forall_forall in W. specialize (W i H2). lia.
    - unfold below. apply Forall_app. split.
      + apply (below_mono (nxt w)); [lia | exact Hb].
      + unfold within in W. revert W. apply Forall_impl. intros i H. lia.
  Qed.

  Lemma seti_sep (p : list (agg * itree)) : forall i a' t' nx n',
    NoDup (all_ids p) -> below nx (all_ids p) -> (nx <= n')%positive ->
    NoDup (ids t') -> from (ids (snd (nth i p (Run.dummy, dummy_it)))) nx n' (ids t') ->
    (i < List.length p)%nat ->
    NoDup (all_ids (seti p i (a', t'))) /\ from (all_ids p) nx n' (all_ids (seti p i (a', t'))).
  Proof.
    induction p as [|x p IH]; intros i a' t' nx n' Hn Hb L Nt Ft Hi; [cbn in Hi; lia|].
    unfold all_ids in *. cbn [map List.concat] in Hn, Hb.
    apply NoDup_app_inv in Hn. destruct Hn as (Nx & Np & D).
    unfold below in Hb. apply Forall_app in Hb. destruct Hb as [Bx Bp].
    destruct i as [|i]; cbn [seti nth map List.concat snd] in *.
    - split.
      + apply NoDup_app_intro; auto. intros j H1 H2.
        unfold from in Ft. rewrite Forall_forall in Ft. destruct (Ft j H1) as [Ho|Hr].
        * apply (D j Ho H2).
        * pose proof (below_in _ _ _ Bp H2). lia.
      + apply from_app. split.
        * eapply from_mono; [| | |exact Ft]; [apply incl_appl, incl_refl | lia | lia].
        * unfold from. apply Forall_forall. intros j Hj. left. apply in_or_app. right. exact Hj.
    - assert (Hi' : (i < List.length p)%nat) by (cbn [List.length] in Hi; lia).
      destruct (IH i a' t' nx n' Np Bp L Nt Ft Hi') as (N' & F').
      split.
      + apply NoDup_app_intro; auto. intros j H1 H2.
        unfold from in F'. rewrite Forall_forall in F'. destruct (F' j H2) as [Ho|Hr].
        * apply (D j H1 Ho).
        * pose proof (below_in _ _ _ Bx H1). lia.
      + apply from_app. split.
        * unfold from. apply Forall_forall. intros j Hj. left. apply in_or_app. left. exact Hj.
        * eapply from_mono; [| | |exact F']; [apply incl_appr, incl_refl | lia | lia].
  Qed.

  Lemma nth_in_all (p : list (agg * itree)) i :
    (i < List.length p)%nat -> incl (ids (snd (nth i p (Run.dummy, dummy_it)))) (all_ids p).
  Proof.
    revert i. induction p as [|x p IH]; intros i Hi; [cbn in Hi; lia|].
    unfold all_ids. cbn [map List.concat]. destruct i as [|i]; cbn [nth].
    - apply incl_appl, incl_refl.
    - apply incl_appr. apply IH. cbn [List.length] in Hi. lia.
  Qed.

  Lemma nth_nodup (p : list (agg * itree)) i :
    (i < List.length p)%nat -> NoDup (all_ids p) -> NoDup (ids (snd (nth i p (Run.dummy, dummy_it)))).
  Proof.
    revert i. induction p as [|x p IH]; intros i Hi Hn; [cbn in Hi; lia|].
    unfold all_ids in Hn. cbn [map List.concat] in Hn. apply NoDup_app_inv in Hn. destruct Hn as (Nx & Np & _).
    destruct i as [|i]; cbn [nth]; [exact Nx | apply IH; [cbn [List.length] in Hi; lia | exact Np]].
  Qed.

  (* an in-place operation (fill, fill.numpy, +=) keeps the objects of its target and allocates the
     new sparse children: the pool stays free of sharing *)
  Theorem replace_sep (w : world) (i : nat) (a' : agg) :
    sep w -> (i < List.length (pl w))%nat -> keys_distinct a' ->
    let '(t', n') := extend (snd (geti w i)) a' (nxt w) in
    sep {| nxt := n'; pl := seti (pl w) i (a', t') |}.
  Proof.
    intros [Hn Hb] Hi K. unfold geti.
    destruct (extend (snd (nth i (pl w) (Run.dummy, dummy_it))) a' (nxt w)) as [t' n'] eqn:E.
    assert (No : NoDup (ids (snd (nth i (pl w) (Run.dummy, dummy_it))))) by (apply nth_nodup; assumption).
    assert (Bo : below (nxt w) (ids (snd (nth i (pl w) (Run.dummy, dummy_it))))).
    { unfold below in *. rewrite Forall_forall in *. intros j Hj. apply Hb. eapply nth_in_all; eassumption. }
    destruct (extend_ok a' _ (nxt w) t' n' K No Bo E) as (L & Nt & Ft).
    destruct (seti_sep (pl w) i a' t' (nxt w) n' Hn Hb L Nt Ft Hi) as (N' & F').
    unfold sep. cbn [nxt pl]. split; [exact N'|].
    unfold below. unfold from in F'. revert F'. apply Forall_impl. intros j [H|H].
    - pose proof (below_in _ _ _ Hb H). lia.
    - lia.
  Qed.
End World.
