(* C09: == is exactly equality of content. *)
From Coq Require Import ZArith List String Bool Lia Arith QArith Qcanon Lra Psatz.
From Hgm Require Import NumOps Xq Agg Ops Eq XqFacts SL KeyFacts AggInd.
Import ListNotations.

(* ------------------------------------------------------------------ any arithmetic instance *)
Section Mono.
  Context {N : num_ops}.
  Notation agg := (agg N).

  Lemma forall2b_mono {A} (f g : A -> A -> bool) (l1 : list A) : forall l2,
    Forall (fun x => forall y, f x y = true -> g x y = true) l1 ->
    forall2b f l1 l2 = true -> forall2b g l1 l2 = true.
  Proof.
    induction l1 as [|x l1 IH]; intros [|y l2] F H; cbn [forall2b] in *; try discriminate; auto.
    apply andb_true_iff in H. destruct H as [Hxy H]. inversion F as [|? ? Hx Fl]; subst.
    apply andb_true_iff. split; [apply Hx; exact Hxy | apply IH; assumption].
  Qed.

  Lemma forall2b_mono' {A} (f g : A -> A -> bool) (l1 l2 : list A) :
    (forall x y, f x y = true -> g x y = true) ->
    forall2b f l1 l2 = true -> forall2b g l1 l2 = true.
  Proof.
    intro H. apply forall2b_mono. apply Forall_forall. intros x _. apply H.
  Qed.

  Lemma sl_eqb_mono {A} (f g : A -> A -> bool) (l1 : list (key * A)) : forall l2,
    Forall (fun kx => forall y, f (snd kx) y = true -> g (snd kx) y = true) l1 ->
    sl_eqb f l1 l2 = true -> sl_eqb g l1 l2 = true.
  Proof.
    induction l1 as [|[k1 x] l1 IH]; intros [|[k2 y] l2] F H; cbn [sl_eqb] in *; try discriminate; auto.
    apply andb_true_iff in H. destruct H as [H Hl]. apply andb_true_iff in H. destruct H as [Hk Hxy].
    inversion F as [|? ? Hx Fl]; subst. rewrite Hk. cbn [andb].
    apply andb_true_iff. split; [apply Hx; exact Hxy | apply IH; assumption].
  Qed.

  Variables ne ne' : T N -> T N -> bool.
  Hypothesis widen : forall x y, ne x y = true -> ne' x y = true.

  Ltac split_and H :=
    repeat match type of H with
           | (_ && _) = true => let H1 := fresh "H" in apply andb_true_iff in H; destruct H as [H H1]
           end.

  Lemma leaf_eqb_mono k1 q1 s1 k2 q2 s2 :
    leaf_eqb ne k1 q1 s1 k2 q2 s2 = true -> leaf_eqb ne' k1 q1 s1 k2 q2 s2 = true.
  Proof.
    destruct k1, k2; cbn [leaf_eqb]; try discriminate; intro H.
    - apply andb_true_iff in H. destruct H as [H1 H2]. rewrite (widen _ _ H1), H2. reflexivity.
    - apply andb_true_iff in H. destruct H as [H H2]. apply andb_true_iff in H. destruct H as [H0 H1].
      rewrite H0, (widen _ _ H1), (widen _ _ H2). reflexivity.
    - apply andb_true_iff in H. destruct H as [H H2]. apply andb_true_iff in H. destruct H as [H0 H1].
      rewrite H0, (widen _ _ H1), (widen _ _ H2). reflexivity.
    - apply andb_true_iff in H. destruct H as [H H3]. apply andb_true_iff in H. destruct H as [H H2].
      apply andb_true_iff in H. destruct H as [H0 H1].
      rewrite H0, (widen _ _ H1), (widen _ _ H2), (widen _ _ H3). reflexivity.
    - apply andb_true_iff in H. destruct H as [H H2]. apply andb_true_iff in H. destruct H as [H0 H1].
      rewrite H0, (widen _ _ H1), (widen _ _ H2). reflexivity.
    - apply andb_true_iff in H. destruct H as [H H2]. apply andb_true_iff in H. destruct H as [H0 H1].
      rewrite H0, (widen _ _ H1), (widen _ _ H2). reflexivity.
    - apply andb_true_iff in H. destruct H as [H H4]. apply andb_true_iff in H. destruct H as [H H3].
      apply andb_true_iff in H. destruct H as [H H2]. apply andb_true_iff in H. destruct H as [H0 H1].
      rewrite H0, H1, H3, (widen _ _ H4). cbn [andb]. rewrite !andb_true_r.
      revert H2. apply forall2b_mono'. intros [ka wa] [kb wb]. unfold bagpair_eqb. cbn [fst snd].
      intro Hp. apply andb_true_iff in Hp. destruct Hp as [Hk Hw]. rewrite (widen _ _ Hw), andb_true_r.
      destruct ka, kb; try discriminate; auto.
      revert Hk. apply forall2b_mono'. intros [c|] [d|]; auto.
  Qed.

  Lemma kind_eqb_mono k1 k2 : kind_eqb ne k1 k2 = true -> kind_eqb ne' k1 k2 = true.
  Proof.
    destruct k1, k2; cbn [kind_eqb]; try discriminate; auto; intro H.
    - apply andb_true_iff in H. destruct H as [H1 H2]. rewrite (widen _ _ H1), (widen _ _ H2). reflexivity.
    - apply andb_true_iff in H. destruct H as [H1 H2]. rewrite (widen _ _ H1), (widen _ _ H2). reflexivity.
    - apply andb_true_iff in H. destruct H as [H1 H2]. rewrite H1. cbn [andb].
      revert H2. apply forall2b_mono'. exact widen.
    - apply andb_true_iff in H. destruct H as [H1 H2]. rewrite H1. cbn [andb].
      revert H2. apply forall2b_mono'. exact widen.
  Qed.

  (* widening the numeric comparison can only turn "unequal" into "equal" *)
  Theorem eqb_mono (a : agg) : forall b, eqb ne a b = true -> eqb ne' a b = true.
  Proof.
    induction a as [k q s | k q e fx sp tm ct IHfx IHsp IHtm] using agg_ind'; intros b H.
    - destruct b as [k2 q2 s2|]; [|discriminate]. cbn [eqb] in *. apply leaf_eqb_mono. exact H.
    - destruct b as [|k2 q2 e2 fx2 sp2 tm2 ct2]; [discriminate|]. cbn [eqb] in *.
      apply andb_true_iff in H. destruct H as [H Hsp].
      apply andb_true_iff in H. destruct H as [H Hfx].
      apply andb_true_iff in H. destruct H as [H Htm].
      apply andb_true_iff in H. destruct H as [H He].
      apply andb_true_iff in H. destruct H as [Hk Hq].
      rewrite (kind_eqb_mono _ _ Hk), Hq, (widen _ _ He). cbn [andb].
      apply andb_true_iff. split; [apply andb_true_iff; split|].
      + destruct (sparse_kind k); [|reflexivity].
        apply andb_true_iff in Htm. destruct Htm as [Hct Htm]. rewrite Hct. cbn [andb].
        destruct tm as [t|], tm2 as [t2|]; try discriminate; [|reflexivity].
        apply (IHtm t eq_refl). exact Htm.
      + revert Hfx. apply forall2b_mono. exact IHfx.
      + revert Hsp. apply sl_eqb_mono. exact IHsp.
  Qed.
End Mono.

(* ------------------------------------------------------------------ the exact instance *)
Notation xagg := (agg Xq).
Notation xnumeq := (@numeq Xq).
Local Open Scope Qc_scope.

(* at zero tolerance numeq is equality of the two numbers, NaN equal to NaN *)
Lemma numeq_iff (x y : xq) : xnumeq x y = true <-> x = y.
Proof.
  unfold numeq, numeq_t. cbn.
  destruct x as [a| | |], y as [b| | |]; cbn; split; intro H; try discriminate; try reflexivity.
  - destruct (a ?= b) eqn:E; try discriminate. apply Qc_cmp_eq in E. subst. reflexivity.
  - injection H as ->. rewrite Qc_cmp_refl. reflexivity.
Qed.

Lemma numeq_refl (x : xq) : xnumeq x x = true.
Proof. apply numeq_iff. reflexivity. Qed.

Lemma pymax_same (z : xq) : @pymax Xq z z = z.
Proof. unfold pymax. destruct (@nltb Xq z z); reflexivity. Qed.

Lemma xabs_fin (a : Qc) : exists a', xabs (XF a) = XF a' /\ 0 <= a'.
Proof.
  unfold xabs, qsgn. qc_cmp_cases a 0%Qc.
  - exists a. split; [reflexivity|]. subst. apply Qcle_refl.
  - exists (- a). split; [reflexivity|]. qc2q. simpl in *. lra.
  - exists a. split; [reflexivity|]. apply Qclt_le_weak. assumption.
Qed.

Lemma xleb_0 (m : Qc) : 0 <= m -> xleb (XF 0) (XF m) = true.
Proof.
  intro H. unfold xleb, xltb, xeqb. qc_cmp_cases 0%Qc m; try reflexivity.
  exfalso. apply (Qclt_not_le _ _ Hc). exact H.
Qed.

Lemma xltb_0_pos (p : Qc) : xltb (XF 0) (XF p) = true -> 0 < p.
Proof. unfold xltb. qc_cmp_cases 0%Qc p; try discriminate. auto. Qed.

(* finite positive (or zero, or negative: then ignored) tolerances only widen numeq *)
Lemma numeq_widen (r t : Qc) (x y : xq) :
  xnumeq x y = true -> @numeq_t Xq (XF r) (XF t) x y = true.
Proof.
  intro H. apply numeq_iff in H. subst y. unfold numeq_t.
  destruct x as [a| | |]; try reflexivity.
  change (@nisnan Xq (XF a)) with false. change (@nisinf Xq (XF a)) with false. cbn [andb].
  assert (Hs : @nsub Xq (XF a) (XF a) = XF 0).
  { cbn. f_equal. apply Qcplus_opp_r. }
  rewrite Hs. change (@nabs Xq (XF 0)) with (XF 0).
  rewrite pymax_same.
  destruct (xabs_fin a) as (a' & Ea & Ha').
  change (@nabs Xq (XF a)) with (xabs (XF a)). rewrite Ea.
  change (@nmul Xq (XF r) (XF a')) with (XF (r * a')).
  change (@nzero Xq) with (XF 0).
  destruct (@nltb Xq (XF 0) (XF r)) eqn:Hr; destruct (@nltb Xq (XF 0) (XF t)) eqn:Ht; cbn [andb].
  - apply xltb_0_pos in Hr. apply xltb_0_pos in Ht.
    unfold pymax. cbn [nltb Xq]. destruct (xltb (XF (r * a')) (XF t)).
    + apply xleb_0. apply Qclt_le_weak. exact Ht.
    + apply xleb_0. qc2q. simpl in *. nra.
  - apply xltb_0_pos in Hr. apply xleb_0. qc2q. simpl in *. nra.
  - apply xltb_0_pos in Ht. apply xleb_0. apply Qclt_le_weak. exact Ht.
  - cbn. rewrite Qc_cmp_refl. reflexivity.
Qed.

(* ---- the content of an aggregator: everything == is meant to see, nothing else ---- *)
Definition erase_q (q : quantity Xq) : quantity Xq :=
  {| qname := qname q; qid := qid q; qfn := fun _ => QRaise |}.

Definition content_leaf (k : leafkind) (q : quantity Xq) (s : leafstate Xq) : xagg :=
  let z := @nzero Xq in
  match k with
  | LCount _ => Leaf k (erase_q (no_quantity (N:=Xq))) {| le := le s; l1 := z; l2 := z; lv := [] |}
  | LDeviate => Leaf k (erase_q q) {| le := le s; l1 := l1 s; l2 := variance s; lv := [] |}
  | LBag _ => Leaf k (erase_q q) {| le := le s; l1 := z; l2 := z; lv := lv s |}
  | _ => Leaf k (erase_q q) {| le := le s; l1 := l1 s; l2 := z; lv := [] |}
  end.

(* quantities are kept as (name, code); functions, the unused fields of the leaf states, the
   templates and declared bin types of non-sparse nodes are dropped; Deviate is seen through its
   variance *)
Fixpoint content (a : xagg) : xagg :=
  match a with
  | Leaf k q s => content_leaf k q s
  | Node k q e fx sp tm ct =>
      Node k (erase_q (if has_quantity k then q else no_quantity (N:=Xq))) e
           (map content fx)
           (map (fun kc => (fst kc, content (snd kc))) sp)
           (if sparse_kind k then option_map content tm else None)
           (if sparse_kind k then ct else EmptyString)
  end.

Lemma optstr_eqb_refl (o : option string) : optstr_eqb o o = true.
Proof. destruct o; cbn; [apply String.eqb_refl | reflexivity]. Qed.

Lemma q_eqb_iff (q1 q2 : quantity Xq) : q_eqb q1 q2 = true <-> erase_q q1 = erase_q q2.
Proof.
  unfold q_eqb, erase_q. split.
  - intro H. apply andb_true_iff in H. destruct H as [Hn Hi]. apply Z.eqb_eq in Hi.
    assert (qname q1 = qname q2).
    { destruct (qname q1), (qname q2); cbn in Hn; try discriminate; auto.
      apply String.eqb_eq in Hn. congruence. }
    congruence.
  - intro H. injection H as Hn Hi. rewrite Hn, Hi, Z.eqb_refl.
    destruct (qname q2); cbn; [rewrite String.eqb_refl|]; reflexivity.
Qed.

Lemma forall2b_eq {A} (f : A -> A -> bool) (l1 : list A) : forall l2,
  Forall (fun x => forall y, f x y = true -> x = y) l1 -> forall2b f l1 l2 = true -> l1 = l2.
Proof.
  induction l1 as [|x l1 IH]; intros [|y l2] F H; cbn [forall2b] in *; try discriminate; auto.
  apply andb_true_iff in H. destruct H as [Hxy H]. inversion F as [|? ? Hx Fl]; subst.
  f_equal; [apply Hx; exact Hxy | apply IH; assumption].
Qed.

Lemma forall2b_refl {A} (f : A -> A -> bool) (l : list A) :
  Forall (fun x => f x x = true) l -> forall2b f l l = true.
Proof.
  induction 1 as [|x l Hx _ IH]; cbn [forall2b]; [reflexivity|]. rewrite Hx, IH. reflexivity.
Qed.

Lemma numeq_list_iff (l1 l2 : list xq) : forall2b xnumeq l1 l2 = true <-> l1 = l2.
Proof.
  split.
  - apply forall2b_eq. apply Forall_forall. intros x _ y. apply numeq_iff.
  - intros <-. apply forall2b_refl. apply Forall_forall. intros x _. apply numeq_refl.
Qed.

Lemma strs_eqb_iff (l1 l2 : list string) : strs_eqb l1 l2 = true <-> l1 = l2.
Proof.
  unfold strs_eqb. split.
  - apply forall2b_eq. apply Forall_forall. intros x _ y. apply String.eqb_eq.
  - intros <-. apply forall2b_refl. apply Forall_forall. intros x _. apply String.eqb_refl.
Qed.

Definition no_nan (l : list xq) : Prop := Forall (fun x => xisnan x = false) l.

(* CentrallyBin compares its centers with the plain ==: a NaN center would differ from itself *)
Definition centers_ok (k : nodekind Xq) : Prop :=
  match k with KCentral cs => no_nan cs | _ => True end.

Lemma kind_eqb_eq (k1 k2 : nodekind Xq) : kind_eqb xnumeq k1 k2 = true -> k1 = k2.
Proof.
  destruct k1, k2; cbn [kind_eqb]; try discriminate; auto; intro H.
  - apply andb_true_iff in H. destruct H as [H1 H2]. apply numeq_iff in H1, H2. congruence.
  - apply andb_true_iff in H. destruct H as [H1 H2]. apply numeq_iff in H1, H2. congruence.
  - f_equal. revert H. apply forall2b_eq. apply Forall_forall. intros x _ y Hxy.
    apply xeqb_eq in Hxy. tauto.
  - apply andb_true_iff in H. destruct H as [_ H]. apply numeq_list_iff in H. congruence.
  - apply andb_true_iff in H. destruct H as [_ H]. apply numeq_list_iff in H. congruence.
  - apply strs_eqb_iff in H. congruence.
  - apply strs_eqb_iff in H. congruence.
Qed.

Lemma kind_eqb_refl (k : nodekind Xq) : centers_ok k -> kind_eqb xnumeq k k = true.
Proof.
  destruct k; cbn [kind_eqb centers_ok]; intro H; auto.
  - rewrite !numeq_refl. reflexivity.
  - rewrite !numeq_refl. reflexivity.
  - apply forall2b_refl. revert H. apply Forall_impl. intros x Hx. apply xeqb_refl. exact Hx.
  - rewrite Nat.eqb_refl. apply numeq_list_iff. reflexivity.
  - rewrite Nat.eqb_refl. apply numeq_list_iff. reflexivity.
  - apply strs_eqb_iff. reflexivity.
  - apply strs_eqb_iff. reflexivity.
Qed.

Definition comp_eqb (c d : option xq) : bool :=
  match c, d with Some p, Some q => xnumeq p q | None, None => true | _, _ => false end.

Lemma comp_list_iff (l1 l2 : list (option xq)) : forall2b comp_eqb l1 l2 = true <-> l1 = l2.
Proof.
  split.
  - apply forall2b_eq. apply Forall_forall. intros [p|] _ [q|]; cbn; try discriminate; auto.
    intro H. apply numeq_iff in H. congruence.
  - intros <-. apply forall2b_refl. apply Forall_forall. intros [p|] _; cbn; auto. apply numeq_refl.
Qed.

Lemma bagpair_eqb_iff (a b : bagkey Xq * xq) : bagpair_eqb xnumeq a b = true <-> a = b.
Proof.
  destruct a as [ka wa], b as [kb wb]. unfold bagpair_eqb. cbn [fst snd]. split.
  - intro H. apply andb_true_iff in H. destruct H as [Hk Hw]. apply numeq_iff in Hw. subst wb.
    destruct ka, kb; try discriminate; auto.
    + apply numeq_iff in Hk. congruence.
    + apply String.eqb_eq in Hk. congruence.
    + apply (proj1 (comp_list_iff _ _)) in Hk. congruence.
  - intro H. injection H as -> ->. rewrite numeq_refl, andb_true_r.
    destruct kb; auto.
    + apply numeq_refl.
    + apply String.eqb_refl.
    + apply (proj2 (comp_list_iff l l)). reflexivity.
Qed.

Lemma baglist_iff (l1 l2 : list (bagkey Xq * xq)) :
  forall2b (bagpair_eqb xnumeq) l1 l2 = true <-> l1 = l2.
Proof.
  split.
  - apply forall2b_eq. apply Forall_forall. intros x _ y. apply bagpair_eqb_iff.
  - intros <-. apply forall2b_refl. apply Forall_forall. intros x _. apply bagpair_eqb_iff. reflexivity.
Qed.

Lemma trans_eqb_iff a b : trans_eqb a b = true <-> a = b.
Proof. destruct a, b; cbn; split; congruence. Qed.
Lemma range_eqb_iff a b : range_eqb a b = true <-> a = b.
Proof.
  destruct a, b; cbn; split; try congruence.
  - intro H. apply Nat.eqb_eq in H. congruence.
  - intro H. injection H as ->. apply Nat.eqb_refl.
Qed.

Lemma leaf_eqb_iff k1 q1 s1 k2 q2 s2 :
  leaf_eqb xnumeq k1 q1 s1 k2 q2 s2 = true <-> content_leaf k1 q1 s1 = content_leaf k2 q2 s2.
Proof.
  destruct s1 as [e1 a1 b1 v1], s2 as [e2 a2 b2 v2].
  destruct k1, k2; cbn [leaf_eqb content_leaf le l1 l2 lv]; split; intro H; try discriminate;
    repeat match type of H with
           | (_ && _) = true => let H1 := fresh "H" in apply andb_true_iff in H; destruct H as [H H1]
           end;
    repeat match goal with
           | H : xnumeq _ _ = true |- _ => apply numeq_iff in H
           | H : q_eqb _ _ = true |- _ => apply q_eqb_iff in H
           | H : trans_eqb _ _ = true |- _ => apply trans_eqb_iff in H
           | H : range_eqb _ _ = true |- _ => apply range_eqb_iff in H
           | H : forall2b (bagpair_eqb _) _ _ = true |- _ => apply baglist_iff in H
           end;
    try (subst; congruence);
    try (injection H; intros; subst;
         repeat match goal with
                | H : erase_q _ = erase_q _ |- _ => apply q_eqb_iff in H; rewrite H
                end;
         rewrite ?numeq_refl, ?Nat.eqb_refl; cbn [andb];
         repeat (apply andb_true_iff; split);
         try apply numeq_iff; try apply trans_eqb_iff; try apply range_eqb_iff;
         try apply baglist_iff; try reflexivity; try congruence;
         try (apply Z.eqb_eq; assumption);
         try (match goal with H : qname _ = qname _ |- optstr_eqb _ _ = true =>
                rewrite H; apply optstr_eqb_refl end)).
Qed.

Lemma key_eqb_iff a b : key_eqb a b = true <-> a = b.
Proof.
  unfold key_eqb. rewrite <- key_cmp_eq. destruct (key_cmp a b); split; congruence.
Qed.

Fixpoint all_centers_ok (a : xagg) : Prop :=
  match a with
  | Leaf _ _ _ => True
  | Node k _ _ fx sp tm _ =>
      centers_ok k /\ allP all_centers_ok fx /\ allP (fun kc => all_centers_ok (snd kc)) sp /\
      match tm with Some t => all_centers_ok t | None => True end
  end.

Ltac split_and H :=
  repeat match type of H with
         | (_ && _) = true => let H1 := fresh "H" in apply andb_true_iff in H; destruct H as [H H1]
         end.

(* a == b implies: same primitive, same parameters, same names, same numbers (NaN = NaN), same
   number of children and the same content in every child, the same bin keys and the same
   content in every bin, at every depth *)
Theorem eqb_sound (a : xagg) : forall b, eqb xnumeq a b = true -> content a = content b.
Proof.
  induction a as [k q s | k q e fx sp tm ct IHfx IHsp IHtm] using agg_ind'; intros b H.
  - destruct b as [k2 q2 s2|]; [|discriminate]. cbn [eqb content] in *. apply leaf_eqb_iff. exact H.
  - destruct b as [|k2 q2 e2 fx2 sp2 tm2 ct2]; [discriminate|]. cbn [eqb content] in *.
    apply andb_true_iff in H. destruct H as [H Hsp].
    apply andb_true_iff in H. destruct H as [H Hfx].
    apply andb_true_iff in H. destruct H as [H Htm].
    apply andb_true_iff in H. destruct H as [H He].
    apply andb_true_iff in H. destruct H as [Hk Hq].
    apply kind_eqb_eq in Hk. subst k2. apply numeq_iff in He. subst e2.
    f_equal.
    + destruct (has_quantity k); [apply q_eqb_iff; exact Hq | reflexivity].
    + clear -IHfx Hfx. revert fx2 Hfx. induction fx as [|x fx IH]; intros [|y fx2] H;
        cbn [forall2b] in H; try discriminate; [reflexivity|].
      apply andb_true_iff in H. destruct H as [Hxy H]. inversion IHfx as [|? ? Hx Fl]; subst.
      cbn [map]. f_equal; [apply Hx; exact Hxy | apply IH; assumption].
    + clear -IHsp Hsp. revert sp2 Hsp. induction sp as [|[k1 x] sp IH]; intros [|[k2 y] sp2] H;
        cbn [sl_eqb] in H; try discriminate; [reflexivity|].
      split_and H. inversion IHsp as [|? ? Hx Fl]; subst. apply key_eqb_iff in H. subst k2.
      cbn [map fst snd]. f_equal; [f_equal; apply Hx; assumption | apply IH; assumption].
    + destruct (sparse_kind k); [|reflexivity]. split_and Htm.
      destruct tm as [t|], tm2 as [t2|]; try discriminate; [|reflexivity].
      cbn [option_map]. f_equal. apply (IHtm t eq_refl). assumption.
    + destruct (sparse_kind k); [|reflexivity]. split_and Htm. apply String.eqb_eq. assumption.
Qed.

Lemma Node_inj {N : num_ops} k q e fx sp tm ct k' q' e' fx' sp' tm' ct' :
  @Node N k q e fx sp tm ct = Node k' q' e' fx' sp' tm' ct' ->
  k = k' /\ q = q' /\ e = e' /\ fx = fx' /\ sp = sp' /\ tm = tm' /\ ct = ct'.
Proof. intro H. injection H. intros. repeat split; assumption. Qed.

(* conversely: equal content compares equal *)
Theorem eqb_complete (a : xagg) : forall b,
  all_centers_ok a -> content a = content b -> eqb xnumeq a b = true.
Proof.
  induction a as [k q s | k q e fx sp tm ct IHfx IHsp IHtm] using agg_ind'; intros b Hc H.
  - destruct b as [k2 q2 s2|].
    + cbn [eqb content] in *. apply leaf_eqb_iff. exact H.
    + exfalso. cbn [content] in H. destruct k; discriminate.
  - destruct b as [k2 q2 s2|k2 q2 e2 fx2 sp2 tm2 ct2].
    { exfalso. cbn [content] in H. destruct k2; discriminate. }
    cbn [content] in H. apply Node_inj in H. destruct H as (Hk & Hq & He & Hfx & Hsp & Htm & Hct).
    subst k2 e2.
    cbn [all_centers_ok] in Hc. destruct Hc as (Ck & Cfx & Csp & Ctm).
    cbn [eqb]. rewrite (kind_eqb_refl k Ck), numeq_refl. cbn [andb]. rewrite andb_true_r.
    repeat (apply andb_true_iff; split).
    + destruct (has_quantity k); [apply q_eqb_iff; exact Hq | reflexivity].
    + destruct (sparse_kind k); [|reflexivity]. subst ct2. rewrite String.eqb_refl. cbn [andb].
      destruct tm as [t|], tm2 as [t2|]; try discriminate; [|reflexivity].
      cbn [option_map] in Htm. injection Htm as Htm. apply (IHtm t eq_refl); assumption.
    + clear -IHfx Hfx Cfx. revert fx2 Hfx. induction fx as [|x fx IH]; intros [|y fx2] H;
        cbn [map] in H; try discriminate; [reflexivity|].
      injection H as Hxy H. inversion IHfx as [|? ? Hx Fl]; subst. cbn [allP] in Cfx.
      destruct Cfx as [Cx Cfx]. cbn [forall2b]. rewrite (Hx y Cx Hxy). cbn [andb]. apply IH; assumption.
    + clear -IHsp Hsp Csp. revert sp2 Hsp. induction sp as [|[k1 x] sp IH]; intros [|[k2 y] sp2] H;
        cbn [map] in H; try discriminate; [reflexivity|].
      cbn [fst snd] in H. injection H as Hk Hxy H. inversion IHsp as [|? ? Hx Fl]; subst.
      cbn [allP snd] in Csp. destruct Csp as [Cx Csp]. cbn [sl_eqb].
      rewrite (proj2 (key_eqb_iff k2 k2) eq_refl). cbn [snd] in Hx. rewrite (Hx y Cx Hxy). cbn [andb].
      apply IH; assumption.
Qed.

Theorem eqb_iff (a b : xagg) : all_centers_ok a ->
  (eqb xnumeq a b = true <-> content a = content b).
Proof. intro H. split; [apply eqb_sound | apply eqb_complete; exact H]. Qed.

Corollary eqb_refl (a : xagg) : all_centers_ok a -> eqb xnumeq a a = true.
Proof. intro H. apply eqb_complete; [exact H | reflexivity]. Qed.

Corollary eqb_sym (a b : xagg) : all_centers_ok a -> all_centers_ok b ->
  eqb xnumeq a b = eqb xnumeq b a.
Proof.
  intros Ha Hb. destruct (eqb xnumeq a b) eqn:E1, (eqb xnumeq b a) eqn:E2; try reflexivity.
  - apply eqb_sound in E1. symmetry in E1. apply (eqb_complete b a Hb) in E1. congruence.
  - apply eqb_sound in E2. symmetry in E2. apply (eqb_complete a b Ha) in E2. congruence.
Qed.

Corollary eqb_trans (a b c : xagg) : all_centers_ok a ->
  eqb xnumeq a b = true -> eqb xnumeq b c = true -> eqb xnumeq a c = true.
Proof.
  intros Ha H1 H2. apply eqb_sound in H1, H2. apply eqb_complete; [exact Ha | congruence].
Qed.

(* positive finite tolerances only widen == *)
Theorem eqb_tolerance_widens (r t : Qc) (a b : xagg) :
  eqb xnumeq a b = true -> eqb (@numeq_t Xq (XF r) (XF t)) a b = true.
Proof. apply eqb_mono. intros x y. apply numeq_widen. Qed.

(* any difference in content makes the two unequal *)
Corollary eqb_detects (a b : xagg) : content a <> content b -> eqb xnumeq a b = false.
Proof.
  intro H. destruct (eqb xnumeq a b) eqn:E; [|reflexivity]. apply eqb_sound in E. contradiction.
Qed.
