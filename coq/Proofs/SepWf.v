(* C06 glue: the well-formed states of the exact model have pairwise distinct sparse keys. *)
From Coq Require Import List Bool Sorted.
From Hgm Require Import NumOps Xq Agg Ops SL KeyFacts AggInd LeafAlg Algebra Forest ForestSep.
Import ListNotations.

Lemma ksorted_nodup (sp : list (key * agg Xq)) : sorted (V:=agg Xq) key_cmp sp -> NoDup (map fst sp).
Proof.
  induction sp as [|[k v] sp IH]; intro S; cbn [map fst]; [constructor|].
  apply sorted_inv in S. destruct S as [S F]. constructor; [|apply IH; exact S].
  intro Hin. apply in_map_iff in Hin. destruct Hin as ([k' v'] & Hk & Hin). cbn [fst] in Hk. subst k'.
  rewrite Forall_forall in F. specialize (F _ Hin). cbn [fst] in F.
  assert (E : key_cmp k k = Eq) by (apply key_cmp_eq; reflexivity). congruence.
Qed.

Theorem wf_keys_distinct (a : agg Xq) : wf a -> keys_distinct a.
Proof.
  induction a as [k q s | k q e fx sp tm ct IHfx IHsp _] using agg_ind'; intro W; [exact I|].
  cbn [wf] in W. destruct W as (Wfx & Wsp & S & _). cbn [keys_distinct]. repeat split.
  - apply ksorted_nodup. exact S.
  - apply allP_Forall in Wfx. apply allP_Forall. rewrite Forall_forall in *. intros c Hc. apply IHfx; auto.
  - apply allP_Forall in Wsp. apply allP_Forall. rewrite Forall_forall in *. intros c Hc. apply IHsp; auto.
Qed.
