(* C05: bookkeeping invariants (exact instance). *)
From Coq Require Import ZArith List String Bool QArith Qcanon Lia Lqa Psatz Sorted.
From Hgm Require Import NumOps Xq Agg Ops XqFacts SL KeyFacts AggInd LeafAlg Algebra MulAlg Rollback Stream StackLists.
Import ListNotations.
Local Open Scope Qc_scope.

Definition esum (l : list xq) : xq := fold_right xadd (XF 0) l.
Definition kid_entries (fx : list xagg) (sp : list (key * xagg)) : list xq :=
  map (@entries_of Xq) fx ++ map (fun kc => @entries_of Xq (snd kc)) sp.

Lemma xadd_swap a b c : xadd a (xadd b c) = xadd b (xadd a c).
Proof. rewrite <- !xadd_assoc. f_equal. apply xadd_comm. Qed.

Lemma esum_app l1 l2 : esum (l1 ++ l2) = xadd (esum l1) (esum l2).
Proof.
  induction l1 as [|x l1 IH]; cbn [app esum fold_right].
  - rewrite xadd_0_l. reflexivity.
  - fold (esum (l1 ++ l2)). fold (esum l1). rewrite IH. rewrite xadd_assoc. reflexivity.
Qed.

Lemma nonneg_add x y : nonneg x -> nonneg y -> nonneg (xadd x y).
Proof.
  intros (a & -> & Ha) (b & -> & Hb). exists (a + b). split; [reflexivity|]. qc2q. lra.
Qed.

Lemma nonneg_okw w : okw w -> nonneg w.
Proof. intros (q & -> & H). exists q. split; auto. apply Qclt_le_weak. exact H. Qed.

Lemma nonneg_0 : nonneg (XF 0).
Proof. exists 0. split; auto. apply Qcle_refl. Qed.

(* the stack clause: for thresholds -inf = t0 <= t1 <= ... the levels (all fixed children but the
   last) are non-increasing, and the first level plus the nanflow (last child) is the node's entries *)
Definition stack_ok (ts : list xq) : Prop :=
  match ts with XNInf :: _ => ascending ts | _ => False end.

Definition stack_clause (ts : list xq) (es : list xq) (e : xq) : Prop :=
  stack_ok ts -> List.length es = S (List.length ts) ->
  nonincreasing (removelast es) /\ xadd (hd (XF 0) es) (last es (XF 0)) = e.

Fixpoint inv (a : xagg) : Prop :=
  match a with
  | Leaf k q s =>
      nonneg (le s) /\
      match k with LBag _ => esum (map snd (lv s)) = le s | _ => True end
  | Node k q e fx sp tm ct =>
      nonneg e /\ allP inv fx /\ allP (fun kc => inv (snd kc)) sp /\
      match k with
      | KBin _ _ | KSparse _ _ | KCentral _ | KIrr _ | KCat => esum (kid_entries fx sp) = e
      | KLabel _ | KULabel _ | KIndex | KBranch => allP (fun c => entries_of c = e) fx
      | KFraction => match fx with den :: _ => entries_of den = e | [] => True end
      | KStack ts => stack_clause ts (map (@entries_of Xq) fx) e
      | KSelect => True
      end
  end.

(* ---- zero ---- *)
Lemma entries_zero (a : xagg) : entries_of (zero a) = XF 0.
Proof. destruct a as [k q s|]; simpl; auto. destruct k; reflexivity. Qed.

Lemma esum_zeros (l : list xagg) : esum (map (@entries_of Xq) (map zero l)) = XF 0.
Proof.
  induction l as [|c l IH]; cbn [map esum fold_right]; auto.
  fold (esum (map (@entries_of Xq) (map zero l))). rewrite entries_zero, IH. reflexivity.
Qed.

Lemma nonincreasing_zeros (l : list xagg) : nonincreasing (map (@entries_of Xq) (map zero l)).
Proof.
  induction l as [|c l IH]; simpl; auto. destruct l as [|c' l]; simpl in *; auto.
  split; auto. rewrite !entries_zero. reflexivity.
Qed.

Lemma removelast_map {A B} (f : A -> B) l : removelast (map f l) = map f (removelast l).
Proof.
  induction l as [|x l IH]; simpl; auto. destruct l; simpl in *; auto. f_equal. exact IH.
Qed.

Lemma hd_map_zero d (l : list xagg) : l <> [] -> entries_of (hd d (map zero l)) = XF 0.
Proof. destruct l; simpl; [congruence|]. intros _. apply entries_zero. Qed.

Lemma last_map_zero d (l : list xagg) : l <> [] -> entries_of (last (map zero l) d) = XF 0.
Proof.
  induction l as [|x l IH]; [congruence|]. intros _. destruct l as [|y l]; simpl in *.
  - apply entries_zero.
  - apply IH. discriminate.
Qed.

Lemma all_zero_hd_last (l : list xq) :
  Forall (fun x => x = XF 0) l -> hd (XF 0) l = XF 0 /\ last l (XF 0) = XF 0.
Proof.
  induction 1 as [|x l Hx _ IH]; [split; reflexivity|]. subst x. split; [reflexivity|].
  destruct l; [reflexivity|]. cbn [last]. apply IH.
Qed.

Theorem inv_zero (a : xagg) : inv (zero a).
Proof.
  induction a as [k q s | k q e fx sp tm ct IHfx _ _] using agg_ind'; cbn [zero inv].
  - split; [destruct k; apply nonneg_0 | destruct k; auto].
  - split; [apply nonneg_0|]. split.
    { apply allP_Forall. rewrite Forall_forall in *.
      intros c Hc. apply in_map_iff in Hc. destruct Hc as (c0 & <- & Hc0). apply IHfx; auto. }
    split; [exact I|].
    assert (P : esum (kid_entries (map zero fx) []) = XF 0).
    { unfold kid_entries. cbn [map]. rewrite app_nil_r. apply esum_zeros. }
    assert (C : allP (fun c : xagg => entries_of c = XF 0) (map zero fx)).
    { apply allP_Forall. apply Forall_forall. intros c Hc. apply in_map_iff in Hc.
      destruct Hc as (c0 & <- & _). apply entries_zero. }
    destruct k; try exact P; try exact C; try exact I.
    + (* Stack *)
      intros _ _. split.
      * rewrite removelast_map, removelast_map. apply nonincreasing_zeros.
      * assert (Z : Forall (fun x => x = XF 0) (map (@entries_of Xq) (map zero fx))).
        { apply Forall_forall. intros x Hx. apply in_map_iff in Hx. destruct Hx as (c & <- & Hc).
          apply in_map_iff in Hc. destruct Hc as (c0 & <- & _). apply entries_zero. }
        destruct (all_zero_hd_last _ Z) as [-> ->]. reflexivity.
    + destruct fx; cbn [map]; auto. apply entries_zero.
Qed.

(* ================= + and * preserve the invariant ================= *)
Lemma entries_add (a b : xagg) : same a b -> entries_of (add_t a b) = xadd (entries_of a) (entries_of b).
Proof.
  intro S. destruct a as [k q s | k q e fx sp tm ct].
  - apply same_leaf_inv in S. destruct S as [s' ->]. simpl. destruct k; reflexivity.
  - apply same_node_inv' in S. destruct S as (e' & fx' & sp' & -> & _). reflexivity.
Qed.

Lemma esum_map2_add (l1 l2 : list xagg) : Forall2 same l1 l2 ->
  esum (map (@entries_of Xq) (map2 (@add_t Xq) l1 l2)) =
  xadd (esum (map (@entries_of Xq) l1)) (esum (map (@entries_of Xq) l2)).
Proof.
  induction 1 as [|x y l1 l2 Sxy F IH]; cbn [map2 map esum fold_right].
  - rewrite xadd_0_l. reflexivity.
  - fold (esum (map (@entries_of Xq) (map2 (@add_t Xq) l1 l2))).
    fold (esum (map (@entries_of Xq) l1)). fold (esum (map (@entries_of Xq) l2)).
    rewrite IH, (entries_add x y Sxy).
    rewrite !xadd_assoc. f_equal. rewrite <- !xadd_assoc. f_equal. apply xadd_comm.
Qed.

Lemma esum_kmerge (sp1 sp2 : list (key * xagg)) :
  (forall k x y, In (k, x) sp1 -> In (k, y) sp2 -> same x y) ->
  esum (map (fun kc => @entries_of Xq (snd kc)) (kmerge sp1 sp2)) =
  xadd (esum (map (fun kc => @entries_of Xq (snd kc)) sp1))
       (esum (map (fun kc => @entries_of Xq (snd kc)) sp2)).
Proof.
  revert sp2. induction sp1 as [|[k1 x] sp1 IH1]; intros sp2 H.
  - rewrite kmerge_nil_l. cbn [map esum fold_right]. rewrite xadd_0_l. reflexivity.
  - induction sp2 as [|[k2 y] sp2 IH2].
    + rewrite kmerge_nil_r. cbn [map esum fold_right]. rewrite xadd_0_r. reflexivity.
    + cbn [sl_merge]. destruct (key_cmp k1 k2) eqn:C; cbn [map esum fold_right snd].
      * apply key_cmp_eq in C. subst k2.
        change (fold_right xadd (XF 0) (map (fun kc => @entries_of Xq (snd kc)) (kmerge sp1 sp2)))
          with (esum (map (fun kc => @entries_of Xq (snd kc)) (kmerge sp1 sp2))).
        rewrite IH1.
        2:{ intros k0 a b Ha Hb. apply (H k0); right; assumption. }
        rewrite (entries_add x y).
        2:{ apply (H k1); left; reflexivity. }
        unfold esum. rewrite !xadd_assoc. f_equal. rewrite <- !xadd_assoc. f_equal. apply xadd_comm.
      * change (fold_right xadd (XF 0)
                  (map (fun kc => @entries_of Xq (snd kc)) (kmerge sp1 ((k2, y) :: sp2))))
          with (esum (map (fun kc => @entries_of Xq (snd kc)) (kmerge sp1 ((k2, y) :: sp2)))).
        rewrite IH1.
        2:{ intros k0 a b Ha Hb. apply (H k0); [right|]; assumption. }
        cbn [map esum fold_right snd]. rewrite xadd_assoc. reflexivity.
      * change (esum (map (fun kc => @entries_of Xq (snd kc))
                          ((k2, y) :: kmerge ((k1, x) :: sp1) sp2)) =
                xadd (esum (map (fun kc => @entries_of Xq (snd kc)) ((k1, x) :: sp1)))
                     (esum (map (fun kc => @entries_of Xq (snd kc)) ((k2, y) :: sp2)))).
        cbn [map esum fold_right snd].
        change (fold_right xadd (XF 0)
                  (map (fun kc => @entries_of Xq (snd kc)) (kmerge ((k1, x) :: sp1) sp2)))
          with (esum (map (fun kc => @entries_of Xq (snd kc)) (kmerge ((k1, x) :: sp1) sp2))).
        rewrite IH2.
        2:{ intros k0 a b Ha Hb. apply (H k0); [|right]; assumption. }
        cbn [map esum fold_right snd]. symmetry. apply xadd_swap.
Qed.

Lemma esum_bupd bk c (l : list (bagkey Xq * xq)) :
  esum (map snd (bupd bk (badd c) l)) = xadd (esum (map snd l)) c.
Proof.
  induction l as [|[k0 v0] l IH]; cbn [sl_upd map esum fold_right snd badd].
  - rewrite xadd_0_r, xadd_0_l. reflexivity.
  - destruct (bag_cmp bk k0); cbn [map esum fold_right snd badd].
    + fold (esum (map snd l)). rewrite !xadd_assoc. f_equal. apply xadd_comm.
    + fold (esum (map snd l)). rewrite xadd_comm. reflexivity.
    + fold (esum (map snd (bupd bk (badd c) l))). fold (esum (map snd l)). rewrite IH.
      rewrite xadd_assoc. reflexivity.
Qed.

Lemma esum_bag_merge b : forall a,
  esum (map snd (@bag_merge Xq a b)) = xadd (esum (map snd a)) (esum (map snd b)).
Proof.
  induction b as [|[k c] b IH]; intro a.
  - cbn [bag_merge map esum fold_right]. rewrite xadd_0_r. reflexivity.
  - rewrite bag_merge_unfold. rewrite IH. rewrite esum_bupd. cbn [map esum fold_right snd].
    rewrite xadd_assoc. reflexivity.
Qed.

Lemma Forall2_same_of_map (l l' : list xagg) : map zero l = map zero l' -> Forall2 same l l'.
Proof. apply map_zero_Forall2. Qed.

Lemma inv_nonneg (a : xagg) : inv a -> nonneg (entries_of a).
Proof. destruct a; cbn [inv entries_of]; tauto. Qed.

Theorem inv_add (a : xagg) : forall b, same a b -> wf a -> wf b -> inv a -> inv b -> inv (add_t a b).
Proof.
  induction a as [k q s | k q e fx sp tm ct IHfx IHsp _] using agg_ind'; intros b S Wa Wb Ia Ib.
  - apply same_leaf_inv in S. destruct S as [s' ->]. cbn [add_t inv] in *.
    destruct Ia as [Na Ba], Ib as [Nb Bb]. split.
    + destruct k; cbn [leaf_add le]; apply nonneg_add; assumption.
    + destruct k; auto. cbn [leaf_add le lv]. rewrite esum_bag_merge, Ba, Bb. reflexivity.
  - apply same_node_inv' in S. destruct S as (e' & fx' & sp' & -> & Efx).
    apply map_zero_Forall2 in Efx.
    cbn [wf] in Wa, Wb. destruct Wa as (Wfx & Wsp & Ssp & Tsp), Wb as (Wfx' & Wsp' & Ssp' & Tsp').
    pose proof (sparse_common _ _ _ Wsp Wsp' Tsp Tsp') as Hcommon.
    cbn [add_t inv] in *.
    destruct Ia as (Ne & Ifx & Isp & Ik), Ib as (Ne' & Ifx' & Isp' & Ik').
    split; [apply nonneg_add; assumption|]. split.
    { clear -IHfx Efx Wfx Wfx' Ifx Ifx'. revert Wfx Wfx' Ifx Ifx'.
      induction Efx as [|x y l l' Sxy F IH]; intros W W' I I'; cbn [map2 allP]; auto.
      inversion IHfx; subst. destruct W, W', I, I'. split; auto. }
    split.
    { apply allP_Forall. apply allP_Forall in Isp, Isp'. apply (ks_merge_Forall inv); auto.
      intros k0 x y Hx Hy. destruct (Hcommon k0 x y Hx Hy) as (Sxy & Wx & Wy).
      rewrite Forall_forall in IHsp, Isp, Isp'.
      apply (IHsp (k0, x) Hx y Sxy Wx Wy); [apply (Isp (k0, x) Hx) | apply (Isp' (k0, y) Hy)]. }
    assert (P : esum (kid_entries fx sp) = e -> esum (kid_entries fx' sp') = e' ->
                esum (kid_entries (map2 (@add_t Xq) fx fx') (kmerge sp sp')) = xadd e e').
    { intros H1 H2. unfold kid_entries in *. rewrite esum_app in *.
      rewrite esum_map2_add by assumption. rewrite esum_kmerge.
      2:{ intros k0 x y Hx Hy. apply (Hcommon k0 x y Hx Hy). }
      rewrite <- H1, <- H2. rewrite !xadd_assoc. f_equal. apply xadd_swap. }
    assert (C : allP (fun c : xagg => entries_of c = e) fx -> allP (fun c : xagg => entries_of c = e') fx' ->
                allP (fun c : xagg => entries_of c = xadd e e') (map2 (@add_t Xq) fx fx')).
    { clear -Efx. induction Efx as [|x y l l' Sxy F IH]; intros H H'; cbn [map2 allP]; auto.
      destruct H as [Hx H], H' as [Hy H']. split; auto. rewrite entries_add, Hx, Hy by assumption.
      reflexivity. }
    destruct k; auto.
    + (* Stack: levels add up pointwise *)
      intros Hok L.
      assert (Hlen : List.length fx = List.length fx') by (clear -Efx; induction Efx; cbn; auto).
      assert (Ez : map (@entries_of Xq) (map2 (@add_t Xq) fx fx') =
                   zadd (map (@entries_of Xq) fx) (map (@entries_of Xq) fx')).
      { clear -Efx. induction Efx as [|x y l l' Sxy F IH]; cbn [map2 map zadd]; auto.
        rewrite entries_add by assumption. f_equal. exact IH. }
      rewrite Ez in *.
      assert (Ll : List.length (map (@entries_of Xq) fx) = List.length (map (@entries_of Xq) fx'))
        by (rewrite !map_length; exact Hlen).
      rewrite zadd_length in L by exact Ll.
      assert (L' : List.length (map (@entries_of Xq) fx') = S (List.length ths)) by (rewrite <- Ll; exact L).
      destruct (Ik Hok L) as [N1 H1]. destruct (Ik' Hok L') as [N2 H2].
      assert (Nn : forall l : list xagg, allP inv l -> Forall nonneg (map (@entries_of Xq) l)).
      { intros l Hl. apply allP_Forall in Hl. apply Forall_forall. intros x Hx.
        apply in_map_iff in Hx. destruct Hx as (c & <- & Hc). rewrite Forall_forall in Hl.
        apply inv_nonneg. apply Hl. exact Hc. }
      split.
      * rewrite removelast_zadd by exact Ll.
        apply nonincr_zadd; auto.
        -- apply Forall_removelast. apply Nn. exact Ifx.
        -- apply Forall_removelast. apply Nn. exact Ifx'.
        -- rewrite !removelast_length. f_equal. exact Ll.
      * destruct (map (@entries_of Xq) fx) as [|a1 l1] eqn:E1; [discriminate|].
        destruct (map (@entries_of Xq) fx') as [|a2 l2] eqn:E2; [discriminate|].
        rewrite hd_zadd. rewrite (last_zadd (a1 :: l1) (a2 :: l2) (XF 0) (XF 0) (XF 0)) by (try discriminate; exact Ll).
        cbn [hd] in H1, H2. rewrite <- H1, <- H2.
        rewrite !xadd_assoc. f_equal. apply xadd_swap.
    + destruct Efx as [|x y l l' Sxy F]; cbn [map2]; auto.
      rewrite entries_add by assumption. rewrite Ik, Ik'. reflexivity.
Qed.

(* ---- scaling ---- *)
Lemma entries_mul (a : xagg) f : entries_of (mul_t a f) = xmul f (entries_of a).
Proof. destruct a as [k q s|]; simpl; auto. destruct k; reflexivity. Qed.

Lemma nonneg_mul f x : finpos f -> nonneg x -> nonneg (xmul f x).
Proof.
  intros (p & -> & Hp) (q & -> & Hq). exists (p * q). split; [reflexivity|]. qc2q. nra.
Qed.

Lemma esum_scale f (l : list xq) : finpos f -> esum (map (xmul f) l) = xmul f (esum l).
Proof.
  intro Hf. induction l as [|x l IH]; cbn [map esum fold_right].
  - destruct Hf as (p & -> & _). simpl. f_equal. ring.
  - fold (esum (map (xmul f) l)). fold (esum l). rewrite IH. rewrite xmul_add_distr_l by assumption.
    reflexivity.
Qed.

Theorem inv_mul (a : xagg) f : finpos f -> inv a -> inv (mul_t a f).
Proof.
  intro Hf. induction a as [k q s | k q e fx sp tm ct IHfx IHsp _] using agg_ind'; cbn [mul_t inv].
  - intros [Ns Bs]. split.
    + destruct k; cbn [leaf_mul le]; apply nonneg_mul; assumption.
    + destruct k; auto. cbn [leaf_mul le lv]. rewrite map_map. cbn [snd].
      change (esum (map (fun x : bagkey Xq * xq => xmul f (snd x)) (lv s)) = xmul f (le s)).
      rewrite <- (map_map snd (xmul f)). rewrite esum_scale by assumption. f_equal. exact Bs.
  - intros (Ne & Ifx & Isp & Ik). split; [apply nonneg_mul; assumption|]. split.
    { apply allP_Forall. apply allP_Forall in Ifx. rewrite Forall_forall in *.
      intros c Hc. apply in_map_iff in Hc. destruct Hc as (c0 & <- & Hc0). apply IHfx; auto. }
    split.
    { apply allP_Forall. apply allP_Forall in Isp. rewrite Forall_forall in *.
      intros kc Hc. apply in_map_iff in Hc. destruct Hc as (kc0 & <- & Hc0). cbn [snd].
      apply IHsp; auto. }
    assert (P : esum (kid_entries fx sp) = e ->
                esum (kid_entries (map (fun c : xagg => @mul_t Xq c f) fx)
                                  (map (fun kc : key * xagg => (fst kc, @mul_t Xq (snd kc) f)) sp)) = xmul f e).
    { intro H. unfold kid_entries in *. rewrite !map_map. cbn [snd].
      rewrite <- H. rewrite <- esum_scale by assumption. rewrite map_app, !map_map.
      f_equal. f_equal; apply map_ext; intros; rewrite entries_mul; reflexivity. }
    assert (C : allP (fun c : xagg => entries_of c = e) fx ->
                allP (fun c : xagg => entries_of c = xmul f e) (map (fun c : xagg => @mul_t Xq c f) fx)).
    { clear. induction fx as [|x l IH]; cbn [map allP]; auto. intros [Hx H]. split; auto.
      rewrite entries_mul, Hx. reflexivity. }
    destruct k; auto.
    + (* Stack: every level is scaled by the same positive factor *)
      intros Hok L.
      assert (Em : map (@entries_of Xq) (map (fun c : xagg => @mul_t Xq c f) fx) =
                   map (xmul f) (map (@entries_of Xq) fx)).
      { rewrite !map_map. apply map_ext. intro c. apply entries_mul. }
      rewrite Em in *. rewrite map_length in L.
      destruct (Ik Hok L) as [N1 H1].
      assert (Nn : Forall nonneg (map (@entries_of Xq) fx)).
      { apply allP_Forall in Ifx. apply Forall_forall. intros x Hx.
        apply in_map_iff in Hx. destruct Hx as (c & <- & Hc). rewrite Forall_forall in Ifx.
        apply inv_nonneg. apply Ifx. exact Hc. }
      assert (Z : xmul f (XF 0) = XF 0).
      { destruct Hf as (p & -> & _). cbn [xmul]. f_equal. ring. }
      split.
      * rewrite removelast_map'. apply nonincr_scale; auto. apply Forall_removelast. exact Nn.
      * rewrite <- Z at 1 2. rewrite hd_map', last_map'. rewrite <- xmul_add_distr_l by assumption.
        rewrite H1. reflexivity.
    + destruct fx as [|den l]; cbn [map]; auto. rewrite entries_mul, Ik. reflexivity.
Qed.

(* ================= fill preserves the invariant ================= *)
Lemma mean_step_entries (e m q w : xq) : fst (fst (@mean_step Xq e m q w)) = xadd e w.
Proof.
  unfold mean_step. xproj.
  repeat match goal with |- context [if ?c then _ else _] => destruct c end; reflexivity.
Qed.

(* a successful fill adds exactly its weight to the entries of the node it is applied to *)
Lemma entries_fill (a : xagg) d w a' :
  sc a -> @pos Xq w = true -> fill a d w = (a', Done) -> entries_of a' = xadd (entries_of a) w.
Proof.
  intros C P E. destruct a as [k q s | k q e fx sp tm ct].
  - unfold fill in E. cbn [fillz] in E. rewrite P in E. cbn [negb] in E. simpl in C.
    destruct k as [tr| | | | | |r]; cbn [entries_of].
    + destruct tr; [|discriminate]. cbn [leaf_fill apply_trans] in E. inversion E; subst. reflexivity.
    + destruct (qfn q d) as [v|]; [|discriminate]. cbn [leaf_fill] in E.
      destruct (as_real v); [|discriminate]. inversion E; subst. reflexivity.
    + destruct (qfn q d) as [v|]; [|discriminate]. cbn [leaf_fill] in E.
      destruct (as_real v) as [x|]; [|discriminate].
      pose proof (mean_step_entries (le s) (l1 s) x w) as M.
      destruct (mean_step (le s) (l1 s) x w) as [[e1 m1] b1]. inversion E; subst. exact M.
    + destruct (qfn q d) as [v|]; [|discriminate]. cbn [leaf_fill] in E.
      destruct (as_real v) as [x|]; [|discriminate].
      pose proof (mean_step_entries (le s) (l1 s) x w) as M.
      destruct (mean_step (le s) (l1 s) x w) as [[e1 m1] b1]. inversion E; subst. exact M.
    + destruct (qfn q d) as [v|]; [|discriminate]. cbn [leaf_fill] in E.
      destruct (as_real v); [|discriminate]. inversion E; subst. reflexivity.
    + destruct (qfn q d) as [v|]; [|discriminate]. cbn [leaf_fill] in E.
      destruct (as_real v); [|discriminate]. inversion E; subst. reflexivity.
    + destruct (qfn q d) as [v|]; [|discriminate]. cbn [leaf_fill] in E.
      destruct r.
      * destruct v; try discriminate. inversion E; subst. reflexivity.
      * destruct (as_real v); [|discriminate]. inversion E; subst. reflexivity.
      * destruct v; try discriminate. destruct (Nat.eqb _ _); [|discriminate]. inversion E; subst. reflexivity.
  - rewrite fill_Node in E. rewrite P in E. cbn [negb] in E.
    destruct (if has_quantity k then qfn q d else QV VNone) as [v|]; [|discriminate].
    destruct (route k (List.length fx) v w) as [|ws sk]; [discriminate|].
    destruct (fill_list (fun c w' => fill c d w') (fun c => c) ws fx) as [fx' o1].
    destruct o1; [|discriminate].
    destruct sk as [[key w']|]; [|inversion E; reflexivity].
    destruct (klookup key sp) as [c|].
    + destruct (fill c d w') as [c' o]. destruct o; [|discriminate]. inversion E; reflexivity.
    + destruct tm as [t|]; [|discriminate].
      destruct (fill (zero t) d w') as [c' o]. destruct o; [|discriminate]. inversion E; reflexivity.
Qed.

Fixpoint wsum (ws : list (option xq)) : xq :=
  match ws with
  | [] => XF 0
  | Some w :: r => xadd w (wsum r)
  | None :: r => wsum r
  end.

(* the total handed down to a list of children is what their entries grow by *)
Lemma flist_sum (f : xagg -> xq -> xagg * outcome) ws (l l' : list xagg) :
  Forall (fun c => forall w c', okw w -> f c w = (c', Done) -> entries_of c' = xadd (entries_of c) w) l ->
  Forall okwo ws ->
  List.length ws = List.length l ->
  flist f (fun c => c) ws l = (l', Done) ->
  esum (map (@entries_of Xq) l') = xadd (esum (map (@entries_of Xq) l)) (wsum ws).
Proof.
  revert ws l'. induction l as [|c l IH]; intros ws l' F Fw L E.
  - destruct ws; [|discriminate]. rewrite flist_nil in E. inversion E; subst.
    cbn [map esum fold_right wsum]. rewrite xadd_0_l. reflexivity.
  - inversion F as [|? ? Hc Fl]; subst. destruct ws as [|[w|] ws]; [discriminate| |];
      cbn [List.length] in L; apply eq_add_S in L; inversion Fw as [|? ? Hw Fw']; subst.
    + rewrite flist_some in E. destruct (f c w) as [c' o] eqn:Ec. destruct o; [|discriminate].
      destruct (flist f (fun c => c) ws l) as [l'' o'] eqn:El. inversion E; subst.
      cbn [map esum fold_right wsum].
      fold (esum (map (@entries_of Xq) l'')). fold (esum (map (@entries_of Xq) l)).
      rewrite (IH ws l'' Fl Fw' L El), (Hc w c' Hw Ec).
      rewrite !xadd_assoc. f_equal. apply xadd_swap.
    + rewrite flist_none in E.
      destruct (flist f (fun c => c) ws l) as [l'' o'] eqn:El. inversion E; subst.
      cbn [map esum fold_right wsum].
      fold (esum (map (@entries_of Xq) l'')). fold (esum (map (@entries_of Xq) l)).
      rewrite (IH ws l'' Fl Fw' L El). rewrite xadd_assoc. reflexivity.
Qed.

Lemma wsum_only_seq i w n : forall s,
  wsum (map (fun j => if Nat.eqb j i then Some w else None) (seq s n)) =
  if (Nat.leb s i && Nat.ltb i (s + n))%bool then w else XF 0.
Proof.
  induction n as [|n IH]; intro s.
  - cbn [seq map wsum].
    destruct (Nat.leb_spec s i), (Nat.ltb_spec i (s + 0)); simpl; auto; lia.
  - cbn [seq map]. destruct (Nat.eqb_spec s i) as [E|E]; cbn [wsum]; rewrite IH.
    + subst s.
      destruct (Nat.leb_spec (S i) i), (Nat.ltb_spec i (S i + n)),
               (Nat.leb_spec i i), (Nat.ltb_spec i (i + S n)); simpl; try lia;
        apply xadd_0_r.
    + destruct (Nat.leb_spec (S s) i), (Nat.ltb_spec i (S s + n)),
               (Nat.leb_spec s i), (Nat.ltb_spec i (s + S n)); simpl; auto; lia.
Qed.

Lemma wsum_only n i w : (i < n)%nat -> wsum (@only Xq n i w) = w.
Proof.
  intro H. unfold only. rewrite wsum_only_seq. simpl.
  replace (Nat.ltb i n) with true by (symmetry; apply Nat.ltb_lt; exact H). reflexivity.
Qed.

Lemma only_length n i w : List.length (@only Xq n i w) = n.
Proof. unfold only. rewrite map_length, seq_length. reflexivity. Qed.

Lemma wsum_nones {A} (l : list A) : wsum (map (fun _ => None) l) = XF 0.
Proof. induction l; simpl; auto. Qed.

(* ---- configurations ---- *)
Definition irr_total (ths : list xq) : Prop :=
  forall x, xisnan x = false -> @irr_index Xq ths x 0 <> None.

Definition node_arity (k : nodekind Xq) (n : nat) : Prop :=
  match k with
  | KBin _ _ => (3 <= n)%nat
  | KSparse _ _ => n = 1%nat
  | KCentral cs => n = S (List.length cs) /\ cs <> []
  | KIrr ths => n = S (List.length ths) /\ irr_total ths
  | KCat => n = 0%nat
  | _ => True
  end.

Fixpoint arity (a : xagg) : Prop :=
  match a with
  | Leaf _ _ _ => True
  | Node k _ _ fx sp tm _ =>
      node_arity k (List.length fx) /\ allP arity fx /\ allP (fun kc => arity (snd kc)) sp /\
      match tm with Some t => arity t | None => True end
  end.

Definition partition_kind (k : nodekind Xq) : bool :=
  match k with KBin _ _ | KSparse _ _ | KCentral _ | KIrr _ | KCat => true | _ => false end.

Lemma central_index_bound (cs : list xq) x : forall i,
  cs <> [] -> (@central_index Xq cs x i < i + List.length cs)%nat.
Proof.
  induction cs as [|c1 cs IH]; intros i H; [congruence|].
  cbn [central_index]. destruct cs as [|c2 cs]; [simpl; lia|].
  destruct (nltb x _); [simpl; lia|].
  specialize (IH (S i)). cbn [List.length] in *. assert (c2 :: cs <> []) by discriminate.
  specialize (IH H0). lia.
Qed.

Lemma irr_index_bound (ths : list xq) x : forall i j,
  @irr_index Xq ths x i = Some j -> (j < i + List.length ths)%nat.
Proof.
  induction ths as [|t ths IH]; intros i j; cbn [irr_index]; [discriminate|].
  destruct (_ && _)%bool.
  - intro E; inversion E; subst. simpl; lia.
  - intro E. apply IH in E. simpl. lia.
Qed.

(* a partition kind hands the whole weight to exactly one child *)
Lemma route_part (k : nodekind Xq) n v w ws sk :
  partition_kind k = true -> node_arity k n -> route k n v w = RTo ws sk ->
  List.length ws = n /\
  ((sk = None /\ wsum ws = w) \/ (exists k1 : key, sk = Some (k1, w) /\ wsum ws = XF 0)).
Proof.
  intros Hk Ha. destruct k; try discriminate; cbn [route node_arity] in *.
  - destruct (@as_real Xq v) as [x|]; [|discriminate].
    assert (G : forall i, (i < n)%nat -> List.length (@only Xq n i w) = n /\
                 ((@None (key * xq) = None /\ wsum (@only Xq n i w) = w) \/
                  (exists k1 : key, @None (key * xq) = Some (k1, w) /\ wsum (@only Xq n i w) = XF 0))).
    { intros i Hi. split; [apply only_length|]. left. split; auto. apply wsum_only. exact Hi. }
    destruct (nisnan x). { intro E; inversion E; subst; clear E. apply G. lia. }
    destruct (nltb x low). { intro E; inversion E; subst; clear E. apply G. lia. }
    destruct (nleb high x). { intro E; inversion E; subst; clear E. apply G. lia. }
    destruct (nfloor _) as [i|]; [|discriminate].
    match goal with |- context [if ?c then _ else _] => destruct c eqn:Ec end; [|discriminate].
    intro E; inversion E; subst; clear E. apply G.
    apply andb_true_iff in Ec. destruct Ec as [E1 E2]. apply Z.leb_le in E1. apply Z.ltb_lt in E2. lia.
  - subst n. destruct (@as_real Xq v) as [x|]; [|discriminate].
    destruct (nisnan x).
    { intro E; inversion E; subst; clear E. split; auto. left. split; auto. simpl. apply xadd_0_r. }
    destruct (nleb _ _). { intro E; inversion E; subst; clear E. split; auto. right. eexists; split; reflexivity. }
    destruct (nleb _ _). { intro E; inversion E; subst; clear E. split; auto. right. eexists; split; reflexivity. }
    destruct (nfloor _); [|discriminate]. intro E; inversion E; subst; clear E. split; auto.
    right. eexists; split; reflexivity.
  - destruct Ha as [Hn Hc]. destruct (@as_real Xq v) as [x|]; [|discriminate].
    destruct (nisnan x); intro E; inversion E; subst; clear E; (split; [apply only_length|]); left; split; auto;
      apply wsum_only.
    + lia.
    + eapply Nat.lt_le_trans; [apply central_index_bound; exact Hc | simpl; lia].
  - destruct Ha as [Hn Ht]. destruct (@as_real Xq v) as [x|]; [|discriminate].
    destruct (nisnan x) eqn:En.
    { intro E; inversion E; subst; clear E. split; [apply only_length|]. left; split; auto. apply wsum_only. lia. }
    destruct (irr_index ths x 0) as [i|] eqn:Ei.
    + intro E; inversion E; subst; clear E. split; [apply only_length|]. left; split; auto. apply wsum_only.
      apply irr_index_bound in Ei. eapply Nat.lt_le_trans; [exact Ei | simpl; lia].
    + exfalso. apply (Ht x); assumption.
  - subst n. destruct v as [x|s|b| |l].
    + destruct (nisnan x); [|discriminate]. intro E; inversion E; subst; clear E. split; auto.
      right. eexists; split; reflexivity.
    + intro E; inversion E; subst; clear E. split; auto. right. eexists; split; reflexivity.
    + intro E; inversion E; subst; clear E. split; auto. right. eexists; split; reflexivity.
    + intro E; inversion E; subst; clear E. split; auto. right. eexists; split; reflexivity.
    + discriminate.
Qed.

Notation kent := (fun kc : key * xagg => @entries_of Xq (snd kc)).

Lemma esum_kupd_found (k1 : key) (c c' : xagg) w (sp : list (key * xagg)) :
  klookup k1 sp = Some c -> entries_of c' = xadd (entries_of c) w ->
  esum (map kent (kupd k1 (fun _ => c') sp)) = xadd (esum (map kent sp)) w.
Proof.
  induction sp as [|[k0 v0] sp IH]; cbn [sl_lookup sl_upd]; [discriminate|].
  destruct (key_cmp k1 k0); intros L E.
  - inversion L; subst. cbn [map esum fold_right snd]. rewrite E.
    rewrite !xadd_assoc. f_equal. apply xadd_comm.
  - discriminate.
  - cbn [map esum fold_right snd]. fold (esum (map kent (kupd k1 (fun _ => c') sp))).
    fold (esum (map kent sp)). rewrite (IH L E). rewrite xadd_assoc. reflexivity.
Qed.

Lemma esum_kupd_new (k1 : key) (c' : xagg) (sp : list (key * xagg)) :
  klookup k1 sp = None ->
  esum (map kent (kupd k1 (fun _ => c') sp)) = xadd (esum (map kent sp)) (entries_of c').
Proof.
  induction sp as [|[k0 v0] sp IH]; cbn [sl_lookup sl_upd].
  - intros _. cbn [map esum fold_right snd]. rewrite xadd_0_r, xadd_0_l. reflexivity.
  - destruct (key_cmp k1 k0); intro L.
    + discriminate.
    + cbn [map esum fold_right snd]. fold (esum (map kent sp)). rewrite xadd_comm. reflexivity.
    + cbn [map esum fold_right snd]. fold (esum (map kent (kupd k1 (fun _ => c') sp))).
      fold (esum (map kent sp)). rewrite (IH L). rewrite xadd_assoc. reflexivity.
Qed.

Lemma arity_zero (a : xagg) : arity a -> arity (zero a).
Proof.
  induction a as [k q s | k q e fx sp tm ct IHfx _ _] using agg_ind'; cbn [zero arity]; auto.
  intros (Hk & Afx & _ & At). rewrite map_length. repeat split; auto.
  apply allP_Forall. apply allP_Forall in Afx. rewrite Forall_forall in *.
  intros c Hc. apply in_map_iff in Hc. destruct Hc as (c0 & <- & Hc0). apply IHfx; auto.
Qed.

Lemma flist_inv (f : xagg -> xq -> xagg * outcome) ws (l : list xagg) :
  Forall (fun c => forall w c', okw w -> f c w = (c', Done) -> inv c') l ->
  Forall okwo ws -> allP inv l ->
  forall l', flist f (fun c => c) ws l = (l', Done) -> allP inv l'.
Proof.
  revert ws. induction l as [|c l IH]; intros ws F Fw I l' E.
  - rewrite flist_nil in E. inversion E; subst. exact I.
  - inversion F as [|? ? Hc Fl]; subst. destruct I as [Ic Il].
    destruct ws as [|[w|] ws].
    + rewrite flist_nows_id in E. inversion E; subst. split; assumption.
    + inversion Fw as [|? ? Hw Fw']; subst. rewrite flist_some in E.
      destruct (f c w) as [c' o] eqn:Ec. destruct o; [|discriminate].
      destruct (flist f (fun c => c) ws l) as [l'' o'] eqn:El. inversion E; subst.
      split; [apply (Hc w c' Hw Ec) | apply (IH ws Fl Fw' Il l'' El)].
    + inversion Fw as [|? ? Hw Fw']; subst. rewrite flist_none in E.
      destruct (flist f (fun c => c) ws l) as [l'' o'] eqn:El. inversion E; subst.
      split; [exact Ic | apply (IH ws Fl Fw' Il l'' El)].
Qed.

(* every child of a collection receives the weight *)
Lemma flist_all (f : xagg -> xq -> xagg * outcome) w e (l : list xagg) :
  Forall (fun c => forall c', f c w = (c', Done) -> entries_of c' = xadd (entries_of c) w) l ->
  allP (fun c : xagg => entries_of c = e) l ->
  forall l', flist f (fun c => c) (map (fun _ => Some w) l) l = (l', Done) ->
  allP (fun c : xagg => entries_of c = xadd e w) l'.
Proof.
  induction l as [|c l IH]; intros F A l' E.
  - rewrite flist_nil in E. inversion E; subst. exact I.
  - inversion F as [|? ? Hc Fl]; subst. destruct A as [Ac Al]. cbn [map] in E.
    rewrite flist_some in E. destruct (f c w) as [c' o] eqn:Ec. destruct o; [|discriminate].
    destruct (flist f (fun c => c) (map (fun _ => Some w) l) l) as [l'' o'] eqn:El.
    inversion E; subst. split; [rewrite (Hc c' eq_refl); reflexivity | apply (IH Fl Al l'' eq_refl)].
Qed.

Lemma map_const_seq {A B} (l : list A) (b : B) n : List.length l = n ->
  map (fun _ => b) (seq 0 n) = map (fun _ => b) l.
Proof.
  intro H. subst n. generalize 0%nat. induction l as [|x l IH]; intro s; simpl; auto.
  f_equal. apply IH.
Qed.

Lemma arity_node_inv k q e fx sp tm ct :
  arity (Node k q e fx sp tm ct) ->
  node_arity k (List.length fx) /\ allP arity fx /\ allP (fun kc => arity (snd kc)) sp /\
  match tm with Some t => arity t | None => True end.
Proof. simpl. tauto. Qed.

Lemma route_collection (k : nodekind Xq) n v w :
  match k with KLabel _ | KULabel _ | KIndex | KBranch => True | _ => False end ->
  route k n v w = RTo (map (fun _ => Some w) (seq 0 n)) None.
Proof. destruct k; intro H; try contradiction; reflexivity. Qed.

Lemma bag_fill_total r (s s' : lstate) v w :
  @leaf_fill Xq (LBag r) s v w = Some s' ->
  esum (map snd (lv s')) = xadd (esum (map snd (lv s))) w.
Proof.
  cbn [leaf_fill].
  assert (B : forall bk, esum (map snd (bupd bk (fun o => match o with Some c => xadd c w | None => w end)
                                             (lv s))) = xadd (esum (map snd (lv s))) w).
  { intro bk. change (fun o : option xq => match o with Some c => xadd c w | None => w end) with (badd w).
    apply esum_bupd. }
  destruct r.
  - destruct v; try discriminate. intro E; inversion E; subst. cbn [lv]. apply B.
  - destruct (@as_real Xq v); [|discriminate]. intro E; inversion E; subst. cbn [lv]. apply B.
  - destruct v; try discriminate. destruct (Nat.eqb _ _); [|discriminate].
    intro E; inversion E; subst. cbn [lv]. apply B.
Qed.

Lemma fill_inv_children d (spec l : list xagg) :
  Forall (fun c => forall a d w a', same a c -> wf a -> sc a -> arity a -> okw w -> okd a d ->
                                    inv a -> fill a d w = (a', Done) -> inv a') spec ->
  Forall2 same l spec -> allP wf l -> allP sc l -> allP arity l ->
  allP (fun c => okd c d) l -> allP inv l ->
  Forall (fun x => forall w0 c', okw w0 -> fill x d w0 = (c', Done) -> inv c') l.
Proof.
  intros IH F2. induction F2 as [|x c l spec Sxc F2 IHl]; intros W C A O I; constructor.
  - inversion IH as [|? ? Hc _]; subst.
    destruct W as [Wx _], C as [Cx _], A as [Ax _], O as [Ox _], I as [Ix _].
    intros w0 c' Hw0 Ec. apply (Hc x d w0 c' Sxc Wx Cx Ax Hw0 Ox Ix Ec).
  - inversion IH as [|? ? _ IHs]; subst.
    destruct W as [_ W], C as [_ C], A as [_ A], O as [_ O], I as [_ I]. apply IHl; assumption.
Qed.

(* what each child's entries grow by *)
Lemma flist_zipw (f : xagg -> xq -> xagg * outcome) ws (l l' : list xagg) :
  Forall (fun c => forall w c', okw w -> f c w = (c', Done) -> entries_of c' = xadd (entries_of c) w) l ->
  Forall okwo ws ->
  flist f (fun c => c) ws l = (l', Done) ->
  map (@entries_of Xq) l' = zipw (map (@entries_of Xq) l) ws.
Proof.
  revert ws l'. induction l as [|c l IH]; intros ws l' F Fw E.
  - rewrite flist_nil in E. inversion E; subst. destruct ws; reflexivity.
  - inversion F as [|? ? Hc Fl]; subst. destruct ws as [|[w|] ws].
    + rewrite flist_nows in E. destruct (flist f (fun c => c) [] l) as [l'' o'] eqn:El. inversion E; subst.
      cbn [map zipw]. f_equal. rewrite (IH [] l'' Fl Fw El). destruct (map (@entries_of Xq) l); reflexivity.
    + inversion Fw as [|? ? Hw Fw']; subst.
      rewrite flist_some in E. destruct (f c w) as [c' o] eqn:Ec. destruct o; [|discriminate].
      destruct (flist f (fun c => c) ws l) as [l'' o'] eqn:El. inversion E; subst.
      cbn [map zipw addw]. rewrite (Hc w c' Hw Ec). f_equal. apply (IH ws l'' Fl Fw' El).
    + inversion Fw as [|? ? Hw Fw']; subst.
      rewrite flist_none in E. destruct (flist f (fun c => c) ws l) as [l'' o'] eqn:El. inversion E; subst.
      cbn [map zipw addw]. f_equal. apply (IH ws l'' Fl Fw' El).
Qed.

Lemma only_last m (w : xq) : @only Xq (S m) m w = map (fun _ => None) (seq 0 m) ++ [Some w].
Proof.
  unfold only. rewrite seq_S, map_app. cbn [map plus]. rewrite Nat.eqb_refl. f_equal.
  apply map_ext_in. intros j Hj. apply in_seq in Hj. destruct (Nat.eqb j m) eqn:E; [|reflexivity].
  apply Nat.eqb_eq in E. lia.
Qed.

Theorem inv_fill_gen (spec : xagg) : forall a d w a',
  same a spec -> wf a -> sc a -> arity a -> okw w -> okd a d -> inv a ->
  fill a d w = (a', Done) -> inv a'.
Proof.
  induction spec as [k q s | k q e fx sp tm ct IHfx _ IHtm] using agg_ind';
    intros a d w a' S Wa Ca Aa Hw Oa Ia E.
  - apply same_sym in S. apply same_leaf_inv in S. destruct S as [s' ->].
    pose proof (entries_fill _ d w a' Ca (okw_pos w Hw) E) as En.
    unfold fill in E. cbn [fillz] in E. rewrite (okw_pos w Hw) in E. cbn [negb] in E.
    cbn [inv] in Ia. destruct Ia as [Ns Bs].
    assert (G : forall s'', a' = Leaf k q s'' ->
                match k with LBag _ => esum (map snd (lv s'')) = le s'' | _ => True end -> inv a').
    { intros s'' -> Hb. cbn [inv]. split; auto. cbn [entries_of] in En. rewrite En.
      apply nonneg_add; [exact Ns | apply nonneg_okw; exact Hw]. }
    destruct k as [tr| | | | | |r];
      try (destruct (qfn q d) as [v|]; [|discriminate]);
      match type of E with
      | context [leaf_fill ?kk ?ss ?vv ?ww] => destruct (leaf_fill kk ss vv ww) as [s''|] eqn:El
      end; try discriminate; inversion E; subst; apply (G s'' eq_refl); auto.
    rewrite (bag_fill_total r s' s'' v w El). rewrite Bs.
    cbn [entries_of] in En. symmetry. exact En.
  - apply same_sym in S. apply same_node_inv' in S.
    destruct S as (e' & fx' & sp' & -> & Efx). apply map_zero_Forall2 in Efx.
    apply okd_node_inv in Oa. destruct Oa as (Ok & Ofx & Osp & Otm).
    apply sc_node_inv in Ca. destruct Ca as (Cfx & Csp & Ctm).
    apply arity_node_inv in Aa. destruct Aa as (Ak & Afx & Asp & Atm).
    cbn [wf] in Wa. destruct Wa as (Wfx & Wsp & Ssp & Tsp).
    cbn [inv] in Ia. destruct Ia as (Ne & Ifx & Isp & Ik).
    rewrite fill_Node in E. rewrite (okw_pos w Hw) in E. cbn [negb] in E.
    destruct (if has_quantity k then qfn q d else QV VNone) as [v|] eqn:Eq; [|discriminate].
    destruct (route k (List.length fx') v w) as [|ws sk] eqn:Er; [discriminate|].
    destruct (route_okw k _ v w ws sk Hw (hasq_route_cond _ _ _ _ Eq Ok) Er) as [Fws Hsk].
    destruct (fill_list (fun c w' => fill c d w') (fun c => c) ws fx') as [fx'' o1] eqn:Efl.
    destruct o1; [|discriminate].
    assert (Fent : Forall (fun c => forall w0 c', okw w0 -> fill c d w0 = (c', Done) ->
                                    entries_of c' = xadd (entries_of c) w0) fx').
    { apply Forall_forall. intros c Hc w0 c' Hw0 Ec. apply allP_Forall in Cfx.
      rewrite Forall_forall in Cfx. apply (entries_fill c d w0 c' (Cfx c Hc) (okw_pos w0 Hw0) Ec). }
    assert (Ifx'' : allP inv fx'').
    { apply (flist_inv (fun c w' => fill c d w') ws fx'); auto.
      apply (fill_inv_children d fx fx'); auto.
      clear -Efx. induction Efx; constructor; auto. apply same_sym; auto. }
    apply allP_Forall in Wsp, Osp, Csp, Asp, Isp.
    assert (SP : forall sp'' e'', a' = Node k q e'' fx'' sp'' tm ct ->
                 allP (fun kc => inv (snd kc)) sp'' -> nonneg e'' ->
                 match k with
                 | KBin _ _ | KSparse _ _ | KCentral _ | KIrr _ | KCat =>
                     esum (kid_entries fx'' sp'') = e''
                 | KLabel _ | KULabel _ | KIndex | KBranch => allP (fun c : xagg => entries_of c = e'') fx''
                 | KFraction => match fx'' with den :: _ => entries_of den = e'' | [] => True end
                 | KStack ts => stack_clause ts (map (@entries_of Xq) fx'') e''
                 | KSelect => True
                 end -> inv a').
    { intros sp'' e'' -> H1 H2 H3. cbn [inv]. repeat split; assumption. }
    assert (Nw : nonneg (xadd e' w)) by (apply nonneg_add; [exact Ne | apply nonneg_okw; exact Hw]).
    assert (Isp0 : allP (fun kc => inv (snd kc)) sp') by (apply allP_Forall; exact Isp).
    destruct (partition_kind k) eqn:Pk.
    + (* Bin, SparselyBin, CentrallyBin, IrregularlyBin, Categorize *)
      destruct (route_part k _ v w ws sk Pk Ak Er) as [Lws Hr].
      assert (Sfx : esum (map (@entries_of Xq) fx'') =
                    xadd (esum (map (@entries_of Xq) fx')) (wsum ws)).
      { apply (flist_sum (fun c w' => fill c d w') ws fx' fx''); auto. }
      assert (Pe : esum (kid_entries fx' sp') = e') by (destruct k; try discriminate; exact Ik).
      unfold kid_entries in Pe. rewrite esum_app in Pe.
      destruct Hr as [[-> Hws] | (k1 & -> & Hws)].
      * inversion E; subst a'. apply (SP sp' (xadd e' w) eq_refl Isp0 Nw).
        assert (Q : esum (kid_entries fx'' sp') = xadd e' w).
        { unfold kid_entries. rewrite esum_app, Sfx, Hws, <- Pe.
          rewrite !xadd_assoc. f_equal. apply xadd_comm. }
        destruct k; try discriminate; exact Q.
      * rewrite Hws, xadd_0_r in Sfx.
        destruct (klookup k1 sp') as [c|] eqn:L.
        -- pose proof L as Ic. apply lookup_in in Ic; [|exact key_cmp_eq].
           destruct tm as [t|]; [|subst sp'; destruct Ic].
           apply allP_Forall in Tsp.
           pose proof (in_snd_Forall (fun c => zero c = zero t) _ _ _ Tsp Ic) as Zc.
           pose proof (in_snd_Forall wf _ _ _ Wsp Ic) as Wc.
           pose proof (in_snd_Forall (fun c => okd c d) _ _ _ Osp Ic) as Oc.
           pose proof (in_snd_Forall sc _ _ _ Csp Ic) as Cc.
           pose proof (in_snd_Forall arity _ _ _ Asp Ic) as Ac.
           pose proof (in_snd_Forall inv _ _ _ Isp Ic) as Iic.
           destruct (fill c d w) as [c' o] eqn:Ec. destruct o; [|discriminate].
           pose proof (IHtm t eq_refl c d w c' Zc Wc Cc Ac Hw Oc Iic Ec) as Ic'.
           pose proof (entries_fill c d w c' Cc (okw_pos w Hw) Ec) as Enc.
           inversion E; subst a'.
           apply (SP (kupd k1 (fun _ => c') sp') (xadd e' w) eq_refl); auto.
           ++ apply allP_Forall. apply (upd_Forall inv); auto.
           ++ assert (Q : esum (kid_entries fx'' (kupd k1 (fun _ => c') sp')) = xadd e' w).
              { unfold kid_entries. rewrite esum_app, Sfx.
                rewrite (esum_kupd_found k1 c c' w sp' L Enc). rewrite <- Pe.
                rewrite xadd_assoc. reflexivity. }
              destruct k; try discriminate; exact Q.
        -- destruct tm as [t|]; [|discriminate].
           destruct (fill (zero t) d w) as [c' o] eqn:Ec. destruct o; [|discriminate].
           pose proof (IHtm t eq_refl (zero t) d w c' (same_zero t) (wf_zero t) (sc_zero t Ctm)
                            (arity_zero t Atm) Hw (okd_zero t d Otm)) as Ic'.
           assert (Sh : inv (zero t)) by apply inv_zero.
           specialize (Ic' Sh Ec).
           pose proof (entries_fill (zero t) d w c' (sc_zero t Ctm) (okw_pos w Hw) Ec) as Enc.
           rewrite entries_zero, xadd_0_l in Enc.
           inversion E; subst a'.
           apply (SP (kupd k1 (fun _ => c') sp') (xadd e' w) eq_refl); auto.
           ++ apply allP_Forall. apply (upd_Forall inv); auto.
           ++ assert (Q : esum (kid_entries fx'' (kupd k1 (fun _ => c') sp')) = xadd e' w).
              { unfold kid_entries. rewrite esum_app, Sfx.
                rewrite (esum_kupd_new k1 c' sp' L), Enc. rewrite <- Pe.
                rewrite xadd_assoc. reflexivity. }
              destruct k; try discriminate; exact Q.
    + (* collections, Fraction, Select, Stack: no sparse target *)
      assert (Hsk0 : sk = None).
      { destruct k; try discriminate; cbn [route] in Er;
          try (destruct (@as_real Xq v); [|discriminate]);
          try (destruct (nisnan _)); inversion Er; reflexivity. }
      subst sk. inversion E; subst a'. apply (SP sp' (xadd e' w) eq_refl Isp0 Nw).
      destruct k; try discriminate; try exact I.
      * (* Stack: the weight goes to the levels whose threshold the datum reaches (a prefix, the
           thresholds being ascending), or to the nanflow *)
        intros Hok L.
        rewrite (flist_zipw (fun c w' => fill c d w') ws fx' fx'' Fent Fws Efl) in *.
        rewrite zipw_length in L.
        destruct (Ik Hok L) as [N1 H1].
        assert (Nn : Forall nonneg (map (@entries_of Xq) fx')).
        { apply allP_Forall in Ifx. apply Forall_forall. intros y Hy.
          apply in_map_iff in Hy. destruct Hy as (c & <- & Hc). rewrite Forall_forall in Ifx.
          apply inv_nonneg. apply Ifx. exact Hc. }
        set (es := map (@entries_of Xq) fx') in *.
        assert (Hne : es <> []) by (intro Z; rewrite Z in L; discriminate).
        destruct (exists_last Hne) as (lv & en & Ees).
        assert (Llv : List.length lv = List.length ths).
        { rewrite Ees, app_length in L. cbn [List.length] in L. rewrite Nat.add_1_r in L.
          injection L as L. exact L. }
        rewrite Ees in H1, N1, Nn. rewrite removelast_last in N1. rewrite last_last in H1.
        apply Forall_app in Nn. destruct Nn as [Nlv _].
        unfold stack_ok in Hok. destruct ths as [|t0 ths']; [contradiction|].
        destruct t0; try contradiction.
        destruct lv as [|l0 lv']; [discriminate|]. cbn [app hd] in H1.
        cbn [route] in Er. destruct (@as_real Xq v) as [x|]; [|discriminate].
        assert (Hn' : List.length fx' = S (S (List.length ths'))).
        { unfold es in L. rewrite map_length in L. exact L. }
        destruct (@nisnan Xq x) eqn:Nx; inversion Er; subst ws; clear Er; change (T Xq) with xq in *.
        -- (* NaN: only the nanflow *)
           rewrite Hn'. replace (S (S (List.length ths')) - 1)%nat with (S (List.length ths')) by lia.
           rewrite only_last. rewrite Ees.
           rewrite zipw_app by (rewrite map_length, seq_length; cbn [List.length] in Llv |- *; exact Llv).
           rewrite zipw_nones. cbn [addw]. rewrite removelast_last, last_last. split; [exact N1|].
           cbn [app hd]. rewrite <- H1. rewrite xadd_assoc. reflexivity.
        -- (* a number: the levels whose threshold it reaches *)
           rewrite Ees.
           change ((if xleb XNInf x then Some w else None)
                   :: map (fun t : xq => if xleb t x then Some w else None) ths' ++ [None])
             with (map (reach x w) (XNInf :: ths') ++ [None]). rewrite zipw_app by (rewrite map_length; cbn [List.length] in Llv |- *; exact Llv).
           cbn [addw]. rewrite removelast_last, last_last. split.
           ++ apply nonincr_reach; auto.
           ++ cbn [map zipw app hd]. unfold reach at 1. rewrite (xleb_ninf x Nx). cbn [addw].
              rewrite <- H1. rewrite !xadd_assoc. f_equal. apply xadd_comm.
      * (* Fraction: the denominator (first child) receives the weight *)
        cbn [route] in Er. destruct (@as_real Xq v) as [x|]; [|discriminate]. inversion Er; subst ws.
        destruct fx' as [|den rest]; [rewrite flist_nil in Efl; inversion Efl; exact I|].
        rewrite flist_some in Efl. destruct (fill den d w) as [den' o] eqn:Ed. destruct o; [|discriminate].
        destruct (flist _ _ _ rest) as [rest' o']. inversion Efl; subst.
        inversion Fent as [|? ? Hd _]; subst. rewrite (Hd w den' Hw Ed). try rewrite Ik. reflexivity.
      * rewrite (route_collection (KLabel keys) _ v w I) in Er. inversion Er; subst ws.
        rewrite (map_const_seq fx' (Some w) _ eq_refl) in Efl.
        apply (flist_all (fun c w' => fill c d w') w e' fx'); auto.
        rewrite Forall_forall in *. intros c Hc c' Ec. apply (Fent c Hc w c' Hw Ec).
      * rewrite (route_collection (KULabel keys) _ v w I) in Er. inversion Er; subst ws.
        rewrite (map_const_seq fx' (Some w) _ eq_refl) in Efl.
        apply (flist_all (fun c w' => fill c d w') w e' fx'); auto.
        rewrite Forall_forall in *. intros c Hc c' Ec. apply (Fent c Hc w c' Hw Ec).
      * rewrite (route_collection KIndex _ v w I) in Er. inversion Er; subst ws.
        rewrite (map_const_seq fx' (Some w) _ eq_refl) in Efl.
        apply (flist_all (fun c w' => fill c d w') w e' fx'); auto.
        rewrite Forall_forall in *. intros c Hc c' Ec. apply (Fent c Hc w c' Hw Ec).
      * rewrite (route_collection KBranch _ v w I) in Er. inversion Er; subst ws.
        rewrite (map_const_seq fx' (Some w) _ eq_refl) in Efl.
        apply (flist_all (fun c w' => fill c d w') w e' fx'); auto.
        rewrite Forall_forall in *. intros c Hc c' Ec. apply (Fent c Hc w c' Hw Ec).
Qed.

Lemma arity_of_spec (spec : xagg) : forall a, same a spec -> wf a -> arity (zero spec) -> arity a.
Proof.
  induction spec as [k q s | k q e fx sp tm ct IHfx _ IHtm] using agg_ind'; intros a S W C.
  - apply same_sym in S. apply same_leaf_inv in S. destruct S as [s' ->]. exact I.
  - apply same_sym in S. apply same_node_inv' in S. destruct S as (e' & fx' & sp' & -> & Efx).
    pose proof Efx as Efx0. apply map_zero_Forall2 in Efx. cbn [zero] in C. apply arity_node_inv in C.
    destruct C as (Ck & Cfx & _ & Ctm). cbn [wf] in W. destruct W as (Wfx & Wsp & _ & Tsp).
    cbn [arity]. repeat split; auto.
    + rewrite map_length in Ck. rewrite <- (Forall2_same_length _ _ Efx). exact Ck.
    + clear -IHfx Efx Wfx Cfx. revert Wfx Cfx. induction Efx as [|c x fx fx' Scx F IH]; intros W C.
      * exact I.
      * inversion IHfx; subst. destruct W as [Wx W]. cbn [map allP] in C. destruct C as [Cc C].
        split; auto. apply H1; auto. apply same_sym; auto.
    + destruct tm as [t|].
      * apply allP_Forall. apply allP_Forall in Wsp, Tsp. rewrite Forall_forall in *.
        intros [k0 c] Hc. simpl. apply (IHtm t eq_refl).
        -- apply (Tsp _ Hc).
        -- apply (Wsp _ Hc).
        -- apply arity_zero. exact Ctm.
      * subst. exact I.
Qed.

(* ---- every state reachable by fills, merges, scalings, copies and zero ---- *)
Inductive reach (t : xagg) : xagg -> Prop :=
| r_zero : reach t (zero t)
| r_fill a d w a' : reach t a -> okw w -> okd (zero t) d -> fill a d w = (a', Done) -> reach t a'
| r_gated a d w : reach t a -> @pos Xq w = false -> reach t (fst (fill a d w))
| r_add a b : reach t a -> reach t b -> reach t (add_t a b)
| r_mul a f : reach t a -> finpos f -> reach t (mul_t a f)
| r_zero_of a : reach t a -> reach t (zero a).

Theorem inv_reach t a : sc (zero t) -> arity (zero t) -> reach t a -> inv a /\ same a t /\ wf a.
Proof.
  intros Ct At R. induction R as [| a d w a' R IH Hw Od E | a d w R IH Pw | a b Ra IHa Rb IHb
                                 | a f R IH Hf | a R IH].
  - repeat split; [apply inv_zero | apply same_zero | apply wf_zero].
  - destruct IH as (Ia & Sa & Wa).
    assert (Oa : okd a d) by (apply (okd_of_spec t); auto).
    repeat split.
    + apply (inv_fill_gen t a d w a'); auto.
      * apply (sc_of_spec t); auto.
      * apply (arity_of_spec t); auto.
    + change a' with (fst (a', Done)). rewrite <- E. eapply same_trans; [apply fill_same'|exact Sa].
    + change a' with (fst (a', Done)). rewrite <- E. apply wf_fill; auto.
  - rewrite fill_gated by assumption. exact IH.
  - destruct IHa as (Ia & Sa & Wa), IHb as (Ib & Sb & Wb).
    assert (Sab : same a b) by (eapply same_trans; [exact Sa | apply same_sym; exact Sb]).
    repeat split.
    + apply inv_add; auto.
    + eapply same_trans; [apply same_add_r; exact Sab | exact Sa].
    + apply wf_add; auto.
  - destruct IH as (Ia & Sa & Wa). repeat split.
    + apply inv_mul; auto.
    + unfold same. rewrite same_mul. exact Sa.
    + apply wf_mul; auto.
  - destruct IH as (Ia & Sa & Wa). repeat split.
    + apply inv_zero.
    + eapply same_trans; [apply same_zero | exact Sa].
    + apply wf_zero.
Qed.
