(* C13: the derived views are mutually consistent and describe the partition fill uses. *)
From Coq Require Import ZArith List String Bool Lia Arith.
From Hgm Require Import NumOps Agg Ops Views.
Import ListNotations.
Local Open Scope Z_scope.

Section Shapes.
  Context {N : num_ops}.
  Notation T := (T N).
  Notation agg := (agg N).

  Lemma length_zrange a b : List.length (zrange a b) = Z.to_nat (b + 1 - a).
  Proof. unfold zrange. rewrite map_length, seq_length. reflexivity. Qed.

  Lemma length_linspace (a b : T) n : List.length (linspace a b n) = (Z.to_nat (Z.max 0 n) + 1)%nat.
  Proof.
    unfold linspace. destruct (n <=? 0) eqn:E.
    - apply Z.leb_le in E. replace (Z.max 0 n) with 0 by lia. reflexivity.
    - apply Z.leb_gt in E. rewrite app_length, map_length, length_zrange. cbn [List.length].
      replace (n - 1 + 1 - 0) with n by lia. replace (Z.max 0 n) with n by lia. reflexivity.
  Qed.

  Lemma length_midpoints (e : list T) : List.length (midpoints e) = (List.length e - 1)%nat.
  Proof.
    unfold midpoints. rewrite map_length, combine_length. destruct e as [|x e]; [reflexivity|].
    cbn [tl List.length]. lia.
  Qed.

  (* Bin: one more edge than bins, one centre and one entry per bin - for the full range and for
     every sub-range *)
  Theorem bin_shapes (low high : T) (vals : list agg) lo hi xs :
    lt_opt lo hi = false ->
    exists n es cs en,
      v_num (bin_views low high vals lo hi xs) = VInt n /\
      v_edges (bin_views low high vals lo hi xs) = VList es /\
      v_centers (bin_views low high vals lo hi xs) = VList cs /\
      v_entries (bin_views low high vals lo hi xs) = VList en /\
      0 <= n /\ List.length es = (Z.to_nat n + 1)%nat /\
      List.length cs = Z.to_nat n /\ List.length en = Z.to_nat n.
  Proof.
    intro Hlt. unfold bin_views.
    destruct lo as [l|], hi as [h|];
      try (rewrite Hlt; destruct (bin_range low high vals _ _) as [mn mx];
           exists (Z.max 0 (mx - mn + 1)); do 3 eexists; cbn [v_num v_edges v_centers v_entries];
           repeat split; try reflexivity;
           [ lia
           | rewrite length_linspace; f_equal; lia
           | rewrite map_length, length_zrange; lia
           | rewrite map_length, length_zrange; lia ]).
    cbn [v_num v_edges v_centers v_entries].
    exists (Z.of_nat (List.length vals)). do 3 eexists. repeat split; try reflexivity.
    - lia.
    - rewrite length_linspace. f_equal. lia.
    - rewrite map_length, length_zrange. f_equal. lia.
    - rewrite map_length. lia.
  Qed.

  (* SparselyBin, whenever the range is not empty-negative (the queried range reaches the filled
     bins) *)
  Theorem sparse_shapes (bw origin : T) (sp : list (key * agg)) lo hi xs :
    lt_opt lo hi = false ->
    let '(mn, mx, n, le_, re_) := sbin_range bw origin sp lo hi in
    0 <= n ->
    exists es cs en,
      v_num (sparse_views bw origin sp lo hi xs) = VInt n /\
      v_edges (sparse_views bw origin sp lo hi xs) = VList es /\
      v_centers (sparse_views bw origin sp lo hi xs) = VList cs /\
      v_entries (sparse_views bw origin sp lo hi xs) = VList en /\
      List.length es = (Z.to_nat n + 1)%nat /\
      List.length cs = Z.to_nat n /\ List.length en = Z.to_nat n.
  Proof.
    intro Hlt. unfold sparse_views. rewrite Hlt.
    destruct (sbin_range bw origin sp lo hi) as [[[[mn mx] n] le_] re_] eqn:E.
    intro Hn. assert (Hn' : (n <? 0) = false) by (apply Z.ltb_ge; exact Hn).
    cbn [v_num v_edges v_centers v_entries]. rewrite Hn'.
    do 3 eexists. repeat split; try reflexivity.
    - rewrite length_linspace. f_equal. lia.
    - rewrite length_midpoints, length_linspace. lia.
    - rewrite map_length, length_zrange.
      (* n = mx + 1 - mn by construction *)
      unfold sbin_range in E. destruct (int_keys sp) as [|k0 ks].
      + injection E as <- <- <- _ _. reflexivity.
      + injection E as <- <- <- _ _. reflexivity.
  Qed.

  (* ---- the views use the very index fill routes with ---- *)
  Theorem bin_route_agrees (low high : T) (vals flows : list agg) (x w : T) :
    List.length flows = 3%nat ->
    nisnan x = false -> (x <? low)%num = false -> (high <=? x)%num = false ->
    0 <= bin_index low high vals x ->
    route (KBin low high) (List.length (vals ++ flows)) (VNum x) w =
    RTo (only (List.length (vals ++ flows)) (Z.to_nat (bin_index low high vals x)) w) None.
  Proof.
    intros Hf Hn Hl Hh Hi. unfold route, bin_index in *. cbn [as_real].
    rewrite app_length, Hf. replace (List.length vals + 3 - 3)%nat with (List.length vals) by lia.
    rewrite Hn, Hl, Hh in *. cbn [orb] in Hi.
    destruct (nfloor (nofZ (Z.of_nat (List.length vals)) * (x - low) / (high - low))%num) as [i0|]; [|lia].
    set (i := Z.min i0 (Z.of_nat (List.length vals) - 1)) in *.
    assert (E1 : (i <? 0) = false) by (apply Z.ltb_ge; exact Hi). rewrite E1.
    assert (E2 : ((0 <=? i) && (i <? Z.of_nat (List.length vals))) = true).
    { apply andb_true_iff. split; [apply Z.leb_le; exact Hi | apply Z.ltb_lt; unfold i; lia]. }
    rewrite E2. reflexivity.
  Qed.

  Theorem sparse_route_agrees (bw origin : T) (sp : list (key * agg)) (x w : T) (n : nat) :
    nisnan x = false ->
    match route (KSparse bw origin) n (VNum x) w with
    | RTo _ (Some (KInt b, _)) => b = sbin_index bw origin x
    | RTo _ _ => False
    | RErr => nfloor ((x - origin) / bw)%num = None
    end.
  Proof.
    intro Hn. unfold route, sbin_index. cbn [as_real]. change zmax63 with long_max.
    destruct (nisnan x); [discriminate|].
    destruct ((x - origin) / bw <=? nofZ (- long_max))%num; [reflexivity|].
    destruct (nofZ long_max <=? (x - origin) / bw)%num; [reflexivity|].
    destruct (nfloor ((x - origin) / bw)%num); reflexivity.
  Qed.

  Lemma central_index_cons2 (c0 c1 : T) l x i :
    central_index (c0 :: c1 :: l) x i =
    if (x <? (c0 + c1) / ntwo)%num then i else central_index (c1 :: l) x (S i).
  Proof. reflexivity. Qed.

  Lemma cindex_from_cons2 (c0 c1 : T) l x i g :
    cindex_from i (c0 :: c1 :: l) x g =
    if (if g then (x <? (c0 + c1) / ntwo)%num else (x <=? (c0 + c1) / ntwo)%num) then i
    else cindex_from (i + 1) (c1 :: l) x g.
  Proof. reflexivity. Qed.

  Lemma central_index_cindex (cs : list T) (x : T) : forall i : nat,
    Z.of_nat (central_index cs x i) = cindex_from (Z.of_nat i) cs x true.
  Proof.
    induction cs as [|c0 cs IH]; intro i; [reflexivity|].
    destruct cs as [|c1 cs']; [reflexivity|].
    rewrite central_index_cons2, cindex_from_cons2.
    destruct (x <? (c0 + c1) / ntwo)%num; [reflexivity|].
    rewrite IH. f_equal. lia.
  Qed.

  Theorem central_route_agrees (cs : list T) (x w : T) (n : nat) :
    nisnan x = false ->
    route (KCentral cs) n (VNum x) w = RTo (only n (Z.to_nat (cindex cs x true)) w) None.
  Proof.
    intro Hn. unfold route, cindex. cbn [as_real]. rewrite Hn.
    change 0 with (Z.of_nat 0). rewrite <- (central_index_cindex cs x 0). rewrite Nat2Z.id. reflexivity.
  Qed.
End Shapes.
