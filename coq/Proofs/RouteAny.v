(* C05, every arithmetic instance (binary64 included): whenever the routing of a partition
   primitive succeeds, the datum is handed, with its whole weight, to exactly one slot - one fixed
   child (bin / flow) or one sparse key - and to no other.  Nothing here depends on the arithmetic:
   the statement holds however the comparisons, the division and floor of the instance behave,
   hence for every double including NaN, +-inf and the neighbours of every edge.
   What is NOT proved for binary64 is totality (that the routing of a finite in-range double never
   raises); that half is decided by the bit-exact correspondence and the +-ulp edge probes. *)
From Coq Require Import ZArith List String Bool Lia.
From Hgm Require Import NumOps Agg Ops.
Import ListNotations.

Section RouteAny.
  Context {N : num_ops}.
  Notation T := (T N).

  Definition one_slot (n : nat) (w : T) (ws : list (option T)) : Prop :=
    exists i, (i < n)%nat /\ ws = only n i w.

  Definition no_slot (n : nat) (ws : list (option T)) : Prop :=
    ws = map (fun _ => @None T) (seq 0 n).

  Lemma central_index_bound_any (cs : list T) x : forall i,
    cs <> [] -> (central_index cs x i < i + List.length cs)%nat.
  Proof.
    induction cs as [|c1 cs IH]; intros i H; [congruence|].
    cbn [central_index]. destruct cs as [|c2 cs]; [simpl; lia|].
    destruct (nltb x _); [simpl; lia|].
    assert (H0 : c2 :: cs <> []) by discriminate.
    specialize (IH (S i) H0). cbn [List.length] in *. lia.
  Qed.

  Lemma irr_index_bound_any (ths : list T) x : forall i j,
    irr_index ths x i = Some j -> (i <= j < i + List.length ths)%nat.
  Proof.
    induction ths as [|t ths IH]; intros i j; cbn [irr_index]; [discriminate|].
    destruct (_ && _)%bool.
    - intro E; inversion E; subst. simpl; lia.
    - intro E. apply IH in E. simpl. lia.
  Qed.

  (* the slots of [only n i w]: position i holds the weight, every other position nothing *)
  Lemma only_nth n i (w : T) j : (j < n)%nat ->
    nth j (only n i w) None = if Nat.eqb j i then Some w else None.
  Proof.
    intro H. unfold only.
    set (f := fun j0 : nat => if Nat.eqb j0 i then Some w else None).
    rewrite (nth_indep _ None (f 0%nat)) by (rewrite map_length, seq_length; exact H).
    rewrite map_nth. rewrite seq_nth by exact H. reflexivity.
  Qed.

  Lemma only_length_any n i (w : T) : List.length (only n i w) = n.
  Proof. unfold only. rewrite map_length, seq_length. reflexivity. Qed.

  Theorem route_one_slot_any (k : nodekind N) n v w ws sk :
    route k n v w = RTo ws sk ->
    match k with
    | KBin _ _ => (3 <= n)%nat -> sk = None /\ one_slot n w ws
    | KSparse _ _ => n = 1%nat ->
        (sk = None /\ one_slot n w ws) \/ (exists b, sk = Some (KInt b, w) /\ no_slot n ws)
    | KCentral cs => n = S (List.length cs) -> cs <> [] -> sk = None /\ one_slot n w ws
    | KIrr ths => n = S (List.length ths) -> sk = None /\ (one_slot n w ws \/ no_slot n ws)
    | KCat => n = 0%nat -> exists k1, sk = Some (k1, w) /\ no_slot n ws
    | _ => True
    end.
  Proof.
    destruct k; cbn [route]; try (intros _; exact I).
    - (* Bin *)
      destruct (as_real v) as [x|]; [|discriminate].
      intros E Hn.
      assert (G : forall i, (i < n)%nat -> @None (key * T) = None /\ one_slot n w (only n i w)).
      { intros i Hi. split; [reflexivity|]. exists i. split; [exact Hi|reflexivity]. }
      destruct (nisnan x). { inversion E; subst. apply G. lia. }
      destruct (nltb x low). { inversion E; subst. apply G. lia. }
      destruct (nleb high x). { inversion E; subst. apply G. lia. }
      destruct (nfloor _) as [i|]; [|discriminate].
      match type of E with context [if ?c then _ else _] => destruct c eqn:Ec end; [|discriminate].
      inversion E; subst. apply G.
      apply andb_true_iff in Ec. destruct Ec as [E1 E2]. apply Z.leb_le in E1. apply Z.ltb_lt in E2. lia.
    - (* SparselyBin *)
      destruct (as_real v) as [x|]; [|discriminate].
      intros E Hn. subst n.
      destruct (nisnan x).
      { inversion E; subst. left. split; [reflexivity|]. exists 0%nat. split; [lia|reflexivity]. }
      destruct (nleb _ _). { inversion E; subst. right. eexists; split; reflexivity. }
      destruct (nleb _ _). { inversion E; subst. right. eexists; split; reflexivity. }
      destruct (nfloor _); [|discriminate]. inversion E; subst. right. eexists; split; reflexivity.
    - (* CentrallyBin *)
      destruct (as_real v) as [x|]; [|discriminate].
      intros E Hn Hc.
      destruct (nisnan x); inversion E; subst; (split; [reflexivity|]); eexists; (split; [|reflexivity]).
      + lia.
      + eapply Nat.lt_le_trans; [apply central_index_bound_any; exact Hc | simpl; lia].
    - (* IrregularlyBin *)
      destruct (as_real v) as [x|]; [|discriminate].
      intros E Hn.
      destruct (nisnan x).
      { inversion E; subst. split; [reflexivity|]. left. eexists; split; [|reflexivity]. lia. }
      destruct (irr_index ths x 0) as [i|] eqn:Ei.
      + inversion E; subst. split; [reflexivity|]. left. exists i. split; [|reflexivity].
        apply irr_index_bound_any in Ei. simpl in Ei. lia.
      + inversion E; subst. split; [reflexivity|]. right. reflexivity.
    - (* Categorize *)
      intros E Hn. subst n.
      destruct v as [x|s|b| |l].
      + destruct (nisnan x); [|discriminate]. inversion E; subst. eexists; split; reflexivity.
      + inversion E; subst. eexists; split; reflexivity.
      + inversion E; subst. eexists; split; reflexivity.
      + inversion E; subst. eexists; split; reflexivity.
      + discriminate.
  Qed.

  (* "exactly one": a one-slot weight list holds the weight at one position and nothing anywhere
     else, so no second bin (e.g. the last bin and the overflow) can receive the datum too *)
  Theorem one_slot_exactly n (w : T) ws : one_slot n w ws ->
    List.length ws = n /\
    exists i, (i < n)%nat /\ nth i ws None = Some w /\
              forall j, (j < n)%nat -> j <> i -> nth j ws None = None.
  Proof.
    intros (i & Hi & ->). split; [apply only_length_any|].
    exists i. split; [exact Hi|]. split.
    - rewrite only_nth by exact Hi. rewrite Nat.eqb_refl. reflexivity.
    - intros j Hj Hne. rewrite only_nth by exact Hj.
      destruct (Nat.eqb_spec j i); [contradiction|reflexivity].
  Qed.
End RouteAny.
