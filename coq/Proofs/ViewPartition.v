(* C13, exact instance: the bin a value is filled into is the one whose edges contain it. *)
From Coq Require Import ZArith List Bool Lia QArith Qcanon Qround Lqa Psatz.
From Hgm Require Import NumOps Xq Agg Ops Views XqFacts ViewFacts.
Import ListNotations.
Local Open Scope Qc_scope.

Notation xagg := (agg Xq).

Definition zq (z : Z) : Qc := Q2Qc (inject_Z z).

(* the real number behind bin(): num * (q - l) / (h - l) *)
Definition soft (num : Z) (l h q : Qc) : Qc := zq num * (q - l) / (h - l).

Lemma this_zq z : (this (zq z) == inject_Z z)%Q.
Proof. unfold zq. cbn [this Q2Qc]. apply Qred_correct. Qed.

Lemma bin_index_exact (l h q : Qc) (vals : list xagg) :
  l < h -> l <= q -> q < h ->
  bin_index (N:=Xq) (XF l) (XF h) vals (XF q) =
  Z.min (Qfloor (soft (Z.of_nat (List.length vals)) l h q)) (Z.of_nat (List.length vals) - 1).
Proof.
  intros Hlh Hlq Hqh. unfold bin_index.
  change (@nisnan Xq (XF q)) with false. cbn [orb].
  assert (E1 : @nltb Xq (XF q) (XF l) = false).
  { cbn. qc_cmp_cases q l; try reflexivity. exfalso. apply (Qclt_not_le _ _ Hc). exact Hlq. }
  assert (E2 : @nleb Xq (XF h) (XF q) = false).
  { cbn. unfold xleb, xltb, xeqb. qc_cmp_cases h q; try reflexivity.
    - subst. exfalso. apply (Qclt_not_le _ _ Hqh). apply Qcle_refl.
    - exfalso. apply (Qclt_not_le _ _ Hc). apply Qclt_le_weak. exact Hqh. }
  rewrite E1, E2. cbn [orb].
  assert (Hs : qsgn (h + - l) = Gt).
  { apply qsgn_pos. qc2q. simpl in *. lra. }
  cbn [nfloor nofZ nmul nsub ndiv Xq xofZ xsub xneg xadd xmul xdiv xfloor]. rewrite Hs.
  reflexivity.
Qed.

(* k <= soft < k + 1 and the clamp give the partition *)
Theorem bin_partition (l h q : Qc) (vals : list xagg) :
  l < h -> vals <> [] -> l <= q -> q < h ->
  let num := Z.of_nat (List.length vals) in
  let k := bin_index (N:=Xq) (XF l) (XF h) vals (XF q) in
  let step := (h - l) / zq num in
  (0 <= k < num)%Z /\
  l + zq k * step <= q /\
  ((k + 1 < num)%Z -> q < l + zq (k + 1) * step) /\
  ((k + 1 = num)%Z -> q < h).
Proof.
  intros Hlh Hne Hlq Hqh num k step.
  assert (Hnum : (0 < num)%Z).
  { unfold num. destruct vals; [congruence|]. cbn [List.length]. lia. }
  unfold k. rewrite (bin_index_exact l h q vals Hlh Hlq Hqh). fold num.
  set (y := soft num l h q).
  pose proof (Qfloor_le y) as F1. pose proof (Qlt_floor y) as F2.
  assert (Y : (this y == inject_Z num * (this q - this l) / (this h - this l))%Q).
  { unfold y, soft. unfold Qcdiv, Qcmult, Qcminus, Qcplus, Qcopp, Qcinv. cbn [this Q2Qc].
    rewrite !Qred_correct. rewrite this_zq. reflexivity. }
  assert (Hd : (0 < this h - this l)%Q) by (clear -Hlh; qc2q; simpl in *; lra).
  assert (Hy0 : (0 <= this y)%Q).
  { rewrite Y. apply Qle_shift_div_l; [exact Hd|]. rewrite Qmult_0_l.
    apply Qmult_le_0_compat; [change 0%Q with (inject_Z 0); rewrite <- Zle_Qle; lia|].
    clear -Hlq. qc2q. simpl in *. lra. }
  assert (Hf0 : (0 <= Qfloor y)%Z).
  { change 0%Z with (Qfloor 0). apply Qfloor_resp_le. exact Hy0. }
  assert (Hn : (0 < inject_Z num)%Q) by (change 0%Q with (inject_Z 0); rewrite <- Zlt_Qlt; exact Hnum).
  split; [lia|].
  (* q - l = y * (h - l) / num *)
  assert (Hq : (this q - this l == this y * ((this h - this l) / inject_Z num))%Q).
  { rewrite Y. field. split; lra. }
  assert (Hstep : (0 < (this h - this l) / inject_Z num)%Q).
  { apply Qlt_shift_div_l; [exact Hn|]. rewrite Qmult_0_l. exact Hd. }
  assert (St : forall z : Z, (this (l + zq z * step) == this l + inject_Z z * ((this h - this l) / inject_Z num))%Q).
  { intro z. unfold step. unfold Qcdiv, Qcmult, Qcminus, Qcplus, Qcopp, Qcinv. cbn [this Q2Qc].
    rewrite !Qred_correct. rewrite !this_zq. reflexivity. }
  split; [|split].
  - (* lower edge *)
    unfold Qcle. rewrite St.
    set (m := Z.min (Qfloor y) (num - 1)).
    assert (Hm : (inject_Z m <= this y)%Q).
    { eapply Qle_trans; [|exact F1]. rewrite <- Zle_Qle. unfold m. lia. }
    assert ((inject_Z m * ((this h - this l) / inject_Z num) <= this q - this l)%Q).
    { rewrite Hq. apply Qmult_le_compat_r; [exact Hm | apply Qlt_le_weak; exact Hstep]. }
    lra.
  - (* upper edge, inner bins *)
    intro Hk. unfold Qclt. rewrite St.
    assert (Hm : Z.min (Qfloor y) (num - 1) = Qfloor y) by lia. rewrite Hm.
    assert ((this q - this l < inject_Z (Qfloor y + 1) * ((this h - this l) / inject_Z num))%Q).
    { rewrite Hq. apply Qmult_lt_compat_r; [exact Hstep | exact F2]. }
    lra.
  - intros _. exact Hqh.
Qed.

(* ---- SparselyBin: bin k = floor((x - origin) / width) covers [origin + k*width, origin + (k+1)*width) ---- *)
Definition ssoft (bw o q : Qc) : Qc := (q - o) / bw.

Theorem sparse_partition (bw o q : Qc) (k : Z) :
  0 < bw -> k = Qfloor (ssoft bw o q) ->
  o + zq k * bw <= q /\ q < o + zq (k + 1) * bw.
Proof.
  intros Hb Hk.
  set (y := ssoft bw o q) in *.
  assert (F1 : (inject_Z k <= this y)%Q) by (rewrite Hk; apply Qfloor_le).
  assert (F2 : (this y < inject_Z (k + 1))%Q) by (rewrite Hk; apply Qlt_floor).
  assert (Hb' : (0 < this bw)%Q) by (clear -Hb; qc2q; simpl in *; lra).
  assert (Y : (this y == (this q - this o) / this bw)%Q).
  { unfold y, ssoft. unfold Qcdiv, Qcmult, Qcminus, Qcplus, Qcopp, Qcinv. cbn [this Q2Qc].
    rewrite !Qred_correct. reflexivity. }
  assert (Hq : (this q - this o == this y * this bw)%Q).
  { rewrite Y. field. lra. }
  assert (St : forall z : Z, (this (o + zq z * bw) == this o + inject_Z z * this bw)%Q).
  { intro z. unfold Qcmult, Qcplus. cbn [this Q2Qc]. rewrite !Qred_correct. rewrite this_zq. reflexivity. }
  split.
  - unfold Qcle. rewrite St.
    assert ((inject_Z k * this bw <= this q - this o)%Q).
    { rewrite Hq. apply Qmult_le_compat_r; [exact F1 | apply Qlt_le_weak; exact Hb']. }
    lra.
  - unfold Qclt. rewrite St.
    assert ((this q - this o < inject_Z (k + 1) * this bw)%Q).
    { rewrite Hq. apply Qmult_lt_compat_r; [exact Hb' | exact F2]. }
    lra.
Qed.

(* the index the views and fill use is that floor, when it does not saturate *)
Lemma sbin_index_exact (bw o q : Qc) :
  0 < bw ->
  zq (- zmax63) < ssoft bw o q -> ssoft bw o q < zq zmax63 ->
  sbin_index (N:=Xq) (XF bw) (XF o) (XF q) = Qfloor (ssoft bw o q).
Proof.
  intros Hb Hlo Hhi. set (y := ssoft bw o q) in *. unfold sbin_index.
  assert (Hs : qsgn bw = Gt) by (apply qsgn_pos; exact Hb).
  cbn [nsub ndiv nleb nofZ nfloor Xq xsub xneg xadd xdiv xofZ xfloor]. rewrite Hs.
  change (Q2Qc (inject_Z (- zmax63))) with (zq (- zmax63)).
  change (Q2Qc (inject_Z zmax63)) with (zq zmax63).
  change ((q + - o) / bw) with y.
  assert (E1 : xleb (XF y) (XF (zq (- zmax63))) = false).
  { unfold xleb, xltb, xeqb. qc_cmp_cases y (zq (- zmax63)); try reflexivity.
    - exfalso. rewrite Hc in Hlo. apply (Qclt_not_le _ _ Hlo). apply Qcle_refl.
    - exfalso. apply (Qclt_not_le _ _ Hlo). apply Qclt_le_weak. exact Hc. }
  assert (E2 : xleb (XF (zq zmax63)) (XF y) = false).
  { unfold xleb, xltb, xeqb. qc_cmp_cases (zq zmax63) y; try reflexivity.
    - exfalso. rewrite <- Hc in Hhi. apply (Qclt_not_le _ _ Hhi). apply Qcle_refl.
    - exfalso. apply (Qclt_not_le _ _ Hhi). apply Qclt_le_weak. exact Hc. }
  change (xofZ (- zmax63)) with (XF (zq (- zmax63))). change (xofZ zmax63) with (XF (zq zmax63)).
  rewrite E1, E2. reflexivity.
Qed.
