(* JSON layer: toJson / Factory.fromJson of every primitive, field by field as coded. *)
From Coq Require Import ZArith List String Ascii Bool.
From Hgm Require Import NumOps Agg Ops Build Snap.
Import ListNotations.
Local Open Scope string_scope.
Local Open Scope num_scope.

Section Json.
  Context {N : num_ops}.
  Notation T := (T N).
  Notation agg := (agg N).
  Notation quantity := (quantity N).

  Inductive json :=
  | JNull | JBool (b : bool) | JNum (x : T) | JStr (s : string)
  | JArr (l : list json) | JObj (kvs : list (string * json)).

  (* ---------- helpers ---------- *)
  Definition fnum (x : T) : json :=            (* util.floatToJson *)
    if nisnan x then JStr "nan"
    else if nisinf x then (if nzero <? x then JStr "inf" else JStr "-inf")
    else JNum x.

  Fixpoint jget (k : string) (o : list (string * json)) : option json :=
    match o with
    | [] => None
    | (k', v) :: o' => if String.eqb k k' then Some v else jget k o'
    end.

  Fixpoint mem_str (k : string) (l : list string) : bool :=
    match l with [] => false | x :: l' => String.eqb k x || mem_str k l' end.

  (* util.hasKeys(test, required, optional) *)
  Definition has_keys (o : list (string * json)) (req opt : list string) : bool :=
    forallb (fun r => mem_str r (map fst o)) req &&
    forallb (fun kv => mem_str (fst kv) req || mem_str (fst kv) opt) o.

  (* x in ("nan","inf","-inf") or isinstance(x, numbers.Real)  -> float(x); bools are Reals *)
  Definition jnum (j : json) : option T :=
    match j with
    | JNum x => Some x
    | JBool true => Some none
    | JBool false => Some nzero
    | JStr s => if String.eqb s "nan" then Some nnan
                else if String.eqb s "inf" then Some npinf
                else if String.eqb s "-inf" then Some nninf else None
    | _ => None
    end.

  (* optional name: a string, or absent/null; anything else is a format error *)
  Inductive nameres := NmOk (n : option string) | NmErr.
  Definition jname (k : string) (o : list (string * json)) : nameres :=
    match jget k o with
    | Some (JStr s) => NmOk (Some s)
    | Some JNull | None => NmOk None
    | Some _ => NmErr
    end.

  Definition maybe_add (o : list (string * json)) (k : string) (v : option string) :=
    match v with Some s => (o ++ [(k, JStr s)])%list | None => o end.

  Definition qname_of (a : agg) : option string :=
    match a with
    | Leaf (LCount _) _ _ => None
    | Leaf _ q _ => qname q
    | Node k q _ _ _ _ _ => if has_quantity k then qname q else None
    end.

  Definition frozen_q (name : option string) : quantity :=
    {| qname := name; qid := 0; qfn := fun _ => QRaise |}.

  Definition tok_bag (r : brange) (k : bagkey N) : json :=
    match k with
    | BNum x => fnum x | BNan => JStr "nan" | BStr s => JStr s
    | BVec l => JArr (map (fun c => match c with Some x => fnum x | None => JStr "nan" end) l)
    end.

  (* "S", "N", "N<digits>" *)
  Definition range_str (r : brange) : string :=
    match r with RS => "S" | RN => "N" | RV n => String "N" (Snap.z_str (Z.of_nat n)) end.

  Definition key_str (k : key) : string :=
    match k with
    | KStr s => s
    | KBool true => "True"
    | KBool false => "False"
    | KInt z => Snap.z_str z
    end.

  (* ---------- toJsonFragment ---------- *)
  Fixpoint to_frag (a : agg) (suppress : bool) {struct a} : json :=
    let nm (q : quantity) := if suppress then None else qname q in
    match a with
    | Leaf k q s =>
        match k with
        | LCount _ => fnum (le s)
        | LSum => JObj (maybe_add [("entries", fnum (le s)); ("sum", fnum (l1 s))] "name" (nm q))
        | LAverage => JObj (maybe_add [("entries", fnum (le s)); ("mean", fnum (l1 s))] "name" (nm q))
        | LDeviate =>
            let var := if le s =? nzero then l2 s else l2 s / le s in
            JObj (maybe_add [("entries", fnum (le s)); ("mean", fnum (l1 s)); ("variance", fnum var)]
                            "name" (nm q))
        | LMin => JObj (maybe_add [("entries", fnum (le s)); ("min", fnum (l1 s))] "name" (nm q))
        | LMax => JObj (maybe_add [("entries", fnum (le s)); ("max", fnum (l1 s))] "name" (nm q))
        | LBag r =>
            JObj (maybe_add
                    [("entries", fnum (le s));
                     ("values", JArr (map (fun kc => JObj [("w", fnum (snd kc)); ("v", tok_bag r (fst kc))])
                                          (lv s)));
                     ("range", JStr (range_str r))]
                    "name" (nm q))
        end
    | Node k q e fx sp tm ct =>
        let kids := map (fun c => to_frag c true) fx in
        let first_name := match fx with c :: _ => qname_of c | [] => None end in
        let first_type := match fx with c :: _ => type_name c | [] => "" end in
        let kidsF := map (fun c => to_frag c false) fx in
        let nth_frag (i : nat) (sup : bool) := nth i (if sup then kids else kidsF) JNull in
        let nth_type (i : nat) := nth i (map (@type_name N) fx) "" in
        match k with
        | KBin low high =>
            let num := (List.length fx - 3)%nat in
            JObj (maybe_add (maybe_add
              [("low", fnum low); ("high", fnum high); ("entries", fnum e);
               ("values:type", JStr first_type); ("values", JArr (firstn num kids));
               ("underflow:type", JStr (nth_type num)); ("underflow", nth_frag num false);
               ("overflow:type", JStr (nth_type (num + 1)%nat)); ("overflow", nth_frag (num + 1)%nat false);
               ("nanflow:type", JStr (nth_type (num + 2)%nat)); ("nanflow", nth_frag (num + 2)%nat false)]
              "name" (nm q)) "values:name" first_name)
        | KSparse bw origin =>
            let bname := match tm with
                         | Some t => qname_of t
                         | None => match sp with (_, c) :: _ => qname_of c | [] => None end
                         end in
            let btype := match sp with
                         | (_, c) :: _ => type_name c
                         | [] => match tm with Some t => type_name t | None => ct end
                         end in
            JObj (maybe_add (maybe_add
              [("binWidth", fnum bw); ("entries", fnum e); ("bins:type", JStr btype);
               ("bins", JObj (map (fun kc => (key_str (fst kc), to_frag (snd kc) true)) sp));
               ("nanflow:type", JStr (nth_type 0)); ("nanflow", nth_frag 0 false);
               ("origin", JNum origin)]
              "name" (nm q)) "bins:name" bname)
        | KCentral cs =>
            let n := List.length cs in
            JObj (maybe_add (maybe_add
              [("entries", fnum e); ("bins:type", JStr first_type);
               ("bins", JArr (map (fun cd => JObj [("center", fnum (fst cd)); ("data", snd cd)])
                                  (combine cs (firstn n kids))));
               ("nanflow:type", JStr (nth_type n)); ("nanflow", nth_frag n false)]
              "name" (nm q)) "bins:name" first_name)
        | KIrr ts | KStack ts =>
            let n := List.length ts in
            JObj (maybe_add (maybe_add
              [("entries", fnum e); ("bins:type", JStr first_type);
               ("bins", JArr (map (fun cd => JObj [("atleast", fnum (fst cd)); ("data", snd cd)])
                                  (combine ts (firstn n kids))));
               ("nanflow:type", JStr (nth_type n)); ("nanflow", nth_frag n false)]
              "name" (nm q)) "bins:name" first_name)
        | KFraction =>
            (* fixed = [denominator; numerator] *)
            let num_name := nth 1 (map qname_of fx) None in
            JObj (maybe_add (maybe_add
              [("entries", fnum e); ("sub:type", JStr (nth_type 1));
               ("numerator", nth_frag 1 true); ("denominator", nth_frag 0 true)]
              "name" (nm q)) "sub:name" num_name)
        | KSelect =>
            JObj (maybe_add [("entries", fnum e); ("sub:type", JStr first_type); ("data", nth_frag 0 false)]
                            "name" (nm q))
        | KCat =>
            let bname := match tm with
                         | Some t => qname_of t
                         | None => match sp with (_, c) :: _ => qname_of c | [] => None end
                         end in
            let btype := match sp with
                         | (_, c) :: _ => type_name c
                         | [] => match tm with Some t => type_name t | None => ct end
                         end in
            JObj (maybe_add (maybe_add
              [("entries", fnum e); ("bins:type", JStr btype);
               ("bins", JObj (map (fun kc => (key_str (fst kc), to_frag (snd kc) true)) sp))]
              "name" (nm q)) "bins:name" bname)
        | KLabel ks =>
            JObj [("entries", fnum e); ("sub:type", JStr first_type);
                  ("data", JObj (combine ks kidsF))]
        | KULabel ks =>
            JObj [("entries", fnum e);
                  ("data", JObj (combine ks (map (fun c => JObj [("type", JStr (type_name c));
                                                                ("data", to_frag c false)]) fx)))]
        | KIndex =>
            JObj [("entries", fnum e); ("sub:type", JStr first_type);
                  ("data", JArr kidsF)]
        | KBranch =>
            JObj [("entries", fnum e);
                  ("data", JArr (map (fun c => JObj [("type", JStr (type_name c));
                                                     ("data", to_frag c false)]) fx))]
        end
    end.

  (* ---------- fromJsonFragment ---------- *)
  Definition names : list string :=
    ["Count"; "Sum"; "Average"; "Deviate"; "Minimize"; "Maximize"; "Bag"; "Bin"; "SparselyBin";
     "CentrallyBin"; "IrregularlyBin"; "Stack"; "Fraction"; "Select"; "Categorize"; "Label";
     "UntypedLabel"; "Index"; "Branch"].

  Definition registered (s : string) : bool := mem_str s names.

  Definition entries_ok (e : T) : bool := negb (e <? nzero).     (* ed(): entries < 0 raises *)

  Fixpoint all_ok {A} (l : list (res A)) : res (list A) :=
    match l with
    | [] => Ok []
    | Ok x :: l' => match all_ok l' with Ok xs => Ok (x :: xs) | Err => Err end
    | Err :: _ => Err
    end.

  (* int(i) of a JSON object key: an optional sign and decimal digits *)
  Fixpoint digits (s : string) (acc : Z) : option Z :=
    match s with
    | EmptyString => Some acc
    | String c s' =>
        let n := N_of_ascii c in
        if ((48 <=? n) && (n <=? 57))%N then digits s' (acc * 10 + Z.of_N (n - 48)) else None
    end.
  Definition parse_int (s : string) : option Z :=
    match s with
    | EmptyString => None
    | String "-" ((String _ _) as r) => option_map Z.opp (digits r 0)
    | String "+" ((String _ _) as r) => digits r 0
    | _ => digits s 0
    end.

  Definition range_of (r : string) : option brange :=
    if String.eqb r "S" then Some RS
    else if String.eqb r "N" then Some RN
    else match r with
         | String "N" ((String _ _) as ds) =>
             match digits ds 0 with Some z => Some (RV (Z.to_nat z)) | None => None end
         | _ => None
         end.

  Definition bag_key_of (r : string) (j : json) : option (bagkey N) :=
    (* Bag.fromJsonFragment reads each value according to the declared range *)
    if String.eqb r "S" then match j with JStr s => Some (BStr s) | _ => None end
    else if String.eqb r "N" then
      match jnum j with
      | Some x => Some (if nisnan x then BNan else BNum x)
      | None => None
      end
    else
      match range_of r, j with
      | Some (RV n), JArr comps =>
          if Nat.eqb (List.length comps) n then
            option_map (fun l => BVec l)
              (fold_right (fun c acc => match jnum c, acc with
                                        | Some x, Some l => Some ((if nisnan x then None else Some x) :: l)
                                        | _, _ => None
                                        end) (Some []) comps)
          else None
      | _, _ => None
      end.

  Definition leaf_of (k : leafkind) (name : option string) (e m v : T) (vals : list (bagkey N * T)) : agg :=
    Leaf k (frozen_q name) {| le := e; l1 := m; l2 := v; lv := vals |}.

  Definition pick_name (own parent : option string) : option string :=
    match own with Some s => Some s | None => parent end.

  Fixpoint from_frag (fuel : nat) (ty : string) (j : json) (parent : option string) {struct fuel}
    : res agg :=
    match fuel with
    | O => Err
    | S fuel' =>
      let sub (t : string) (x : json) (pn : option string) := from_frag fuel' t x pn in
      let simple (k : leafkind) (field : string) :=
        match j with
        | JObj o =>
            if has_keys o ["entries"; field] ["name"] then
              match jget "entries" o, jname "name" o, jget field o with
              | Some je, NmOk nm, Some jf =>
                  match jnum je, jnum jf with
                  | Some e, Some m =>
                      if entries_ok e then Ok (leaf_of k (pick_name nm parent) e m nzero []) else Err
                  | _, _ => Err
                  end
              | _, _, _ => Err
              end
            else Err
        | _ => Err
        end in
      if String.eqb ty "Count" then
        match jnum j with
        | Some e => if entries_ok e then Ok (leaf_of (LCount TId) None e nzero nzero []) else Err
        | None => Err
        end
      else if String.eqb ty "Sum" then simple LSum "sum"
      else if String.eqb ty "Average" then simple LAverage "mean"
      else if String.eqb ty "Minimize" then simple LMin "min"
      else if String.eqb ty "Maximize" then simple LMax "max"
      else if String.eqb ty "Deviate" then
        match j with
        | JObj o =>
            if has_keys o ["entries"; "mean"; "variance"] ["name"] then
              match jget "entries" o, jname "name" o, jget "mean" o, jget "variance" o with
              | Some je, NmOk nm, Some jm, Some jv =>
                  match jnum je, jnum jm, jnum jv with
                  | Some e, Some m, Some v =>
                      if entries_ok e
                      then Ok (leaf_of LDeviate (pick_name nm parent) e m (v * e) []) else Err
                  | _, _, _ => Err
                  end
              | _, _, _, _ => Err
              end
            else Err
        | _ => Err
        end
      else if String.eqb ty "Bag" then
        match j with
        | JObj o =>
            if has_keys o ["entries"; "values"; "range"] ["name"] then
              match jget "entries" o, jname "name" o, jget "values" o, jget "range" o with
              | Some je, NmOk nm, Some (JArr vs), Some (JStr r) =>
                  match jnum je with
                  | Some e =>
                      let item (x : json) : res (bagkey N * T) :=
                        match x with
                        | JObj p =>
                            if has_keys p ["w"; "v"] [] then
                              match jget "w" p, jget "v" p with
                              | Some jw, Some jv =>
                                  match jnum jw, bag_key_of r jv with
                                  | Some w, Some bk => Ok (bk, w)
                                  | _, _ => Err
                                  end
                              | _, _ => Err
                              end
                            else Err
                        | _ => Err
                        end in
                      match all_ok (map item vs) with
                      | Ok kvs =>
                          let rng := range_of r in
                          match rng with
                          | Some rr =>
                              let vals := fold_left (fun acc kw => sl_upd bag_cmp (fst kw) (fun _ => snd kw) acc)
                                                    kvs [] in
                              (* a value listed twice is a format error *)
                              if entries_ok e && Nat.eqb (List.length vals) (List.length kvs) then
                                Ok (leaf_of (LBag rr) (pick_name nm parent) e nzero nzero vals)
                              else Err
                          | None => Err
                          end
                      | Err => Err
                      end
                  | None => Err
                  end
              | _, _, _, _ => Err
              end
            else Err
        | _ => Err
        end
      else if String.eqb ty "Bin" then
        match j with
        | JObj o =>
            if has_keys o ["low"; "high"; "entries"; "values:type"; "values"; "underflow:type";
                           "underflow"; "overflow:type"; "overflow"; "nanflow:type"; "nanflow"]
                        ["name"; "values:name"] then
              match jget "low" o, jget "high" o, jget "entries" o, jname "name" o,
                    jget "values:type" o, jname "values:name" o, jget "values" o with
              | Some jl, Some jh, Some je, NmOk nm, Some (JStr vt), NmOk vn, Some (JArr vs) =>
                  match jnum jl, jnum jh, jnum je,
                        jget "underflow:type" o, jget "underflow" o,
                        jget "overflow:type" o, jget "overflow" o,
                        jget "nanflow:type" o, jget "nanflow" o with
                  | Some lo, Some hi, Some e, Some (JStr ut), Some ju, Some (JStr ot), Some jo,
                    Some (JStr nt), Some jn =>
                      if registered vt && registered ut && registered ot && registered nt then
                        match all_ok (map (fun x => sub vt x vn) vs),
                              sub ut ju None, sub ot jo None, sub nt jn None with
                        | Ok values, Ok u, Ok ov, Ok nf =>
                            if (hi <=? lo) || negb (entries_ok e) || Nat.eqb (List.length values) 0
                            then Err
                            else Ok (Node (KBin lo hi) (frozen_q (pick_name nm parent)) e
                                          (values ++ [u; ov; nf])%list [] None vt)
                        | _, _, _, _ => Err
                        end
                      else Err
                  | _, _, _, _, _, _, _, _, _ => Err
                  end
              | _, _, _, _, _, _, _ => Err
              end
            else Err
        | _ => Err
        end
      else if String.eqb ty "SparselyBin" then
        match j with
        | JObj o =>
            if has_keys o ["binWidth"; "entries"; "bins:type"; "bins"; "nanflow:type"; "nanflow"; "origin"]
                        ["name"; "bins:name"] then
              match jget "binWidth" o, jget "entries" o, jname "name" o, jget "bins:type" o,
                    jname "bins:name" o, jget "bins" o, jget "nanflow:type" o, jget "nanflow" o,
                    jget "origin" o with
              | Some jb, Some je, NmOk nm, Some (JStr bt), NmOk bn, Some (JObj bins), Some (JStr nt),
                Some jn, Some jo =>
                  match jnum jb, jnum je, jnum jo with
                  | Some bw, Some e, Some org =>
                      if registered bt && registered nt then
                        let item (kv : string * json) : res (key * agg) :=
                          match parse_int (fst kv), sub bt (snd kv) bn with
                          | Some z, Ok c => Ok (KInt z, c)
                          | _, _ => Err
                          end in
                        match all_ok (map item bins), sub nt jn None with
                        | Ok kcs, Ok nf =>
                            let sp := fold_left (fun acc kc => sl_upd key_cmp (fst kc) (fun _ => snd kc) acc)
                                                kcs [] in
                            (* two keys that denote the same index are a format error *)
                            if negb (entries_ok e) || (bw <=? nzero) || nisnan bw
                               || negb (Nat.eqb (List.length sp) (List.length kcs)) then Err
                            else Ok (Node (KSparse bw org) (frozen_q (pick_name nm parent)) e [nf] sp None bt)
                        | _, _ => Err
                        end
                      else Err
                  | _, _, _ => Err
                  end
              | _, _, _, _, _, _, _, _, _ => Err
              end
            else Err
        | _ => Err
        end
      else if String.eqb ty "CentrallyBin" || String.eqb ty "IrregularlyBin" || String.eqb ty "Stack" then
        match j with
        | JObj o =>
            if has_keys o ["entries"; "bins:type"; "bins"; "nanflow:type"; "nanflow"] ["name"; "bins:name"] then
              match jget "entries" o, jname "name" o, jget "bins:type" o, jname "bins:name" o,
                    jget "bins" o, jget "nanflow:type" o, jget "nanflow" o with
              | Some je, NmOk nm, Some (JStr bt), NmOk bn, Some (JArr bs), Some (JStr nt), Some jn =>
                  match jnum je with
                  | Some e =>
                      if registered bt && registered nt then
                        let fld := if String.eqb ty "CentrallyBin" then "center" else "atleast" in
                        let item (x : json) : res (T * agg) :=
                          match x with
                          | JObj p =>
                              if has_keys p [fld; "data"] [] then
                                match jget fld p, jget "data" p with
                                | Some jc, Some jd =>
                                    match jnum jc, sub bt jd bn with
                                    | Some c, Ok a => Ok (c, a)
                                    | _, _ => Err
                                    end
                                | _, _ => Err
                                end
                              else Err
                          | _ => Err
                          end in
                        match all_ok (map item bs), sub nt jn None with
                        | Ok cas, Ok nf =>
                            if negb (entries_ok e) then Err
                            (* CentrallyBin.__init__ demands two centers; IrregularlyBin/Stack.ed
                               index bins[0] *)
                            else if (if String.eqb ty "CentrallyBin" then Nat.ltb (List.length cas) 2
                                     else Nat.eqb (List.length cas) 0) then Err
                            else
                              let k := if String.eqb ty "CentrallyBin" then KCentral (map fst cas)
                                       else if String.eqb ty "IrregularlyBin" then KIrr (map fst cas)
                                       else KStack (map fst cas) in
                              Ok (Node k (frozen_q (pick_name nm parent)) e (map snd cas ++ [nf])%list [] None bt)
                        | _, _ => Err
                        end
                      else Err
                  | None => Err
                  end
              | _, _, _, _, _, _, _ => Err
              end
            else Err
        | _ => Err
        end
      else if String.eqb ty "Fraction" then
        match j with
        | JObj o =>
            if has_keys o ["entries"; "sub:type"; "numerator"; "denominator"] ["name"; "sub:name"] then
              match jget "entries" o, jname "name" o, jget "sub:type" o, jname "sub:name" o,
                    jget "numerator" o, jget "denominator" o with
              | Some je, NmOk nm, Some (JStr st), NmOk sn, Some jn, Some jd =>
                  match jnum je with
                  | Some e =>
                      if registered st then
                        match sub st jn sn, sub st jd sn with
                        | Ok nu, Ok de =>
                            if entries_ok e
                            then Ok (Node KFraction (frozen_q (pick_name nm parent)) e [de; nu] [] None st)
                            else Err
                        | _, _ => Err
                        end
                      else Err
                  | None => Err
                  end
              | _, _, _, _, _, _ => Err
              end
            else Err
        | _ => Err
        end
      else if String.eqb ty "Select" then
        match j with
        | JObj o =>
            if has_keys o ["entries"; "sub:type"; "data"] ["name"] then
              match jget "entries" o, jname "name" o, jget "sub:type" o, jget "data" o with
              | Some je, NmOk nm, Some (JStr st), Some jd =>
                  match jnum je with
                  | Some e =>
                      if registered st then
                        match sub st jd None with
                        | Ok c =>
                            if entries_ok e
                            then Ok (Node KSelect (frozen_q (pick_name nm parent)) e [c] [] None st)
                            else Err
                        | Err => Err
                        end
                      else Err
                  | None => Err
                  end
              | _, _, _, _ => Err
              end
            else Err
        | _ => Err
        end
      else if String.eqb ty "Categorize" then
        match j with
        | JObj o =>
            if has_keys o ["entries"; "bins:type"; "bins"] ["name"; "bins:name"] then
              match jget "entries" o, jname "name" o, jget "bins:type" o, jname "bins:name" o, jget "bins" o with
              | Some je, NmOk nm, Some (JStr bt), NmOk bn, Some (JObj bins) =>
                  match jnum je with
                  | Some e =>
                      if registered bt then
                        let item (kv : string * json) : res (key * agg) :=
                          match sub bt (snd kv) bn with Ok c => Ok (KStr (fst kv), c) | Err => Err end in
                        match all_ok (map item bins) with
                        | Ok kcs =>
                            if entries_ok e
                            then Ok (Node KCat (frozen_q (pick_name nm parent)) e []
                                          (fold_left (fun acc kc => sl_upd key_cmp (fst kc) (fun _ => snd kc) acc)
                                                     kcs [])
                                          None bt)
                            else Err
                        | Err => Err
                        end
                      else Err
                  | None => Err
                  end
              | _, _, _, _, _ => Err
              end
            else Err
        | _ => Err
        end
      else if String.eqb ty "Label" || String.eqb ty "Index" then
        match j with
        | JObj o =>
            if has_keys o ["entries"; "sub:type"; "data"] [] then
              match jget "entries" o, jget "sub:type" o, jget "data" o with
              | Some je, Some (JStr st), Some jd =>
                  match jnum je with
                  | Some e =>
                      if registered st then
                        if String.eqb ty "Label" then
                          match jd with
                          | JObj ps =>
                              match all_ok (map (fun kv => sub st (snd kv) None) ps) with
                              | Ok cs =>
                                  if negb (entries_ok e) || Nat.eqb (List.length cs) 0 then Err
                                  else Ok (Node (KLabel (map fst ps)) no_quantity e cs [] None "")
                              | Err => Err
                              end
                          | _ => Err
                          end
                        else
                          match jd with
                          | JArr xs =>
                              match all_ok (map (fun x => sub st x None) xs) with
                              | Ok cs =>
                                  if negb (entries_ok e) || Nat.eqb (List.length cs) 0 then Err
                                  else Ok (Node KIndex no_quantity e cs [] None "")
                              | Err => Err
                              end
                          | _ => Err
                          end
                      else Err
                  | None => Err
                  end
              | _, _, _ => Err
              end
            else Err
        | _ => Err
        end
      else if String.eqb ty "UntypedLabel" || String.eqb ty "Branch" then
        match j with
        | JObj o =>
            if has_keys o ["entries"; "data"] [] then
              match jget "entries" o, jget "data" o with
              | Some je, Some jd =>
                  match jnum je with
                  | Some e =>
                      let item (x : json) : res agg :=
                        match x with
                        | JObj p =>
                            if has_keys p ["type"; "data"] [] then
                              match jget "type" p, jget "data" p with
                              | Some (JStr t), Some d => if registered t then sub t d None else Err
                              | _, _ => Err
                              end
                            else Err
                        | _ => Err
                        end in
                      if String.eqb ty "UntypedLabel" then
                        match jd with
                        | JObj ps =>
                            match all_ok (map (fun kv => item (snd kv)) ps) with
                            | Ok cs =>
                                if negb (entries_ok e) then Err
                                else Ok (Node (KULabel (map fst ps)) no_quantity e cs [] None "")
                            | Err => Err
                            end
                        | _ => Err
                        end
                      else
                        match jd with
                        | JArr xs =>
                            match all_ok (map item xs) with
                            | Ok cs =>
                                if negb (entries_ok e) || Nat.eqb (List.length cs) 0 then Err
                                else Ok (Node KBranch no_quantity e cs [] None "")
                            | Err => Err
                            end
                        | _ => Err
                        end
                  | None => Err
                  end
              | _, _ => Err
              end
            else Err
        | _ => Err
        end
      else Err
    end.

  Definition spec_version : string := "1.1".

  (* version.compatible on "major.minor[.patch]" *)
  Fixpoint split_ver (s : string) (cur : string) : list string :=
    match s with
    | EmptyString => [cur]
    | String c s' =>
        if (Ascii.eqb c "." || Ascii.eqb c "-")%bool then cur :: split_ver s' EmptyString
        else split_ver s' (cur ++ String c EmptyString)
    end.
  Definition version_ok (v : string) : option bool :=
    match map parse_int (split_ver v EmptyString) with
    | Some ma :: Some mi :: rest =>
        if forallb (fun o => match o with Some _ => true | None => false end) rest
        then Some ((ma <? 1)%Z || ((ma =? 1)%Z && (mi <=? 1)%Z)) else None
    | _ => None
    end.

  (* Factory.fromJson *)
  Definition from_json (fuel : nat) (j : json) : res agg :=
    match j with
    | JObj o =>
        if negb (has_keys o ["type"; "data"; "version"] []) then Err else
        match jget "type" o, jget "data" o, jget "version" o with
        | Some jt, Some jd, Some jv =>
            match jv with
            | JStr v =>
                match version_ok v with
                | Some true =>
                    match jt with
                    | JStr t => if registered t then from_frag fuel t jd None else Err
                    | _ => Err
                    end
                | _ => Err
                end
            | _ => Err
            end
        | _, _, _ => Err
        end
    | _ => Err
    end.

  Definition to_json (a : agg) : json :=
    JObj [("type", JStr (type_name a)); ("data", to_frag a false); ("version", JStr spec_version)].

  (* ---------- canonical tokens (object keys sorted) ---------- *)
  Fixpoint ins_kv (kv : string * list Z) (l : list (string * list Z)) : list (string * list Z) :=
    match l with
    | [] => [kv]
    | x :: l' => match str_cmp (fst kv) (fst x) with
                 | Gt => x :: ins_kv kv l'
                 | _ => kv :: l
                 end
    end.

  Fixpoint tok_json (j : json) : list Z :=
    match j with
    | JNull => [0%Z]
    | JBool b => 2%Z :: ntok (if b then @none N else @nzero N)   (* numbers by value: a bool is 0/1 *)
    | JNum x => 2%Z :: ntok x
    | JStr s => 3%Z :: tok_str s
    | JArr l => 4%Z :: Z.of_nat (List.length l) :: List.concat (map tok_json l)
    | JObj kvs =>
        let items := fold_right ins_kv [] (map (fun kv => (fst kv, tok_json (snd kv))) kvs) in
        5%Z :: Z.of_nat (List.length kvs)
          :: List.concat (map (fun kt => (tok_str (fst kt) ++ snd kt)%list) items)
    end.
End Json.
Arguments json : clear implicits.
