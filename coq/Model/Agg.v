(* Values, quantities, leaf states and the aggregator tree. *)
From Coq Require Import ZArith List String Ascii Bool.
From Hgm Require Import NumOps.
Import ListNotations.
Local Open Scope num_scope.

Inductive outcome := Done | Raise.

Section Agg.
  Context {N : num_ops}.
  Notation T := (T N).

  (* ---- data ---- *)
  Inductive value := VNum (x : T) | VStr (s : string) | VBool (b : bool) | VNone
                   | VVec (l : list T).            (* a tuple of numbers (vector Bags) *)
  Definition datum := list value.
  Inductive qres := QV (v : value) | QRaise.

  (* A user function. [qid] stands for its code (UserFcn equality compares name and code);
     [qid = 0] is the function-less quantity of an immutable (ed/fromJson) container. *)
  Record quantity := { qname : option string; qid : Z; qfn : datum -> qres }.

  (* isinstance(q, numbers.Real): float, int, bool *)
  Definition as_real (v : value) : option T :=
    match v with
    | VNum x => Some x
    | VBool true => Some none
    | VBool false => Some nzero
    | _ => None
    end.

  (* ---- keys of sparse containers ---- *)
  Inductive key := KInt (z : Z) | KBool (b : bool) | KStr (s : string).

  Fixpoint str_cmp (a b : string) : comparison :=
    match a, b with
    | EmptyString, EmptyString => Eq
    | EmptyString, _ => Lt
    | _, EmptyString => Gt
    | String x a', String y b' =>
        match N.compare (N_of_ascii x) (N_of_ascii y) with
        | Eq => str_cmp a' b'
        | c => c
        end
    end.

  Definition key_cmp (a b : key) : comparison :=
    match a, b with
    | KInt x, KInt y => Z.compare x y
    | KInt _, _ => Lt
    | _, KInt _ => Gt
    | KBool x, KBool y =>
        match x, y with false, true => Lt | true, false => Gt | _, _ => Eq end
    | KBool _, _ => Lt
    | _, KBool _ => Gt
    | KStr x, KStr y => str_cmp x y
    end.

  (* ---- generic sorted association lists ---- *)
  Section SL.
    Context {K V : Type} (cmp : K -> K -> comparison).

    Fixpoint sl_lookup (k : K) (l : list (K * V)) : option V :=
      match l with
      | [] => None
      | (k', v) :: l' =>
          match cmp k k' with Eq => Some v | Lt => None | Gt => sl_lookup k l' end
      end.

    (* insert-or-modify, keeping the list sorted *)
    Fixpoint sl_upd (k : K) (f : option V -> V) (l : list (K * V)) : list (K * V) :=
      match l with
      | [] => [(k, f None)]
      | (k', v) :: l' =>
          match cmp k k' with
          | Eq => (k', f (Some v)) :: l'
          | Lt => (k, f None) :: l
          | Gt => (k', v) :: sl_upd k f l'
          end
      end.
  End SL.

  (* ---- leaves ---- *)
  Inductive trans := TId | TSq.                    (* Count's weight transform *)
  Inductive brange := RS | RN | RV (n : nat).      (* Bag range: strings / numbers / vectors "N<n>" *)
  Inductive leafkind :=
  | LCount (tr : trans) | LSum | LAverage | LDeviate | LMin | LMax | LBag (r : brange).

  (* a vector key: the components, None standing for the string "nan" *)
  Inductive bagkey := BNum (x : T) | BNan | BStr (s : string) | BVec (l : list (option T)).

  (* one component: numbers by <, "nan" last (bag.py Sorter) *)
  Definition comp_cmp (a b : option T) : comparison :=
    match a, b with
    | Some x, Some y =>
        if nisnan x then (if nisnan y then Eq else Gt)
        else if nisnan y then Lt
        else if x <? y then Lt else if x =? y then Eq else Gt
    | Some _, None => Lt
    | None, Some _ => Gt
    | None, None => Eq
    end.

  Fixpoint vec_cmp (a b : list (option T)) : comparison :=
    match a, b with
    | [], [] => Eq
    | [], _ => Lt
    | _, [] => Gt
    | x :: a', y :: b' => match comp_cmp x y with Eq => vec_cmp a' b' | c => c end
    end.

  Definition bag_cmp (a b : bagkey) : comparison :=
    match a, b with
    | BNum x, BNum y =>
        (* never reached with a NaN (fill maps NaN to BNan); NaN is ordered last so that the
           order is total *)
        if nisnan x then (if nisnan y then Eq else Gt)
        else if nisnan y then Lt
        else if x <? y then Lt else if x =? y then Eq else Gt
    | BNum _, _ => Lt
    | _, BNum _ => Gt
    | BNan, BNan => Eq
    | BNan, _ => Lt
    | _, BNan => Gt
    | BStr x, BStr y => str_cmp x y
    | BStr _, _ => Lt
    | _, BStr _ => Gt
    | BVec x, BVec y => vec_cmp x y
    end.

  (* le: entries; l1: sum / mean / min / max; l2: varianceTimesEntries; lv: Bag values *)
  Record leafstate := { le : T; l1 : T; l2 : T; lv : list (bagkey * T) }.

  Definition leaf_zero (k : leafkind) : leafstate :=
    match k with
    | LCount _ => {| le := nzero; l1 := nzero; l2 := nzero; lv := [] |}
    | LSum => {| le := nzero; l1 := nzero; l2 := nzero; lv := [] |}
    | LAverage => {| le := nzero; l1 := nnan; l2 := nzero; lv := [] |}
    | LDeviate => {| le := nzero; l1 := nnan; l2 := nnan; lv := [] |}
    | LMin | LMax => {| le := nzero; l1 := nnan; l2 := nzero; lv := [] |}
    | LBag _ => {| le := nzero; l1 := nzero; l2 := nzero; lv := [] |}
    end.

  Definition apply_trans (tr : trans) (w : T) : T :=
    match tr with TId => w | TSq => w * w end.

  (* the mean update shared by Average.fill and Deviate.fill (average.py:141-161) *)
  Definition mean_step (e0 m0 q w : T) : T * T * bool :=
    (* returns (new entries, new mean, took the finite branch) *)
    let m := if e0 =? nzero then q else m0 in
    let e := e0 + w in
    if nisnan m || nisnan q then (e, nnan, false)
    else if nisinf m || nisinf q then
      let m1 := if nisinf m && nisinf q && ((m * q) <? nzero) then nnan
                else if nisinf q then q else m in
      let m2 := if nisinf e || nisnan e then nnan else m1 in
      (e, m2, false)
    else
      let delta := q - m in
      let shift := (delta * w) / e in
      (e, m + shift, true).

  (* fill of a leaf, after the weight gate; None = TypeError *)
  Definition leaf_fill (k : leafkind) (s : leafstate) (v : value) (w : T) : option leafstate :=
    match k with
    | LCount tr =>
        Some {| le := le s + apply_trans tr w; l1 := l1 s; l2 := l2 s; lv := lv s |}
    | LSum =>
        match as_real v with
        | Some q => Some {| le := le s + w; l1 := l1 s + q * w; l2 := l2 s; lv := lv s |}
        | None => None
        end
    | LAverage =>
        match as_real v with
        | Some q =>
            let '(e, m, _) := mean_step (le s) (l1 s) q w in
            Some {| le := e; l1 := m; l2 := l2 s; lv := lv s |}
        | None => None
        end
    | LDeviate =>
        match as_real v with
        | Some q =>
            let m0 := if le s =? nzero then q else l1 s in
            let v0 := if le s =? nzero then nzero else l2 s in
            let '(e, m, fin) := mean_step (le s) (l1 s) q w in
            let vte := if fin then v0 + (w * (q - m0)) * (q - m) else nnan in
            Some {| le := e; l1 := m; l2 := vte; lv := lv s |}
        | None => None
        end
    | LMin =>
        match as_real v with
        | Some q =>
            Some {| le := le s + w;
                    l1 := if nisnan (l1 s) || (q <? l1 s) then q else l1 s;
                    l2 := l2 s; lv := lv s |}
        | None => None
        end
    | LMax =>
        match as_real v with
        | Some q =>
            Some {| le := le s + w;
                    l1 := if nisnan (l1 s) || (l1 s <? q) then q else l1 s;
                    l2 := l2 s; lv := lv s |}
        | None => None
        end
    | LBag r =>
        let ok (bk : bagkey) :=
          Some {| le := le s + w; l1 := l1 s; l2 := l2 s;
                  lv := sl_upd bag_cmp bk
                          (fun o => match o with Some c => c + w | None => w end) (lv s) |} in
        match r, v with
        | RS, VStr x => ok (BStr x)
        | RS, _ => None
        | RV n, VVec l =>
            if Nat.eqb (List.length l) n
            then ok (BVec (map (fun x => if nisnan x then None else Some x) l)) else None
        | RV _, _ => None
        | RN, _ =>
            match as_real v with
            | Some q => ok (if nisnan q then BNan else BNum q)
            | None => None
            end
        end
    end.

  Definition minplus (x y : T) : T :=
    if nisnan x && nisnan y then nnan
    else if nisnan x then y
    else if nisnan y || (x <? y) then x else y.

  Definition maxplus (x y : T) : T :=
    if nisnan x && nisnan y then nnan
    else if nisnan x then y
    else if nisnan y || (y <? x) then x else y.

  Fixpoint bag_merge (a b : list (bagkey * T)) : list (bagkey * T) :=
    match b with
    | [] => a
    | (k, c) :: b' =>
        bag_merge
          (sl_upd bag_cmp k (fun o => match o with Some x => x + c | None => c end) a) b'
    end.

  Definition leaf_add (k : leafkind) (a b : leafstate) : leafstate :=
    match k with
    | LCount _ => {| le := le a + le b; l1 := l1 a; l2 := l2 a; lv := lv a |}
    | LSum => {| le := le a + le b; l1 := l1 a + l1 b; l2 := l2 a; lv := lv a |}
    | LAverage =>
        {| le := le a + le b;
           l1 := if le a =? nzero then l1 b
                 else if le b =? nzero then l1 a
                 else (le a * l1 a + le b * l1 b) / (le a + le b);
           l2 := l2 a; lv := lv a |}
    | LDeviate =>
        let e := le a + le b in
        let m := (le a * l1 a + le b * l1 b) / (le a + le b) in
        {| le := e;
           l1 := if le a =? nzero then l1 b else if le b =? nzero then l1 a else m;
           l2 := if le a =? nzero then l2 b
                 else if le b =? nzero then l2 a
                 else ((((l2 a + l2 b) + (le a * l1 a) * l1 a) + (le b * l1 b) * l1 b)
                       - (ntwo * m) * (le a * l1 a + le b * l1 b)) + (m * m) * e;
           lv := lv a |}
    | LMin => {| le := le a + le b; l1 := minplus (l1 a) (l1 b); l2 := l2 a; lv := lv a |}
    | LMax => {| le := le a + le b; l1 := maxplus (l1 a) (l1 b); l2 := l2 a; lv := lv a |}
    | LBag _ => {| le := le a + le b; l1 := l1 a; l2 := l2 a; lv := bag_merge (lv a) (lv b) |}
    end.

  (* factor > 0 and not NaN *)
  Definition leaf_mul (k : leafkind) (s : leafstate) (f : T) : leafstate :=
    match k with
    | LCount _ => {| le := f * le s; l1 := l1 s; l2 := l2 s; lv := lv s |}
    | LSum => {| le := f * le s; l1 := f * l1 s; l2 := l2 s; lv := lv s |}
    | LAverage | LMin | LMax => {| le := f * le s; l1 := l1 s; l2 := l2 s; lv := lv s |}
    | LDeviate => {| le := f * le s; l1 := l1 s; l2 := f * l2 s; lv := lv s |}
    | LBag _ =>
        {| le := f * le s; l1 := l1 s; l2 := l2 s;
           lv := map (fun kc => (fst kc, f * snd kc)) (lv s) |}
    end.

  (* ---- nodes ---- *)
  Inductive nodekind :=
  | KBin (low high : T)
  | KSparse (bw origin : T)
  | KCentral (centers : list T)
  | KIrr (ths : list T)
  | KStack (ths : list T)
  | KFraction
  | KSelect
  | KCat
  | KLabel (keys : list string)
  | KULabel (keys : list string)
  | KIndex
  | KBranch.

  (* Fixed children, in model order:
       Bin: values[0..num) ++ [underflow; overflow; nanflow]
       SparselyBin: [nanflow]          CentrallyBin/IrregularlyBin/Stack: bins ++ [nanflow]
       Fraction: [denominator; numerator]   Select: [cut]   Categorize: []
       Label/UntypedLabel: values in key order   Index/Branch: values
     sp: sparse children sorted by key. tm: value template (None in immutable form).
     ct: contentType of an immutable sparse container. *)
  Inductive agg :=
  | Leaf (k : leafkind) (q : quantity) (s : leafstate)
  | Node (k : nodekind) (q : quantity) (e : T) (fx : list agg) (sp : list (key * agg))
         (tm : option agg) (ct : string).

  Definition entries_of (a : agg) : T :=
    match a with Leaf _ _ s => le s | Node _ _ e _ _ _ _ => e end.

  Definition no_quantity : quantity := {| qname := None; qid := 0; qfn := fun _ => QRaise |}.

End Agg.

Arguments value : clear implicits.
Arguments datum : clear implicits.
Arguments qres : clear implicits.
Arguments quantity : clear implicits.
Arguments bagkey : clear implicits.
Arguments leafstate : clear implicits.
Arguments nodekind : clear implicits.
Arguments agg : clear implicits.
