(* Programs about user-function wrappers: wrapper scenarios next to ordinary pool operations
   (trees whose quantities were built from strings / defs / lambdas in the implementation). *)
From Coq Require Import ZArith List String Bool.
From Hgm Require Import NumOps Agg Ops Expr Snap Json Eq Run Fcn.
Import ListNotations.
Local Open Scope Z_scope.

Section RunFcn.
  Context {N : num_ops}.
  Notation agg := (agg N).

  Inductive fop :=
  | FBase (o : @op N)
  | FWrap (s : @src N) (ws : list wop) (ds : list (datum N))    (* build a wrapper, call it on ds *)
  | FEq (s1 : @src N) (ws1 : list wop) (s2 : @src N) (ws2 : list wop).   (* == of two wrappers *)

  Definition tok_value (v : value N) : list Z :=
    match v with
    | VNum x => 0 :: ntok x
    | VBool b => [1; if b then 1 else 0]
    | VStr s => 2 :: tok_str s
    | VNone => [3]
    | VVec l => 4 :: Z.of_nat (List.length l) :: List.concat (map ntok l)
    end.

  Definition tok_qres (r : qres N) : list Z :=
    match r with QRaise => [1] | QV v => 0 :: tok_value v end.

  Definition value_eqb (a b : value N) : bool :=
    match a, b with
    | VNum x, VNum y => neqb x y
    | VBool x, VBool y => Bool.eqb x y
    | VStr x, VStr y => String.eqb x y
    | VNone, VNone => true
    | VVec x, VVec y => forall2b neqb x y
    | _, _ => false
    end.

  (* lastArgs vs args: equal values (NaN is not equal to itself: the call is recomputed) *)
  Definition datum_eqb : datum N -> datum N -> bool := forall2b value_eqb.

  Definition as_ufcn (o : @fobj N) : option (@ufcn N) :=
    match o with Wrapped u => Some u | Raw _ => None end.

  Definition stepf (p : list agg) (o : fop) : list agg * list Z :=
    match o with
    | FBase b => step p b
    | FWrap s ws ds =>
        match apply_wops ws (Raw s) with
        | Err => (p, [1])
        | Ok ob =>
            match as_ufcn ob with
            | None => (p, [2])
            | Some u =>
                (p, 0 :: (if ucached u then 1 else 0) :: tok_optstr (uname u)
                    ++ List.concat (map tok_qres (calls datum_eqb u ds)))
            end
        end
    | FEq s1 ws1 s2 ws2 =>
        match apply_wops ws1 (Raw s1), apply_wops ws2 (Raw s2) with
        | Ok (Wrapped u1), Ok (Wrapped u2) => (p, [if ufcn_eqb u1 u2 then 1 else 0])
        | _, _ => (p, [2])
        end
    end.

  Fixpoint runf_from (p : list agg) (ops : list fop) : list (list Z) :=
    match ops with
    | [] => []
    | o :: ops' => let '(p', ob) := stepf p o in ob :: runf_from p' ops'
    end.
  Definition runf_hash (ops : list fop) : list Z := map (htok 7) (runf_from [] ops).
  Definition runf_at (ops : list fop) (j : nat) : list Z := nth j (runf_from [] ops) [].
End RunFcn.
