(* History machine: a pool of aggregators and the operations a program applies to it. *)
From Coq Require Import ZArith List String Bool.
From Hgm Require Import NumOps Agg Ops Snap Json Eq Np Views.
Import ListNotations.
Local Open Scope Z_scope.

Section Run.
  Context {N : num_ops}.
  Notation T := (T N).
  Notation agg := (agg N).

  Inductive op :=
  | ONew (a : agg)
  | OFill (i : nat) (d : datum N) (w : T)
  | OAdd (i j : nat)          (* on success the result is appended to the pool *)
  | OIAdd (i j : nat)
  | OMul (i : nat) (f : T)
  | OZero (i : nat)
  | OCopy (i : nat)
  | OHash (i : nat)            (* hash(pool[i]) must not raise *)
  | OToJson (i : nat)          (* observe h.toJson() *)
  | OFromJson (j : json N)     (* Factory.fromJson(document): push the container or raise *)
  | OJsonRT (i : nat)          (* push Factory.fromJson(pool[i].toJson()) *)
  | OEq (i j : nat) (tol : T)  (* a == b, b == a, and a == b at relative = absolute tolerance tol *)
  | OFillNp (i : nat) (rows : list (datum N * T))   (* h.fill.numpy(columns, weights) *)
  | OSnapP (i : nat)           (* snapshot up to empty sparse bins *)
  | OClone (i : nat)           (* push pickle.loads(pickle.dumps(pool[i])) *)
  | OView (i : nat) (lo hi : option T) (xs : list T)   (* num_bins / bin_edges / bin_centers / bin_entries *)
  | ODf (a : agg) (rows : list (datum N * T))   (* make_histograms: the tree of the feature, filled from the frame *)
  | OSnapAll.

  Definition dummy : agg := Leaf (LCount TId) no_quantity (leaf_zero (LCount TId)).
  Definition get (p : list agg) (i : nat) : agg := nth i p dummy.
  Fixpoint set (p : list agg) (i : nat) (a : agg) : list agg :=
    match p, i with
    | [], _ => []
    | _ :: p', O => a :: p'
    | x :: p', S i' => x :: set p' i' a
    end.

  Definition oc (o : outcome) : Z := match o with Done => 0 | Raise => 1 end.

  (* one step: new pool and the observation *)
  Definition step (p : list agg) (o : op) : list agg * list Z :=
    match o with
    | ONew a => (p ++ [a], 0 :: snap a)
    | OFill i d w =>
        let '(a', r) := fill (get p i) d w in
        (set p i a', oc r :: snap a')
    | OAdd i j =>
        match add (get p i) (get p j) with
        | Ok c => (p ++ [c], 0 :: snap c)
        | Err => (p ++ [dummy], [1])    (* keep pool indexes stable: an empty Count is pushed *)
        end
    | OIAdd i j =>
        let '(a', r) := iadd (get p i) (get p j) in
        (* after a rejected += only the outcome is observed: the partial state depends on the
           order in which Python visits dictionary entries (known finding C10-iadd-partial) *)
        (set p i a', match r with Done => 0 :: snap a' | Raise => [1] end)
    | OMul i f =>
        match mul (get p i) f with
        | Ok c => (p ++ [c], 0 :: snap c)
        | Err => (p ++ [dummy], [1])
        end
    | OZero i => let c := zero (get p i) in (p ++ [c], 0 :: snap c)
    | OCopy i => let c := copy (get p i) in (p ++ [c], 0 :: snap c)
    | OHash i => (p, [if hashable (get p i) then 0 else 1])
    | OToJson i => (p, tok_json (to_json (get p i)))
    | OFromJson j =>
        match from_json 64 j with
        | Ok c => (p ++ [c], 0 :: tok_json (to_json c))
        | Err => (p ++ [dummy], [1])
        end
    | OJsonRT i =>
        match from_json 64 (to_json (get p i)) with
        | Ok c => (p ++ [c], 0 :: snap c)
        | Err => (p ++ [dummy], [1])
        end
    | OEq i j tol =>
        let b2z (b : bool) : Z := if b then 1 else 0 in
        (p, [b2z (eqb numeq (get p i) (get p j)); b2z (eqb numeq (get p j) (get p i));
             b2z (eqb (numeq_t tol tol) (get p i) (get p j))])
    | OFillNp i rows =>
        let '(a', r) := fillnp (get p i) rows in
        (set p i a', oc r :: snap a')      (* the implementation is observed up to empty sparse bins *)
    | OSnapP i => (p, snap (prune (get p i)))
    | OClone i => let c := get p i in (p ++ [c], 0 :: snap c)
    | OView i lo hi xs => (p, tok_views (views_of (get p i) lo hi xs))
    | ODf a rows => let '(a', r) := fillnp a rows in (p ++ [a'], oc r :: snap (prune a'))
    | OSnapAll => (p, List.concat (map (fun a => 7777 :: snap a) p))
    end.

  Fixpoint run_from (p : list agg) (ops : list op) : list (list Z) :=
    match ops with
    | [] => []
    | o :: ops' => let '(p', ob) := step p o in ob :: run_from p' ops'
    end.

  Definition run (ops : list op) : list (list Z) := run_from [] ops.

  (* the correspondence check compares one 61-bit (masked polynomial) hash per observation (printing full
     token lists dominates the cost of a run); on a mismatch the observation itself is printed *)
  Definition hmod : Z := 2305843009213693951.
  Fixpoint htok (h : Z) (l : list Z) : Z :=
    match l with
    | [] => h
    | x :: l' => htok (Z.land (h * 1000003 + Z.land x hmod) hmod) l'
    end.
  Definition run_hash (ops : list op) : list Z := map (htok 7) (run ops).
  Definition run_at (ops : list op) (j : nat) : list Z := nth j (run ops) [].
End Run.
