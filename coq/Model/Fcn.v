(* User-function wrappers (util.py): UserFcn / CachedFcn, serializable, cached, named, and calls.
   A function is represented by what the wrappers look at: the kind of expression (lambda, def,
   string), its code, its default name, and the expression itself (the meaning of the code). *)
From Coq Require Import ZArith List String Bool.
From Hgm Require Import NumOps Agg Ops Expr.
Import ListNotations.

Section Fcn.
  Context {N : num_ops}.
  Notation expr := (expr N).
  Notation datum := (datum N).
  Notation qres := (qres N).

  Inductive src :=
  | SLam (code : Z) (e : expr)                      (* lambda: no default name *)
  | SDef (fname : string) (code : Z) (e : expr)     (* def f(...): default name f *)
  | SStr (text : string) (e : expr).                (* string expression: default name = the text *)

  Definition src_expr (s : src) : expr :=
    match s with SLam _ e | SDef _ _ e | SStr _ e => e end.

  (* UserFcn.__init__ (util.py:232-239) *)
  Definition default_name (s : src) : option string :=
    match s with SLam _ _ => None | SDef f _ _ => Some f | SStr t _ => Some t end.

  Record ufcn := {
    usrc : src;
    uname : option string;
    ucached : bool;                         (* class CachedFcn *)
    ulast : option (datum * qres)           (* lastArgs / lastReturn *)
  }.

  (* UserFcn(expr, name) / CachedFcn(expr, name) *)
  Definition mk (s : src) (name : option string) (c : bool) : ufcn :=
    {| usrc := s;
       uname := match name with Some n => Some n | None => default_name s end;
       ucached := c; ulast := None |}.

  (* what the user hands to a wrapper function: a bare function/string or a UserFcn *)
  Inductive fobj := Raw (s : src) | Wrapped (u : ufcn).

  Definition serializable (o : fobj) : fobj :=
    match o with Wrapped _ => o | Raw s => Wrapped (mk s None false) end.

  Definition cached (o : fobj) : fobj :=
    match o with
    | Wrapped u => if ucached u then o else Wrapped (mk (usrc u) (uname u) true)
    | Raw s => Wrapped (mk s None true)
    end.

  (* _defaultName: the name is the one the constructor derived from the expression *)
  Definition is_default (u : ufcn) : bool :=
    match default_name (usrc u), uname u with
    | Some d, Some n => String.eqb n d
    | _, _ => false
    end.

  Definition named (n : string) (o : fobj) : res fobj :=
    match o with
    | Wrapped u =>
        match uname u with
        | Some _ => if is_default u then Ok (Wrapped (mk (usrc u) (Some n) (ucached u))) else Err
        | None => Ok (Wrapped (mk (usrc u) (Some n) (ucached u)))
        end
    | Raw s => Ok (Wrapped (mk s (Some n) false))
    end.

  Inductive wop := WSer | WCached | WNamed (n : string).

  Definition apply_wop (w : wop) (o : fobj) : res fobj :=
    match w with
    | WSer => Ok (serializable o)
    | WCached => Ok (cached o)
    | WNamed n => named n o
    end.

  Fixpoint apply_wops (ws : list wop) (o : fobj) : res fobj :=
    match ws with
    | [] => Ok o
    | w :: ws' => match apply_wop w o with Ok o' => apply_wops ws' o' | Err => Err end
    end.

  (* ---- calls ---- *)
  Section Call.
    (* the comparison of the new arguments with lastArgs (identity or numpy.array_equal) *)
    Variable hit : datum -> datum -> bool.

    (* CachedFcn.__call__ / UserFcn.__call__ on one positional argument; a raising call leaves the
       cache as it was *)
    Definition call (u : ufcn) (d : datum) : ufcn * qres :=
      let compute :=
        let r := eval (src_expr (usrc u)) d in
        match r with
        | QRaise => (u, QRaise)
        | QV _ => ({| usrc := usrc u; uname := uname u; ucached := ucached u; ulast := Some (d, r) |}, r)
        end in
      if ucached u then
        match ulast u with
        | Some (a, r) => if hit a d then (u, r) else compute
        | None => compute
        end
      else (u, eval (src_expr (usrc u)) d).

    Fixpoint calls (u : ufcn) (ds : list datum) : list qres :=
      match ds with
      | [] => []
      | d :: ds' => let '(u', r) := call u d in r :: calls u' ds'
      end.
  End Call.

  (* UserFcn.__eq__: name and code (functions) / text (strings) *)
  Definition src_eqb (a b : src) : bool :=
    match a, b with
    | SLam c1 _, SLam c2 _ | SLam c1 _, SDef _ c2 _ | SDef _ c1 _, SLam c2 _ | SDef _ c1 _, SDef _ c2 _ =>
        Z.eqb c1 c2
    | SStr t1 _, SStr t2 _ => String.eqb t1 t2
    | _, _ => false
    end.

  Definition optstr_eq (a b : option string) : bool :=
    match a, b with
    | None, None => true
    | Some x, Some y => String.eqb x y
    | _, _ => false
    end.

  Definition ufcn_eqb (a b : ufcn) : bool := optstr_eq (uname a) (uname b) && src_eqb (usrc a) (usrc b).
End Fcn.
