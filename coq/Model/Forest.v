(* Identity layer: every aggregator object and every mutable container it owns (bins dict, values
   list, pairs dict, Bag.values dict) gets an identity.  An [itree] runs parallel to an [agg];
   the identity semantics of every operation is given by two functions:
     fresh_like  the result is made of new objects (constructor, +, *, zero, copy)
     extend      the objects of the left operand are kept, new sparse children are new objects
                 (fill, fill.numpy, +=)
   plus the recipe that says whether the value template of the result is the operand's own
   template object (shared) or a copy. *)
From Coq Require Import ZArith List String Bool PArith Lia.
From Hgm Require Import NumOps Agg Ops.
Import ListNotations.

Inductive itree :=
| IT (id : positive) (cont : positive) (kids : list itree) (spkids : list (key * itree))
     (tmpl : option itree).

Definition it_id (t : itree) : positive := match t with IT i _ _ _ _ => i end.

Section Forest.
  Context {N : num_ops}.
  Notation agg := (agg N).

  (* ---- allocation of new objects following the shape of a value ---- *)
  Fixpoint fresh_like (a : agg) (nx : positive) {struct a} : itree * positive :=
    match a with
    | Leaf _ _ _ => (IT nx (Pos.succ nx) [] [] None, Pos.succ (Pos.succ nx))
    | Node _ _ _ fx sp tm _ =>
        let id := nx in
        let cont := Pos.succ nx in
        let '(ks, n1) :=
          (fix go (l : list agg) (n : positive) : list itree * positive :=
             match l with
             | [] => ([], n)
             | c :: l' => let '(t, n') := fresh_like c n in let '(ts, n'') := go l' n' in (t :: ts, n'')
             end) fx (Pos.succ cont) in
        let '(ss, n2) :=
          (fix go (l : list (key * agg)) (n : positive) : list (key * itree) * positive :=
             match l with
             | [] => ([], n)
             | (k, c) :: l' =>
                 let '(t, n') := fresh_like c n in let '(ts, n'') := go l' n' in ((k, t) :: ts, n'')
             end) sp n1 in
        let '(tmi, n3) :=
          match tm with
          | Some t => let '(x, n') := fresh_like t n2 in (Some x, n')
          | None => (None, n2)
          end in
        (IT id cont ks ss tmi, n3)
    end.

  (* install a given template identity tree instead of the freshly allocated one *)
  Definition with_tmpl (t : itree) (tm : option itree) : itree :=
    match t with IT i c ks ss _ => IT i c ks ss tm end.

  Definition it_tmpl (t : itree) : option itree := match t with IT _ _ _ _ tm => tm end.

  (* ---- extend: keep the identities of the positions that exist, allocate the others ---- *)
  Fixpoint lookup_it (k : key) (l : list (key * itree)) : option itree :=
    match l with
    | [] => None
    | (k', t) :: l' => match key_cmp k k' with Eq => Some t | _ => lookup_it k l' end
    end.

  Fixpoint extend (old : itree) (a : agg) (nx : positive) {struct a} : itree * positive :=
    match old, a with
    | IT i c ks ss tm, Node _ _ _ fx sp _ _ =>
        let '(ks', n1) :=
          (fix go (os : list itree) (l : list agg) (n : positive) {struct l} : list itree * positive :=
             match os, l with
             | o :: os', x :: l' =>
                 let '(t, n') := extend o x n in let '(ts, n'') := go os' l' n' in (t :: ts, n'')
             | _, _ => ([], n)
             end) ks fx nx in
        let '(ss', n2) :=
          (fix go (l : list (key * agg)) (n : positive) : list (key * itree) * positive :=
             match l with
             | [] => ([], n)
             | (k, x) :: l' =>
                 let '(t, n') :=
                   match lookup_it k ss with
                   | Some o => extend o x n
                   | None => fresh_like x n
                   end in
                 let '(ts, n'') := go l' n' in ((k, t) :: ts, n'')
             end) sp n1 in
        (IT i c ks' ss' tm, n2)
    | _, _ => (old, nx)
    end.

  (* ---- all identities of the fillable positions (templates excluded) ---- *)
  Fixpoint ids (t : itree) : list positive :=
    match t with
    | IT i c ks ss _ =>
        i :: c :: List.concat (map ids ks) ++ List.concat (map (fun kt => ids (snd kt)) ss)
    end.

  (* object identities only (what the cross-reference check looks at) *)
  Fixpoint obj_ids (t : itree) : list positive :=
    match t with
    | IT i _ ks ss _ =>
        i :: List.concat (map obj_ids ks) ++ List.concat (map (fun kt => obj_ids (snd kt)) ss)
    end.

  (* ---- the cross-reference guard, as coded (defs.py _checkForCrossReferences) ----
     an identity list [memo] is threaded through a pre-order walk of the children (the value
     template is not walked); meeting an object that is already in the list raises *)
  Fixpoint mem (i : positive) (l : list positive) : bool :=
    match l with [] => false | j :: l' => Pos.eqb i j || mem i l' end.

  Fixpoint xwalk (t : itree) (memo : list positive) {struct t} : option (list positive) :=
    match t with
    | IT i _ ks ss _ =>
        if mem i memo then None else
        let m1 := i :: memo in
        let r :=
          (fix go (l : list itree) (m : option (list positive)) : option (list positive) :=
             match l with
             | [] => m
             | c :: l' => match m with None => None | Some mm => go l' (xwalk c mm) end
             end) ks (Some m1) in
        (fix go (l : list (key * itree)) (m : option (list positive)) : option (list positive) :=
           match l with
           | [] => m
           | (_, c) :: l' => match m with None => None | Some mm => go l' (xwalk c mm) end
           end) ss r
    end.

  (* does fill raise "cannot fill a tree that contains the same aggregator twice"? *)
  Definition xcheck (t : itree) : bool :=
    match xwalk t [] with None => true | Some _ => false end.
End Forest.
