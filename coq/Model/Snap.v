(* Canonical observation of an aggregator as a list of integers; the Python attribute walker
   (harness/impl.py) produces the same encoding from the real objects. *)
From Coq Require Import ZArith List String Ascii Bool DecimalString.
From Hgm Require Import NumOps Agg Ops.
Import ListNotations.
Local Open Scope Z_scope.

(* str(i) of a Python int *)
Definition z_str (z : Z) : string := NilZero.string_of_int (Z.to_int z).

Section Snap.
  Context {N : num_ops}.
  Notation T := (T N).
  Notation agg := (agg N).

  Fixpoint str_codes (s : string) : list Z :=
    match s with
    | EmptyString => []
    | String c s' => Z.of_N (N_of_ascii c) :: str_codes s'
    end.
  Definition tok_str (s : string) : list Z := Z.of_nat (String.length s) :: str_codes s.
  Definition tok_optstr (o : option string) : list Z :=
    match o with None => [0] | Some s => 1 :: tok_str s end.
  Definition tok_key (k : key) : list Z :=
    match k with
    | KInt z => [0; z]
    | KBool b => [1; if b then 1 else 0]
    | KStr s => 2 :: tok_str s
    end.
  Definition tok_bagkey (k : bagkey N) : list Z :=
    match k with
    | BNum x => 0 :: ntok x | BNan => [1] | BStr s => 2 :: tok_str s
    | BVec l => 3 :: Z.of_nat (List.length l)
                :: List.concat (map (fun c => match c with Some x => 0 :: ntok x | None => [1] end) l)
    end.
  Definition tok_list (l : list T) : list Z :=
    Z.of_nat (List.length l) :: List.concat (map ntok l).

  Definition snap_leaf (k : leafkind) (q : quantity N) (s : leafstate N) : list Z :=
    match k with
    | LCount tr => [100; match tr with TId => 0 | TSq => 1 end] ++ ntok (le s)
    | LSum => [101] ++ tok_optstr (qname q) ++ ntok (le s) ++ ntok (l1 s)
    | LAverage => [102] ++ tok_optstr (qname q) ++ ntok (le s) ++ ntok (l1 s)
    | LDeviate => [103] ++ tok_optstr (qname q) ++ ntok (le s) ++ ntok (l1 s) ++ ntok (l2 s)
    | LMin => [104] ++ tok_optstr (qname q) ++ ntok (le s) ++ ntok (l1 s)
    | LMax => [105] ++ tok_optstr (qname q) ++ ntok (le s) ++ ntok (l1 s)
    | LBag r =>
        [106; match r with RS => 0 | RN => 1 | RV n => 2 + Z.of_nat n end] ++ tok_optstr (qname q) ++ ntok (le s)
        ++ [Z.of_nat (List.length (lv s))]
        ++ List.concat (map (fun kc => tok_bagkey (fst kc) ++ ntok (snd kc)) (lv s))
    end.

  Definition tok_strs (l : list string) : list Z :=
    Z.of_nat (List.length l) :: List.concat (map tok_str l).

  Definition snap_kind (k : nodekind N) : list Z :=
    match k with
    | KBin lo hi => [200] ++ ntok lo ++ ntok hi
    | KSparse bw o => [201] ++ ntok bw ++ ntok o
    | KCentral cs => [202] ++ tok_list cs
    | KIrr ts => [203] ++ tok_list ts
    | KStack ts => [204] ++ tok_list ts
    | KFraction => [205]
    | KSelect => [206]
    | KCat => [207]
    | KLabel ks => [208] ++ tok_strs ks
    | KULabel ks => [209] ++ tok_strs ks
    | KIndex => [210]
    | KBranch => [211]
    end.

  Fixpoint snap (a : agg) : list Z :=
    match a with
    | Leaf k q s => snap_leaf k q s
    | Node k q e fx sp _ _ =>
        snap_kind k ++ (if has_quantity k then tok_optstr (qname q) else []) ++ ntok e
        ++ [Z.of_nat (List.length fx)] ++ List.concat (map snap fx)
        ++ [Z.of_nat (List.length sp)]
        ++ List.concat (map (fun kc => tok_key (fst kc) ++ snap (snd kc)) sp)
    end.
End Snap.
