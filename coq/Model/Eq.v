(* Equality of aggregators: util.numeq and every primitive's __eq__, transcribed field by field.
   [ne] is the numeric comparison in force (numeq at the configured tolerances). *)
From Coq Require Import ZArith List String Bool.
From Hgm Require Import NumOps Agg Ops.
Import ListNotations.
Local Open Scope num_scope.

Section Eq.
  Context {N : num_ops}.
  Notation T := (T N).
  Notation agg := (agg N).
  Notation quantity := (quantity N).

  (* Python's max(a, b): a unless b > a *)
  Definition pymax (a b : T) : T := if a <? b then b else a.

  (* util.numeq (util.py:101-125) at tolerances (rel, abs) *)
  Definition numeq_t (rel abs x y : T) : bool :=
    if nisnan x && nisnan y then true
    else if nisinf x && nisinf y then Bool.eqb (nzero <? x) (nzero <? y)
    else if (nzero <? rel) && (nzero <? abs) then
      nabs (x - y) <=? pymax (rel * pymax (nabs x) (nabs y)) abs
    else if nzero <? rel then nabs (x - y) <=? rel * pymax (nabs x) (nabs y)
    else if nzero <? abs then nabs (x - y) <=? abs
    else x =? y.

  Definition numeq (x y : T) : bool := numeq_t nzero nzero x y.

  Section WithNe.
    Variable ne : T -> T -> bool.

    Definition optstr_eqb (a b : option string) : bool :=
      match a, b with
      | None, None => true
      | Some x, Some y => String.eqb x y
      | _, _ => false
      end.

    (* UserFcn.__eq__ (util.py:367-375): name and code (qid = 0: no function) *)
    Definition q_eqb (q1 q2 : quantity) : bool :=
      optstr_eqb (qname q1) (qname q2) && Z.eqb (qid q1) (qid q2).

    Definition trans_eqb (a b : trans) : bool :=
      match a, b with TId, TId | TSq, TSq => true | _, _ => false end.
    Definition range_eqb (a b : brange) : bool :=
      match a, b with RS, RS | RN, RN => true | RV n, RV m => Nat.eqb n m | _, _ => false end.

    (* Deviate.variance (deviate.py:105-110) *)
    Definition variance (s : leafstate N) : T :=
      if le s =? nzero then l2 s else l2 s / le s.

    (* one (value, weight) pair of Bag.__eq__ (bag.py:352-388) *)
    Definition bagpair_eqb (a b : bagkey N * T) : bool :=
      (match fst a, fst b with
       | BNum x, BNum y => ne x y
       | BNan, BNan => true
       | BStr s, BStr t => String.eqb s t
       | BVec x, BVec y =>
           forall2b (fun c d => match c, d with
                                | Some p, Some q => ne p q
                                | None, None => true
                                | _, _ => false
                                end) x y
       | _, _ => false
       end) && ne (snd a) (snd b).

    Definition leaf_eqb (k1 : leafkind) (q1 : quantity) (s1 : leafstate N)
                        (k2 : leafkind) (q2 : quantity) (s2 : leafstate N) : bool :=
      match k1, k2 with
      | LCount t1, LCount t2 => ne (le s1) (le s2) && trans_eqb t1 t2
      | LSum, LSum | LAverage, LAverage | LMin, LMin | LMax, LMax =>
          q_eqb q1 q2 && ne (le s1) (le s2) && ne (l1 s1) (l1 s2)
      | LDeviate, LDeviate =>
          q_eqb q1 q2 && ne (le s1) (le s2) && ne (l1 s1) (l1 s2) && ne (variance s1) (variance s2)
      | LBag r1, LBag r2 =>
          Nat.eqb (List.length (lv s1)) (List.length (lv s2)) && range_eqb r1 r2
          && forall2b bagpair_eqb (lv s1) (lv s2)
          && q_eqb q1 q2 && ne (le s1) (le s2)
      | _, _ => false
      end.

    Definition strs_eqb : list string -> list string -> bool := forall2b String.eqb.

    Definition key_eqb (a b : key) : bool :=
      match key_cmp a b with Eq => true | _ => false end.

    (* isinstance + the structural parameters each __eq__ compares *)
    Definition kind_eqb (k1 k2 : nodekind N) : bool :=
      match k1, k2 with
      | KBin lo1 hi1, KBin lo2 hi2 => ne lo1 lo2 && ne hi1 hi2
      | KSparse bw1 o1, KSparse bw2 o2 => ne bw1 bw2 && ne o1 o2
      | KCentral c1, KCentral c2 => forall2b (@neqb N) c1 c2      (* tuple ==, not numeq *)
      | KIrr t1, KIrr t2 | KStack t1, KStack t2 =>
          Nat.eqb (List.length t1) (List.length t2) && forall2b ne t1 t2
      | KFraction, KFraction | KSelect, KSelect | KCat, KCat
      | KIndex, KIndex | KBranch, KBranch => true
      | KLabel a, KLabel b | KULabel a, KULabel b => strs_eqb a b
      | _, _ => false
      end.

    Definition sparse_kind (k : nodekind N) : bool :=
      match k with KSparse _ _ | KCat => true | _ => false end.

    (* dict == on key-sorted association lists *)
    Definition sl_eqb {A} (f : A -> A -> bool) :=
      fix go (l1 l2 : list (key * A)) {struct l1} : bool :=
        match l1, l2 with
        | [], [] => true
        | (k1, x) :: l1', (k2, y) :: l2' => key_eqb k1 k2 && f x y && go l1' l2'
        | _, _ => false
        end.

    Fixpoint eqb (a b : agg) {struct a} : bool :=
      match a, b with
      | Leaf k1 q1 s1, Leaf k2 q2 s2 => leaf_eqb k1 q1 s1 k2 q2 s2
      | Node k1 q1 e1 fx1 sp1 tm1 ct1, Node k2 q2 e2 fx2 sp2 tm2 ct2 =>
          kind_eqb k1 k2
          && (if has_quantity k1 then q_eqb q1 q2 else true)
          && ne e1 e2
          && (if sparse_kind k1 then
                String.eqb ct1 ct2
                && match tm1, tm2 with
                   | Some t1, Some t2 => eqb t1 t2
                   | None, None => true
                   | _, _ => false
                   end
              else true)
          && forall2b eqb fx1 fx2
          && sl_eqb eqb sp1 sp2
      | _, _ => false
      end.
  End WithNe.
End Eq.
