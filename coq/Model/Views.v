(* Derived views of the binning primitives: num_bins, bin_edges, bin_centers, bin_entries for a
   sub-range (low, high) (None = open) and bin_entries(xvalues=...), transcribed from
   bin.py / sparselybin.py / centrallybin.py / irregularlybin.py.  numpy.linspace is
   [start + i * ((stop - start) / n)] with the last point set to stop. *)
From Coq Require Import ZArith List String Bool.
From Hgm Require Import NumOps Agg Ops.
Import ListNotations.
Local Open Scope num_scope.

Section Views.
  Context {N : num_ops}.
  Notation T := (T N).
  Notation agg := (agg N).

  (* numpy.isclose(a, b): |a - b| <= atol + rtol * |b|, rtol = 1e-5, atol = 1e-8 *)
  Definition rtol : T := ndy 5902958103587057 (-69).
  Definition atol : T := ndy 6044629098073146 (-79).
  Definition isclose (a b : T) : bool := nabs (a - b) <=? (atol + rtol * nabs b).

  Definition zrange (a b : Z) : list Z :=    (* range(a, b + 1) *)
    map (fun i => (a + Z.of_nat i)%Z) (seq 0 (Z.to_nat (b + 1 - a))).

  Definition linspace (a b : T) (n : Z) : list T :=   (* n intervals, n + 1 points *)
    if (n <=? 0)%Z then [a]
    else
      let step := (b - a) / nofZ n in
      map (fun i => nofZ i * step + a) (zrange 0 (n - 1)) ++ [b].

  Definition midpoints (e : list T) : list T :=     (* (e[:-1] + e[1:]) / 2 *)
    map (fun p => (fst p + snd p) / ntwo) (combine e (tl e)).

  Definition nthT (l : list T) (i : Z) : T := nth (Z.to_nat i) l nzero.
  Definition nthA (l : list agg) (i : Z) : T := entries_of (nth (Z.to_nat i) l (Leaf (LCount TId) (no_quantity) (leaf_zero (LCount TId)))).

  Inductive vres := VRaise | VInt (z : Z) | VList (l : list T).

  Record views := { v_num : vres; v_edges : vres; v_centers : vres; v_entries : vres; v_at : vres }.

  Definition lt_opt (lo hi : option T) : bool :=      (* low > high -> RuntimeError *)
    match lo, hi with Some a, Some b => b <? a | _, _ => false end.

  (* ---------------- Bin ---------------- *)
  Section BinV.
    Variables (low high : T) (vals : list agg).      (* vals: the num bins, without the flows *)
    Let num : Z := Z.of_nat (List.length vals).

    Definition bin_index (x : T) : Z :=
      if nisnan x || (x <? low) || (high <=? x) then (-1)%Z
      else match nfloor (nofZ num * (x - low) / (high - low)) with
           | Some i => Z.min i (num - 1)
           | None => (-1)%Z
           end.

    Definition bin_width : T := (high - low) / nofZ num.

    (* Bin._bin_range *)
    Definition bin_range (lo hi : option T) : Z * Z :=
      let last := (num - 1)%Z in
      if match hi with Some h => h <? low | None => false end then (0, -1)%Z
      else if match lo with Some l => high <=? l | None => false end then (last + 1, last)%Z
      else
        let minBin := match lo with
                      | Some l => if l <? low then 0%Z else bin_index l
                      | None => 0%Z
                      end in
        let maxBin := match hi with
                      | Some h =>
                          if high <=? h then last
                          else let m := bin_index h in
                               if isclose h (low + bin_width * nofZ m) then (m - 1)%Z else m
                      | None => last
                      end in
        (minBin, maxBin).

    Definition bin_views (lo hi : option T) (xs : list T) : views :=
      let at_ := VList (map (fun x => let i := bin_index x in
                                      if (0 <=? i)%Z && (i <? num)%Z then nthA vals i else nzero) xs) in
      match lo, hi with
      | None, None =>
          {| v_num := VInt num;
             v_edges := VList (linspace low high num);
             v_centers := VList (map (fun i => low + (nofZ i + ndy 1 (-1)) * bin_width) (zrange 0 (num - 1)));
             v_entries := VList (map entries_of vals);
             v_at := at_ |}
      | _, _ =>
          if lt_opt lo hi then {| v_num := VRaise; v_edges := VRaise; v_centers := VRaise; v_entries := VRaise; v_at := at_ |}
          else
            let '(mn, mx) := bin_range lo hi in
            let n := Z.max 0 (mx - mn + 1) in
            {| v_num := VInt n;
               v_edges := VList (linspace (low + bin_width * nofZ mn) (low + bin_width * nofZ (mn + n)) n);
               v_centers := VList (map (fun i => low + (nofZ i + ndy 1 (-1)) * bin_width) (zrange mn mx));
               v_entries := VList (map (nthA vals) (zrange mn mx));
               v_at := at_ |}
      end.
  End BinV.

  (* ---------------- SparselyBin ---------------- *)
  Section SparseV.
    Variables (bw origin : T) (sp : list (key * agg)).

    Definition zmax63 : Z := 9223372036854775807%Z.

    Definition sbin_index (x : T) : Z :=          (* SparselyBin.bin; NaN never queried *)
      let soft := (x - origin) / bw in
      if soft <=? nofZ (- zmax63) then (- zmax63)%Z
      else if nofZ zmax63 <=? soft then zmax63
      else match nfloor soft with Some i => i | None => (- zmax63 - 1)%Z end.

    Definition int_keys : list Z :=
      flat_map (fun kc => match fst kc with KInt z => [z] | _ => [] end) sp.

    Definition sp_entries (i : Z) : T :=
      match sl_lookup key_cmp (KInt i) sp with Some c => entries_of c | None => nzero end.

    (* SparselyBin._bin_range: (minBin, maxBin, numBins, leftEdge, rightEdge) *)
    Definition sbin_range (lo hi : option T) : Z * Z * Z * T * T :=
      match int_keys with
      | [] => (0%Z, (-1)%Z, 0%Z, origin, origin + none)
      | k0 :: ks =>
          let fmin := fold_left Z.min ks k0 in
          let fmax := fold_left Z.max ks k0 in
          let mn := match lo with Some l => sbin_index l | None => fmin end in
          let mx := match hi with
                    | Some h => let m := sbin_index h in
                                if isclose h (origin + bw * nofZ m) then (m - 1)%Z else m
                    | None => fmax
                    end in
          (mn, mx, (mx + 1 - mn)%Z, origin + bw * nofZ mn, origin + bw * nofZ (mx + 1))
      end.

    Definition sparse_views (lo hi : option T) (xs : list T) : views :=
      let at_ := VList (map (fun x => sp_entries (sbin_index x)) xs) in
      if lt_opt lo hi then {| v_num := VRaise; v_edges := VRaise; v_centers := VRaise; v_entries := VRaise; v_at := at_ |}
      else
        let '(mn, mx, n, le_, re_) := sbin_range lo hi in
        let edges := linspace le_ re_ n in
        {| v_num := VInt n;
           v_edges := if (n <? 0)%Z then VRaise else VList edges;      (* np.linspace(.., n + 1) with n + 1 < 1... *)
           v_centers := if (n <? 0)%Z then VRaise else VList (midpoints edges);
           v_entries := VList (map sp_entries (zrange mn mx));
           v_at := at_ |}.
  End SparseV.

  (* ---------------- CentrallyBin ---------------- *)
  Section CentralV.
    Variables (cs : list T) (vals : list agg).       (* centers and their bins (without nanflow) *)
    Let n : Z := Z.of_nat (List.length cs).

    (* CentrallyBin.index(x, greater) *)
    Fixpoint cindex_from (i : Z) (l : list T) (x : T) (greater : bool) : Z :=
      match l with
      | c0 :: ((c1 :: _) as l') =>
          let mid := (c0 + c1) / ntwo in
          if (if greater then x <? mid else x <=? mid) then i else cindex_from (i + 1) l' x greater
      | _ => i
      end.
    Definition cindex (x : T) (greater : bool) : Z := cindex_from 0 cs x greater.

    (* CentrallyBin.range(center of bin i) *)
    Definition crange (i : Z) : T * T :=
      let c := nthT cs i in
      ((if (i =? 0)%Z then nninf else (nthT cs (i - 1) + c) / ntwo),
       (if (i =? n - 1)%Z then npinf else (nthT cs (i + 1) + c) / ntwo)).

    Definition central_views (lo hi : option T) (xs : list T) : views :=
      let at_ := VList (map (fun x => nthA vals (cindex x true)) xs) in
      match lo, hi with
      | None, None =>
          {| v_num := VInt n;
             v_edges := VList (fst (crange 0) :: map (fun i => snd (crange i)) (zrange 0 (n - 1)));
             v_centers := VList cs;
             v_entries := VList (map entries_of vals);
             v_at := at_ |}
      | _, _ =>
          if lt_opt lo hi then {| v_num := VRaise; v_edges := VRaise; v_centers := VRaise; v_entries := VRaise; v_at := at_ |}
          else
            let l := match lo with Some l => l | None => nninf end in
            let h := match hi with Some h => h | None => npinf end in
            let li := cindex l true in
            let hi_ := cindex h false in
            {| v_num := VInt (hi_ - li + 1)%Z;
               v_edges := VList (fst (crange li) :: map (fun i => snd (crange i)) (zrange li hi_));
               v_centers := VList (map (nthT cs) (zrange li hi_));
               v_entries := VList (map (nthA vals) (zrange li hi_));
               v_at := at_ |}
      end.
  End CentralV.

  (* ---------------- IrregularlyBin ---------------- *)
  Section IrrV.
    Variables (ts : list T) (vals : list agg).       (* thresholds (the first is -inf) and their bins *)
    Let n : Z := Z.of_nat (List.length ts).

    (* bisect.bisect_right(edges, x): number of leading edges e with not (x < e) *)
    Fixpoint bisect (l : list T) (x : T) : Z :=
      match l with
      | [] => 0%Z
      | e :: l' => if x <? e then 0%Z else (1 + bisect l' x)%Z
      end.
    Definition lower_index (x : T) : Z := Z.max 0 (bisect ts x - 1).

    Fixpoint index_of (l : list T) (x : T) (i : Z) : option Z :=      (* list.index with == *)
      match l with
      | [] => None
      | e :: l' => if e =? x then Some i else index_of l' x (i + 1)%Z
      end.
    Definition upper_index (x : T) : Z :=
      match index_of ts x 0 with
      | Some i => Z.max 0 (i - 1)
      | None => lower_index x
      end.

    Definition irr_views (lo hi : option T) (xs : list T) : views :=
      let at_ := VList (map (fun x => nthA vals (lower_index x)) xs) in
      let all_edges := (ts ++ [npinf])%list in
      let mk (li hi_ : Z) (nb : Z) :=
        let e := firstn (Z.to_nat (hi_ + 2 - li)) (skipn (Z.to_nat li) all_edges) in
        {| v_num := VInt nb;
           v_edges := VList e;
           v_centers := VList (midpoints e);
           v_entries := VList (map (nthA vals) (zrange li hi_));
           v_at := at_ |} in
      match lo, hi with
      | None, None =>
          let l := nninf in let h := npinf in
          let v := mk (lower_index l) (upper_index h) n in
          {| v_num := VInt n; v_edges := v_edges v; v_centers := v_centers v;
             v_entries := VList (map entries_of vals); v_at := at_ |}
      | _, _ =>
          if lt_opt lo hi then {| v_num := VRaise; v_edges := VRaise; v_centers := VRaise; v_entries := VRaise; v_at := at_ |}
          else
            let l := match lo with Some l => l | None => nninf end in
            let h := match hi with Some h => h | None => npinf end in
            let li := lower_index l in
            let hi_ := upper_index h in
            mk li hi_ (hi_ - li + 1)%Z
      end.
  End IrrV.

  Definition empty_views : views :=
    {| v_num := VRaise; v_edges := VRaise; v_centers := VRaise; v_entries := VRaise; v_at := VRaise |}.

  Definition views_of (a : agg) (lo hi : option T) (xs : list T) : views :=
    match a with
    | Node (KBin low high) _ _ fx _ _ _ =>
        bin_views low high (firstn (List.length fx - 3) fx) lo hi xs
    | Node (KSparse bw origin) _ _ _ sp _ _ => sparse_views bw origin sp lo hi xs
    | Node (KCentral cs) _ _ fx _ _ _ => central_views cs (firstn (List.length cs) fx) lo hi xs
    | Node (KIrr ts) _ _ fx _ _ _ => irr_views ts (firstn (List.length ts) fx) lo hi xs
    | _ => empty_views
    end.

  (* observation tokens: per accessor 1 (raised) or 0 followed by the value *)
  Definition tok_vres (r : vres) : list Z :=
    match r with
    | VRaise => [1%Z]
    | VInt z => [0%Z; z]
    | VList l => 0%Z :: Z.of_nat (List.length l) :: List.concat (map ntok l)
    end.

  Definition tok_views (v : views) : list Z :=
    (tok_vres (v_num v) ++ tok_vres (v_edges v) ++ tok_vres (v_centers v)
     ++ tok_vres (v_entries v) ++ tok_vres (v_at v))%list.
End Views.
