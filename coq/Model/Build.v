(* Constructors of the library (what __init__ does with its arguments). *)
From Coq Require Import ZArith List String Bool.
From Hgm Require Import NumOps Agg Ops.
Import ListNotations.
Local Open Scope num_scope.

Section Build.
  Context {N : num_ops}.
  Notation T := (T N).
  Notation agg := (agg N).
  Notation quantity := (quantity N).

  Definition leaf_name (k : leafkind) : string :=
    match k with
    | LCount _ => "Count" | LSum => "Sum" | LAverage => "Average" | LDeviate => "Deviate"
    | LMin => "Minimize" | LMax => "Maximize" | LBag _ => "Bag"
    end.

  Definition node_name (k : nodekind N) : string :=
    match k with
    | KBin _ _ => "Bin" | KSparse _ _ => "SparselyBin" | KCentral _ => "CentrallyBin"
    | KIrr _ => "IrregularlyBin" | KStack _ => "Stack" | KFraction => "Fraction"
    | KSelect => "Select" | KCat => "Categorize" | KLabel _ => "Label"
    | KULabel _ => "UntypedLabel" | KIndex => "Index" | KBranch => "Branch"
    end.

  Definition type_name (a : agg) : string :=
    match a with Leaf k _ _ => leaf_name k | Node k _ _ _ _ _ _ => node_name k end.

  Definition mkLeaf (k : leafkind) (q : quantity) : agg := Leaf k q (leaf_zero k).
  Definition mkCount (tr : trans) : agg := Leaf (LCount tr) no_quantity (leaf_zero (LCount tr)).

  (* Bin(num, low, high, quantity, value, underflow, overflow, nanflow) *)
  Definition mkBin (num : nat) (low high : T) (q : quantity) (value under over nan : agg) : agg :=
    Node (KBin low high) q nzero
         (repeat (zero value) num ++ [copy under; copy over; copy nan]) [] None (type_name value).

  Definition mkSparse (bw : T) (q : quantity) (value nan : agg) (origin : T) : agg :=
    Node (KSparse bw origin) q nzero [copy nan] [] (Some value) (type_name value).

  (* centers are sorted by the constructor; the harness passes them sorted *)
  Definition mkCentral (cs : list T) (q : quantity) (value nan : agg) : agg :=
    Node (KCentral cs) q nzero (map (fun _ => zero value) cs ++ [copy nan]) [] (Some value)
         (type_name value).

  Definition mkIrr (edges : list T) (q : quantity) (value nan : agg) : agg :=
    Node (KIrr (nninf :: edges)) q nzero
         (map (fun _ => zero value) (nninf :: edges) ++ [copy nan]) [] None (type_name value).

  Definition mkStack (ths : list T) (q : quantity) (value nan : agg) : agg :=
    Node (KStack (nninf :: ths)) q nzero
         (map (fun _ => zero value) (nninf :: ths) ++ [copy nan]) [] None (type_name value).

  Definition mkFraction (q : quantity) (value : agg) : agg :=
    Node KFraction q nzero [zero value; zero value] [] None (type_name value).

  (* Select adopts its cut *)
  Definition mkSelect (q : quantity) (cut : agg) : agg :=
    Node KSelect q nzero [cut] [] None (type_name cut).

  Definition mkCat (q : quantity) (value : agg) : agg :=
    Node KCat q nzero [] [] (Some value) (type_name value).

  (* collections adopt their children; keys are given sorted *)
  Definition mkLabel (kvs : list (string * agg)) : agg :=
    Node (KLabel (map fst kvs)) no_quantity nzero (map snd kvs) [] None "".
  Definition mkULabel (kvs : list (string * agg)) : agg :=
    Node (KULabel (map fst kvs)) no_quantity nzero (map snd kvs) [] None "".
  Definition mkIndex (vs : list agg) : agg := Node KIndex no_quantity nzero vs [] None "".
  Definition mkBranch (vs : list agg) : agg := Node KBranch no_quantity nzero vs [] None "".
End Build.
