(* Vectorised filling (fill.numpy) as the property defines it: the aggregate of the batch filled
   row by row, each row with its weight; content is observed up to sparse bins / categories that
   hold no weight ([prune]).  The numpy kernels themselves (masks, np.histogram, np.unique) are not
   modelled: that they compute this is what the correspondence checks on every run. *)
From Coq Require Import ZArith List String Bool.
From Hgm Require Import NumOps Agg Ops.
Import ListNotations.
Local Open Scope num_scope.

Section Np.
  Context {N : num_ops}.
  Notation T := (T N).
  Notation agg := (agg N).

  Definition worse (a b : outcome) : outcome := match a with Raise => Raise | Done => b end.

  (* one batch: rows and their weights (a scalar weight is the constant column) *)
  Definition fillnp (a : agg) (rows : list (datum N * T)) : agg * outcome :=
    fold_left (fun acc dw => let '(a', r) := fill (fst acc) (fst dw) (snd dw) in (a', worse (snd acc) r))
              rows (a, Done).

  Fixpoint prune (a : agg) : agg :=
    match a with
    | Leaf _ _ _ => a
    | Node k q e fx sp tm ct =>
        Node k q e (map prune fx)
             (filter (fun kc => negb (entries_of (snd kc) =? nzero))
                     (map (fun kc => (fst kc, prune (snd kc))) sp))
             tm ct
    end.
End Np.
