(* The small expression language user quantities are generated from.  The harness prints the same
   expression as a Python lambda / def / string expression. *)
From Coq Require Import ZArith List String Bool.
From Hgm Require Import NumOps Agg.
Import ListNotations.
Local Open Scope num_scope.

Section Expr.
  Context {N : num_ops}.
  Notation T := (T N).

  Inductive expr :=
  | EField (i : nat)                 (* d[i] *)
  | EConst (c : T)
  | EAdd (a b : expr) | ESub (a b : expr) | EMul (a b : expr)
  | ELt (a b : expr)                 (* a < b, a Python bool *)
  | EFault (i : nat) (e : expr)      (* raise if d[i] is True, else e *)
  | EWrongS (i : nat) (e : expr)     (* the string "bad" if d[i] is True, else e *)
  | EWrongN (i : nat) (e : expr)     (* the number 1.5 if d[i] is True, else e *)
  | EVec (fields : list nat).         (* the tuple (d[i], d[j], ...) *)

  Definition is_true (v : value N) : bool :=
    match v with VBool true => true | _ => false end.

  (* arithmetic on Python numbers: float/int/bool mix; str/None operands raise TypeError *)
  Definition arith (f : T -> T -> T) (a b : qres N) : qres N :=
    match a, b with
    | QV x, QV y =>
        match as_real x, as_real y with
        | Some p, Some q => QV (VNum (f p q))
        | _, _ => QRaise
        end
    | _, _ => QRaise
    end.

  Fixpoint eval (e : expr) (d : datum N) : qres N :=
    match e with
    | EField i => match nth_error d i with Some v => QV v | None => QRaise end
    | EConst c => QV (VNum c)
    | EAdd a b => arith nadd (eval a d) (eval b d)
    | ESub a b => arith nsub (eval a d) (eval b d)
    | EMul a b => arith nmul (eval a d) (eval b d)
    | ELt a b =>
        match eval a d, eval b d with
        | QV x, QV y =>
            match as_real x, as_real y with
            | Some p, Some q => QV (VBool (p <? q))
            | _, _ => QRaise
            end
        | _, _ => QRaise
        end
    | EFault i e' =>
        match nth_error d i with
        | Some v => if is_true v then QRaise else eval e' d
        | None => QRaise
        end
    | EWrongS i e' =>
        match nth_error d i with
        | Some v => if is_true v then QV (VStr "bad") else eval e' d
        | None => QRaise
        end
    | EWrongN i e' =>
        match nth_error d i with
        | Some v => if is_true v then QV (VNum (ndy 3 (-1))) else eval e' d
        | None => QRaise
        end
    | EVec fields =>
        (* a component that is not a number makes every consumer raise: modelled by a string *)
        match fold_right (fun i acc => match nth_error d i, acc with
                                       | Some v, Some l => match as_real v with Some x => Some (x :: l) | None => None end
                                       | _, _ => None
                                       end) (Some []) fields with
        | Some l => QV (VVec l)
        | None => QV (VStr "not a vector of numbers")
        end
    end.

  Definition mkq (name : option string) (id : Z) (e : expr) : quantity N :=
    {| qname := name; qid := id; qfn := eval e |}.
End Expr.
Arguments expr : clear implicits.
